#!/usr/bin/env python3
"""Translator: /repo working tree -> coq/gen/*.v  (trusted base, see DESIGN.md App. A).

Everything the proofs are numerically sensitive to is read from the source text
on every run: constants, tables, and a fixed list of anchored integer formulas,
which are parsed (small Pratt parser for Rust/C integer expressions) and emitted
as Gallina over Base/MachInt.v.  The hand-written models call these generated
definitions.  A missing / unparsable anchor raises AnchorError(name): the caller
treats it as a broken tie.

Files are only rewritten when their content changes (so `make` stays incremental).
"""
import hashlib
import json
import os
import re
import sys

REPO = os.environ.get("VERIF_REPO", "/repo")
OUT = os.path.join(os.path.dirname(os.path.dirname(os.path.abspath(__file__))), "coq", "gen")


class AnchorError(Exception):
    pass


# --------------------------------------------------------------------------
# tokenizer + Pratt parser for integer expressions (Rust and C)
# --------------------------------------------------------------------------
TOK = re.compile(r"""
    (?P<ws>\s+|//[^\n]*|/\*.*?\*/)
  | (?P<num>0[xX][0-9a-fA-F_]+|[0-9][0-9_]*)(?P<suf>[uUlL]*|(?:_?(?:u8|u16|u32|u64|usize|i32|i64|i128|isize)))?
  | (?P<bytelit>b'(?:\\.|[^'])')
  | (?P<id>[A-Za-z_][A-Za-z0-9_]*(?:::[A-Za-z_][A-Za-z0-9_]*)*)
  | (?P<op><<|>>|<=|>=|==|!=|&&|\|\||[-+*/%&|^!~<>().,\[\]])
""", re.X | re.S)


def tokenize(s, name):
    out, i = [], 0
    while i < len(s):
        m = TOK.match(s, i)
        if not m:
            raise AnchorError(f"{name}: cannot tokenize at {s[i:i+20]!r}")
        i = m.end()
        if m.group("ws"):
            continue
        if m.group("num"):
            out.append(("num", int(m.group("num").replace("_", ""), 0)))
        elif m.group("bytelit"):
            b = m.group("bytelit")[2:-1]
            esc = {"\\n": 10, "\\r": 13, "\\t": 9, "\\\\": 92, "\\0": 0, "\\'": 39}
            out.append(("num", esc[b] if b in esc else ord(b)))
        elif m.group("id"):
            out.append(("id", m.group("id")))
        else:
            out.append(("op", m.group("op")))
    return out


BIN_PREC = {
    "||": 1, "&&": 2, "==": 3, "!=": 3, "<": 3, "<=": 3, ">": 3, ">=": 3,
    "|": 4, "^": 5, "&": 6, "<<": 7, ">>": 7, "+": 8, "-": 8, "*": 9, "/": 9, "%": 9,
}
# `as` binds tighter than any binary operator in Rust
TYPES = {"u8": 8, "u16": 16, "u32": 32, "u64": 64, "usize": 64, "uint64_t": 64, "uint32_t": 32,
         "uint8_t": 8, "size_t": 64, "int": 32, "i64": 64, "i128": 128, "unsigned": 32}


class Parser:
    """AST: ('num',v) ('var',name) ('bin',op,a,b) ('un',op,a) ('cast',W,a)
            ('call',fname,[args]) ('meth',recv,name,[args]) ('index',a,i)"""

    def __init__(self, toks, name):
        self.t, self.i, self.name = toks, 0, name

    def peek(self):
        return self.t[self.i] if self.i < len(self.t) else ("eof", None)

    def next(self):
        tok = self.peek()
        self.i += 1
        return tok

    def expect(self, op):
        tok = self.next()
        if tok != ("op", op):
            raise AnchorError(f"{self.name}: expected {op!r}, got {tok!r}")

    def parse(self):
        e = self.expr(0)
        if self.peek()[0] != "eof":
            raise AnchorError(f"{self.name}: trailing tokens {self.t[self.i:]!r}")
        return e

    def expr(self, minprec):
        lhs = self.unary()
        while True:
            k, v = self.peek()
            if k == "id" and v == "as":
                self.next()
                k2, ty = self.next()
                if ty not in TYPES:
                    raise AnchorError(f"{self.name}: unknown type {ty}")
                lhs = ("cast", TYPES[ty], lhs)
                continue
            if k == "op" and v in BIN_PREC and BIN_PREC[v] >= minprec:
                self.next()
                rhs = self.expr(BIN_PREC[v] + 1)
                lhs = ("bin", v, lhs, rhs)
                continue
            return lhs

    def unary(self):
        k, v = self.peek()
        if k == "op" and v in ("-", "!", "~"):
            self.next()
            return ("un", v, self.unary())
        return self.postfix(self.primary())

    def primary(self):
        k, v = self.next()
        if k == "num":
            return ("num", v)
        if k == "id":
            if self.peek() == ("op", "("):
                self.next()
                args = self.args()
                return ("call", v, args)
            return ("var", v)
        if (k, v) == ("op", "("):
            # C cast: (type) expr
            j = self.i
            words = []
            while j < len(self.t) and self.t[j][0] == "id" and (self.t[j][1] in TYPES or self.t[j][1] in ("long",)):
                words.append(self.t[j][1])
                j += 1
            if words and j < len(self.t) and self.t[j] == ("op", ")"):
                self.i = j + 1
                w = 64 if "long" in words else TYPES[words[-1]]
                return ("cast", w, self.unary())
            e = self.expr(0)
            self.expect(")")
            return e
        raise AnchorError(f"{self.name}: unexpected token {(k, v)!r}")

    def args(self):
        args = []
        if self.peek() == ("op", ")"):
            self.next()
            return args
        while True:
            args.append(self.expr(0))
            k, v = self.next()
            if (k, v) == ("op", ")"):
                return args
            if (k, v) != ("op", ","):
                raise AnchorError(f"{self.name}: bad argument list")

    def postfix(self, e):
        while True:
            k, v = self.peek()
            if (k, v) == ("op", "."):
                self.next()
                k2, m = self.next()
                if self.peek() == ("op", "("):
                    self.next()
                    e = ("meth", e, m, self.args())
                else:
                    e = ("field", e, m)
                continue
            if (k, v) == ("op", "["):
                self.next()
                idx = self.expr(0)
                self.expect("]")
                e = ("index", e, idx)
                continue
            return e


def parse_expr(text, name):
    return Parser(tokenize(text, name), name).parse()


def const_eval(ast, env, name):
    k = ast[0]
    if k == "num":
        return ast[1]
    if k == "var":
        v = ast[1].split("::")[-1]
        if v in env:
            return env[v]
        raise AnchorError(f"{name}: unknown constant {ast[1]}")
    if k == "cast":
        return const_eval(ast[2], env, name) & ((1 << ast[1]) - 1)
    if k == "bin":
        a, b = const_eval(ast[2], env, name), const_eval(ast[3], env, name)
        return {"+": a + b, "-": a - b, "*": a * b, "/": a // b if b else 0, "%": a % b if b else 0,
                "<<": a << b, ">>": a >> b, "&": a & b, "|": a | b, "^": a ^ b,
                ">": int(a > b), "<": int(a < b)}[ast[1]]
    if k == "call" and ast[1] in ("max", "cmp::max"):
        return max(const_eval(x, env, name) for x in ast[2])
    raise AnchorError(f"{name}: cannot evaluate {ast!r}")


# ---- emission as Gallina over MachInt -------------------------------------
BINOPS = {"+": "mi_add", "-": "mi_sub", "*": "mi_mul", "/": "mi_div", "%": "mi_rem",
          "<<": "mi_shl", ">>": "mi_shr", "&": "mi_and", "|": "mi_or", "^": "mi_xor"}
CMPOPS = {"==": "N.eqb", "!=": "nneb", "<": "N.ltb", "<=": "N.leb"}
METHS = {"next_power_of_two": "mi_npot", "trailing_zeros": "mi_tz", "count_ones": "mi_popcount"}


def width_of(ast, tenv):
    k = ast[0]
    if k == "num":
        return None
    if k in ("coq", "coqres"):          # a ready Gallina term of known width (statement translators)
        return ast[2]
    if k == "var":
        return tenv.get(ast[1])
    if k == "field":
        return tenv.get(field_name(ast))
    if k == "cast":
        return ast[1]
    if k == "call" and ast[1] in ("cmp::min", "core::cmp::min") and len(ast[2]) == 2:
        return width_of(ast[2][0], tenv) or width_of(ast[2][1], tenv)
    if k == "bin":
        if ast[1] in ("<<", ">>"):
            return width_of(ast[2], tenv)
        return width_of(ast[2], tenv) or width_of(ast[3], tenv)
    if k == "un":
        return width_of(ast[2], tenv)
    if k == "meth":
        if ast[2] in ("count_ones", "trailing_zeros"):
            return 32
        return width_of(ast[1], tenv)
    if k == "call":
        return tenv.get("@" + ast[1])
    return None


def field_name(ast):
    # self.chunk_state.chunk_counter -> chunk_state_chunk_counter ; self.x -> x
    parts = []
    while ast[0] == "field":
        parts.append(ast[2])
        ast = ast[1]
    if ast[0] == "var" and ast[1] != "self":
        parts.append(ast[1])
    return "_".join(reversed(parts))


def emit(ast, tenv, cenv, name, want=None):
    """Gallina term of type `res N`."""
    k = ast[0]
    if k == "num":
        return f"(Ok {ast[1]})"
    if k == "coq":                      # ('coq', term : N, width)
        return f"(Ok {ast[1]})"
    if k == "coqres":                   # ('coqres', term : res N, width)
        return ast[1]
    if k == "call" and ast[1] in ("cmp::min", "core::cmp::min") and len(ast[2]) == 2:
        w = width_of(ast, tenv) or want
        if w is None:
            raise AnchorError(f"{name}: cannot infer width of {ast!r}")
        return f"(mb (mi_min {w}) {emit(ast[2][0], tenv, cenv, name, w)} {emit(ast[2][1], tenv, cenv, name, w)})"
    if k == "var":
        v = ast[1].split("::")[-1]
        if ast[1] in tenv:
            return f"(Ok {ast[1]})"
        if v in cenv:
            return f"(Ok {cenv[v]})"
        raise AnchorError(f"{name}: free variable {ast[1]}")
    if k == "field":
        fn = field_name(ast)
        if fn in tenv:
            return f"(Ok {fn})"
        raise AnchorError(f"{name}: unknown field {fn}")
    if k == "cast":
        return f"(mu (mi_cast {ast[1]}) {emit(ast[2], tenv, cenv, name)})"
    if k == "bin" and ast[1] in BINOPS:
        w = width_of(ast, tenv) or want
        if w is None:
            raise AnchorError(f"{name}: cannot infer width of {ast!r}")
        return (f"(mb ({BINOPS[ast[1]]} {w}) {emit(ast[2], tenv, cenv, name, w)} "
                f"{emit(ast[3], tenv, cenv, name, w)})")
    if k == "un" and ast[1] == "-" and ast[2][0] == "num" and want is not None:
        # C: -64 converted to an unsigned W-bit operand (two's complement constant)
        return f"(Ok {((1 << want) - ast[2][1]) & ((1 << want) - 1)})"
    if k == "meth" and ast[2] in METHS:
        w = width_of(ast[1], tenv) or want
        if w is None:
            raise AnchorError(f"{name}: cannot infer width for .{ast[2]}()")
        return f"(mu ({METHS[ast[2]]} {w}) {emit(ast[1], tenv, cenv, name, w)})"
    if k == "meth" and ast[2] == "count" and not ast[3]:
        fn = field_name(("field", ast[1], "count"))
        if fn in tenv:
            return f"(Ok {fn})"
    if k == "call" and ast[1] in ("__builtin_clzll",):
        return f"(mu (mi_clz 64) {emit(ast[2][0], tenv, cenv, name, 64)})"
    if k == "call" and ast[1] in ("__builtin_popcountll",):
        return f"(mu (mi_popcount 64) {emit(ast[2][0], tenv, cenv, name, 64)})"
    if k == "call" and ("@" + ast[1]) in tenv and ("&" + ast[1]) in tenv:
        # call of another generated formula (single argument)
        return f"(mu {tenv['&' + ast[1]]} {emit(ast[2][0], tenv, cenv, name, want)})"
    raise AnchorError(f"{name}: cannot translate {ast!r}")


def emit_bool(ast, tenv, cenv, name):
    """Gallina term of type `res bool`."""
    if ast[0] == "bin" and ast[1] in CMPOPS:
        w = width_of(ast[2], tenv) or width_of(ast[3], tenv)
        return (f"(mcmp {CMPOPS[ast[1]]} {emit(ast[2], tenv, cenv, name, w)} "
                f"{emit(ast[3], tenv, cenv, name, w)})")
    if ast[0] == "bin" and ast[1] in (">", ">="):
        flipped = ("bin", {">": "<", ">=": "<="}[ast[1]], ast[3], ast[2])
        return emit_bool(flipped, tenv, cenv, name)
    raise AnchorError(f"{name}: not a comparison {ast!r}")


# --------------------------------------------------------------------------
# source access helpers
# --------------------------------------------------------------------------
_cache = {}
READ = {}


def src(rel):
    if rel not in _cache:
        p = os.path.join(REPO, rel)
        try:
            with open(p, "r", encoding="utf-8") as f:
                _cache[rel] = f.read()
        except OSError as e:
            raise AnchorError(f"file {rel}: {e}")
        READ[rel] = hashlib.sha256(_cache[rel].encode()).hexdigest()
    return _cache[rel]


def strip_comments(s):
    s = re.sub(r"/\*.*?\*/", " ", s, flags=re.S)
    return re.sub(r"//[^\n]*", "", s)


def find1(pattern, text, name, flags=re.S):
    m = re.search(pattern, text, flags)
    if not m:
        raise AnchorError(f"anchor {name} not found")
    return m


def rust_const(text, ident, name=None):
    """`const IDENT: T = expr;` -> expr text"""
    m = find1(r"\bconst\s+" + re.escape(ident) + r"\s*:\s*[^=]+=\s*(.*?);", text, name or ident)
    return m.group(1)


def fn_body(text, header_re, name):
    """Body (between matching braces) of the first item whose header matches."""
    m = find1(header_re, text, name)
    i = text.index("{", m.end() - 1) if text[m.end() - 1] != "{" else m.end() - 1
    depth, j = 0, i
    while j < len(text):
        if text[j] == "{":
            depth += 1
        elif text[j] == "}":
            depth -= 1
            if depth == 0:
                return text[i + 1:j]
        j += 1
    raise AnchorError(f"{name}: unbalanced braces")


def int_list(text, env, name):
    """'[a, b, [c, d]]' or '{a, b}' -> nested python lists of ints"""
    text = text.strip().lstrip("&").strip()
    text = text.replace("{", "[").replace("}", "]")
    pos = 0

    def parse():
        nonlocal pos
        assert text[pos] == "["
        pos += 1
        items = []
        cur = ""
        while True:
            c = text[pos]
            if c == "[":
                items.append(parse())
            elif c == "]":
                if cur.strip():
                    items.append(const_eval(parse_expr(cur, name), env, name))
                pos += 1
                return items
            elif c == ",":
                if cur.strip():
                    items.append(const_eval(parse_expr(cur, name), env, name))
                cur = ""
                pos += 1
                continue
            else:
                cur += c
            if c != "[":
                pos += 1
    try:
        return parse()
    except (IndexError, AssertionError):
        raise AnchorError(f"{name}: malformed list")


def coq_list(v):
    if isinstance(v, list):
        return "[" + "; ".join(coq_list(x) for x in v) + "]"
    return str(v)


# --------------------------------------------------------------------------
# generators
# --------------------------------------------------------------------------
HEADER = ("(* GENERATED by tools/gen_coq.py from the /repo working tree. Do not edit. *)\n"
          "From Coq Require Import NArith List.\nFrom V Require Import Base.Res Base.MachInt.\n"
          "Import ListNotations.\nOpen Scope N_scope.\n\n")


def gen_consts():
    out = [HEADER]
    lib = strip_comments(src("src/lib.rs"))
    env = {}
    for c in ["OUT_LEN", "KEY_LEN", "BLOCK_LEN", "CHUNK_LEN", "MAX_DEPTH"]:
        env[c] = const_eval(parse_expr(rust_const(lib, c), c), env, c)
        out.append(f"Definition rs_{c} : N := {env[c]}.\n")
    for c in ["CHUNK_START", "CHUNK_END", "PARENT", "ROOT", "KEYED_HASH", "DERIVE_KEY_CONTEXT",
              "DERIVE_KEY_MATERIAL"]:
        env[c] = const_eval(parse_expr(rust_const(lib, c), c), env, c)
        out.append(f"Definition rs_flag_{c} : N := {env[c]}.\n")
    iv = int_list(rust_const(lib, "IV"), env, "rs_IV")
    out.append(f"Definition rs_IV : list N := {coq_list(iv)}.\n")
    ms = int_list(rust_const(lib, "MSG_SCHEDULE"), env, "rs_MSG_SCHEDULE")
    out.append(f"Definition rs_MSG_SCHEDULE : list (list N) := {coq_list(ms)}.\n")
    # cv_stack capacity expression `{ MAX_DEPTH + 1 }`
    m = find1(r"cv_stack\s*:\s*ArrayVec<\s*CVBytes\s*,\s*\{(.*?)\}\s*>", lib, "rs_cv_stack_cap")
    out.append(f"Definition rs_cv_stack_cap : N := {const_eval(parse_expr(m.group(1), 'cap'), env, 'cap')}.\n")

    # hex table and hex_val arms (Hash::to_hex / from_hex)
    m = find1(r'let\s+table\s*=\s*b"([^"]*)"', lib, "rs_hex_table")
    out.append(f"Definition rs_hex_table : list N := {coq_list([ord(c) for c in m.group(1)])}.\n")
    body = fn_body(lib, r"fn\s+hex_val\s*\(", "rs_hex_val")
    arms = re.findall(r"(b'.')\s*\.\.=\s*(b'.')\s*=>\s*Ok\((.*?)\)\s*,", body)
    if not arms:
        raise AnchorError("rs_hex_val arms")
    coq_arms = []
    for lo, hi, e in arms:
        lo_v = const_eval(parse_expr(lo, "hex"), {}, "hex")
        hi_v = const_eval(parse_expr(hi, "hex"), {}, "hex")
        term = emit(parse_expr(e, "rs_hex_val"), {"byte": 8}, {}, "rs_hex_val", 8)
        coq_arms.append(f"({lo_v}, {hi_v}, (fun byte : N => {term}))")
    out.append("Definition rs_hex_val_arms : list (N * N * (N -> res N)) :=\n  ["
               + ";\n   ".join(coq_arms) + "].\n")
    m = find1(r"hex_bytes\.len\(\)\s*!=\s*(.*?)\s*\{", lib, "rs_hex_len")
    out.append(f"Definition rs_hex_len : N := {const_eval(parse_expr(m.group(1), 'hexlen'), env, 'hexlen')}.\n")
    m = find1(r"hash_bytes\[i\]\s*=\s*(.*?);", lib, "rs_hex_combine")
    e = m.group(1)
    e = re.sub(r"hex_val\(hex_bytes\[2 \* i\]\)\?", "hi", e)
    e = re.sub(r"hex_val\(hex_bytes\[2 \* i \+ 1\]\)\?", "lo", e)
    out.append("Definition rs_hex_combine (hi lo : N) : res N :=\n  "
               + emit(parse_expr(e, "rs_hex_combine"), {"hi": 8, "lo": 8}, {}, "rs_hex_combine", 8) + ".\n")
    m = find1(r"s\.push\(table\[\((.*?)\)\s*as usize\]\s*as char\);\s*s\.push\(table\[\((.*?)\)\s*as usize\]", lib,
              "rs_hex_nibbles")
    out.append("Definition rs_hex_hi_index (b : N) : res N :=\n  "
               + emit(parse_expr(m.group(1), "hexhi"), {"b": 8}, {}, "hexhi", 8) + ".\n")
    out.append("Definition rs_hex_lo_index (b : N) : res N :=\n  "
               + emit(parse_expr(m.group(2), "hexlo"), {"b": 8}, {}, "hexlo", 8) + ".\n")

    # platform.rs: degrees and MAX_SIMD_DEGREE arms
    plat = strip_comments(src("src/platform.rs"))
    body = fn_body(plat, r"pub\s+fn\s+simd_degree\s*\(", "rs_simd_degree")
    degs = re.findall(r"Platform::(\w+)\s*=>\s*(\d+)\s*,", body)
    if len(degs) < 5:
        raise AnchorError("rs_simd_degree arms")
    for pn, d in degs:
        out.append(f"Definition rs_degree_{pn} : N := {d}.\n")
    maxd = [int(x) for x in re.findall(r"pub const MAX_SIMD_DEGREE: usize = (\d+);", plat)]
    maxd2 = [int(x) for x in re.findall(r"pub const MAX_SIMD_DEGREE_OR_2: usize = (\d+);", plat)]
    if len(maxd) != 5 or len(maxd2) != 5:
        raise AnchorError("rs_MAX_SIMD_DEGREE arms")
    # arms in source order: x86+avx512_ffi, x86 without, neon, wasm, other
    out.append(f"Definition rs_MAX_SIMD_DEGREE_arms : list (N * N) := "
               f"{coq_list_pairs(list(zip(maxd, maxd2)))}.\n")

    # io.rs
    io = strip_comments(src("src/io.rs"))
    out.append(f"Definition rs_MIN_MMAP : N := "
               f"{const_eval(parse_expr(rust_const(io, 'MINIMUM_MMAP_SIZE'), 'mmap'), env, 'mmap')}.\n")
    m = find1(r"let\s+mut\s+buffer\s*=\s*\[0;\s*(\d+)\]", io, "rs_COPY_BUF")
    out.append(f"Definition rs_COPY_BUF : N := {m.group(1)}.\n")
    m = find1(r"let\s+seek_offset\s*=\s*(.*?);", io, "rs_seek_offset")
    out.append(f"Definition rs_seek_offset : N := "
               f"{const_eval(parse_expr(m.group(1), 'seek'), {'MINIMUM_MMAP_SIZE': 16384} | env, 'seek')}.\n")

    # reference implementation
    ref = strip_comments(src("reference_impl/reference_impl.rs"))
    renv = {}
    for c in ["OUT_LEN", "KEY_LEN", "BLOCK_LEN", "CHUNK_LEN"]:
        renv[c] = const_eval(parse_expr(rust_const(ref, c), c), renv, c)
        out.append(f"Definition ref_{c} : N := {renv[c]}.\n")
    for c in ["CHUNK_START", "CHUNK_END", "PARENT", "ROOT", "KEYED_HASH", "DERIVE_KEY_CONTEXT",
              "DERIVE_KEY_MATERIAL"]:
        renv[c] = const_eval(parse_expr(rust_const(ref, c), c), renv, c)
        out.append(f"Definition ref_flag_{c} : N := {renv[c]}.\n")
    out.append(f"Definition ref_IV : list N := {coq_list(int_list(rust_const(ref, 'IV'), renv, 'ref_IV'))}.\n")
    out.append(f"Definition ref_MSG_PERMUTATION : list N := "
               f"{coq_list(int_list(rust_const(ref, 'MSG_PERMUTATION'), renv, 'ref_perm'))}.\n")
    m = find1(r"cv_stack\s*:\s*\[\[u32;\s*8\];\s*(\d+)\]", ref, "ref_stack_len")
    out.append(f"Definition ref_stack_len : N := {m.group(1)}.\n")

    # C headers
    h = strip_comments(src("c/blake3.h"))
    cenv = {}
    for c in ["KEY_LEN", "OUT_LEN", "BLOCK_LEN", "CHUNK_LEN", "MAX_DEPTH"]:
        m = find1(r"#define\s+BLAKE3_" + c + r"\s+(\d+)", h, "c_" + c)
        cenv["BLAKE3_" + c] = int(m.group(1))
        out.append(f"Definition c_{c} : N := {m.group(1)}.\n")
    m = find1(r"uint8_t\s+cv_stack\[(.*?)\];", h, "c_cv_stack_bytes")
    out.append(f"Definition c_cv_stack_bytes : N := {const_eval(parse_expr(m.group(1), 'ccv'), cenv, 'ccv')}.\n")
    ih = strip_comments(src("c/blake3_impl.h"))
    m = find1(r"enum\s+blake3_flags\s*\{(.*?)\}", ih, "c_flags")
    for nm, e in re.findall(r"(\w+)\s*=\s*([^,}]+)", m.group(1)):
        out.append(f"Definition c_flag_{nm} : N := {const_eval(parse_expr(e, nm), {}, nm)}.\n")
    m = find1(r"static const uint32_t IV\[8\]\s*=\s*(\{.*?\});", ih, "c_IV")
    out.append(f"Definition c_IV : list N := {coq_list(int_list(m.group(1), {}, 'c_IV'))}.\n")
    m = find1(r"static const uint8_t MSG_SCHEDULE\[7\]\[16\]\s*=\s*(\{.*?\});", ih, "c_MSG_SCHEDULE")
    out.append(f"Definition c_MSG_SCHEDULE : list (list N) := {coq_list(int_list(m.group(1), {}, 'c_MS'))}.\n")
    m = find1(r"#if defined\(IS_X86\)\s*#define MAX_SIMD_DEGREE (\d+)", ih, "c_MAX_SIMD_DEGREE")
    out.append(f"Definition c_MAX_SIMD_DEGREE : N := {m.group(1)}.\n")
    m = find1(r"#define MAX_SIMD_DEGREE_OR_2 \(MAX_SIMD_DEGREE > 2 \? MAX_SIMD_DEGREE : 2\)", ih,
              "c_MAX_SIMD_DEGREE_OR_2")
    out.append("Definition c_MAX_SIMD_DEGREE_OR_2 : N := if 2 <? c_MAX_SIMD_DEGREE then c_MAX_SIMD_DEGREE else 2.\n")
    return "".join(out)


def coq_list_pairs(ps):
    return "[" + "; ".join(f"({a}, {b})" for a, b in ps) + "]"


def gen_formulas():
    out = [HEADER.replace("Base.MachInt.", "Base.MachInt.\nFrom V Require Import gen.GenConsts.")]
    lib = strip_comments(src("src/lib.rs"))
    haz = strip_comments(src("src/hazmat.rs"))
    cenv = {"CHUNK_LEN": "rs_CHUNK_LEN", "BLOCK_LEN": "rs_BLOCK_LEN", "OUT_LEN": "rs_OUT_LEN"}

    def simple_fn(text, fname, arg, w, coqname, ret_expr_re=None):
        body = fn_body(text, r"fn\s+" + fname + r"\s*\(", coqname)
        # last expression statement of the body
        stmts = [s.strip() for s in body.split(";") if s.strip()]
        e = stmts[-1]
        e = re.sub(r"^return\s+", "", e)
        term = emit(parse_expr(e, coqname), {arg: w}, cenv, coqname, w)
        out.append(f"Definition {coqname} ({arg} : N) : res N :=\n  {term}.\n")

    simple_fn(lib, "counter_low", "counter", 64, "rs_counter_low")
    simple_fn(lib, "counter_high", "counter", 64, "rs_counter_high")
    simple_fn(lib, "largest_power_of_two_leq", "n", 64, "rs_largest_power_of_two_leq")
    simple_fn(haz, "left_subtree_len", "input_len", 64, "rs_left_subtree_len")

    # hazmat::max_subtree_len: fixed statement shape, each expression translated
    body = fn_body(haz, r"pub\s+fn\s+max_subtree_len\s*\(", "rs_max_subtree_len")
    m_zero = find1(r"if\s+input_offset\s*==\s*0\s*\{\s*return\s+None;\s*\}", body, "rs_max_subtree_len.zero")
    m_assert = find1(r"assert_eq!\((.*?),\s*0\s*\)", body, "rs_max_subtree_len.assert")
    m_counter = find1(r"let\s+counter\s*=\s*(.*?);", body, "rs_max_subtree_len.counter")
    m_max = find1(r"let\s+max_chunks\s*=\s*(.*?);", body, "rs_max_subtree_len.max_chunks")
    m_ret = find1(r"Some\((.*?)\)\s*$", body.strip(), "rs_max_subtree_len.ret")
    t_assert = emit(parse_expr(m_assert.group(1), "msl"), {"input_offset": 64}, cenv, "msl", 64)
    t_counter = emit(parse_expr(m_counter.group(1), "msl"), {"input_offset": 64}, cenv, "msl", 64)
    t_max = emit(parse_expr(m_max.group(1), "msl"), {"counter": 64}, cenv, "msl", 64)
    t_ret = emit(parse_expr(m_ret.group(1), "msl"), {"max_chunks": 64}, cenv, "msl", 64)
    out.append("Definition rs_max_subtree_len (input_offset : N) : res (option N) :=\n"
               "  if input_offset =? 0 then Ok None else\n"
               f"  r <- {t_assert} ;;\n"
               "  assert! (r =? 0) code 20 ;;\n"
               f"  counter <- {t_counter} ;;\n"
               f"  max_chunks <- {t_max} ;;\n"
               f"  v <- {t_ret} ;;\n  Ok (Some v).\n")

    # Hasher::merge_cv_stack: post_merge_stack_len
    body = fn_body(lib, r"fn\s+merge_cv_stack\s*\(", "rs_post_merge_len")
    m = find1(r"let\s+post_merge_stack_len\s*=\s*(.*?);", body, "rs_post_merge_len")
    tenv = {"chunk_counter": 64, "initial_chunk_counter": 64}
    out.append("Definition rs_post_merge_len (chunk_counter initial_chunk_counter : N) : res N :=\n  "
               + emit(parse_expr(m.group(1), "pml"), tenv, cenv, "pml", 64) + ".\n")

    # update_with_join: input_offset, shrink condition, subtree_chunks
    body = fn_body(lib, r"fn\s+update_with_join\s*<", "rs_update")
    m = find1(r"let\s+input_offset\s*=\s*(.*?);", body, "rs_input_offset")
    out.append("Definition rs_input_offset (initial_chunk_counter : N) : res N :=\n  "
               + emit(parse_expr(m.group(1), "io"), {"initial_chunk_counter": 64}, cenv, "io", 64) + ".\n")
    m = find1(r"let\s+count_so_far\s*=\s*(.*?);", body, "rs_count_so_far")
    out.append("Definition rs_count_so_far (chunk_state_chunk_counter : N) : res N :=\n  "
               + emit(parse_expr(m.group(1), "csf"), {"chunk_state_chunk_counter": 64}, cenv, "csf", 64) + ".\n")
    m = find1(r"while\s+(\(subtree_len.*?)\s*\{\s*subtree_len\s*/=\s*2;", body, "rs_shrink_cond")
    out.append("Definition rs_shrink_cond (subtree_len count_so_far : N) : res bool :=\n  "
               + emit_bool(parse_expr(m.group(1), "shrink"), {"subtree_len": 64, "count_so_far": 64}, cenv,
                           "shrink") + ".\n")
    m = find1(r"let\s+subtree_chunks\s*=\s*(.*?);", body, "rs_subtree_chunks")
    out.append("Definition rs_subtree_chunks (subtree_len : N) : res N :=\n  "
               + emit(parse_expr(m.group(1), "sc"), {"subtree_len": 64}, cenv, "sc", 64) + ".\n")
    m = find1(r"self\.push_cv\(\s*right_cv,\s*(.*?),\s*\);", body, "rs_right_cv_counter")
    out.append("Definition rs_right_cv_counter (chunk_state_chunk_counter subtree_chunks : N) : res N :=\n  "
               + emit(parse_expr(m.group(1), "rcc"), {"chunk_state_chunk_counter": 64, "subtree_chunks": 64},
                      cenv, "rcc", 64) + ".\n")

    # Hasher::count
    body = fn_body(lib, r"pub\s+fn\s+count\s*\(&self\)\s*->\s*u64", "rs_count")
    e = body.strip()
    out.append("Definition rs_count (chunk_state_chunk_counter initial_chunk_counter chunk_state_count : N) : res N :=\n  "
               + emit(parse_expr(e, "cnt"), {"chunk_state_chunk_counter": 64, "initial_chunk_counter": 64,
                                              "chunk_state_count": 64}, cenv, "cnt", 64) + ".\n")
    # ChunkState::count
    body = fn_body(lib, r"fn\s+count\s*\(&self\)\s*->\s*usize", "rs_chunk_count")
    out.append("Definition rs_chunk_count (blocks_compressed buf_len : N) : res N :=\n  "
               + emit(parse_expr(body.strip(), "cc"), {"blocks_compressed": 8, "buf_len": 8}, cenv, "cc", 64)
               + ".\n")

    # OutputReader::position / set_position
    body = fn_body(lib, r"pub\s+fn\s+position\s*\(&self\)\s*->\s*u64", "rs_position")
    out.append("Definition rs_position (inner_counter position_within_block : N) : res N :=\n  "
               + emit(parse_expr(body.strip(), "pos"), {"inner_counter": 64, "position_within_block": 8}, cenv,
                      "pos", 64) + ".\n")
    body = fn_body(lib, r"pub\s+fn\s+set_position\s*\(", "rs_set_position")
    m1 = find1(r"self\.position_within_block\s*=\s*(.*?);", body, "rs_set_position_pwb")
    m2 = find1(r"self\.inner\.counter\s*=\s*(.*?);", body, "rs_set_position_ctr")
    out.append("Definition rs_set_position_pwb (position : N) : res N :=\n  "
               + emit(parse_expr(m1.group(1), "sp1"), {"position": 64}, cenv, "sp1", 64) + ".\n")
    out.append("Definition rs_set_position_ctr (position : N) : res N :=\n  "
               + emit(parse_expr(m2.group(1), "sp2"), {"position": 64}, cenv, "sp2", 64) + ".\n")
    # wide: right_chunk_counter
    body = fn_body(lib, r"fn\s+compress_subtree_wide\s*<", "rs_wide")
    m = find1(r"let\s+right_chunk_counter\s*=\s*(.*?);", body, "rs_right_chunk_counter")
    e = m.group(1).replace("left.len()", "left_len")
    out.append("Definition rs_right_chunk_counter (chunk_counter left_len : N) : res N :=\n  "
               + emit(parse_expr(e, "rcc2"), {"chunk_counter": 64, "left_len": 64}, cenv, "rcc2", 64) + ".\n")

    # ---- C formulas -------------------------------------------------------
    ih = strip_comments(src("c/blake3_impl.h"))
    c = strip_comments(src("c/blake3.c"))
    ccenv = {"BLAKE3_CHUNK_LEN": "c_CHUNK_LEN", "BLAKE3_BLOCK_LEN": "c_BLOCK_LEN", "BLAKE3_OUT_LEN": "c_OUT_LEN"}
    body = fn_body(ih, r"unsigned int highest_one\s*\(uint64_t x\)", "c_highest_one")
    m = find1(r"#if defined\(__GNUC__\) \|\| defined\(__clang__\)\s*return\s+(.*?);", body, "c_highest_one.gnu")
    out.append("Definition c_highest_one (x : N) : res N :=\n  "
               + emit(parse_expr(m.group(1), "cho"), {"x": 64}, ccenv, "cho", 64) + ".\n")
    body = fn_body(ih, r"uint64_t round_down_to_power_of_2\s*\(uint64_t x\)", "c_round_down")
    m = find1(r"return\s+(.*?);", body, "c_round_down")
    out.append("Definition c_round_down_to_power_of_2 (x : N) : res N :=\n  "
               + emit(parse_expr(m.group(1), "crd"),
                      {"x": 64, "@highest_one": 64, "&highest_one": "c_highest_one"}, ccenv, "crd", 64) + ".\n")
    body = fn_body(c, r"size_t left_subtree_len\s*\(size_t input_len\)", "c_left_subtree_len")
    m1 = find1(r"size_t\s+full_chunks\s*=\s*(.*?);", body, "c_left_subtree_len.full_chunks")
    m2 = find1(r"return\s+(.*?);", body, "c_left_subtree_len.ret")
    out.append("Definition c_left_subtree_len (input_len : N) : res N :=\n"
               "  full_chunks <- " + emit(parse_expr(m1.group(1), "clsl"), {"input_len": 64}, ccenv, "clsl", 64)
               + " ;;\n  "
               + emit(parse_expr(m2.group(1), "clsl2"),
                      {"full_chunks": 64, "@round_down_to_power_of_2": 64,
                       "&round_down_to_power_of_2": "c_round_down_to_power_of_2"}, ccenv, "clsl2", 64) + ".\n")
    # ---- C formulas used by Model/CHasher.v (property C06) -----------------
    def cexpr(e):
        return e.replace("self->chunk.", "chunk_").replace("self->", "")
    body = fn_body(ih, r"INLINE unsigned int popcnt\s*\(uint64_t x\)", "c_popcnt")
    m = find1(r"#if defined\(__GNUC__\) \|\| defined\(__clang__\)\s*return\s+(.*?);", body, "c_popcnt.gnu")
    out.append("Definition c_popcnt (x : N) : res N :=\n  "
               + emit(parse_expr(m.group(1), "cpc"), {"x": 64}, ccenv, "cpc", 64) + ".\n")
    body = fn_body(c, r"size_t chunk_state_len\s*\(const blake3_chunk_state \*self\)", "c_chunk_state_len")
    m = find1(r"return\s+(.*?);", body, "c_chunk_state_len.ret")
    out.append("Definition c_chunk_state_len (blocks_compressed buf_len : N) : res N :=\n  "
               + emit(parse_expr(cexpr(m.group(1)), "ccl"), {"blocks_compressed": 8, "buf_len": 8}, ccenv, "ccl", 64)
               + ".\n")
    body = fn_body(c, r"void output_root_bytes\s*\(", "c_output_root_bytes")
    m1 = find1(r"uint64_t\s+output_block_counter\s*=\s*(.*?);", body, "c_orb_counter")
    m2 = find1(r"size_t\s+offset_within_block\s*=\s*(.*?);", body, "c_orb_offset")
    m3 = find1(r"const size_t\s+available_bytes\s*=\s*(.*?);", body, "c_orb_available")
    m4 = find1(r"if\s*\((out_len / 64)\)\s*\{\s*blake3_xof_many\(", body, "c_orb_blocks")
    m5 = find1(r"out\s*\+=\s*(out_len & -64);\s*out_len\s*-=\s*out_len & -64;", body, "c_orb_whole")
    out.append("Definition c_orb_counter (seek : N) : res N :=\n  "
               + emit(parse_expr(m1.group(1), "orb1"), {"seek": 64}, ccenv, "orb1", 64) + ".\n")
    out.append("Definition c_orb_offset (seek : N) : res N :=\n  "
               + emit(parse_expr(m2.group(1), "orb2"), {"seek": 64}, ccenv, "orb2", 64) + ".\n")
    out.append("Definition c_orb_available (offset_within_block : N) : res N :=\n  "
               + emit(parse_expr(m3.group(1), "orb3"), {"offset_within_block": 64}, ccenv, "orb3", 64) + ".\n")
    out.append("Definition c_orb_blocks (out_len : N) : res N :=\n  "
               + emit(parse_expr(m4.group(1), "orb4"), {"out_len": 64}, ccenv, "orb4", 64) + ".\n")
    out.append("Definition c_orb_whole (out_len : N) : res N :=\n  "
               + emit(parse_expr(m5.group(1), "orb5"), {"out_len": 64}, ccenv, "orb5", 64) + ".\n")
    body = fn_body(c, r"void blake3_hasher_update_base\s*\(", "c_update_base")
    m1 = find1(r"uint64_t\s+count_so_far\s*=\s*(.*?);", body, "c_count_so_far")
    m2 = find1(r"while\s*\((\(\(\(uint64_t\)\(subtree_len - 1\)\) & count_so_far\) != 0)\)", body, "c_shrink_cond")
    m3 = find1(r"uint64_t\s+subtree_chunks\s*=\s*(.*?);", body, "c_subtree_chunks")
    m4 = find1(r"hasher_push_cv\(self,\s*&cv_pair\[BLAKE3_OUT_LEN\],\s*(.*?)\);", body, "c_right_cv_counter")
    out.append("Definition c_count_so_far (chunk_chunk_counter : N) : res N :=\n  "
               + emit(parse_expr(cexpr(m1.group(1)), "ub1"), {"chunk_chunk_counter": 64}, ccenv, "ub1", 64) + ".\n")
    out.append("Definition c_shrink_cond (subtree_len count_so_far : N) : res bool :=\n  "
               + emit_bool(parse_expr(m2.group(1), "ub2"), {"subtree_len": 64, "count_so_far": 64}, ccenv, "ub2")
               + ".\n")
    out.append("Definition c_subtree_chunks (subtree_len : N) : res N :=\n  "
               + emit(parse_expr(m3.group(1), "ub3"), {"subtree_len": 64}, ccenv, "ub3", 64) + ".\n")
    out.append("Definition c_right_cv_counter (chunk_chunk_counter subtree_chunks : N) : res N :=\n  "
               + emit(parse_expr(cexpr(m4.group(1)), "ub4"), {"chunk_chunk_counter": 64, "subtree_chunks": 64}, ccenv,
                      "ub4", 64) + ".\n")
    return "".join(out)


def gen_test_vectors():
    js = json.loads(src("test_vectors/test_vectors.json"))
    out = [HEADER]
    out.append(f"Definition tv_key : list N := {coq_list([ord(c) for c in js['key']])}.\n")
    out.append(f"Definition tv_context : list N := {coq_list(list(js['context_string'].encode()))}.\n")
    out.append("(* (input_len, hash, keyed_hash, derive_key), outputs as byte lists *)\n")
    out.append("Definition tv_cases : list (N * list N * list N * list N) :=\n  [")
    rows = []
    for c in js["cases"]:
        def hx(s):
            return coq_list(list(bytes.fromhex(s)))
        rows.append(f"({c['input_len']}, {hx(c['hash'])}, {hx(c['keyed_hash'])}, {hx(c['derive_key'])})")
    out.append(";\n   ".join(rows) + "].\n")
    return "".join(out)


def gen_dispatch():
    """c/blake3_dispatch.c get_cpu_features (the only writer of the C library's one global, g_cpu_features),
    linearised in textual order: the control flow of the x86 branch is nested `if`s only (anchored: no loop, goto,
    switch or ?:), so textual order over-approximates every execution path.  Events: the load of the cache and the
    early return, `features = 0`, each `features |= BIT`, each store to g_cpu_features (DStore when the stored
    expression is exactly the local `features`, DStoreOther otherwise), `return features`."""
    text = strip_comments(src("c/blake3_dispatch.c"))
    body = fn_body(text, r"get_cpu_features\s*\(void\)\s*\{", "c_get_cpu_features")
    # keep the IS_X86 branch
    m = find1(r"#if defined\(IS_X86\)[^\n]*\n", body, "c_get_cpu_features.is_x86")
    head = body[:m.start()]
    depth, part, parts = 0, [], {"then": None, "else": None}
    cur = "then"
    for line in body[m.end():].split("\n"):
        t = line.strip()
        if re.match(r"#\s*if", t):
            depth += 1
        elif re.match(r"#\s*endif", t):
            if depth == 0:
                parts[cur] = "\n".join(part)
                break
            depth -= 1
        elif re.match(r"#\s*else", t) and depth == 0:
            parts[cur] = "\n".join(part)
            cur, part = "else", []
            continue
        elif re.match(r"#\s*elif", t) and depth == 0:
            raise AnchorError("c_get_cpu_features: #elif at the IS_X86 level")
        part.append(line)
    if parts["then"] is None or parts["else"] is None:
        raise AnchorError("c_get_cpu_features: IS_X86 #if/#else/#endif not found")
    x86, other = parts["then"], parts["else"]
    for kw in ("for", "while", "goto", "switch", "do"):
        if re.search(r"\b%s\b" % kw, x86):
            raise AnchorError("c_get_cpu_features: control flow other than nested if (%s)" % kw)
    if "?" in x86:
        raise AnchorError("c_get_cpu_features: conditional expression")
    find1(r"enum cpu_feature features = ATOMIC_LOAD\(g_cpu_features\);\s*if \(features != UNDEFINED\) \{\s*return features;\s*\} else \{",
          head, "c_get_cpu_features.cached_path")
    if re.search(r"g_cpu_features", other) or re.search(r"ATOMIC_STORE", other):
        raise AnchorError("c_get_cpu_features: store in the non-x86 branch")
    # enum values
    enum = fn_body(text, r"enum cpu_feature\s*\{", "c_cpu_feature_enum")
    bits = {}
    for name, sh in re.findall(r"(\w+)\s*=\s*1\s*<<\s*(\d+)", enum):
        bits[name] = 1 << int(sh)
    events = []
    tok = re.compile(r"features\s*\|=\s*(\w+)\s*;|features\s*=\s*0\s*;|ATOMIC_STORE\s*\(\s*g_cpu_features\s*,\s*([^;]*?)\)\s*;"
                     r"|g_cpu_features\s*=[^=]([^;]*);|return\s+features\s*;|features\s*([-+&^]|<<|>>)?=[^=]")
    for mm in tok.finditer(x86):
        t = mm.group(0)
        if t.startswith("features") and "|=" in t:
            if mm.group(1) not in bits:
                raise AnchorError("c_get_cpu_features: unknown feature bit %s" % mm.group(1))
            events.append("DOr %d" % bits[mm.group(1)])
        elif re.match(r"features\s*=\s*0", t):
            events.append("DAssign0")
        elif t.startswith("ATOMIC_STORE"):
            events.append("DStore" if mm.group(2).strip() == "features" else "DStoreOther")
        elif t.startswith("g_cpu_features"):
            events.append("DStoreOther")
        elif t.startswith("return"):
            events.append("DRet")
        else:
            raise AnchorError("c_get_cpu_features: unrecognised update of `features`: %s" % t.strip())
    # every other mention of the global in the file must be its definition or a read
    outside = text.replace(body, "")
    for mm in re.finditer(r"[^\n]*g_cpu_features[^\n]*", outside):
        line = mm.group(0)
        if re.search(r"ATOMIC_STORE|g_cpu_features\s*(=[^=]|\+\+|--|[-+|&^]=)", line) and "ATOMIC_INT g_cpu_features = UNDEFINED" not in line \
                and not line.lstrip().startswith("#define"):
            raise AnchorError("g_cpu_features written outside get_cpu_features: %s" % line.strip())
    out = [HEADER]
    out.append("From V Require Import Model.Dispatch.\n")
    out.append("(* c/blake3_dispatch.c get_cpu_features, x86 branch, events in textual order *)\n")
    out.append("Definition c_dispatch_prog : list dstmt :=\n  [" + "; ".join(events) + "].\n")
    out.append("Definition c_feature_UNDEFINED : N := %d.\n" % bits.get("UNDEFINED", 0))
    return "".join(out)


# ---------------------------------------------------------------------------
# C07: stack-frame discipline of the hand-written Unix assembly kernels
# ---------------------------------------------------------------------------
ASM_FILES = ["c/blake3_sse2_x86-64_unix.S", "c/blake3_sse41_x86-64_unix.S", "c/blake3_avx2_x86-64_unix.S",
             "c/blake3_avx512_x86-64_unix.S"]
_PTR_WIDTH = {"byte": 1, "word": 2, "dword": 4, "qword": 8, "xmmword": 16, "ymmword": 32, "zmmword": 64}
_CALLEE_SAVED = {"rbx": "rbx", "ebx": "rbx", "bx": "rbx", "bl": "rbx", "rbp": "rbp", "ebp": "rbp", "bp": "rbp", "bpl": "rbp"}
for _r in ("r12", "r13", "r14", "r15"):
    for _suf in ("", "d", "w", "b"):
        _CALLEE_SAVED[_r + _suf] = _r
_NO_WRITE = {"cmp", "test", "push", "jmp", "call", "ret", "bt", "prefetcht0", "prefetchnta"}


def _asm_num(tok, name):
    """constant expression of the form a, a*b, a+b*c ... (hex or decimal literals)"""
    total = 0
    for term in tok.split("+"):
        prod = 1
        for f in term.split("*"):
            f = f.strip()
            if not re.fullmatch(r"0[xX][0-9a-fA-F]+|\d+", f):
                raise AnchorError("%s: unsupported stack offset expression %r" % (name, tok))
            prod *= int(f, 0)
        total += prod
    return total


def gen_asm_frames():
    """For every function of the four Unix assembly files: the pushes of the prologue, the frame size N of
    `sub rsp, N` (+ whether `and rsp, -64` follows), every memory operand based on rsp as (offset, width, is_store),
    the pops of the epilogue, and the callee-saved general registers that appear as a destination.  Emitted as data
    into gen/GenAsmFrames.v; Props/C07.v decides the frame discipline on it."""
    out = [HEADER]
    out.append("(* per function: name (ASCII), realigned?, frame size, pushes, pops (register codes: 0 rbx 1 rbp 2 r12 3 r13 4 r14 5 r15),\n"
               "   rsp-based accesses (offset, width), callee-saved registers written *)\n")
    regcode = {"rbx": 0, "rbp": 1, "r12": 2, "r13": 3, "r14": 4, "r15": 5}
    rows = []
    for rel in ASM_FILES:
        text = src(rel)
        lines = []
        for raw in text.split("\n"):
            l = raw.split("//")[0]
            l = re.sub(r"/\*.*?\*/", " ", l).strip()
            if not l or l.startswith("#") or l.startswith("."):
                if l.startswith(".section") or l.startswith(".static_data") or l.startswith(".rodata"):
                    lines.append(("directive", l))
                continue
            lines.append(("code", l))
        funcs, cur = [], None
        for kind, l in lines:
            if kind == "directive":
                cur = None
                continue
            m = re.fullmatch(r"(_?)(blake3_\w+):", l)
            if m:
                name = m.group(2)
                if cur is not None and cur["name"] == name and not cur["body"]:
                    continue
                cur = {"name": name, "body": []}
                funcs.append(cur)
                continue
            if cur is not None:
                cur["body"].append(l)
        if not funcs:
            raise AnchorError("%s: no function labels found" % rel)
        for f in funcs:
            name, body = f["name"], f["body"]
            pushes, pops, accesses, written = [], [], [], set()
            frame, realigned, seen_setup = None, False, False
            last_restore = max([i for i, l in enumerate(body) if re.fullmatch(r"mov\s+rsp\s*,\s*rbp", l)] or [-1])
            for i, l in enumerate(body):
                l = re.sub(r"\s+", " ", l)
                if re.fullmatch(r"\d+:", l) or l.endswith(":"):
                    continue
                mm = re.fullmatch(r"(\w+)\s*(.*)", l)
                mn, ops = mm.group(1).lower(), mm.group(2)
                if mn == "_cet_endbr":
                    continue
                if mn == "push":
                    if seen_setup:
                        raise AnchorError("%s: push after the frame was set up" % name)
                    pushes.append(ops.strip().lower())
                    continue
                if mn == "pop":
                    pops.append(ops.strip().lower())
                    continue
                if re.fullmatch(r"mov rbp ?, ?rsp", l.lower()):
                    seen_setup = True
                    continue
                m2 = re.fullmatch(r"sub rsp ?, ?(\w+)", l.lower())
                if m2:
                    if frame is not None:
                        raise AnchorError("%s: second `sub rsp`" % name)
                    frame = int(m2.group(1), 0)
                    seen_setup = True
                    continue
                if re.fullmatch(r"and rsp ?, ?0xffffffffffffffc0", l.lower()):
                    realigned = True
                    continue
                if re.fullmatch(r"mov rsp ?, ?rbp", l.lower()):
                    continue
                if re.search(r"\brsp\b", l) and "[" not in l:
                    raise AnchorError("%s: unrecognised use of rsp: %s" % (name, l))
                # rsp-based memory operands
                oplist = [o.strip() for o in re.split(r",(?![^\[]*\])", ops)]
                for k, o in enumerate(oplist):
                    mo = re.search(r"\[rsp([^\]]*)\]", o)
                    if not mo:
                        continue
                    ms = re.search(r"(\w+)\s+ptr\s*\[", o, re.I)
                    if not ms or ms.group(1).lower() not in _PTR_WIDTH:
                        raise AnchorError("%s: rsp operand without size keyword: %s" % (name, l))
                    width = _PTR_WIDTH[ms.group(1).lower()]
                    rest = mo.group(1).replace(" ", "")
                    if rest.startswith("-"):
                        raise AnchorError("%s: access below rsp: %s" % (name, l))
                    rest = rest.lstrip("+")
                    off = 0
                    if rest:
                        mi = re.fullmatch(r"(.*?)\+(\d+)\*rax", rest)
                        if mi:
                            # the only indexed form: a lane mask negated to 0/1 selects one of two slots
                            prev = [re.sub(r"\s+", " ", x).lower() for x in body[max(0, i - 3):i]]
                            if not any(x == "neg eax" for x in prev):
                                raise AnchorError("%s: indexed stack access without the `neg eax` (0/1) pattern: %s" % (name, l))
                            off = _asm_num(mi.group(1), name) + int(mi.group(2))
                        else:
                            off = _asm_num(rest, name)
                    accesses.append((off, width))
                # callee-saved destinations
                if mn not in _NO_WRITE and oplist and oplist[0]:
                    d = oplist[0].lower()
                    if d in _CALLEE_SAVED:
                        written.add(_CALLEE_SAVED[d])
            for r in pushes + pops:
                if r not in regcode:
                    raise AnchorError("%s: push/pop of %s" % (name, r))
            if (frame is None) != (not accesses) and frame is None:
                frame = 0
            rows.append((name, realigned, frame or 0, [regcode[r] for r in pushes], [regcode[r] for r in pops],
                         sorted(set(accesses)), sorted(regcode[r] for r in written)))
    def row(r):
        name, re_, fr, pu, po, acc, wr = r
        return "(%s, %s, %d, %s, %s,\n    [%s], %s)" % (
            coq_list(list(name.encode())), "true" if re_ else "false", fr, coq_list(pu), coq_list(po),
            "; ".join("(%d, %d)" % a for a in acc), coq_list(wr))
    out.append("Definition asm_frames : list (list N * bool * N * list N * list N * list (N * N) * list N) :=\n  ["
               + ";\n   ".join(row(r) for r in rows) + "].\n")
    out.append("(* " + ", ".join("%s: frame %d, %d accesses, max end %d" % (r[0], r[2], len(r[5]), max([a + w for a, w in r[5]] or [0]))
                                 for r in rows) + " *)\n")
    out.append(gen_asm_frames_win())
    return "".join(out)


ASM_FILES_WIN = ["c/blake3_sse2_x86-64_windows_gnu.S", "c/blake3_sse41_x86-64_windows_gnu.S",
                 "c/blake3_avx2_x86-64_windows_gnu.S", "c/blake3_avx512_x86-64_windows_gnu.S"]
_WIN_CALLEE = dict(_CALLEE_SAVED)
for _r, _names in (("rsi", ("rsi", "esi", "si", "sil")), ("rdi", ("rdi", "edi", "di", "dil"))):
    for _n in _names:
        _WIN_CALLEE[_n] = _r
_WIN_REGCODE = {"rbx": 0, "rbp": 1, "r12": 2, "r13": 3, "r14": 4, "r15": 5, "rsi": 6, "rdi": 7}


def _asm_functions(rel):
    """[(name, [instruction lines])] of one GAS/Intel-syntax file"""
    text = src(rel)
    funcs, cur = [], None
    for raw in text.split("\n"):
        l = raw.split("//")[0]
        l = re.sub(r"/\*.*?\*/", " ", l).strip()
        if not l or l.startswith("#"):
            continue
        if l.startswith("."):
            if re.match(r"\.(section|static_data|rodata|data|bss)\b", l) and not re.match(r"\.section\s+\.text", l):
                cur = None
            continue
        m = re.fullmatch(r"(_?)(blake3_\w+):", l)
        if m:
            name = m.group(2)
            if cur is not None and cur[0] == name and not cur[1]:
                continue
            cur = (name, [])
            funcs.append(cur)
            continue
        if cur is not None:
            cur[1].append(re.sub(r"\s+", " ", l))
    if not funcs:
        raise AnchorError("%s: no function labels found" % rel)
    return funcs


def _split_ops(ops):
    return [o.strip() for o in re.split(r",(?![^\[]*\])", ops)] if ops.strip() else []


def gen_asm_frames_win():
    """Windows-GNU assembly (Microsoft x64 convention: rbx rbp rsi rdi r12-r15 and xmm6-xmm15 are callee-saved).
    Per function: pushes, pops, frame size, realigned?, the xmm save slots of the prologue [(reg, offset)], the restores
    of the epilogue, the stores of the body to rsp-based addresses (offset, width), the callee-saved general registers
    and the callee-saved xmm registers (6..15, also as ymm/zmm) that occur as a destination in the body."""
    rows = []
    for rel in ASM_FILES_WIN:
        for name, body in _asm_functions(rel):
            pushes, pops, saves, restores, stores, gw, xw = [], [], [], [], [], set(), set()
            frame, realigned = 0, False
            # classify lines
            ins = []
            for l in body:
                if re.fullmatch(r"\d+:", l) or l.endswith(":"):
                    continue
                mm = re.fullmatch(r"(\w+) ?(.*)", l)
                ins.append((mm.group(1).lower(), _split_ops(mm.group(2)), l))
            # prologue: pushes, mov rbp rsp, sub rsp, and rsp, then the run of xmm saves
            i = 0
            while i < len(ins) and ins[i][0] == "push":
                pushes.append(ins[i][1][0].lower())
                i += 1
            if i < len(ins) and ins[i][2].lower().replace(" ", "") == "movrbp,rsp":
                i += 1
            if i < len(ins) and ins[i][0] == "sub" and ins[i][1][0].lower() == "rsp":
                frame = int(ins[i][1][1], 0)
                i += 1
            if i < len(ins) and ins[i][0] == "and" and ins[i][1][0].lower() == "rsp":
                if ins[i][1][1].lower() != "0xffffffffffffffc0":
                    raise AnchorError("%s: unexpected stack alignment %s" % (name, ins[i][2]))
                realigned = True
                i += 1
            def slot(o):
                mo = re.fullmatch(r"xmmword ptr \[rsp(?:\+(\w+))?\]", o.lower())
                return None if not mo else (int(mo.group(1), 0) if mo.group(1) else 0)
            def xreg(o):
                mo = re.fullmatch(r"xmm(\d+)", o.lower())
                return int(mo.group(1)) if mo else None
            while i < len(ins) and ins[i][0] in ("movdqa", "vmovdqa", "movaps", "vmovaps") and len(ins[i][1]) == 2 \
                    and slot(ins[i][1][0]) is not None and xreg(ins[i][1][1]) is not None and 6 <= xreg(ins[i][1][1]) <= 15:
                saves.append((xreg(ins[i][1][1]), slot(ins[i][1][0])))
                i += 1
            body_start = i
            # epilogue: from the end: ret, pops, (mov rsp,rbp | add rsp,N), the run of restores
            j = len(ins) - 1
            while j >= 0 and ins[j][0] != "ret":
                j -= 1
            if j < 0:
                raise AnchorError("%s: no ret" % name)
            if any(x[0] == "ret" for x in ins[:j]):
                raise AnchorError("%s: more than one ret" % name)
            j -= 1
            rp = []
            while j >= 0 and ins[j][0] == "pop":
                rp.append(ins[j][1][0].lower())
                j -= 1
            pops = list(reversed(rp))
            if j >= 0 and (ins[j][2].lower().replace(" ", "") == "movrsp,rbp" or
                           (ins[j][0] == "add" and ins[j][1][0].lower() == "rsp" and int(ins[j][1][1], 0) == frame)):
                j -= 1
            elif frame:
                raise AnchorError("%s: frame of %d bytes is not released before the pops" % (name, frame))
            if j >= 0 and ins[j][0] == "vzeroupper":
                j -= 1
            rr = []
            while j >= 0 and ins[j][0] in ("movdqa", "vmovdqa", "movaps", "vmovaps") and len(ins[j][1]) == 2 \
                    and slot(ins[j][1][1]) is not None and xreg(ins[j][1][0]) is not None and 6 <= xreg(ins[j][1][0]) <= 15:
                rr.append((xreg(ins[j][1][0]), slot(ins[j][1][1])))
                j -= 1
            restores = list(reversed(rr))
            body_end = j + 1
            if j >= 0 and ins[j][0] == "vzeroupper":
                body_end = j
            for mn, ops, l in ins[body_start:body_end]:
                if mn in ("push", "pop", "ret") or (ops and ops[0].lower() == "rsp"):
                    raise AnchorError("%s: stack pointer manipulation inside the body: %s" % (name, l))
                if not ops:
                    continue
                d = ops[0].lower()
                d = re.sub(r"\s*\{[^}]*\}", "", d).strip()      # masking suffixes
                if mn not in _NO_WRITE:
                    if d in _WIN_CALLEE:
                        gw.add(_WIN_CALLEE[d])
                    mo = re.fullmatch(r"[xyz]mm(\d+)", d)
                    if mo and 6 <= int(mo.group(1)) <= 15:
                        xw.add(int(mo.group(1)))
                mo = re.search(r"(\w+) ptr \[rsp([^\]]*)\]", ops[0], re.I)
                if mo and mn not in _NO_WRITE:
                    if mo.group(1).lower() not in _PTR_WIDTH:
                        raise AnchorError("%s: rsp store without size keyword: %s" % (name, l))
                    rest = mo.group(2).replace(" ", "")
                    if rest.startswith("-") or re.search(r"[a-z]", rest.replace("0x", "").replace("0X", "")):
                        raise AnchorError("%s: unsupported rsp store address: %s" % (name, l))
                    stores.append((_asm_num(rest.lstrip("+"), name) if rest else 0, _PTR_WIDTH[mo.group(1).lower()]))
            for r in pushes + pops:
                if r not in _WIN_REGCODE:
                    raise AnchorError("%s: push/pop of %s" % (name, r))
            rows.append((name, realigned, frame, [_WIN_REGCODE[r] for r in pushes], [_WIN_REGCODE[r] for r in pops],
                         saves, restores, sorted(set(stores)), sorted(_WIN_REGCODE[r] for r in gw), sorted(xw)))
    def pairs(ps):
        return "[" + "; ".join("(%d, %d)" % p for p in ps) + "]"
    def row(r):
        name, re_, fr, pu, po, sv, rs, st, gwr, xwr = r
        return "(%s, %s, %d, %s, %s,\n    %s, %s,\n    %s, %s, %s)" % (
            coq_list(list(name.encode())), "true" if re_ else "false", fr, coq_list(pu), coq_list(po),
            pairs(sv), pairs(rs), pairs(st), coq_list(gwr), coq_list(xwr))
    out = ["\n(* Windows-GNU files: name, realigned?, frame, pushes, pops (codes 0 rbx 1 rbp 2 r12 3 r13 4 r14 5 r15 6 rsi 7 rdi),\n"
           "   xmm saves (reg, offset), xmm restores, body stores to [rsp+off] (offset, width), callee-saved GPRs written,\n"
           "   callee-saved xmm registers written *)\n"]
    out.append("Definition asm_frames_win : list (list N * bool * N * list N * list N * list (N * N) * list (N * N) * "
               "list (N * N) * list N * list N) :=\n  [" + ";\n   ".join(row(r) for r in rows) + "].\n")
    out.append("(* " + ", ".join("%s: frame %d, saves xmm%s, writes xmm%s" % (r[0], r[2], [a for a, _ in r[5]], r[9]) for r in rows) + " *)\n")
    return "".join(out)


# ---------------------------------------------------------------------------
# API surface: every function item of the modelled Rust files, qualified by its impl block
# ---------------------------------------------------------------------------
API_FILES = ["src/lib.rs", "src/hazmat.rs", "src/traits.rs", "src/guts.rs", "src/io.rs", "src/join.rs"]


def rust_fn_items(rel):
    """['<impl header>::<fn>' | '<fn>'] of a rustfmt-formatted file, in source order; nested fns are qualified by the
    enclosing top-level item; test modules, the verification hooks (cfg blake3_team_blake3_verif, names verif_*) and
    macro bodies are skipped."""
    text = src(rel)
    text = re.sub(r"//[^\n]*", "", text)
    text = re.sub(r"/\*.*?\*/", " ", text, flags=re.S)
    out, ctx, skip_depth, pending_skip = [], None, None, False
    depth = 0
    for line in text.split("\n"):
        stripped = line.strip()
        if depth == 0 or (ctx is not None and depth == 1):
            if re.match(r"#\[cfg\((test|blake3_team_blake3_verif)\)\]", stripped) or \
                    re.match(r"#\[cfg\(all\(.*blake3_team_blake3_verif", stripped):
                pending_skip = True
        opens, closes = line.count("{"), line.count("}")
        if skip_depth is None:
            if depth == 0:
                m = re.match(r"(?:unsafe )?impl(?:<[^>]*>)? (.+?) \{", stripped) or re.match(r"(?:pub )?trait (\w+)", stripped)
                if m and not pending_skip:
                    ctx = re.sub(r"\s+", " ", m.group(1).strip())
                    ctx = re.sub(r"<'\w+>", "", ctx)
                elif re.match(r"(pub(\(crate\))? )?mod \w+ \{", stripped) or re.match(r"macro_rules!", stripped):
                    pending_skip = True
            m = re.search(r"\bfn (\w+)", stripped)
            if m and not stripped.startswith(("//", "*")):
                name = m.group(1)
                if pending_skip or name.startswith(("verif_", "test_")):
                    if opens > closes:
                        skip_depth = depth
                    pending_skip = False
                else:
                    top = depth == 0 or (ctx is not None and depth == 1)
                    if top:
                        out.append((ctx + "::" if ctx and depth == 1 else "") + name)
                        last_top = out[-1]
                    else:
                        out.append(last_top + "::" + name)
            elif pending_skip and opens > closes:
                skip_depth = depth
                pending_skip = False
            elif pending_skip and stripped and not stripped.startswith("#") and opens == closes and stripped.endswith(";"):
                pending_skip = False
        depth += opens - closes
        if skip_depth is not None and depth <= skip_depth:
            skip_depth = None
        if depth == 0:
            ctx = None if stripped == "}" else ctx
    return out


def gen_api():
    out = ["(* GENERATED by tools/gen_coq.py from the /repo working tree. Do not edit. *)\n"
           "From Coq Require Import String List.\nImport ListNotations.\nOpen Scope string_scope.\n\n"
           "(* every function item of the modelled Rust files, qualified by its impl block, in source order *)\n"]
    def emit_list(ident, items):
        out.append("Definition %s : list string :=\n  [%s].\n\n" % (ident, ";\n   ".join('"%s"' % i.replace('"', "'") for i in items)))
    for rel in API_FILES:
        items = rust_fn_items(rel)
        base = os.path.basename(rel).replace(".rs", "")
        if base != "lib":
            emit_list("api_" + base, items)
            continue
        # lib.rs is split by what the items belong to: Debug/Zeroize impls (C17), the Hash value type (C14), the
        # OutputReader (C03), everything else = the hashing core (C01/C02/C10)
        secret = [i for i in items if "fmt::Debug for" in i or "Zeroize for" in i]
        rest = [i for i in items if i not in secret]
        hashv = [i for i in rest if re.search(r"(^|for )(Hash|HexError)::", i) or i.startswith(("From<Hash>", "From<[u8; OUT_LEN]> for Hash"))]
        reader = [i for i in rest if re.search(r"(^|for )OutputReader::", i)]
        core = [i for i in rest if i not in hashv and i not in reader]
        emit_list("api_lib_secret", secret)
        emit_list("api_lib_hash", hashv)
        emit_list("api_lib_reader", reader)
        emit_list("api_lib_core", core)
    return "".join(out)


# --------------------------------------------------------------------------
# GenCounters.v: the load_counters* functions of the intrinsics back ends, translated
# statement by statement into terms over Model/Intrinsics.v
# --------------------------------------------------------------------------
VTOK = re.compile(r"""
    (?P<ws>\s+)
  | (?P<num>0[xX][0-9a-fA-F_]+|[0-9][0-9_]*)(?P<suf>(?:_?(?:u8|u16|u32|u64|usize|i8|i16|i32|i64|isize))|[uUlL]*)
  | (?P<id>[A-Za-z_][A-Za-z0-9_]*(?:::[A-Za-z_][A-Za-z0-9_]*)*)
  | (?P<op><<|>>|<=|>=|==|!=|&&|\|\||->|[-+*/%&|^!~<>().,\[\]{};=?:])
""", re.X)


def vtokenize(s, name):
    out, i = [], 0
    while i < len(s):
        m = VTOK.match(s, i)
        if not m:
            raise AnchorError(f"{name}: cannot tokenize at {s[i:i+20]!r}")
        i = m.end()
        if m.group("ws"):
            continue
        if m.group("num"):
            lit = m.group("num")
            out.append(("num", (int(lit.replace("_", ""), 0), (m.group("suf") or "").lstrip("_"),
                                lit[:2].lower() == "0x")))
        elif m.group("id"):
            out.append(("id", m.group("id")))
        else:
            out.append(("op", m.group("op")))
    return out


# scalar types: (signedness, width).  C `bool` / Rust `bool` is ('u', 1).
C_SCALAR = {"uint64_t": ("u", 64), "uint32_t": ("u", 32), "uint16_t": ("u", 16), "uint8_t": ("u", 8),
            "size_t": ("u", 64), "int64_t": ("s", 64), "int32_t": ("s", 32), "int": ("s", 32),
            "unsigned": ("u", 32), "unsigned int": ("u", 32), "long long": ("s", 64),
            "unsigned long long": ("u", 64), "bool": ("u", 1), "__int64": ("s", 64)}
C_VECTOR = {"__m128i": ("v", 4), "__m256i": ("v", 8), "__m512i": ("v", 16), "__mmask16": ("k", 16)}
C_TYPEWORDS = {w for t in list(C_SCALAR) + list(C_VECTOR) for w in t.split()}
RS_SCALAR = {"u8": ("u", 8), "u16": ("u", 16), "u32": ("u", 32), "u64": ("u", 64), "usize": ("u", 64),
             "i32": ("s", 32), "i64": ("s", 64), "bool": ("u", 1)}
RS_VECTOR = {"__m128i": ("v", 4), "__m256i": ("v", 8), "__m512i": ("v", 16)}
COQ_RESERVED = {"in", "let", "fun", "if", "then", "else", "match", "end", "as", "at", "with", "forall", "exists",
                "fix", "cofix", "return", "Type", "Prop", "Set", "for", "where", "using", "vec", "res", "Ok", "N", "Z",
                "nat", "bool", "list", "map", "repeat", "fst", "snd", "cast_u", "cast_s", "c_true", "mu", "mb", "bind",
                "bits32", "bits64", "of64", "to64", "w32", "mask32"}


class VParser:
    """Expressions of the vector code (C and Rust).
       AST: ('num', v, suffix, ishex) ('var', x) ('call', f, [args]) ('meth', recv, m, [args])
            ('un', op, a) ('bin', op, a, b) ('cast', typename, a) ('cond', c, a, b) ('tuple', [es])
            ('index', array, index)"""

    def __init__(self, toks, name, lang):
        self.t, self.i, self.name, self.lang = toks, 0, name, lang

    def peek(self, k=0):
        return self.t[self.i + k] if self.i + k < len(self.t) else ("eof", None)

    def next(self):
        tok = self.peek()
        self.i += 1
        return tok

    def expect(self, kind, val):
        tok = self.next()
        if tok != (kind, val):
            raise AnchorError(f"{self.name}: expected {val!r}, got {tok!r}")

    def parse(self):
        e = self.expr(0)
        if self.peek()[0] != "eof":
            raise AnchorError(f"{self.name}: trailing tokens {self.t[self.i:self.i + 6]!r}")
        return e

    def expr(self, minprec):
        lhs = self.unary()
        while True:
            k, v = self.peek()
            if self.lang == "rs" and (k, v) == ("id", "as"):
                self.next()
                k2, ty = self.next()
                if k2 != "id" or ty not in RS_SCALAR:
                    raise AnchorError(f"{self.name}: unknown type after `as`: {ty!r}")
                lhs = ("cast", ty, lhs)
                continue
            if k == "op" and v in BIN_PREC and BIN_PREC[v] >= minprec:
                self.next()
                rhs = self.expr(BIN_PREC[v] + 1)
                lhs = ("bin", v, lhs, rhs)
                continue
            if self.lang == "c" and (k, v) == ("op", "?") and minprec <= 0:
                self.next()
                a = self.expr(0)
                self.expect("op", ":")
                b = self.expr(0)
                lhs = ("cond", lhs, a, b)
                continue
            return lhs

    def unary(self):
        k, v = self.peek()
        if k == "op" and (v in ("-", "!", "~") or (v == "&" and self.lang == "c")):
            self.next()
            return ("un", v, self.unary())
        return self.postfix(self.primary())

    def primary(self):
        k, v = self.next()
        if k == "num":
            return ("num", v[0], v[1], v[2])
        if k == "id":
            if self.lang == "rs" and v == "if":
                c = self.expr(0)
                self.expect("op", "{")
                a = self.expr(0)
                self.expect("op", "}")
                self.expect("id", "else")
                self.expect("op", "{")
                b = self.expr(0)
                self.expect("op", "}")
                return ("cond", c, a, b)
            if self.lang == "rs" and v == "unsafe":
                self.expect("op", "{")
                e = self.expr(0)
                self.expect("op", "}")
                return e
            if self.peek() == ("op", "("):
                self.next()
                return ("call", v, self.args())
            return ("var", v)
        if (k, v) == ("op", "("):
            if self.lang == "c":
                j, words = self.i, []
                while j < len(self.t) and self.t[j][0] == "id" and self.t[j][1] in C_TYPEWORDS:
                    words.append(self.t[j][1])
                    j += 1
                if words and j < len(self.t) and self.t[j] == ("op", ")"):
                    ty = " ".join(w for w in words if w != "const")
                    if ty not in C_SCALAR:
                        raise AnchorError(f"{self.name}: cast to unsupported type {ty!r}")
                    self.i = j + 1
                    return ("cast", ty, self.unary())
            e = self.expr(0)
            if self.lang == "rs" and self.peek() == ("op", ","):
                es = [e]
                while self.peek() == ("op", ","):
                    self.next()
                    if self.peek() == ("op", ")"):
                        break
                    es.append(self.expr(0))
                self.expect("op", ")")
                return ("tuple", es)
            self.expect("op", ")")
            return e
        raise AnchorError(f"{self.name}: unexpected token {(k, v)!r}")

    def args(self):
        args = []
        while True:
            if self.peek() == ("op", ")"):      # empty list or (Rust) trailing comma
                self.next()
                return args
            args.append(self.expr(0))
            k, v = self.next()
            if (k, v) == ("op", ")"):
                return args
            if (k, v) != ("op", ","):
                raise AnchorError(f"{self.name}: bad argument list")

    def postfix(self, e):
        while True:
            if self.peek() == ("op", ".") and self.peek(1)[0] == "id" and self.peek(2) == ("op", "("):
                self.next()
                m = self.next()[1]
                self.next()
                e = ("meth", e, m, self.args())
                continue
            if self.peek() == ("op", "["):      # array indexing: ('index', array, index)
                self.next()
                i = self.expr(0)
                self.expect("op", "]")
                e = ("index", e, i)
                continue
            return e


def vparse(text, name, lang):
    return VParser(vtokenize(text, name), name, lang).parse()


def _intrinsic_table():
    """intrinsic -> (Coq name in Model/Intrinsics.v, argument kinds, result kind).
       Argument kinds: 'i' integer scalar (int / __int64: the semantics keeps its low bits),
       'imm' compile-time constant, ('v', n) register of n 32-bit lanes, ('k', 16) __mmask16."""
    t = {}
    for p, n, si in (("_mm_", 4, "si128"), ("_mm256_", 8, "si256"), ("_mm512_", 16, "si512")):
        V = ("v", n)
        cp = p[1:]
        t[p + "set1_epi32"] = (cp + "set1_epi32", ["i"], V)
        t[p + "set_epi32"] = (cp + "set_epi32", ["i"] * n, V)
        t[p + "setr_epi32"] = (cp + "setr_epi32", ["i"] * n, V)
        for op in ("add_epi32", "sub_epi32", "and_" + si, "andnot_" + si, "xor_" + si, "or_" + si):
            t[p + op] = (cp + op, [V, V], V)
        t[p + "srli_epi32"] = (cp + "srli_epi32", [V, "imm"], V)
    for p in ("_mm_", "_mm256_"):
        n = 4 if p == "_mm_" else 8
        for op in ("cmpgt_epi32", "cmpeq_epi32"):
            t[p + op] = (p[1:] + op, [("v", n), ("v", n)], ("v", n))
    t["_mm_cmplt_epi32"] = ("mm_cmplt_epi32", [("v", 4), ("v", 4)], ("v", 4))
    for p, n, x in (("_mm256_", 8, "x"), ("_mm512_", 16, "")):
        V, cp = ("v", n), p[1:]
        t[p + "set1_epi64" + x] = (cp + "set1_epi64" + x, ["i"], V)
        t[p + "set_epi64" + x] = (cp + "set_epi64" + x, ["i"] * (n // 2), V)
        t[p + "setr_epi64" + x] = (cp + "setr_epi64" + x, ["i"] * (n // 2), V)
        t[p + "add_epi64"] = (cp + "add_epi64", [V, V], V)
        t[p + "srli_epi64"] = (cp + "srli_epi64", [V, "imm"], V)
        t[p + "cvtepi64_epi32"] = (cp + "cvtepi64_epi32", [V], ("v", n // 2))
    V, K = ("v", 16), ("k", 16)
    for op in ("cmplt_epi32_mask", "cmpgt_epi32_mask", "cmplt_epu32_mask", "cmpgt_epu32_mask"):
        t["_mm512_" + op] = ("mm512_" + op, [V, V], K)
    t["_mm512_maskz_set1_epi32"] = ("mm512_maskz_set1_epi32", [K, "i"], V)
    t["_mm512_mask_set1_epi32"] = ("mm512_mask_set1_epi32", [V, K, "i"], V)
    t["_mm512_movm_epi32"] = ("mm512_movm_epi32", [K], V)
    # the round helpers and the transposes (gen_kernel_rounds)
    for p, n in (("_mm_", 4), ("_mm256_", 8), ("_mm512_", 16)):
        V, cp = ("v", n), p[1:]
        t[p + "slli_epi32"] = (cp + "slli_epi32", [V, "imm"], V)
        t[p + "ror_epi32"] = (cp + "ror_epi32", [V, "imm"], V)
        for op in ("unpacklo_epi32", "unpackhi_epi32", "unpacklo_epi64", "unpackhi_epi64"):
            t[p + op] = (cp + op, [V, V], V)
    for p, n in (("_mm_", 4), ("_mm256_", 8)):
        t[p + "shuffle_epi8"] = (p[1:] + "shuffle_epi8", [("v", n), ("v", n)], ("v", n))
        t[p + "set_epi8"] = (p[1:] + "set_epi8", ["i"] * (4 * n), ("v", n))
    t["_mm_shufflelo_epi16"] = ("mm_shufflelo_epi16", [("v", 4), "imm"], ("v", 4))
    t["_mm_shufflehi_epi16"] = ("mm_shufflehi_epi16", [("v", 4), "imm"], ("v", 4))
    t["_mm256_permute2x128_si256"] = ("mm256_permute2x128_si256", [("v", 8), ("v", 8), "imm"], ("v", 8))
    t["_mm512_shuffle_i32x4"] = ("mm512_shuffle_i32x4", [("v", 16), ("v", 16), "imm"], ("v", 16))
    return t


INTRINSICS = _intrinsic_table()


def _coq_kind(kind):
    return {"v": "vec", "k": "kmask"}.get(kind[0], "Z")


def _split_top(text, sep, name):
    """split at `sep` outside every (), [], {}"""
    parts, depth, cur = [], 0, []
    for ch in text:
        if ch in "([{":
            depth += 1
        elif ch in ")]}":
            depth -= 1
            if depth < 0:
                raise AnchorError(f"{name}: unbalanced brackets")
        if ch == sep and depth == 0:
            parts.append("".join(cur))
            cur = []
        else:
            cur.append(ch)
    if depth != 0:
        raise AnchorError(f"{name}: unbalanced brackets")
    parts.append("".join(cur))
    return parts


class VecFile:
    """Translation unit: one C or Rust source file.  Functions are translated on demand
       (the load_counters functions first, then every file-local helper they call) and emitted
       in dependency order."""

    def __init__(self, rel, lang, prefix):
        self.rel, self.lang, self.prefix = rel, lang, prefix
        self.text = strip_comments(src(rel))
        self.done = {}       # source function name -> (coq name, [param kinds], result kind or [kinds], monadic)
        self.order = []      # emitted definitions, dependency order
        self.busy = set()
        self.used = set()    # intrinsics that occur
        self.afun = {}       # functions over arrays of registers: name -> (coq name, [('a', lanes, size) | 'nat' | 'bytes2'],
                             #   index of the in-out array parameter whose final contents are returned, or None)

    # ---- common --------------------------------------------------------
    def ident(self, x, name):
        if not re.fullmatch(r"[A-Za-z_][A-Za-z0-9_]*", x) or x in COQ_RESERVED or x in INTRINSICS or x.startswith(("mm", "mi_", "rs_", "c_")):
            raise AnchorError(f"{name}: identifier {x!r} cannot be used as a Coq variable")
        return x

    def function(self, fname, toplevel=False):
        if fname in self.done:
            return self.done[fname]
        if fname in self.busy:
            raise AnchorError(f"{self.rel}:{fname}: recursive helper")
        self.busy.add(fname)
        sig = self.c_function(fname, toplevel) if self.lang == "c" else self.rs_function(fname, toplevel)
        self.busy.discard(fname)
        self.done[fname] = sig
        return sig

    def call(self, fname, argasts, env, name, scalar_arg, items=None):
        """(text, kind) of a call of an intrinsic or of a file-local helper"""
        if fname in INTRINSICS:
            coq, kinds, ret = INTRINSICS[fname]
            self.used.add(fname)
            monadic = False
        else:
            if fname.startswith("_mm"):
                raise AnchorError(f"{name}: intrinsic {fname} has no semantics in Model/Intrinsics.v")
            coq, kinds, ret, monadic = self.function(fname)
            if isinstance(ret, list):
                raise AnchorError(f"{name}: helper {fname} with output parameters used in an expression")
            if monadic:
                raise AnchorError(f"{name}: helper {fname} can panic; not supported inside an expression")
        if len(kinds) != len(argasts):
            raise AnchorError(f"{name}: {fname} takes {len(kinds)} arguments, {len(argasts)} given")
        texts = []
        for kind, a in zip(kinds, argasts):
            if kind == "imm":
                texts.append(self.imm_text(a, f"{name}: {fname}"))
            elif kind == "i" or kind[0] in "su":
                texts.append(scalar_arg(a, kind))
            else:
                t, k = self.vexpr(a, env, name, items)
                if k != kind:
                    raise AnchorError(f"{name}: {fname}: operand of kind {k}, expected {kind}")
                texts.append(t)
        return "(" + " ".join([coq] + texts) + ")", ret

    def imm_text(self, a, name):
        """compile-time constant operand: a literal, a constant expression over literals (`32 - 12`), or
           (C) an object-like macro `#define NAME <literal>` of this file.  The text is kept as written."""
        def go(a):
            if a[0] == "num":
                return hex(a[1]) if a[3] else str(a[1])
            if a[0] == "bin" and a[1] in ("+", "-", "*"):
                return f"({go(a[2])} {a[1]} {go(a[3])})"
            if a[0] == "var" and self.lang == "c":
                ms = re.findall(r"^[ \t]*#[ \t]*define[ \t]+" + re.escape(a[1]) + r"[ \t]+(\S+)[ \t]*$", self.text, re.M)
                if len(ms) != 1:
                    raise AnchorError(f"{name}: {len(ms)} object-like definitions of macro {a[1]}")
                toks = vtokenize(ms[0], name)
                if len(toks) != 1 or toks[0][0] != "num":
                    raise AnchorError(f"{name}: macro {a[1]} is not an integer literal")
                return go(("num",) + toks[0][1])
            raise AnchorError(f"{name}: immediate operand is not a constant: {a!r}")
        t = go(a)
        return f"{t}%Z"

    def vexpr(self, ast, env, name, items=None):
        """vector / mask expression -> (text, kind)"""
        if ast[0] == "var":
            if ast[1] not in env or env[ast[1]][0][0] not in "vk":
                raise AnchorError(f"{name}: {ast[1]} is not a vector variable")
            return ast[1], env[ast[1]][0]
        if ast[0] == "call" and self.loader(ast[1]) is not None:
            coq, lanes = self.loader(ast[1])
            if len(ast[2]) != 1:
                raise AnchorError(f"{name}: {ast[1]} takes one pointer")
            buf, off = self.ptr_expr(ast[2][0], env, name)
            return f"({coq} {buf} {off})", ("v", lanes)
        if ast[0] == "call":
            if self.lang == "c":
                sa = lambda a, kind: self.c_conv(*self.c_scalar(a, env, name), kind)
            else:
                sa = lambda a, kind: self.rs_scalar_arg(a, kind, env, name, items)
            t, k = self.call(ast[1], ast[2], env, name, sa, items)
            if k[0] not in "vk":
                raise AnchorError(f"{name}: {ast[1]} does not return a vector")
            return t, k
        if ast[0] == "index":
            return self.array_read(ast, env, name)
        raise AnchorError(f"{name}: not a vector expression: {ast!r}")

    # ---- functions over arrays of registers (round, transpose_vecs) -----
    # An array parameter `__m128i v[16]` / `v: &mut [__m128i; 16]` is a Coq `list vec`.  Every element access
    # must have a literal index.  env[arr] = (('a', lanes, size), state) where state['cur'][i] is the Coq
    # term that currently denotes arr[i]: initially the pattern variable arr<i> (style 'match': the body is
    # wrapped in `match arr with [arr0; ...; arr<size-1>] => ... | _ => arr end`) or `(vk arr i)`
    # (style 'nth'), and after a store `arr[i] = e` the variable bound by the emitted `let`.
    def const_usize(self, text, name):
        """array length: a literal, or the file's DEGREE (`#define DEGREE n` / `pub const DEGREE: usize = n;`)"""
        text = text.strip()
        if re.fullmatch(r"[0-9]+", text):
            return int(text)
        if not re.fullmatch(r"[A-Za-z_]\w*", text):
            raise AnchorError(f"{name}: unsupported array length {text!r}")
        if self.lang == "c":
            ms = re.findall(r"^[ \t]*#[ \t]*define[ \t]+" + re.escape(text) + r"[ \t]+([0-9]+)[ \t]*$", self.text, re.M)
        else:
            ms = re.findall(r"\bconst\s+" + re.escape(text) + r"\s*:\s*usize\s*=\s*([0-9]+)\s*;", self.text)
        if len(ms) != 1:
            raise AnchorError(f"{name}: {len(ms)} definitions of the constant {text}")
        return int(ms[0])

    def msg_schedule_ok(self, name):
        """MSG_SCHEDULE must be the crate-level / blake3_impl.h table (gen/GenConsts.v rs_/c_MSG_SCHEDULE)"""
        if self.lang == "rs":
            if re.search(r"\b(?:const|static|let)\s+MSG_SCHEDULE\b", self.text):
                raise AnchorError(f"{name}: file-local definition of MSG_SCHEDULE")
            m = find1(r"use\s+crate::\{([^}]*)\}", self.text, f"{name}.use")
            if "MSG_SCHEDULE" not in [x.strip() for x in m.group(1).split(",")]:
                raise AnchorError(f"{name}: MSG_SCHEDULE is not imported from the crate root")
        else:
            if re.search(r"\bMSG_SCHEDULE\s*\[[^\]]*\]\s*\[[^\]]*\]\s*=", self.text) or \
               re.search(r"#\s*define\s+MSG_SCHEDULE\b", self.text):
                raise AnchorError(f"{name}: file-local definition of MSG_SCHEDULE")
            find1(r'#\s*include\s+"blake3_impl\.h"', self.text, f"{name}.include")
            hdr = strip_comments(src("c/blake3_impl.h"))
            find1(r"static\s+const\s+uint8_t\s+MSG_SCHEDULE\s*\[\s*7\s*\]\s*\[\s*16\s*\]\s*=", hdr, "blake3_impl.h MSG_SCHEDULE")

    def array_read(self, ast, env, name):
        arr, idx = ast[1], ast[2]
        if arr[0] != "var" or arr[1] not in env or env[arr[1]][0][0] != "a":
            raise AnchorError(f"{name}: indexing of something that is not an array parameter: {ast!r}")
        (_, lanes, size), st = env[arr[1]]
        if idx[0] == "num":
            if not idx[1] < size:
                raise AnchorError(f"{name}: index {idx[1]} out of the bounds of {arr[1]}[{size}]")
            st["literal"] = True
            if st.get("whole") is not None:
                return f"(vk {st['whole']} {idx[1]})", ("v", lanes)
            if st["cur"] is None:
                raise AnchorError(f"{name}: read of the uninitialised array {arr[1]}")
            return st["cur"][idx[1]], ("v", lanes)
        # m[(size_t)MSG_SCHEDULE[r][k]]  /  m[MSG_SCHEDULE[r][k] as usize]
        want = "size_t" if self.lang == "c" else "usize"
        if (idx[0] == "cast" and idx[1] == want and idx[2][0] == "index" and idx[2][2][0] == "num"
                and idx[2][1][0] == "index" and idx[2][1][1] == ("var", "MSG_SCHEDULE") and idx[2][1][2][0] == "var"):
            r, k = idx[2][1][2][1], idx[2][2][1]
            if r not in env or env[r][1] != "nat":
                raise AnchorError(f"{name}: MSG_SCHEDULE row {r!r} is not the round-number parameter")
            if not k < 16 or size != 16:
                raise AnchorError(f"{name}: MSG_SCHEDULE column {k} / array of {size} vectors")
            if st["stored"]:
                raise AnchorError(f"{name}: {arr[1]} is both stored into and indexed by the message schedule")
            self.msg_schedule_ok(name)
            st["sched"] = True
            return (f"(mw [] {arr[1]} {r} {k})" if self.lang == "rs" else f"(c_mw {arr[1]} {r} {k})"), ("v", lanes)
        raise AnchorError(f"{name}: unsupported index expression {idx!r}")

    def array_function(self, fname, style):
        """void function over arrays of registers -> Coq function returning the final contents of the one array
           that is stored into.  Returns (coq name, [parameter names], lanes, size of the result array)."""
        name = f"{self.rel}:{fname}"
        if self.lang == "c":
            hdr = r"(?:\bINLINE|\bstatic\s+inline|\bstatic)\s+void\s+" + re.escape(fname) + r"\s*\(([^()]*)\)\s*\{"
        else:
            hdr = r"\bfn\s+" + re.escape(fname) + r"\s*\(([^()]*)\)\s*\{"
        ms = list(re.finditer(hdr, self.text))
        if len(ms) != 1:
            raise AnchorError(f"anchor {name}: {len(ms)} definitions found")
        body = fn_body(self.text, hdr, name).strip()
        env, params, names = {}, [], set()
        for p in _split_top(ms[0].group(1), ",", name):
            if not p.strip():
                continue
            if self.lang == "c":
                pm = re.fullmatch(r"\s*([A-Za-z_]\w*)\s+([A-Za-z_]\w*)\s*(?:\[\s*(\w+)\s*\])?\s*", p)
                if not pm:
                    raise AnchorError(f"{name}: cannot parse parameter {p!r}")
                ty, x, size, mut = pm.group(1), pm.group(2), pm.group(3), True
            else:
                pm = re.fullmatch(r"\s*([A-Za-z_]\w*)\s*:\s*(?:&\s*(mut\s+)?\[\s*([A-Za-z_]\w*)\s*;\s*(\w+)\s*\]|([A-Za-z_]\w*))\s*", p)
                if not pm:
                    raise AnchorError(f"{name}: cannot parse parameter {p!r}")
                x, mut = pm.group(1), bool(pm.group(2))
                ty, size = (pm.group(3), pm.group(4)) if pm.group(3) else (pm.group(5), None)
            x = self.ident(x, name)
            if size is not None:
                t = self.c_type(ty, name) if self.lang == "c" else self.rs_type(ty, name)
                if t[0] != "v":
                    raise AnchorError(f"{name}: array parameter {p!r} is not an array of registers")
                n = self.const_usize(size, name)
                if style == "match":
                    cur = [f"{x}{i}" for i in range(n)]
                    for c in cur:
                        names.add(c)
                else:
                    cur = [f"(vk {x} {i})" for i in range(n)]
                env[x] = (("a", t[1], n), {"cur": cur, "mut": mut, "stored": set(), "literal": False, "sched": False})
                params.append((x, "list vec"))
            else:
                t = self.c_type(ty, name) if self.lang == "c" else self.rs_type(ty, name)
                if t != ("u", 64):
                    raise AnchorError(f"{name}: unsupported scalar parameter {p!r}")
                env[x] = (t, "nat")          # only usable as the row of MSG_SCHEDULE
                params.append((x, "nat"))
            if x in names:
                raise AnchorError(f"{name}: name clash on {x}")
            names.add(x)
        if self.lang == "rs":
            while True:
                um = re.fullmatch(r"unsafe\s*\{(.*)\}", body, re.S)
                if not um:
                    break
                try:
                    _split_top(um.group(1), ";", name)
                except AnchorError:
                    break
                body = um.group(1).strip()
        stmts = [s.strip() for s in _split_top(body, ";", name)]
        if stmts[-1] != "":
            raise AnchorError(f"{name}: trailing text {stmts[-1]!r}")

        def fresh(x):
            if x in names:
                raise AnchorError(f"{name}: redeclaration of / name clash on {x}")
            names.add(x)
            return x
        lets = []
        for st in stmts[:-1]:
            sm = re.fullmatch(r"([A-Za-z_]\w*)\s*\[\s*([0-9]+)\s*\]\s*=(?!=)\s*(.*)", st, re.S)
            if sm:                                                   # arr[i] = e
                a, i = sm.group(1), int(sm.group(2))
                if a not in env or env[a][0][0] != "a":
                    raise AnchorError(f"{name}: store into {a}, which is not an array parameter")
                (_, lanes, size), ast_ = env[a]
                if not ast_["mut"]:
                    raise AnchorError(f"{name}: store through the shared reference {a}")
                if ast_["sched"]:
                    raise AnchorError(f"{name}: {a} is both stored into and indexed by the message schedule")
                if not i < size:
                    raise AnchorError(f"{name}: index {i} out of the bounds of {a}[{size}]")
                e, k = self.vexpr(vparse(sm.group(3), name, self.lang), env, name)
                if k != ("v", lanes):
                    raise AnchorError(f"{name}: value of kind {k} stored into {a}[{i}]")
                x = f"{a}{i}" if style == "match" else f"{a}_{i}"
                if style != "match" and i not in ast_["stored"]:
                    fresh(x)
                lets.append((x, e))
                ast_["cur"][i] = x
                ast_["stored"].add(i)
                ast_["literal"] = True
                continue
            if self.lang == "c":
                sm = re.fullmatch(r"((?:const\s+)?[A-Za-z_]\w*)\s+([A-Za-z_]\w*)\s*=(?!=)\s*(.*)", st, re.S)
                tm = None
            else:
                sm = re.fullmatch(r"let\s+([A-Za-z_]\w*)\s*()=(?!=)\s*(.*)", st, re.S)
                tm = re.fullmatch(r"let\s*\(\s*([A-Za-z_]\w*)\s*,\s*([A-Za-z_]\w*)\s*,?\s*\)\s*=(?!=)\s*(.*)", st, re.S)
            if tm:                                                   # let (x, y) = helper(...)
                ast = vparse(tm.group(3), name, "rs")
                if ast[0] != "call" or ast[1] in INTRINSICS:
                    raise AnchorError(f"{name}: unsupported tuple initialiser {ast!r}")
                coq, kinds, ret, monadic = self.function(ast[1])
                if monadic or not isinstance(ret, list) or len(ret) != 2 or len(kinds) != len(ast[2]):
                    raise AnchorError(f"{name}: {ast[1]} is not a helper returning a pair of registers")
                args = []
                for kind, a in zip(kinds, ast[2]):
                    t, k = self.vexpr(a, env, name)
                    if k != kind:
                        raise AnchorError(f"{name}: {ast[1]}: operand of kind {k}, expected {kind}")
                    args.append(t)
                x, y = self.ident(tm.group(1), name), self.ident(tm.group(2), name)
                fresh(x)
                fresh(y)
                lets.append((f"'({x}, {y})", "(" + " ".join([coq] + args) + ")"))
                env[x], env[y] = (ret[0], "V"), (ret[1], "V")
                continue
            if sm:                                                   # T x = e  /  let x = e
                x = self.ident(sm.group(2) if self.lang == "c" else sm.group(1), name)
                e, k = self.vexpr(vparse(sm.group(3), name, self.lang), env, name)
                if self.lang == "c" and self.c_type(sm.group(1), name) != k:
                    raise AnchorError(f"{name}: {x}: value of kind {k}, declared {sm.group(1)}")
                fresh(x)
                lets.append((x, e))
                env[x] = (k, "V")
                continue
            raise AnchorError(f"{name}: unrecognised statement {st!r}")
        outs = [(x, t, st) for x, (t, st) in env.items() if t[0] == "a" and st["stored"]]
        if len(outs) != 1:
            raise AnchorError(f"{name}: {len(outs)} arrays are stored into, expected one")
        x, (_, lanes, size), st = outs[0]
        for y, (t, sty) in env.items():
            if t[0] == "a" and not (sty["literal"] or sty["sched"]):
                raise AnchorError(f"{name}: array parameter {y} is never used")
            if t[0] == "a" and y != x and sty["literal"] and style == "match":
                raise AnchorError(f"{name}: literal indexing of a second array {y} is not supported")
        coq = f"{self.prefix}_{fname}"
        ptxt = "".join(f" ({y} : {cty})" for y, cty in params)
        d = f"(* {self.rel}: {fname} *)\nDefinition {coq}{ptxt} : list vec :=\n"
        result = "[" + "; ".join(st["cur"]) + "]"
        if style == "match":
            d += f"  match {x} with\n  | [" + "; ".join(f"{x}{i}" for i in range(size)) + "] =>\n"
            d += "".join(f"    let {v} := {e} in\n" for v, e in lets) + f"    {result}\n  | _ => {x}\n  end.\n"
        else:
            d += "".join(f"  let {v} := {e} in\n" for v, e in lets) + f"  {result}.\n"
        self.order.append(d)
        sig = [(env[y][0] if cty == "list vec" else "nat") for y, cty in params]
        self.afun[fname] = (coq, sig, [y for y, _ in params].index(x))
        return coq, [y for y, _ in params], lanes, size

    # ---- regions: straight-line code over registers, arrays of registers and byte pointers ----------
    # (transpose_msg_vecs*, the per-block body of hashN).  Offsets into the inputs are `nat` (pointer
    # arithmetic is not range-checked by the code either); a pointer is a pair (byte list, offset).
    LOADS = {"_mm_loadu_si128": ("mm_loadu_si128", 4, "__m128i"), "_mm256_loadu_si256": ("mm256_loadu_si256", 8, "__m256i"),
             "_mm512_loadu_si512": ("mm512_loadu_si512", 16, "__m512i")}

    def loader(self, fname):
        """file-local `loadu`: one unaligned load through a byte pointer -> (coq name, lanes), else None"""
        if not hasattr(self, "loaders"):
            self.loaders = {}
        if fname in self.loaders:
            return self.loaders[fname]
        r = None
        if fname not in INTRINSICS and not fname.startswith("_mm") and re.fullmatch(r"[A-Za-z_]\w*", fname):
            if self.lang == "c":
                pat = (r"(?:\bINLINE|\bstatic\s+inline|\bstatic)\s+(__m\d+i)\s+" + re.escape(fname) +
                       r"\s*\(\s*const\s+uint8_t\s+(\w+)\s*\[\s*\d+\s*\]\s*\)\s*\{\s*return\s+(_mm\d*_loadu_si\d+)\s*\(\s*"
                       r"\(\s*(?:const\s+__m\d+i\s*\*|void\s*\*)\s*\)\s*\2\s*\)\s*;\s*\}")
                ms = [(m.group(1), m.group(3)) for m in re.finditer(pat, self.text)]
            else:
                pat = (r"\bfn\s+" + re.escape(fname) + r"\s*\(\s*(\w+)\s*:\s*\*const\s+u8\s*\)\s*->\s*(__m\d+i)\s*\{\s*"
                       r"(?:unsafe\s*\{\s*)?(_mm\d*_loadu_si\d+)\s*\(\s*\1\s+as\s+\*const\s+(__m\d+i)\s*\)\s*\}?\s*\}")
                ms = [(m.group(2), m.group(3)) for m in re.finditer(pat, self.text) if m.group(2) == m.group(4)]
            if len(ms) == 1 and ms[0][1] in self.LOADS and self.LOADS[ms[0][1]][2] == ms[0][0]:
                intr, lanes, _ = self.LOADS[ms[0][1]]
                coq = f"{self.prefix}_{fname}"
                self.order.append(f"(* {self.rel}: {fname} *)\nDefinition {coq} (src : list N) (src_off : nat) : vec :=\n"
                                  f"  ({intr} src src_off).\n")
                self.used.add(ms[0][1])
                r = (coq, lanes)
        self.loaders[fname] = r
        return r

    def nat_expr(self, ast, env, name):
        k = ast[0]
        if k == "num":
            return str(ast[1])
        if k == "var" and ast[1] in env:
            if env[ast[1]][1] != "nat":
                raise AnchorError(f"{name}: {ast[1]} is not a size_t / usize variable")
            return ast[1]
        if k == "var" and ast[1] == "DEGREE":
            return str(self.const_usize("DEGREE", name))
        if k == "var" and ast[1] == "BLAKE3_BLOCK_LEN" and self.lang == "c":
            self.c_scalar(ast, env, name)               # provenance checks
            return "(N.to_nat c_BLOCK_LEN)"
        if k == "var" and ast[1] == "BLOCK_LEN" and self.lang == "rs":
            self.rs_crate_const("BLOCK_LEN", name)
            return "(N.to_nat rs_BLOCK_LEN)"
        if k == "bin" and ast[1] in ("+", "*"):
            return f"({self.nat_expr(ast[2], env, name)} {ast[1]} {self.nat_expr(ast[3], env, name)})"
        if k == "call" and ast[1] == "sizeof" and self.lang == "c" and len(ast[2]) == 1 and ast[2][0][0] == "var" \
                and ast[2][0][1] in C_VECTOR and C_VECTOR[ast[2][0][1]][0] == "v":
            return str(4 * C_VECTOR[ast[2][0][1]][1])
        raise AnchorError(f"{name}: unsupported offset expression {ast!r}")

    def ptr_expr(self, ast, env, name):
        """&inputs[i][off]  /  inputs[i].add(off)  ->  (byte list, offset)"""
        if self.lang == "c" and ast[0] == "un" and ast[1] == "&" and ast[2][0] == "index":
            base, off = ast[2][1], ast[2][2]
        elif self.lang == "rs" and ast[0] == "meth" and ast[2] == "add" and len(ast[3]) == 1:
            base, off = ast[1], ast[3][0]
        else:
            raise AnchorError(f"{name}: unsupported pointer expression {ast!r}")
        if not (base[0] == "index" and base[1][0] == "var" and base[1][1] in env and env[base[1][1]][1] == "bytes2"
                and base[2][0] == "num"):
            raise AnchorError(f"{name}: unsupported pointer base {base!r}")
        n = env[base[1][1]][0][1]
        if n is not None and not base[2][1] < n:
            raise AnchorError(f"{name}: input index {base[2][1]} out of bounds")
        return f"(inp {base[1][1]} {base[2][1]})", f"({self.nat_expr(off, env, name)})%nat"

    def split_items(self, body, name):
        """top level of a block: ('stmt', text) up to each `;`, ('block', header, body) for for/if/while, ('tail', text)"""
        items, i, n = [], 0, len(body)
        while True:
            while i < n and body[i].isspace():
                i += 1
            if i >= n:
                return items
            if re.match(r"(?:for|if|while)\b", body[i:]):
                j, depth = i, 0
                while j < n and not (body[j] == "{" and depth == 0):
                    depth += body[j] in "([" 
                    depth -= body[j] in ")]"
                    j += 1
                k, d = j, 0
                while k < n:
                    d += body[k] == "{"
                    d -= body[k] == "}"
                    if d == 0:
                        break
                    k += 1
                if j >= n or k >= n:
                    raise AnchorError(f"{name}: unbalanced block")
                items.append(("block", " ".join(body[i:j].split()), body[j + 1:k].strip()))
                i = k + 1
                continue
            j, depth = i, 0
            while j < n and not (body[j] == ";" and depth == 0):
                depth += body[j] in "([{"
                depth -= body[j] in ")]}"
                j += 1
            if j >= n:
                items.append(("tail", body[i:].strip()))
                return items
            items.append(("stmt", body[i:j].strip()))
            i = j + 1

    @staticmethod
    def new_array(lanes, size, cur=None, whole=None, mut=True):
        return (("a", lanes, size), {"cur": cur, "whole": whole, "mut": mut, "stored": set(), "literal": False, "sched": False})

    def region(self, items, env, names, name):
        """-> (list of (binder, term), tail text or None); env is updated"""
        lets, squares, tail = [], {}, None

        def fresh(x):
            x = self.ident(x, name)
            if x in names:
                raise AnchorError(f"{name}: redeclaration of / name clash on {x}")
            names.add(x)
            return x

        def elems(a, k, n):
            (_, lanes, size), st = env[a]
            if k + n > size:
                raise AnchorError(f"{name}: slice {a}[{k}..{k + n}] out of bounds")
            if st["whole"] is not None:
                return [f"(vk {st['whole']} {i})" for i in range(k, k + n)]
            if st["cur"] is None:
                raise AnchorError(f"{name}: use of the uninitialised array {a}")
            return st["cur"][k:k + n]

        def whole_term(a):
            (_, lanes, size), st = env[a]
            return st["whole"] if st["whole"] is not None else "[" + "; ".join(elems(a, 0, size)) + "]"

        def elementwise(a):
            (_, lanes, size), st = env[a]
            if st["whole"] is not None:
                st["cur"], st["whole"] = [f"(vk {st['whole']} {i})" for i in range(size)], None
            elif st["cur"] is None:
                st["cur"] = [None] * size

        def array_literal(text, what):
            parts = [q.strip() for q in _split_top(text, ",", name)]
            if parts and parts[-1] == "":
                parts.pop()
            es = [self.vexpr(vparse(q, name, self.lang), env, name) for q in parts]
            kinds = {k for _, k in es}
            if len(kinds) != 1 or next(iter(kinds))[0] != "v":
                raise AnchorError(f"{name}: {what}: not an array of registers of one width")
            return [e for e, _ in es], next(iter(kinds))[1]

        def classify(arg):
            arg = arg.strip()
            if self.lang == "c":
                m = re.fullmatch(r"&\s*([A-Za-z_]\w*)\s*\[\s*([0-9]+)\s*\]", arg)
                if m and m.group(1) in env and env[m.group(1)][0][0] == "a":
                    return ("slice", m.group(1), int(m.group(2)))
                x = arg
            else:
                m = re.fullmatch(r"([A-Za-z_]\w*)\s*\.\s*([0-9]+)", arg)
                if m and m.group(1) in squares:
                    a, n, cnt = squares[m.group(1)]
                    if not int(m.group(2)) < cnt:
                        raise AnchorError(f"{name}: {arg}: no such sub-array")
                    return ("slice", a, n * int(m.group(2)), n)
                m = re.fullmatch(r"&\s*(mut\s+)?([A-Za-z_]\w*)", arg)
                x = m.group(2) if m else arg
                if m and not (x in env and env[x][0][0] == "a"):
                    raise AnchorError(f"{name}: reference to {x}, which is not an array")
                if m and m.group(1) and not env[x][1]["mut"]:
                    raise AnchorError(f"{name}: &mut of the immutable {x}")
            if x in env and env[x][0][0] == "a":
                return ("whole", x)
            if x in env and env[x][1] == "bytes2":
                return ("bytes2", x)
            return ("nat", self.nat_expr(vparse(arg, name, self.lang), env, name))

        def call(fname, argtext, bind=None):
            """statement `f(args)` (bind None) or `let bind = f(args)` for a function over arrays"""
            if fname not in self.afun:
                raise AnchorError(f"{name}: call of {fname}, which is not a translated function over arrays")
            coq, sig, outi = self.afun[fname]
            args = [classify(a) for a in _split_top(argtext, ",", name) if a.strip()]
            if len(args) != len(sig):
                raise AnchorError(f"{name}: {fname} takes {len(sig)} arguments, {len(args)} given")
            texts, target = [], None
            for i, (kind, a) in enumerate(zip(sig, args)):
                if kind == "nat":
                    if a[0] != "nat":
                        raise AnchorError(f"{name}: {fname}: argument {i} is not an integer")
                    texts.append(a[1] if re.fullmatch(r"\w+", a[1]) else f"({a[1]})%nat")
                elif kind == "bytes2":
                    if a[0] != "bytes2":
                        raise AnchorError(f"{name}: {fname}: argument {i} is not the array of input pointers")
                    texts.append(a[1])
                else:
                    tag, lanes, size = kind
                    if a[0] == "whole":
                        (_, al, asz), st = env[a[1]]
                        sl = (a[1], 0, True)
                    elif a[0] == "slice":
                        (_, al, asz), st = env[a[1]]
                        if len(a) == 4 and a[3] != size:
                            raise AnchorError(f"{name}: {fname}: sub-array of {a[3]} registers, expected {size}")
                        sl, asz = (a[1], a[2], False), size
                    else:
                        raise AnchorError(f"{name}: {fname}: argument {i} is not an array")
                    if (al, asz) != (lanes, size):
                        raise AnchorError(f"{name}: {fname}: argument {i} has {asz} x {al} lanes, expected {size} x {lanes}")
                    if tag == "a":
                        texts.append(whole_term(sl[0]) if sl[2] else "[" + "; ".join(elems(sl[0], sl[1], size)) + "]")
                    if i == outi:
                        target = (sl, size)
            if (outi is None) != (bind is not None):
                raise AnchorError(f"{name}: {fname}: result {'ignored' if outi is None else 'of a void function used'}")
            term = "(" + " ".join([coq] + texts) + ")"
            if bind is not None:
                return term
            (a, k, whole), size = target
            st = env[a][1]
            if not st["mut"]:
                raise AnchorError(f"{name}: {fname} modifies the immutable {a}")
            if whole:
                lets.append((a, term))            # rebinds the name of the array
                st["whole"], st["cur"] = a, None
            else:
                x = f"{a}_sq{k}"
                if x not in names:
                    names.add(x)
                lets.append((x, term))
                elementwise(a)
                for j in range(size):
                    st["cur"][k + j] = f"(vk {x} {j})"
            st["stored"] |= set(range(k, k + size))
            return None

        for it in items:
            if tail is not None:
                raise AnchorError(f"{name}: statement after the tail expression")
            if it[0] == "tail":
                tail = it[1]
                continue
            if it[0] == "block":
                hd, blk = it[1], " ".join(it[2].split())
                if self.lang == "c":
                    hm = re.fullmatch(r"for \(size_t (\w+) = 0; \1 < (\w+); \+\+\1\)", hd)
                    bm = hm and re.fullmatch(r"_mm_prefetch\(\(const void \*\)&(\w+)\[" + hm.group(1) +
                                             r"\]\[(\w+) \+ 256\], _MM_HINT_T0\);", blk)
                else:
                    hm = re.fullmatch(r"for (\w+) in 0\.\.(\w+)", hd)
                    bm = hm and re.fullmatch(r"_mm_prefetch\( ?(\w+)\[" + hm.group(1) +
                                             r"\]\.wrapping_add\((\w+) \+ 256\) as \*const i8, _MM_HINT_T0,? ?\);", blk)
                if not (hm and bm and bm.group(1) in env and env[bm.group(1)][1] == "bytes2"
                        and bm.group(2) in env and env[bm.group(2)][1] == "nat"):
                    raise AnchorError(f"{name}: unrecognised block {hd!r} {{ {blk!r} }}")
                continue                           # prefetch hints only: no architectural effect
            st_ = it[1]
            sm = re.fullmatch(r"([A-Za-z_]\w*)\s*\[\s*([0-9]+)\s*\]\s*=(?!=)\s*(.*)", st_, re.S)
            if sm and sm.group(1) in env and env[sm.group(1)][0][0] == "a":           # arr[i] = e
                a, i = sm.group(1), int(sm.group(2))
                (_, lanes, size), ast_ = env[a]
                if not ast_["mut"] or not i < size:
                    raise AnchorError(f"{name}: bad store {st_!r}")
                e, k = self.vexpr(vparse(sm.group(3), name, self.lang), env, name)
                if k != ("v", lanes):
                    raise AnchorError(f"{name}: value of kind {k} stored into {a}[{i}]")
                x = f"{a}_{i}"
                if x not in names:
                    names.add(x)
                lets.append((x, e))
                elementwise(a)
                ast_["cur"][i] = x
                ast_["stored"].add(i)
                continue
            sm = re.fullmatch(r"([A-Za-z_]\w*)\s*\((.*)\)", st_, re.S)
            if sm and sm.group(1) in self.afun:                                        # f(args);
                call(sm.group(1), sm.group(2))
                continue
            if self.lang == "c":
                sm = re.fullmatch(r"(__m\d+i)\s+([A-Za-z_]\w*)\s*\[\s*(\w+)\s*\]\s*(?:=\s*\{(.*)\}\s*)?", st_, re.S)
                if sm:                                                                 # T x[n];  T x[n] = {...};
                    t, x, n = self.c_type(sm.group(1), name), fresh(sm.group(2)), self.const_usize(sm.group(3), name)
                    if sm.group(4) is None:
                        env[x] = self.new_array(t[1], n)
                    else:
                        es, lanes = array_literal(sm.group(4), x)
                        if lanes != t[1] or len(es) != n:
                            raise AnchorError(f"{name}: initialiser of {x}: {len(es)} x {lanes} lanes")
                        lets.append((x, "[" + ";\n     ".join(es) + "]"))
                        env[x] = self.new_array(t[1], n, whole=x)
                    continue
                sm = re.fullmatch(r"(__m\d+i)\s+([A-Za-z_]\w*)\s*=(?!=)\s*(.*)", st_, re.S)
                if sm:                                                                 # T x = e;
                    t, x = self.c_type(sm.group(1), name), sm.group(2)
                    e = self.c_rhs(sm.group(3), t, env, name)
                    lets.append((fresh(x), e))
                    env[x] = (t, "V")
                    continue
            else:
                sm = re.fullmatch(r"let\s+([A-Za-z_]\w*)\s*=\s*mut_array_refs!\s*\(\s*&mut\s+([A-Za-z_]\w*)\s*((?:,\s*\w+\s*)+),?\s*\)", st_, re.S)
                if sm:                                                                 # let squares = mut_array_refs!(&mut a, n, n, ..)
                    self.rs_macro_arrayref(name)
                    a = sm.group(2)
                    if a not in env or env[a][0][0] != "a" or not env[a][1]["mut"]:
                        raise AnchorError(f"{name}: mut_array_refs! of {a}")
                    ns = {self.const_usize(q, name) for q in sm.group(3).split(",") if q.strip()}
                    cnt = len([q for q in sm.group(3).split(",") if q.strip()])
                    if len(ns) != 1 or next(iter(ns)) * cnt != env[a][0][2]:
                        raise AnchorError(f"{name}: mut_array_refs! does not split {a} into equal parts")
                    squares[fresh(sm.group(1))] = (a, next(iter(ns)), cnt)
                    continue
                sm = re.fullmatch(r"let\s+(mut\s+)?([A-Za-z_]\w*)\s*=(?!=)\s*(.*)", st_, re.S)
                if sm:
                    x, rhs = sm.group(2), sm.group(3).strip()
                    am = re.fullmatch(r"\[(.*)\]", rhs, re.S)
                    cm = re.fullmatch(r"([A-Za-z_]\w*)\s*\((.*)\)", rhs, re.S)
                    if am:                                                             # let [mut] x = [e, ...];
                        es, lanes = array_literal(am.group(1), x)
                        lets.append((fresh(x), "[" + ";\n     ".join(es) + "]"))
                        env[x] = self.new_array(lanes, len(es), whole=x, mut=bool(sm.group(1)))
                    elif cm and cm.group(1) in self.afun:                              # let x = f(args): an array
                        coq, sig, outi = self.afun[cm.group(1)]
                        term = call(cm.group(1), cm.group(2), bind=x)
                        lets.append((fresh(x), term))
                        env[x] = self.new_array(self.afun_ret[cm.group(1)][0], self.afun_ret[cm.group(1)][1], whole=x,
                                                mut=bool(sm.group(1)))
                    else:                                                              # let x = e: a register
                        e, k = self.vexpr(vparse(rhs, name, "rs"), env, name)
                        lets.append((fresh(x), e))
                        env[x] = (k, "V")
                    continue
            raise AnchorError(f"{name}: unrecognised statement {st_!r}")
        return lets, tail

    def rs_macro_arrayref(self, name):
        m = find1(r"use\s+arrayref::\{([^}]*)\}", self.text, f"{name}.use arrayref")
        if "mut_array_refs" not in [x.strip() for x in m.group(1).split(",")] or re.search(r"macro_rules!\s*mut_array_refs\b", self.text):
            raise AnchorError(f"{name}: mut_array_refs is not arrayref's")

    def msg_function(self, fname, lanes):
        """transpose_msg_vecs*: (inputs, block_offset[, out]) -> the 16 message vectors"""
        name = f"{self.rel}:{fname}"
        if self.lang == "c":
            hdr = (r"(?:\bINLINE|\bstatic\s+inline|\bstatic)\s+void\s+" + re.escape(fname) +
                   r"\s*\(\s*const\s+uint8_t\s*\*\s*const\s*\*\s*(\w+)\s*,\s*size_t\s+(\w+)\s*,\s*(__m\d+i)\s+(\w+)\s*\[\s*16\s*\]\s*\)\s*\{")
        else:
            hdr = (r"\bfn\s+" + re.escape(fname) + r"\s*\(\s*(\w+)\s*:\s*&\s*\[\s*\*const\s+u8\s*;\s*(\w+)\s*\]\s*,\s*(\w+)\s*:\s*usize\s*,?\s*\)"
                   r"\s*->\s*\[\s*(__m\d+i)\s*;\s*16\s*\]\s*\{")
        ms = list(re.finditer(hdr, self.text))
        if len(ms) != 1:
            raise AnchorError(f"anchor {name}: {len(ms)} definitions found")
        m = ms[0]
        body = fn_body(self.text, hdr, name).strip()
        env, names = {}, set()
        if self.lang == "c":
            inputs, off, ty, out = m.group(1), m.group(2), m.group(3), m.group(4)
            t = self.c_type(ty, name)
            env[self.ident(out, name)] = self.new_array(t[1], 16)
            env[self.ident(inputs, name)] = (("pp", None), "bytes2")
        else:
            inputs, n, off, ty = m.group(1), self.const_usize(m.group(2), name), m.group(3), m.group(4)
            t, out = self.rs_type(ty, name), None
            if n != lanes:
                raise AnchorError(f"{name}: {n} input pointers for {lanes} lanes")
            env[self.ident(inputs, name)] = (("pp", n), "bytes2")
            um = re.fullmatch(r"unsafe\s*\{(.*)\}", body, re.S)
            if um:
                body = um.group(1).strip()
        if t != ("v", lanes):
            raise AnchorError(f"{name}: vectors of {t[1]} lanes, expected {lanes}")
        env[self.ident(off, name)] = (("u", 64), "nat")
        names |= set(env)
        lets, tail = self.region(self.split_items(body, name), env, names, name)
        if self.lang == "c":
            if tail:
                raise AnchorError(f"{name}: trailing text {tail!r}")
            res = out
        else:
            if not tail or tail not in env or env[tail][0] != ("a", lanes, 16):
                raise AnchorError(f"{name}: the tail expression {tail!r} is not the array of 16 vectors")
            res = tail
        st = env[res][1]
        if st["whole"] is None and (st["cur"] is None or None in st["cur"]):
            raise AnchorError(f"{name}: {res} is not completely initialised")
        result = st["whole"] if st["whole"] is not None else "[" + "; ".join(st["cur"]) + "]"
        coq = f"{self.prefix}_{fname}"
        d = f"(* {self.rel}: {fname} *)\nDefinition {coq} ({inputs} : list (list N)) ({off} : nat) : list vec :=\n"
        d += "".join(f"  let {v} := {e} in\n" for v, e in lets) + f"  {result}.\n"
        self.order.append(d)
        if self.lang == "c":
            self.afun[fname] = (coq, ["bytes2", "nat", ("out", lanes, 16)], 2)
        else:
            self.afun[fname] = (coq, ["bytes2", "nat"], None)
            if not hasattr(self, "afun_ret"):
                self.afun_ret = {}
            self.afun_ret[fname] = (lanes, 16)
        return coq

    def hash_block(self, fname, lanes):
        """hashN: the body of `for block in 0..blocks` between the `if block + 1 == blocks { block_flags |= flags_end }`
           prologue and the `block_flags = flags` epilogue (those two, and everything outside the loop, are the
           hand-written hashN_loop / hashN_gen of Model/Kernels.v), as a function of the loop-carried state."""
        name = f"{self.rel}:{fname}"
        if self.lang == "c":
            hdr = r"\bvoid\s+" + re.escape(fname) + r"\s*\(([^()]*)\)\s*\{"
        else:
            hdr = r"\bfn\s+" + re.escape(fname) + r"\s*\(([^()]*)\)\s*\{"
        ms = list(re.finditer(hdr, self.text))
        if len(ms) != 1:
            raise AnchorError(f"anchor {name}: {len(ms)} definitions found")
        body = fn_body(self.text, hdr, name).strip()
        ptypes = {}
        for p in _split_top(ms[0].group(1), ",", name):
            p = " ".join(p.split())
            if not p:
                continue
            if self.lang == "c":
                pm = re.fullmatch(r"(.*?)\s*\b([A-Za-z_]\w*)(\s*\[\s*\w+\s*\])?", p)
                ty, x = (pm.group(1).strip() + (" []" if pm.group(3) else "")), pm.group(2)
            else:
                pm = re.fullmatch(r"([A-Za-z_]\w*)\s*:\s*(.*)", p)
                x, ty = pm.group(1), pm.group(2).strip()
            ptypes[x] = ty
        if self.lang == "c":
            want = {"inputs": "const uint8_t *const *", "blocks": "size_t", "flags": "uint8_t", "flags_start": "uint8_t",
                    "flags_end": "uint8_t"}
            n_inputs = None
        else:
            want = {"inputs": "&[*const u8; DEGREE]", "blocks": "usize", "flags": "u8", "flags_start": "u8", "flags_end": "u8"}
            n_inputs = self.const_usize("DEGREE", name)
            if n_inputs != lanes:
                raise AnchorError(f"{name}: DEGREE = {n_inputs}, expected {lanes}")
            um = re.fullmatch(r"unsafe\s*\{(.*)\}", body, re.S)
            if um:
                body = um.group(1).strip()
        for x, ty in want.items():
            if ptypes.get(x) != ty:
                raise AnchorError(f"{name}: parameter {x} has type {ptypes.get(x)!r}, expected {ty!r}")
        items = self.split_items(body, name)
        flat = [" ".join(it[1].split()) for it in items if it[0] == "stmt"]
        vt = {4: "__m128i", 8: "__m256i", 16: "__m512i"}[lanes]
        if self.lang == "c":
            decls = [r"%s h_vecs\[8\] = \{.*\}" % vt, r"%s counter_low_vec, counter_high_vec" % vt,
                     r"uint8_t block_flags = flags \| flags_start"]
            loop_hd, if_hd = r"for \(size_t block = 0; block < blocks; block\+\+\)", r"if \(block \+ 1 == blocks\)"
        else:
            decls = [r"let mut h_vecs = \[ ?(?:\w+\(key\[[0-7]\]\), ?){8}\]",
                     r"let \(counter_low_vec, counter_high_vec\) = load_counters\(counter, increment_counter\)",
                     r"let mut block_flags = flags \| flags_start"]
            loop_hd, if_hd = r"for block in 0\.\.blocks", r"if block \+ 1 == blocks"
        for d in decls:
            if len([f for f in flat if re.fullmatch(d, f)]) != 1:
                raise AnchorError(f"{name}: declaration /{d}/ not found exactly once")
        loops = [it for it in items if it[0] == "block" and re.fullmatch(loop_hd, it[1])]
        if len(loops) != 1:
            raise AnchorError(f"{name}: {len(loops)} `for block` loops")
        inner = self.split_items(loops[0][2], name)
        if (len(inner) < 3 or inner[0][0] != "block" or not re.fullmatch(if_hd, inner[0][1])
                or " ".join(inner[0][2].split()) != "block_flags |= flags_end;"
                or inner[-1] != ("stmt", "block_flags = flags")):
            raise AnchorError(f"{name}: the loop does not have the shape  if last {{ block_flags |= flags_end }} ... block_flags = flags")
        env = {"h_vecs": self.new_array(lanes, 8, whole="h_vecs"),
               "counter_low_vec": (("v", lanes), "V"), "counter_high_vec": (("v", lanes), "V"),
               "block_flags": (("u", 8), "N"), "inputs": (("pp", n_inputs), "bytes2"), "block": (("u", 64), "nat")}
        names = set(env)
        lets, tail = self.region(inner[1:-1], env, names, name)
        if tail:
            raise AnchorError(f"{name}: trailing text {tail!r}")
        st = env["h_vecs"][1]
        if st["stored"] != set(range(8)) or st["whole"] is not None:
            raise AnchorError(f"{name}: the block does not store all of h_vecs[0..8]")
        coq = f"{self.prefix}_{fname}_block"
        d = (f"(* {self.rel}: {fname}, one iteration of `for block` (without the block_flags prologue / epilogue) *)\n"
             f"Definition {coq} (h_vecs : list vec) (counter_low_vec counter_high_vec : vec) (block_flags : N)\n"
             f"    (inputs : list (list N)) (block : nat) : list vec :=\n")
        d += "".join(f"  let {v} := {e} in\n" for v, e in lets) + "  [" + "; ".join(st["cur"]) + "].\n"
        self.order.append(d)
        return coq

    # ---- C -------------------------------------------------------------
    def c_type(self, words, name):
        ty = " ".join(w for w in words.split() if w != "const")
        if ty in C_SCALAR:
            return C_SCALAR[ty]
        if ty in C_VECTOR:
            return C_VECTOR[ty]
        raise AnchorError(f"{name}: unsupported type {words!r}")

    @staticmethod
    def c_promote(t):
        return ("s", 32) if t[1] < 32 else t

    @staticmethod
    def c_common(ta, tb):
        ta, tb = VecFile.c_promote(ta), VecFile.c_promote(tb)
        if ta == tb:
            return ta
        if ta[0] == tb[0]:
            return (ta[0], max(ta[1], tb[1]))
        u, s = (ta, tb) if ta[0] == "u" else (tb, ta)
        return u if u[1] >= s[1] else s

    @staticmethod
    def c_conv(text, frm, to):
        """conversion of a scalar value (integer Z of static type frm) to type `to` ('i': an intrinsic's
           int / __int64 parameter, whose semantics keeps the low bits: no conversion needed)"""
        if to == "i" or frm == to:
            return text
        if to == ("u", 1):
            return f"(Z.b2z (c_true {text}))"
        if to[0] == "u":
            if frm[0] == "u" and frm[1] <= to[1]:
                return text
            return f"(cast_u {to[1]} {text})"
        if frm[1] < to[1] or (frm[0] == "s" and frm[1] <= to[1]):
            return text
        return f"(cast_s {to[1]} {text})"

    def c_scalar(self, ast, env, name):
        """C integer expression -> (Z-valued Coq text, static type)"""
        k = ast[0]
        if k == "num":
            v, suf, ishex = ast[1], ast[2].lower(), ast[3]
            cands = [("s", 32), ("u", 32), ("s", 64), ("u", 64)]
            if "u" in suf:
                cands = [c for c in cands if c[0] == "u"]
            elif not ishex:
                cands = [c for c in cands if c[0] == "s"]
            if "l" in suf:
                cands = [c for c in cands if c[1] == 64]
            for sg, w in cands:
                if v < (1 << (w - 1 if sg == "s" else w)):
                    return (f"{hex(v) if ishex else v}%Z", (sg, w))
            raise AnchorError(f"{name}: literal {v} does not fit")
        if k == "var" and ast[1] == "BLAKE3_BLOCK_LEN" and ast[1] not in env:
            # blake3.h `#define BLAKE3_BLOCK_LEN 64` (gen/GenConsts.v c_BLOCK_LEN): an int constant
            if re.search(r"#\s*define\s+BLAKE3_BLOCK_LEN\b", self.text):
                raise AnchorError(f"{name}: file-local definition of BLAKE3_BLOCK_LEN")
            find1(r'#\s*include\s+"blake3_impl\.h"', self.text, f"{name}.include")
            find1(r'#\s*include\s+"blake3\.h"', strip_comments(src("c/blake3_impl.h")), "blake3_impl.h include blake3.h")
            return "(Z.of_N c_BLOCK_LEN)", ("s", 32)
        if (k == "index" and ast[1] == ("var", "IV") and "IV" not in env and ast[2][0] == "num" and ast[2][1] < 8):
            # blake3_impl.h `static const uint32_t IV[8]` (gen/GenConsts.v c_IV)
            if re.search(r"\bIV\s*\[[^\]]*\]\s*=", self.text):
                raise AnchorError(f"{name}: file-local definition of IV")
            find1(r'#\s*include\s+"blake3_impl\.h"', self.text, f"{name}.include")
            return f"(Z.of_N (nth {ast[2][1]} c_IV 0))", ("u", 32)
        if k == "var":
            if ast[1] not in env:
                raise AnchorError(f"{name}: unknown variable {ast[1]}")
            t, rep = env[ast[1]]
            if t[0] not in "su" or rep not in ("N", "bool", "Z"):
                raise AnchorError(f"{name}: {ast[1]} is not a scalar usable in an expression")
            return ({"N": f"(Z.of_N {ast[1]})", "bool": f"(Z.b2z {ast[1]})", "Z": ast[1]}[rep], t)
        if k == "cast":
            x, tx = self.c_scalar(ast[2], env, name)
            to = C_SCALAR[ast[1]]
            return self.c_conv(x, tx, to), to
        if k == "un":
            x, tx = self.c_scalar(ast[2], env, name)
            if ast[1] == "!":
                return f"(Z.b2z (negb (c_true {x})))", ("s", 32)
            t = self.c_promote(tx)
            op = {"-": "Z.opp", "~": "Z.lnot"}[ast[1]]
            # signed: exact (overflow only for -INT_MIN, undefined behaviour, not modelled)
            return (f"({op} {x})" if t[0] == "s" else f"(cast_u {t[1]} ({op} {x}))"), t
        if k == "bin" and ast[1] in (">>", "<<"):
            x, tx = self.c_scalar(ast[2], env, name)
            t = self.c_promote(tx)
            if ast[3][0] != "num" or not ast[3][1] < t[1]:
                raise AnchorError(f"{name}: shift count must be a literal below the width: {ast[3]!r}")
            if ast[1] == ">>":
                return f"(Z.shiftr {x} {ast[3][1]}%Z)", t
            if t[0] == "s":
                raise AnchorError(f"{name}: left shift of a signed value")
            return f"(cast_u {t[1]} (Z.shiftl {x} {ast[3][1]}%Z))", t
        if k == "bin" and ast[1] in ("+", "-", "*", "&", "|", "^"):
            x, tx = self.c_scalar(ast[2], env, name)
            y, ty = self.c_scalar(ast[3], env, name)
            t = self.c_common(tx, ty)
            x, y = self.c_conv(x, self.c_promote(tx), t), self.c_conv(y, self.c_promote(ty), t)
            op = {"+": "Z.add", "-": "Z.sub", "*": "Z.mul", "&": "Z.land", "|": "Z.lor", "^": "Z.lxor"}[ast[1]]
            r = f"({op} {x} {y})"
            # signed + - *: exact (overflow is undefined behaviour, not modelled)
            return (f"(cast_u {t[1]} {r})" if t[0] == "u" and ast[1] in "+-*" else r), t
        if k == "cond":
            c, _ = self.c_scalar(ast[1], env, name)
            x, tx = self.c_scalar(ast[2], env, name)
            y, ty = self.c_scalar(ast[3], env, name)
            t = self.c_common(tx, ty)
            x, y = self.c_conv(x, self.c_promote(tx), t), self.c_conv(y, self.c_promote(ty), t)
            return f"(if c_true {c} then {x} else {y})", t
        if k == "call":
            sa = lambda a, kind: self.c_conv(*self.c_scalar(a, env, name), kind)
            t, kind = self.call(ast[1], ast[2], env, name, sa)
            if kind[0] not in "su":
                raise AnchorError(f"{name}: {ast[1]} does not return a scalar")
            return t, kind
        raise AnchorError(f"{name}: cannot translate scalar expression {ast!r}")

    def c_function(self, fname, toplevel):
        name = f"{self.rel}:{fname}"
        hdr = (r"(?:\bINLINE|\bstatic\s+inline|\bstatic)\s+((?:const\s+)?[A-Za-z_]\w*(?:\s+[A-Za-z_]\w*)*?)\s+"
               + re.escape(fname) + r"\s*\(([^()]*)\)\s*\{")
        ms = list(re.finditer(hdr, self.text))
        if len(ms) != 1:
            raise AnchorError(f"anchor {name}: {len(ms)} definitions found")
        m = ms[0]
        body = fn_body(self.text, hdr, name)
        env, params, outs = {}, [], []
        for p in _split_top(m.group(2), ",", name):
            pm = re.fullmatch(r"\s*((?:const\s+)?[A-Za-z_][\w ]*?)\s*(\*?)\s*([A-Za-z_]\w*)\s*", p)
            if not pm:
                raise AnchorError(f"{name}: cannot parse parameter {p!r}")
            t, x = self.c_type(pm.group(1), name), self.ident(pm.group(3), name)
            if pm.group(2):
                if t[0] != "v":
                    raise AnchorError(f"{name}: pointer parameter {p!r} is not a vector output")
                outs.append((x, t))
                continue
            if t[0] in "vk":
                rep, cty = "V", _coq_kind(t)
            elif toplevel and t == ("u", 1):
                rep, cty = "bool", "bool"
            elif toplevel and t[0] == "u":
                rep, cty = "N", "N"
            else:
                rep, cty = "Z", "Z"
            env[x] = (t, rep)
            params.append((x, t, cty))
        rt = m.group(1).strip()
        ret = None if rt == "void" else self.c_type(rt, name)
        if (ret is None) == (not outs):
            raise AnchorError(f"{name}: expected either a return value or vector output parameters")
        lets, stored, result = [], {}, None
        stmts = [s.strip() for s in _split_top(body, ";", name)]
        if stmts[-1] != "":
            raise AnchorError(f"{name}: trailing text {stmts[-1]!r}")
        for st in stmts[:-1]:
            if result is not None:
                raise AnchorError(f"{name}: statement after return: {st!r}")
            sm = re.fullmatch(r"return\s+(.*)", st, re.S)
            if sm:
                if ret is None:
                    raise AnchorError(f"{name}: return with a value in a void function")
                result = self.c_rhs(sm.group(1), ret, env, name)
                continue
            sm = re.fullmatch(r"\*\s*([A-Za-z_]\w*)\s*=(?!=)\s*(.*)", st, re.S)
            if sm:
                x = sm.group(1)
                ot = dict(outs).get(x)
                if ot is None or x in stored:
                    raise AnchorError(f"{name}: bad store {st!r}")
                stored[x] = True
                lets.append((x, self.c_rhs(sm.group(2), ot, env, name)))
                continue
            sm = re.fullmatch(r"((?:const\s+)?[A-Za-z_]\w*(?:\s+[A-Za-z_]\w*)*?)\s+([A-Za-z_]\w*)\s*=(?!=)\s*(.*)", st, re.S)
            if sm:
                t, x = self.c_type(sm.group(1), name), self.ident(sm.group(2), name)
                if x in env or x in dict(outs):
                    raise AnchorError(f"{name}: redeclaration of {x}")
                lets.append((x, self.c_rhs(sm.group(3), t, env, name)))
                env[x] = (t, "Z" if t[0] in "su" else "V")
                continue
            sm = re.fullmatch(r"([A-Za-z_]\w*)\s*=(?!=)\s*(.*)", st, re.S)
            if sm and sm.group(1) in env and env[sm.group(1)][1] in ("Z", "V") and sm.group(1) not in [p[0] for p in params]:
                x = sm.group(1)
                lets.append((x, self.c_rhs(sm.group(2), env[x][0], env, name)))      # shadows the previous value
                continue
            raise AnchorError(f"{name}: unrecognised statement {st!r}")
        if ret is None:
            missing = [x for x, _ in outs if x not in stored]
            if missing:
                raise AnchorError(f"{name}: output(s) {missing} never stored")
            result = "(" + ", ".join(x for x, _ in outs) + ")"
            rkind, rty = [t for _, t in outs], " * ".join(_coq_kind(t) for _, t in outs)
        else:
            if result is None:
                raise AnchorError(f"{name}: no return statement")
            rkind, rty = ret, _coq_kind(ret)
        coq = f"{self.prefix}_{fname}"
        ptxt = "".join(f" ({x} : {cty})" for x, _, cty in params)
        d = f"(* {self.rel}: {fname} *)\nDefinition {coq}{ptxt} : {rty} :=\n"
        d += "".join(f"  let {x} := {e} in\n" for x, e in lets) + f"  {result}.\n"
        self.order.append(d)
        return coq, [t for _, t, _ in params], rkind, False

    def c_rhs(self, text, t, env, name):
        ast = vparse(text, name, "c")
        if t[0] in "vk":
            e, k = self.vexpr(ast, env, name)
            if k != t:
                raise AnchorError(f"{name}: value of kind {k} stored into a variable of kind {t}")
            return e
        return self.c_conv(*self.c_scalar(ast, env, name), t)

    # ---- Rust ----------------------------------------------------------
    # Unsigned Rust integers are N-valued and evaluated by the Base/MachInt.v operations (`emit`),
    # i.e. with the overflow checks of a debug build; each such evaluation is bound monadically, in
    # source (= evaluation) order, before the vector term is built.
    def rs_type(self, ty, name):
        ty = ty.strip()
        if ty in RS_SCALAR:
            return RS_SCALAR[ty]
        if ty in RS_VECTOR:
            return RS_VECTOR[ty]
        if ty == "IncrementCounter":
            return ("u", 1)
        raise AnchorError(f"{name}: unsupported type {ty!r}")

    def rs_base(self, ast, env, name):
        """AST of the MachInt translator (`emit`); only unsigned arithmetic"""
        k = ast[0]
        if k == "num":
            return ("num", ast[1])
        if k == "var":
            if ast[1] not in env or env[ast[1]][0][0] != "u" or env[ast[1]][0][1] == 1:
                raise AnchorError(f"{name}: {ast[1]} is not an unsigned integer variable")
            return ast
        if k == "bin" and ast[1] in BINOPS:
            return ("bin", ast[1], self.rs_base(ast[2], env, name), self.rs_base(ast[3], env, name))
        if k == "cast" and RS_SCALAR[ast[1]][0] == "u":
            return ("cast", RS_SCALAR[ast[1]][1], self.rs_base(ast[2], env, name))
        if k == "call" and ast[1] in ("counter_low", "counter_high") and len(ast[2]) == 1:
            self.rs_crate_fn(ast[1], name)
            return ("call", ast[1], [self.rs_base(ast[2][0], env, name)])
        raise AnchorError(f"{name}: cannot translate integer expression {ast!r}")

    def rs_crate_fn(self, f, name):
        """counter_low / counter_high must be the crate-level functions (GenFormulas.rs_counter_low/high)"""
        if re.search(r"\bfn\s+" + f + r"\b", self.text):
            raise AnchorError(f"{name}: file-local definition of {f}")
        m = find1(r"use\s+crate::\{([^}]*)\}", self.text, f"{name}.use")
        if f not in [x.strip() for x in m.group(1).split(",")]:
            raise AnchorError(f"{name}: {f} is not imported from the crate root")

    def rs_crate_const(self, c, name):
        """BLOCK_LEN / IV must be the crate-level constants (gen/GenConsts.v rs_BLOCK_LEN, rs_IV)"""
        if re.search(r"\b(?:const|static|let)\s+(?:mut\s+)?" + c + r"\b", self.text):
            raise AnchorError(f"{name}: file-local definition of {c}")
        m = find1(r"use\s+crate::\{([^}]*)\}", self.text, f"{name}.use")
        if c not in [x.strip() for x in m.group(1).split(",")]:
            raise AnchorError(f"{name}: {c} is not imported from the crate root")

    def rs_tenv(self, env):
        tenv = {x: t[1] for x, (t, rep) in env.items() if t[0] == "u" and t[1] > 1}
        tenv.update({"@counter_low": 32, "&counter_low": "rs_counter_low",
                     "@counter_high": 32, "&counter_high": "rs_counter_high"})
        return tenv

    def rs_nat(self, ast, want, env, name, items):
        """N-valued text of an unsigned integer expression of width `want`"""
        if ast[0] == "num":
            if not ast[1] < (1 << want):
                raise AnchorError(f"{name}: literal {ast[1]} does not fit in u{want}")
            return str(ast[1])
        if ast[0] == "var" and ast[1] in env and env[ast[1]][0] == ("u", want):
            return ast[1]
        if (ast[0] == "cast" and RS_SCALAR[ast[1]] == ("u", want) and ast[2][0] == "var" and ast[2][1] in env
                and env[ast[2][1]][0][0] == "u" and 1 < env[ast[2][1]][0][1] <= want and env[ast[2][1]][1] == "N"):
            return ast[2][1]                                  # `x as u32`, x: u8: the value itself
        if ast[0] == "cast" and RS_SCALAR[ast[1]] == ("u", 32) and want == 32 and ast[2] == ("var", "BLOCK_LEN") and "BLOCK_LEN" not in env:
            self.rs_crate_const("BLOCK_LEN", name)            # crate::BLOCK_LEN: usize, truncated to u32
            return "(w32 rs_BLOCK_LEN)"
        if (ast[0] == "index" and ast[1] == ("var", "IV") and "IV" not in env and ast[2][0] == "num" and ast[2][1] < 8
                and want == 32):
            self.rs_crate_const("IV", name)                   # crate::IV: [u32; 8]
            return f"(nth {ast[2][1]} rs_IV 0)"
        base = self.rs_base(ast, env, name)
        tenv = self.rs_tenv(env)
        w = width_of(base, tenv)
        if w != want:
            raise AnchorError(f"{name}: expression of width {w}, expected {want}: {ast!r}")
        if items is None:
            raise AnchorError(f"{name}: integer computation {ast!r} in a position that cannot panic")
        x = f"t{sum(1 for it in items if it[0] == 'bind')}"
        if x in env:
            raise AnchorError(f"{name}: name clash on {x}")
        items.append(("bind", x, emit(base, tenv, {}, name, want)))
        return x

    def rs_scalar_arg(self, ast, kind, env, name, items):
        if kind == "i":
            # argument of an intrinsic (i32 / i64): `<unsigned expr> as i32`, or a literal
            if ast[0] == "num":
                return f"{ast[1]}%Z"
            if ast[0] == "cast" and RS_SCALAR[ast[1]][0] == "s":
                inner = ast[2]
                if inner[0] == "var" and inner[1] in env and env[inner[1]][0][0] == "u" and env[inner[1]][0][1] > 1:
                    w = env[inner[1]][0][1]
                    n = inner[1]
                else:
                    base = self.rs_base(inner, env, name)
                    w = width_of(base, self.rs_tenv(env))
                    if w is None:
                        raise AnchorError(f"{name}: cannot infer the width of {inner!r}")
                    n = self.rs_nat(inner, w, env, name, items)
                return f"(cast_s {RS_SCALAR[ast[1]][1]} (Z.of_N {n}))"
            raise AnchorError(f"{name}: unsupported intrinsic argument {ast!r}")
        if kind[0] == "u" and kind[1] > 1:
            return self.rs_nat(ast, kind[1], env, name, items)
        raise AnchorError(f"{name}: unsupported argument kind {kind}")

    def rs_infer(self, asts, env, unknown, name):
        """widths of un-annotated `let` integers: both operands of a (non-shift) binary operator have one type"""
        def known(a):
            if a[0] == "var":
                return env[a[1]][0][1] if a[1] in env and env[a[1]][0][0] == "u" and a[1] not in unknown else None
            if a[0] == "cast":
                return RS_SCALAR[a[1]][1]
            if a[0] == "bin":
                return known(a[2]) if a[1] in ("<<", ">>") else (known(a[2]) or known(a[3]))
            if a[0] == "un":
                return known(a[2])
            return None

        def push(a, w):
            if a[0] == "var" and a[1] in unknown and unknown[a[1]] is None:
                unknown[a[1]] = w
            elif a[0] == "bin":
                push(a[2], w)
                if a[1] not in ("<<", ">>"):
                    push(a[3], w)
            elif a[0] == "un":
                push(a[2], w)

        def walk(a):
            if a[0] == "bin" and a[1] not in ("<<", ">>"):
                w = known(a)
                if w:
                    push(a, w)
            for sub in a[1:]:
                if isinstance(sub, tuple):
                    walk(sub)
                elif isinstance(sub, list):
                    for s2 in sub:
                        if isinstance(s2, tuple):
                            walk(s2)
        for _ in range(3):
            for a in asts:
                walk(a)
            for x, w in unknown.items():
                if w is not None:
                    env[x] = (("u", w), "N")
        missing = [x for x, w in unknown.items() if w is None]
        if missing:
            raise AnchorError(f"{name}: cannot infer the type of {missing}")

    def rs_function(self, fname, toplevel):
        name = f"{self.rel}:{fname}"
        hdr = r"\bfn\s+" + re.escape(fname) + r"\s*\(([^()]*)\)\s*(?:->\s*([^{;]+?))?\s*\{"
        ms = list(re.finditer(hdr, self.text))
        if len(ms) != 1:
            raise AnchorError(f"anchor {name}: {len(ms)} definitions found")
        m = ms[0]
        body = fn_body(self.text, hdr, name).strip()
        env, params = {}, []
        for p in _split_top(m.group(1), ",", name):
            if not p.strip():
                continue
            pm = re.fullmatch(r"\s*([A-Za-z_]\w*)\s*:\s*([A-Za-z_]\w*)\s*", p)
            if not pm:
                raise AnchorError(f"{name}: cannot parse parameter {p!r}")
            x, t = self.ident(pm.group(1), name), self.rs_type(pm.group(2), name)
            env[x] = (t, "V" if t[0] == "v" else ("bool" if t == ("u", 1) else "N"))
            params.append((x, t, "vec" if t[0] == "v" else ("bool" if t == ("u", 1) else "N")))
        if m.group(2) is None:
            raise AnchorError(f"{name}: no return type")
        rt = m.group(2).strip()
        tm = re.fullmatch(r"\((.*)\)", rt, re.S)
        rkind = [self.rs_type(t, name) for t in tm.group(1).split(",") if t.strip()] if tm else self.rs_type(rt, name)
        # peel `unsafe { ... }` blocks that wrap the whole remaining body
        while True:
            um = re.fullmatch(r"unsafe\s*\{(.*)\}", body, re.S)
            if not um:
                break
            try:
                _split_top(um.group(1), ";", name)
            except AnchorError:
                break
            body = um.group(1).strip()
        stmts = [s.strip() for s in _split_top(body, ";", name)]
        tail = stmts[-1]
        if not tail:
            raise AnchorError(f"{name}: no tail expression")
        parsed, unknown = [], {}
        for st in stmts[:-1]:
            sm = re.fullmatch(r"let\s+([A-Za-z_]\w*)\s*(?::\s*([A-Za-z_]\w*)\s*)?=(?!=)\s*(.*)", st, re.S)
            if not sm:
                raise AnchorError(f"{name}: unrecognised statement {st!r}")
            x = self.ident(sm.group(1), name)
            if x in env:
                raise AnchorError(f"{name}: rebinding of {x}")
            ast = vparse(sm.group(3), name, "rs")
            if sm.group(2):
                env[x] = (self.rs_type(sm.group(2), name), None)
            else:
                env[x] = (None, None)
            parsed.append((x, ast))
        tail_ast = vparse(tail, name, "rs")
        # classify the un-annotated lets: vector (a call returning a vector) or integer (inferred width)
        for x, ast in parsed:
            if env[x][0] is None:
                if ast[0] == "call":
                    env[x] = (("v", 0), "V?")
                else:
                    unknown[x] = None
                    env[x] = (("u", 0), "N")
        self.rs_infer([a for _, a in parsed] + [tail_ast], env, unknown, name)
        items = []
        for x, ast in parsed:
            t = env[x][0]
            if t[0] == "v":
                e, k = self.vexpr(ast, env, name, items)
                if env[x][1] != "V?" and k != t:
                    raise AnchorError(f"{name}: {x}: vector of kind {k}, declared {t}")
                env[x] = (k, "V")
                items.append(("let", x, e))
            elif t[0] == "u" and t[1] > 1:
                env_x = env.pop(x)             # not in scope in its own initialiser
                if ast[0] == "cond":
                    e = self.rs_cond(ast, t[1], env, name)
                    items.append(("let", x, e))
                else:
                    n = self.rs_nat(ast, t[1], env, name, items)
                    items.append(("let", x, n))
                env[x] = (t, "N")
            else:
                raise AnchorError(f"{name}: unsupported let {x}")
        if isinstance(rkind, list):
            if tail_ast[0] != "tuple" or len(tail_ast[1]) != len(rkind):
                raise AnchorError(f"{name}: the tail expression is not a {len(rkind)}-tuple")
            es = []
            for a, k in zip(tail_ast[1], rkind):
                e, k2 = self.vexpr(a, env, name, items)
                if k2 != k:
                    raise AnchorError(f"{name}: component of kind {k2}, expected {k}")
                es.append(e)
            result, rty = "(" + ", ".join(es) + ")", " * ".join(_coq_kind(k) for k in rkind)
        else:
            result, k2 = self.vexpr(tail_ast, env, name, items)
            if k2 != rkind:
                raise AnchorError(f"{name}: result of kind {k2}, expected {rkind}")
            rty = _coq_kind(rkind)
        monadic = any(it[0] == "bind" for it in items)
        coq = f"{self.prefix}_{fname}"
        ptxt = "".join(f" ({x} : {cty})" for x, _, cty in params)
        d = f"(* {self.rel}: {fname} *)\nDefinition {coq}{ptxt} : {'res (' + rty + ')' if monadic else rty} :=\n"
        for it in items:
            d += f"  let {it[1]} := {it[2]} in\n" if it[0] == "let" else f"  {it[1]} <- {it[2]} ;;\n"
        d += f"  Ok {result}.\n" if monadic else f"  {result}.\n"
        self.order.append(d)
        return coq, [t for _, t, _ in params], rkind, monadic

    def rs_cond(self, ast, w, env, name):
        """`if increment_counter.yes() { !0 } else { 0 }` with integer-constant branches of width w"""
        c = ast[1]
        if not (c[0] == "meth" and c[2] == "yes" and not c[3] and c[1][0] == "var"
                and env.get(c[1][1], (None,))[0] == ("u", 1)):
            raise AnchorError(f"{name}: unsupported condition {c!r}")
        rs_increment_counter_yes()

        def const(a):
            if a[0] == "num" and a[1] < (1 << w):
                return str(a[1])
            if a[0] == "un" and a[1] == "!" and a[2][0] == "num" and a[2][1] < (1 << w):
                return f"(N.lnot {a[2][1]} {w})"     # bitwise NOT of a u{w}
            raise AnchorError(f"{name}: unsupported branch {a!r}")
        return f"(if {c[1][1]} then {const(ast[2])} else {const(ast[3])})"


def rs_increment_counter_yes():
    """src/lib.rs: IncrementCounter::yes() is `Yes => true, No => false` (the models read it as a bool)"""
    lib = strip_comments(src("src/lib.rs"))
    find1(r"enum\s+IncrementCounter\s*\{\s*Yes\s*,\s*No\s*,?\s*\}", lib, "IncrementCounter")
    imp = fn_body(lib, r"impl\s+IncrementCounter\s*\{", "impl IncrementCounter")
    body = fn_body(imp, r"fn\s+yes\s*\(\s*&self\s*\)\s*->\s*bool\s*\{", "IncrementCounter::yes")
    find1(r"^\s*match\s+self\s*\{\s*IncrementCounter::Yes\s*=>\s*true\s*,\s*IncrementCounter::No\s*=>\s*false\s*,?\s*\}\s*$",
          body, "IncrementCounter::yes body")


COUNTER_FILES = [("c/blake3_sse2.c", "c", "c_sse2", ["load_counters"]),
                 ("c/blake3_sse41.c", "c", "c_sse41", ["load_counters"]),
                 ("c/blake3_avx2.c", "c", "c_avx2", ["load_counters"]),
                 ("c/blake3_avx512.c", "c", "c_avx512", ["load_counters4", "load_counters8", "load_counters16"]),
                 ("src/rust_sse2.rs", "rs", "rs_sse2", ["load_counters"]),
                 ("src/rust_sse41.rs", "rs", "rs_sse41", ["load_counters"]),
                 ("src/rust_avx2.rs", "rs", "rs_avx2", ["load_counters"])]


def gen_counters():
    out = ["(* GENERATED by tools/gen_coq.py (gen_counters) from the /repo working tree. Do not edit.\n"
           "   Every load_counters* function of the C-intrinsics and Rust-intrinsics back ends, translated statement by\n"
           "   statement (and every file-local helper they call) into terms over Model/Intrinsics.v.\n"
           "   C: integer expressions are Z-valued with explicit conversions; the result is the pair of output registers.\n"
           "   Rust: unsigned integers are evaluated by Base/MachInt.v (debug-build overflow checks), hence `res`. *)\n"
           "From Coq Require Import NArith ZArith List.\n"
           "From V Require Import Base.Res Base.MachInt gen.GenFormulas Model.Kernels Model.Intrinsics.\n"
           "Import ListNotations.\nOpen Scope N_scope.\n\n"]
    used, names = set(), []
    for rel, lang, prefix, fns in COUNTER_FILES:
        vf = VecFile(rel, lang, prefix)
        pat = r"\b(load_counters\w*)\s*\([^()]*\)\s*\{" if lang == "c" else r"\bfn\s+(load_counters\w*)\s*\("
        found = sorted(set(re.findall(pat, vf.text)))
        if found != sorted(fns):
            raise AnchorError(f"{rel}: load_counters functions {found}, expected {sorted(fns)}")
        for f in fns:
            coq, _, rkind, _ = vf.function(f, toplevel=True)
            if [k[0] for k in rkind] != ["v", "v"] or rkind[0] != rkind[1]:
                raise AnchorError(f"{rel}:{f}: expected two output registers of one width")
            names.append((coq, rkind[0][1]))
        out.extend(d + "\n" for d in vf.order)
        used |= vf.used
    out.append("(* translated functions and their lane counts: " + ", ".join(f"{c}/{n}" for c, n in names) + " *)\n")
    out.append("(* intrinsics that occur: " + ", ".join(sorted(used)) + " *)\n")
    return "".join(out)


# ---------------------------------------------------------------------------
# b3sum literals (C13 / C12): the characters and strings that define the checkfile format
# ---------------------------------------------------------------------------
def _rust_char(tok, name):
    esc = {"\\\\": 92, "\\n": 10, "\\r": 13, "\\t": 9, "\\0": 0, "\\'": 39, '\\"': 34}
    if tok in esc:
        return esc[tok]
    if len(tok) == 1:
        return ord(tok)
    raise AnchorError("%s: unsupported character literal %r" % (name, tok))


def _rust_str(body, name):
    out, i = [], 0
    while i < len(body):
        if body[i] == "\\":
            out.append(_rust_char(body[i:i + 2], name))
            i += 2
        else:
            out += list(body[i].encode())
            i += 1
    return out


def gen_b3sum_literals():
    text = src("b3sum/src/main.rs")
    t = strip_comments(text) if False else re.sub(r"(?m)^\s*//[^\n]*", "", text)
    out = [HEADER, "(* literals of b3sum/src/main.rs that define the checkfile format *)\n"]
    body = fn_body(t, r"fn filepath_to_string\s*\(", "b3_filepath_to_string")
    m = find1(r"filepath_string\.contains\(\[(.*?)\]\)", body, "b3_escape_guard")
    guard = [_rust_char(c, "b3_escape_guard") for c in re.findall(r"'((?:\\.|[^'\\]))'", m.group(1))]
    chain_txt = find1(r"filepath_string = filepath_string((?:\s*\.replace\('(?:\\.|[^'\\])', \"(?:\\.|[^\"\\])*\"\))+)\s*;\s*is_escaped = true;",
                      body, "b3_escape_chain").group(1)
    chain = [(_rust_char(a, "b3_escape_chain"), _rust_str(b, "b3_escape_chain"))
             for a, b in re.findall(r"\.replace\('((?:\\.|[^'\\]))', \"((?:\\.|[^\"\\])*)\"\)", chain_txt)]
    if not guard or not chain:
        raise AnchorError("b3_escape_guard / b3_escape_chain empty")
    out.append("Definition b3_escape_guard : list N := %s.\n" % coq_list(guard))
    out.append("Definition b3_escape_chain : list (N * list N) :=\n  [%s].\n" % "; ".join("(%d, %s)" % (a, coq_list(b)) for a, b in chain))
    body = fn_body(t, r"fn unescape\s*\(", "b3_unescape")
    find1(r"while let Some\(i\) = path\.find\('\\\\'\)", body, "b3_unescape.find_backslash")
    arms = re.findall(r"'((?:\\.|[^'\\]))' => unescaped\.push_str\(\"((?:\\.|[^\"\\])*)\"\)", body)
    find1(r"_ => bail!\(\"Invalid backslash escape\"\)", body, "b3_unescape.default_arm")
    if len(arms) != len(re.findall(r"=> unescaped\.push_str", body)):
        raise AnchorError("b3_unescape: unrecognised match arm")
    out.append("Definition b3_unescape_arms : list (N * list N) :=\n  [%s].\n"
               % "; ".join("(%d, %s)" % (_rust_char(a, "b3_unescape"), coq_list(_rust_str(b, "b3_unescape"))) for a, b in arms))
    body = fn_body(t, r"fn split_untagged_check_line\s*\(", "b3_split_untagged")
    m = find1(r"line_after_slash\.split_once\(\"((?:\\.|[^\"\\])*)\"\)", body, "b3_plain_sep")
    out.append("Definition b3_plain_sep : list N := %s.\n" % coq_list(_rust_str(m.group(1), "b3_plain_sep")))
    body = fn_body(t, r"fn split_tagged_check_line\s*\(", "b3_split_tagged")
    m1 = find1(r"let prefix = \"((?:\\.|[^\"\\])*)\";", body, "b3_tag_prefix")
    find1(r"if !line_after_slash\.starts_with\(prefix\)", body, "b3_tag_prefix.starts_with")
    m2 = find1(r"line_after_slash\[prefix\.len\(\)\.\.\]\.rsplit_once\(\"((?:\\.|[^\"\\])*)\"\)", body, "b3_tag_sep")
    out.append("Definition b3_tag_prefix : list N := %s.\n" % coq_list(_rust_str(m1.group(1), "b3_tag_prefix")))
    out.append("Definition b3_tag_sep : list N := %s.\n" % coq_list(_rust_str(m2.group(1), "b3_tag_sep")))
    # the printing side (hash_one_input): marker first, then either form
    body = fn_body(t, r"fn hash_one_input\s*\(", "b3_hash_one_input")
    m = find1(r"if is_escaped \{\s*print!\(\"((?:\\.|[^\"\\])*)\"\);\s*\}\s*if args\.tag\(\) \{\s*print!\(\"((?:\\.|[^\"\\])*)\", filepath_string\);"
              r"\s*write_hex_output\(output, args\)\?;\s*println!\(\);\s*return Ok\(\(\)\);\s*\}\s*write_hex_output\(output, args\)\?;\s*"
              r"println!\(\"((?:\\.|[^\"\\])*)\", filepath_string\);", body, "b3_print_layout")
    marker = _rust_str(m.group(1), "b3_print_layout")
    tagfmt, plainfmt = m.group(2), m.group(3)
    if tagfmt.count("{}") != 1 or plainfmt.count("{}") != 1 or not plainfmt.endswith("{}"):
        raise AnchorError("b3_print_layout: unexpected format strings")
    tp, ts = tagfmt.split("{}")
    out.append("Definition b3_print_marker : list N := %s.\n" % coq_list(marker))
    out.append("Definition b3_print_tag_prefix : list N := %s.\n" % coq_list(_rust_str(tp, "b3_print")))
    out.append("Definition b3_print_tag_sep : list N := %s.\n" % coq_list(_rust_str(ts, "b3_print")))
    out.append("Definition b3_print_plain_sep : list N := %s.\n" % coq_list(_rust_str(plainfmt[:-2], "b3_print")))
    # exit status (C12): one failure counter for the whole run, incremented once per failing line / input, passed down by
    # reference to every checkfile, and turned into the status by `if files_failed > 0 { 1 } else { 0 }`
    body = fn_body(t, r"fn main\(\)", "b3_main")
    find1(r"let mut files_failed = 0u64;", body, "b3_files_failed.init")
    find1(r"check_one_checkfile\(path, &args, &mut files_failed\)\?;", body, "b3_files_failed.passed_by_reference")
    if len(re.findall(r"files_failed\s*=[^=]", body)) != 2 or \
            not re.search(r"files_failed = files_failed\.saturating_add\(1\);", body):
        raise AnchorError("b3_files_failed: unexpected assignment to files_failed in main")
    m = find1(r"std::process::exit\(if files_failed > (\d+) \{ (\d+) \} else \{ (\d+) \}\);", body, "b3_exit_status")
    out.append("Definition b3_exit_status (files_failed : N) : N := if %s <? files_failed then %s else %s.\n" % m.groups())
    cbody = fn_body(t, r"fn check_one_checkfile\s*\(", "b3_check_one_checkfile")
    find1(r"\*files_failed = files_failed\.saturating_add\(1\);", cbody, "b3_files_failed.increment")
    return "".join(out)



# ---------------------------------------------------------------------------
# GenPortable.v: the portable compression function of src/portable.rs and c/blake3_portable.c,
# translated statement by statement (order, indices and rotation constants are the source's).
# Arrays are `list N` (Base/Arr.v: arr_get / arr_set / arr_store / arr_slice); u32 `wrapping_add`, C `+` on
# uint32_t -> add32; `^` -> xor32; `rotate_right(n)` -> rotr32; C `rotr32(x, n)` -> the translated c_rotr32;
# u32::from_le_bytes / load32 -> le_load32; to_le_bytes / store32 -> bytes_of_word (Base/Word.v).
# Every statement of a translated body must match one of the recognised shapes: anything else is an AnchorError.
# ---------------------------------------------------------------------------
def _p_split_top(text, sep):
    """split at `sep` outside (), [], {}"""
    parts, depth, cur = [], 0, ""
    for ch in text:
        if ch in "([{":
            depth += 1
        elif ch in ")]}":
            depth -= 1
        if ch == sep and depth == 0:
            parts.append(cur)
            cur = ""
        else:
            cur += ch
    parts.append(cur)
    return parts


def _fn_header(text, header_re, name):
    """(parameter text, text between the closing ')' and '{') of the first item whose header (ending in '(') matches"""
    m = find1(header_re, text, name)
    i = m.end() - 1
    if text[i] != "(":
        raise AnchorError(f"{name}: header pattern must end at '('")
    depth, j = 0, i
    while j < len(text):
        if text[j] == "(":
            depth += 1
        elif text[j] == ")":
            depth -= 1
            if depth == 0:
                break
        j += 1
    else:
        raise AnchorError(f"{name}: unbalanced parentheses")
    k = text.find("{", j)
    if k < 0:
        raise AnchorError(f"{name}: no body")
    return text[i + 1:j], text[j + 1:k].strip()


_IDENT = r"[A-Za-z_][A-Za-z0-9_]*"


class PFn:
    """One translated function.  kind[v] in {'arr','nat','word'}; `mut` = assignable arrays; `uninit` = C locals
    declared without initialiser -> indices not yet assigned."""

    def __init__(self, lang, coqname, text, header_re, consts, callees):
        self.lang, self.name, self.consts, self.callees = lang, coqname, consts, callees
        params, self.ret = _fn_header(text, header_re, coqname)
        self.body = fn_body(text, header_re, coqname)
        self.kind, self.width, self.mut, self.order, self.uninit = {}, {}, set(), [], {}
        self.lines = []
        for p in _p_split_top(params, ","):
            p = " ".join(p.split())
            if p:
                self._param(p)

    def err(self, msg):
        return AnchorError(f"{self.name}: {msg}")

    # ---- signature ----
    def _param(self, p):
        if self.lang == "rs":
            m = re.fullmatch(r"(%s)\s*:\s*(.+)" % _IDENT, p)
            if not m:
                raise self.err(f"parameter {p!r}")
            v, ty = m.group(1), m.group(2).strip()
            ma = re.fullmatch(r"&\s*(mut\s+)?(\[\s*(?:u8|u32)\s*;\s*\w+\s*\]|CVWords)", ty)
            if ma:
                self._decl(v, "arr", mutable=bool(ma.group(1)))
            elif ty == "usize":
                self._decl(v, "nat")
            elif ty in ("u8", "u32", "u64"):
                self._decl(v, "word", TYPES[ty])
            else:
                raise self.err(f"parameter type {ty!r}")
        else:
            m = re.fullmatch(r"(const\s+)?(uint8_t|uint32_t|uint64_t|size_t)\s*(\*)?\s*(%s)\s*(\[\s*\w*\s*\])?" % _IDENT, p)
            if not m:
                raise self.err(f"parameter {p!r}")
            const, ty, star, v, arr = m.groups()
            if star or arr:
                if ty not in ("uint8_t", "uint32_t"):
                    raise self.err(f"parameter {p!r}")
                self._decl(v, "arr", mutable=not const)
            elif ty == "size_t":
                self._decl(v, "nat")
            else:
                self._decl(v, "word", TYPES[ty])
        self.order.append(v)

    def _decl(self, v, kind, width=None, mutable=False):
        if v in self.consts:
            raise self.err(f"{v} shadows a constant")
        self.kind[v] = kind
        self.mut.discard(v)
        self.uninit.pop(v, None)
        if width:
            self.width[v] = width
        if mutable:
            self.mut.add(v)

    # ---- expressions ----
    def arr_name(self, ast, reading=True):
        if ast[0] != "var":
            raise self.err(f"not an array: {ast!r}")
        v = ast[1]
        if self.kind.get(v) == "arr":
            if reading and self.uninit.get(v):
                raise self.err(f"{v} read before all of its elements are assigned")
            return v
        if v in self.consts and v not in self.kind:
            return self.consts[v]
        raise self.err(f"unknown array {v}")

    def idx(self, ast):
        """index expression -> Gallina term of type nat"""
        k = ast[0]
        if k == "num":
            return f"{ast[1]}%nat"
        if k == "var" and self.kind.get(ast[1]) == "nat":
            return ast[1]
        if k == "index":
            return f"(N.to_nat (arr_get {self.arr_name(ast[1])} {self.idx(ast[2])}))"
        if k == "bin" and ast[1] in ("*", "+"):
            return f"{const_eval(ast, {}, self.name)}%nat"
        raise self.err(f"index expression {ast!r}")

    def word(self, ast):
        """u32 expression -> Gallina term of type N"""
        k = ast[0]
        rs, c = self.lang == "rs", self.lang == "c"
        if k == "var" and self.kind.get(ast[1]) == "word":
            return ast[1]
        if k == "index":
            return f"(arr_get {self.arr_name(ast[1])} {self.idx(ast[2])})"
        if k == "bin" and ast[1] == "^":
            return f"(xor32 {self.word(ast[2])} {self.word(ast[3])})"
        if c and k == "bin" and ast[1] == "+":
            return f"(add32 {self.word(ast[2])} {self.word(ast[3])})"
        if rs and k == "meth" and ast[2] == "wrapping_add" and len(ast[3]) == 1:
            return f"(add32 {self.word(ast[1])} {self.word(ast[3][0])})"
        if rs and k == "meth" and ast[2] == "rotate_right" and len(ast[3]) == 1 and ast[3][0][0] == "num":
            return f"(rotr32 {self.word(ast[1])} {ast[3][0][1]})"
        if c and k == "call" and ast[1] == "rotr32" and len(ast[2]) == 2 and ast[2][1][0] == "num":
            return f"(res_val ({self.callees['rotr32']} {self.word(ast[2][0])} {ast[2][1][1]}))"
        if k == "call" and ast[1] in ("counter_low", "counter_high") and len(ast[2]) == 1 \
                and ast[2][0][0] == "var" and self.width.get(ast[2][0][1]) == 64:
            return f"(res_val ({self.callees[ast[1]]} {ast[2][0][1]}))"
        if k == "cast" and ast[1] == 32 and ast[2][0] == "var" and self.width.get(ast[2][1], 99) <= 32:
            return ast[2][1]            # zero extension of a narrower unsigned value
        if c and k == "call" and ast[1] == "load32" and len(ast[2]) == 1:
            a = ast[2][0]
            if a[0] == "bin" and a[1] == "+" and a[2][0] == "var":
                return f"(le_load32 (skipn {const_eval(a[3], {}, self.name)}%nat {self.arr_name(a[2])}))"
        raise self.err(f"cannot translate expression {ast!r}")

    # ---- statements ----
    def let(self, v, term):
        self.lines.append(f"  let {v} := {term} in")

    def assigned(self, v, index_ast):
        if v not in self.mut:
            raise self.err(f"assignment to {v}, which is not a mutable array")
        if v in self.uninit and index_ast[0] == "num":
            self.uninit[v].discard(index_ast[1])

    def stmt(self, s):
        s = " ".join(s.split())
        rs = self.lang == "rs"
        pe = lambda t: parse_expr(t, self.name)
        # a[i] = e ;  a[i] ^= e
        m = re.fullmatch(r"(%s)\[([^\]]+)\]\s*(\^=|=)\s*([^=].*)" % _IDENT, s)
        if m:
            v, i_ast, op, rhs = m.group(1), pe(m.group(2)), m.group(3), m.group(4)
            if self.kind.get(v) != "arr":
                raise self.err(f"assignment to unknown array {v}")
            i = self.idx(i_ast)
            mb = re.fullmatch(r"u32::from_le_bytes\(\s*\*\s*array_ref!\(\s*(%s)\s*,\s*(.+?)\s*,\s*4\s*\)\s*\)" % _IDENT, rhs)
            if rs and mb and op == "=":
                val = f"(le_load32 (arr_slice {self.arr_name(('var', mb.group(1)))} {self.idx(pe(mb.group(2)))} 4))"
            else:
                val = self.word(pe(rhs))
            if op == "^=":
                val = f"(xor32 (arr_get {self.arr_name(('var', v))} {i}) {val})"
            self.assigned(v, i_ast)
            return self.let(v, f"arr_set {v} {i} {val}")
        # g(state, a, b, c, d, x, y)
        m = re.fullmatch(r"g\((.*)\)", s)
        if m:
            ast = pe(s)
            if ast[0] != "call" or len(ast[2]) != 7 or ast[2][0][0] != "var":
                raise self.err(f"call of g: {s!r}")
            v = ast[2][0][1]
            self.arr_name(ast[2][0])
            self.assigned(v, ("none",))
            args = [self.idx(a) for a in ast[2][1:5]] + [self.word(a) for a in ast[2][5:7]]
            return self.let(v, f"{self.callees['g']} {v} " + " ".join(args))
        # round(&mut state, &block_words, r) ; round_fn(state, &block_words[0], r)
        m = re.fullmatch((r"round\(\s*&mut (%s)\s*,\s*&\s*(%s)\s*,\s*(\d+)\s*\)" if rs else
                          r"round_fn\(\s*(%s)\s*,\s*&\s*(%s)\[0\]\s*,\s*(\d+)\s*\)") % (_IDENT, _IDENT), s)
        if m:
            v, w, r = m.groups()
            self.arr_name(("var", v))
            self.assigned(v, ("none",))
            return self.let(v, f"{self.callees['round']} {v} {self.arr_name(('var', w))} {int(r)}%nat")
        # schedule row
        m = re.fullmatch((r"let (%s) = MSG_SCHEDULE\[(%s)\]" if rs else
                          r"const uint8_t \*\s*(%s) = MSG_SCHEDULE\[(%s)\]") % (_IDENT, _IDENT), s)
        if m:
            v, r = m.groups()
            term = f"nth {self.idx(('var', r))} {self.consts['MSG_SCHEDULE']} []"
            self._decl(v, "arr")
            return self.let(v, term)
        if rs:
            # let [mut] v = [e0, e1, ...]  /  [0; n]
            m = re.fullmatch(r"let (mut )?(%s) = \[(.*)\]" % _IDENT, s)
            if m:
                v, inner = m.group(2), m.group(3)
                mr = re.fullmatch(r"\s*0\s*;\s*(\d+)\s*", inner)
                if mr:
                    term = f"repeat 0 {int(mr.group(1))}%nat"
                else:
                    if ";" in inner:
                        raise self.err(f"array expression {s!r}")
                    items = [x for x in _p_split_top(inner, ",")]
                    if items and not items[-1].strip():
                        items.pop()
                    term = "[" + "; ".join(self.word(pe(x)) for x in items) + "]"
                self._decl(v, "arr", mutable=bool(m.group(1)))
                return self.let(v, term)
            # let v = words_from_le_bytes_64(block)
            m = re.fullmatch(r"let (%s) = crate::platform::words_from_le_bytes_64\((%s)\)" % (_IDENT, _IDENT), s)
            if m:
                term = f"{self.callees['words_from_le_bytes_64']} {self.arr_name(('var', m.group(2)))}"
                self._decl(m.group(1), "arr")
                return self.let(m.group(1), term)
            # let [mut] v = compress_pre(cv, block, block_len, counter, flags)
            m = re.fullmatch(r"let (mut )?(%s) = compress_pre\((.*)\)" % _IDENT, s)
            if m:
                term = f"{self.callees['compress_pre']} " + " ".join(self.arg(a) for a in _p_split_top(m.group(3), ","))
                self._decl(m.group(2), "arr", mutable=bool(m.group(1)))
                return self.let(m.group(2), term)
            # *array_mut_ref!(out, off, 4) = words[i].to_le_bytes()
            m = re.fullmatch(r"\*\s*array_mut_ref!\(\s*(%s)\s*,\s*(.+?)\s*,\s*4\s*\) = (.+)\.to_le_bytes\(\)" % _IDENT, s)
            if m:
                v = m.group(1)
                self.arr_name(("var", v))
                self.assigned(v, ("none",))
                return self.let(v, f"arr_store {v} {self.idx(pe(m.group(2)))} (bytes_of_word {self.word(pe(m.group(3)))})")
        else:
            # uint32_t v[n]   (no initialiser)
            m = re.fullmatch(r"uint32_t (%s)\[(\d+)\]" % _IDENT, s)
            if m:
                v, n = m.group(1), int(m.group(2))
                self._decl(v, "arr", mutable=True)
                self.uninit[v] = set(range(n))
                return self.let(v, f"repeat 0 {n}%nat")
            # compress_pre(state, cv, block, block_len, counter, flags): overwrites all of `state`
            m = re.fullmatch(r"compress_pre\((.*)\)", s)
            if m:
                args = [a.strip() for a in _p_split_top(m.group(1), ",")]
                v = args[0]
                if self.kind.get(v) != "arr":
                    raise self.err(f"call of compress_pre: {s!r}")
                self.assigned(v, ("none",))
                self.uninit.pop(v, None)
                return self.let(v, f"{self.callees['compress_pre']} " + " ".join(self.arg(a) for a in args))
            # store32(&out[off], e)
            m = re.fullmatch(r"store32\(\s*&\s*(%s)\[([^\]]+)\]\s*,\s*(.+)\)" % _IDENT, s)
            if m:
                v = m.group(1)
                self.arr_name(("var", v))
                self.assigned(v, ("none",))
                return self.let(v, f"arr_store {v} {self.idx(pe(m.group(2)))} (bytes_of_word {self.word(pe(m.group(3)))})")
        raise self.err(f"unrecognised statement {s!r}")

    def arg(self, a):
        a = a.strip()
        if not re.fullmatch(_IDENT, a) or a not in self.kind:
            raise self.err(f"argument {a!r}")
        return self.arr_name(("var", a)) if self.kind[a] == "arr" else a

    def translate(self):
        params = [(v, self.kind[v]) for v in self.order]     # before local declarations shadow anything
        mut_params = [v for v in self.order if v in self.mut]
        stmts = _p_split_top(self.body, ";")
        tail = " ".join(stmts.pop().split())
        for s in stmts:
            if not s.strip():
                raise self.err("empty statement")
            self.stmt(s)
        returns = self.ret.startswith("->") if self.lang == "rs" else False
        if returns:
            m = re.fullmatch(r"crate::platform::le_bytes_from_words_64\(\s*&\s*(%s)\s*\)" % _IDENT, tail)
            if m:
                result = f"{self.callees['le_bytes_from_words_64']} {self.arr_name(('var', m.group(1)))}"
            elif re.fullmatch(_IDENT, tail) and self.kind.get(tail) == "arr":
                result = self.arr_name(("var", tail))
            else:
                raise self.err(f"result expression {tail!r}")
        else:
            if tail or self.ret not in ("",) or len(mut_params) != 1:
                raise self.err(f"expected one mutable parameter and no result (tail {tail!r}, ret {self.ret!r})")
            result = self.arr_name(("var", mut_params[0]))
        ty = {"arr": "list N", "nat": "nat", "word": "N"}
        sig = " ".join(f"({v} : {ty[k]})" for v, k in params)
        return f"Definition {self.name} {sig} : list N :=\n" + "\n".join(self.lines) + f"\n  {result}.\n"


def _c_return_formula(text, fname, params, coqname):
    """`INLINE uint32_t f(params) { return e; }` -> Definition coqname (...) : res N, through the integer-formula emitter"""
    hdr = r"INLINE\s+uint32_t\s+" + fname + r"\s*\("
    ptext, _ = _fn_header(text, hdr, coqname)
    want = ", ".join(f"{t} {v}" for v, t in params)
    if " ".join(ptext.split()) != want:
        raise AnchorError(f"{coqname}: parameters {ptext!r}, expected {want!r}")
    stmts = [s.strip() for s in _p_split_top(fn_body(text, hdr, coqname), ";") if s.strip()]
    if len(stmts) != 1 or not stmts[0].startswith("return "):
        raise AnchorError(f"{coqname}: body is not a single return")
    tenv = {v: TYPES[t] for v, t in params}
    term = emit(parse_expr(stmts[0][len("return "):], coqname), tenv, {}, coqname, 32)
    return f"Definition {coqname} ({' '.join(v for v, _ in params)} : N) : res N :=\n  {term}.\n"


def gen_portable():
    out = [HEADER.replace("Base.MachInt.", "Base.MachInt Base.Word Base.Arr.\nFrom V Require Import gen.GenConsts gen.GenFormulas.")]
    rs = strip_comments(src("src/portable.rs"))
    plat = strip_comments(src("src/platform.rs"))
    lib = strip_comments(src("src/lib.rs"))
    cp = strip_comments(src("c/blake3_portable.c"))
    ch = strip_comments(src("c/blake3_impl.h"))

    # the names portable.rs uses are the crate's (lib.rs) items GenConsts / GenFormulas translate
    use = find1(r"use\s+crate::\{(.*?)\};", rs, "portable.rs use crate::{..}").group(1)
    used = {x.strip() for x in use.split(",")}
    for need in ("IV", "MSG_SCHEDULE", "CVWords", "counter_low", "counter_high", "BLOCK_LEN"):
        if need not in used:
            raise AnchorError(f"portable.rs does not import crate::{need}")
    find1(r"\btype\s+CVWords\s*=\s*\[\s*u32\s*;\s*8\s*\]\s*;", lib, "lib.rs type CVWords = [u32; 8]")

    out.append("(* ---- src/platform.rs: byte <-> word conversions used by portable.rs ---- *)\n")
    rs_consts = {"IV": "rs_IV", "MSG_SCHEDULE": "rs_MSG_SCHEDULE"}
    rs_callees = {"counter_low": "rs_counter_low", "counter_high": "rs_counter_high"}
    for fname in ("words_from_le_bytes_64", "le_bytes_from_words_64"):
        f = PFn("rs", "rs_" + fname, plat, r"\bpub\s+fn\s+" + fname + r"\s*\(", {}, {})
        out.append(f.translate())
        rs_callees[fname] = "rs_" + fname

    out.append("(* ---- src/portable.rs ---- *)\n")
    for fname, hdr in (("g", r"\bfn\s+g\s*\("), ("round", r"\bfn\s+round\s*\("),
                       ("compress_pre", r"\bfn\s+compress_pre\s*\("),
                       ("compress_in_place", r"\bpub\s+fn\s+compress_in_place\s*\("),
                       ("compress_xof", r"\bpub\s+fn\s+compress_xof\s*\(")):
        f = PFn("rs", "rs_" + fname, rs, hdr, rs_consts, rs_callees)
        out.append(f.translate())
        rs_callees[fname] = "rs_" + fname

    out.append("(* ---- c/blake3_impl.h, c/blake3_portable.c ---- *)\n")
    out.append(_c_return_formula(ch, "counter_low", [("counter", "uint64_t")], "c_counter_low"))
    out.append(_c_return_formula(ch, "counter_high", [("counter", "uint64_t")], "c_counter_high"))
    out.append(_c_return_formula(cp, "rotr32", [("w", "uint32_t"), ("c", "uint32_t")], "c_rotr32"))
    c_consts = {"IV": "c_IV", "MSG_SCHEDULE": "c_MSG_SCHEDULE"}
    c_callees = {"counter_low": "c_counter_low", "counter_high": "c_counter_high", "rotr32": "c_rotr32"}
    for fname, key, hdr in (("g", "g", r"\bINLINE\s+void\s+g\s*\("), ("round_fn", "round", r"\bINLINE\s+void\s+round_fn\s*\("),
                            ("compress_pre", "compress_pre", r"\bINLINE\s+void\s+compress_pre\s*\("),
                            ("blake3_compress_in_place_portable", None, r"\bvoid\s+blake3_compress_in_place_portable\s*\("),
                            ("blake3_compress_xof_portable", None, r"\bvoid\s+blake3_compress_xof_portable\s*\(")):
        f = PFn("c", "c_" + fname, cp, hdr, c_consts, c_callees)
        out.append(f.translate())
        if key:
            c_callees[key] = "c_" + fname
    return "\n".join(out)


# ---------------------------------------------------------------------------
# GenCHasherSmall.v: the small, loop-free functions of c/blake3.c (and load_key_words / store_cv_words of
# c/blake3_impl.h), translated statement by statement.
#
# Representation
#   * `typedef struct {..} T;` -> Record src_T with one field per member, in declaration order, named T_<member>;
#     a field store `p->f = e` / `s.f = e` is the record update set_T_f.  uintN_t / size_t scalars are N, `bool` is
#     bool, arrays of uint8_t / uint32_t are `list N` (Base/Arr.v), a nested struct is the nested record.
#     blake3_hasher.cv_stack is not interpreted here (no function translated below touches it): its type is the
#     parameter S of src_blake3_hasher, and any access to it is an AnchorError.  (GenCHasherLoops.v, further down,
#     uses the same records at S := list N and translates the accesses; see the comment block before _CS_STACK_SITES.)
#   * a function becomes `src_<name>`: parameters in source order (a pointer to a struct is the struct value, a
#     pointer + length pair stays two parameters); the result is the tuple of the pointer / array parameters the body
#     writes, in parameter order, followed by the C return value.
#   * functions that are called but not translated (the dispatcher entry blake3_compress_in_place, the two loops
#     blake3_hasher_update_base / blake3_hasher_finalize_seek, strlen) are explicit function parameters ext_<name>
#     whose type follows from the prototype found in the source by the same rules.
#   * memcpy(d, s, n) -> arr_store d off (firstn (n / sizeof elem) s), memset(d, c, n) -> arr_store d 0 (repeat c ..);
#     a constant n is evaluated with the #defines of c/blake3.h; a local pointer `T *q = a + e` is the pair (a, e).
#   * locals declared without initialiser are zero-filled values of their declared shape (a struct with an
#     uninterpreted member becomes an extra parameter <local>_uninit); reading a local array / returning a local
#     struct before everything in it has been written is an AnchorError.
#   * integer expressions: `|` -> N.lor; `-`, `+`, `+=` at the width of the C operation -> mi_sub / mi_add of
#     Base/MachInt.v (stricter than C: wrap-around is a Panic); a cast to a type at least as wide as its operand is
#     the identity, a narrowing cast is mi_cast; an assignment / argument must fit the target type without truncation.
# Everything that is not one of these shapes raises AnchorError: no statement is ever skipped.
# ---------------------------------------------------------------------------
_CS_TOK = re.compile(r"(?P<num>0[xX][0-9a-fA-F]+|\d+)[uUlL]*|(?P<id>[A-Za-z_]\w*)"
                     r"|(?P<op>->|\+=|-=|==|!=|<=|>=|<<|>>|&&|\|\||[-+*/%&|^!~<>=().,\[\]{};])")
_CS_INT = {"uint8_t": 8, "uint32_t": 32, "uint64_t": 64, "size_t": 64}
_CS_BYTEPTR = ("void", "char")           # `const void *` / `const char *` data is read as bytes


def _cs_tokens(text, name):
    out, i = [], 0
    while True:
        while i < len(text) and text[i].isspace():
            i += 1
        if i >= len(text):
            return out
        m = _CS_TOK.match(text, i)
        if not m:
            raise AnchorError(f"{name}: cannot tokenize {text[i:i + 20]!r}")
        if m.group("num") is not None:
            out.append(("num", int(m.group("num"), 0)))
        elif m.group("id") is not None:
            out.append(("id", m.group("id")))
        else:
            out.append(("op", m.group("op")))
        i = m.end()


class CSParser:
    """statements: ('if', cond, [stmts], [stmts]|None) ('return', e|None) ('decl', const, tyname, star, name, len|None, init|None)
                   ('expr', e) ('while', cond, [stmts])
       expressions: ('num', v) ('var', x) ('bin', op, a, b) ('un', op, a) ('cast', tyname, a) ('call', f, [args])
                    ('index', a, i) ('field', a, f) ('arrow', a, f) ('assign', op, lhs, rhs)"""
    PREC = {"||": 1, "&&": 2, "|": 3, "^": 4, "&": 5, "==": 6, "!=": 6, "<": 7, ">": 7, "<=": 7, ">=": 7,
            "<<": 8, ">>": 8, "+": 9, "-": 9, "*": 10, "/": 10, "%": 10}

    def __init__(self, toks, name, typenames):
        self.t, self.i, self.name, self.types = toks, 0, name, typenames

    def err(self, msg):
        return AnchorError(f"{self.name}: {msg} at {self.t[self.i:self.i + 6]!r}")

    def peek(self, k=0):
        return self.t[self.i + k] if self.i + k < len(self.t) else ("eof", None)

    def next(self):
        tok = self.peek()
        self.i += 1
        return tok

    def accept(self, op):
        if self.peek() == ("op", op):
            self.i += 1
            return True
        return False

    def expect(self, op):
        if not self.accept(op):
            raise self.err(f"expected {op!r}")

    def ident(self):
        k, v = self.next()
        if k != "id":
            raise self.err("expected an identifier")
        return v

    # ---- statements ----
    def stmts_until(self, end):
        out = []
        while self.peek() != end:
            if self.peek()[0] == "eof":
                raise self.err("unexpected end")
            out.append(self.stmt())
        return out

    def block(self):
        self.expect("{")
        s = self.stmts_until(("op", "}"))
        self.expect("}")
        return s

    def is_type_start(self):
        k, v = self.peek()
        return k == "id" and (v == "const" or v in self.types)

    def stmt(self):
        k, v = self.peek()
        if (k, v) == ("id", "if"):
            self.next()
            self.expect("(")
            c = self.expr(0)
            self.expect(")")
            th = self.block()
            el = None
            if self.peek() == ("id", "else"):
                self.next()
                el = self.block()
            return ("if", c, th, el)
        if (k, v) == ("id", "return"):
            self.next()
            if self.accept(";"):
                return ("return", None)
            e = self.expr(0)
            self.expect(";")
            return ("return", e)
        if (k, v) == ("id", "while"):
            self.next()
            self.expect("(")
            c = self.expr(0)
            self.expect(")")
            return ("while", c, self.block())
        if k == "id" and v in ("for", "do", "switch", "goto", "break", "continue", "else"):
            raise self.err(f"statement {v!r} is not translated")
        if self.is_type_start() and not (self.peek(1) == ("op", "(")):
            d = self.decl()
            self.expect(";")
            return d
        e = self.expr(0, assign=True)
        self.expect(";")
        return ("expr", e)

    def decl(self, param=False):
        const = False
        if self.peek() == ("id", "const"):
            self.next()
            const = True
        ty = self.ident()
        if ty not in self.types:
            raise self.err(f"unknown type {ty!r}")
        star = self.accept("*")
        name = self.ident()
        ln = None
        has_len = False
        if self.accept("["):
            has_len = True
            ln = self.expr(0)
            self.expect("]")
        init = None
        if not param and self.accept("="):
            init = self.expr(0)
        return ("decl", const, ty, star, name, ln if has_len else None, init)

    def params(self):
        out = []
        if self.peek() == ("id", "void") and self.peek(1)[0] == "eof":
            return out
        while True:
            out.append(self.decl(param=True))
            if self.peek()[0] == "eof":
                return out
            self.expect(",")

    # ---- expressions ----
    def expr(self, minprec, assign=False):
        lhs = self.unary()
        if assign and self.peek() in (("op", "="), ("op", "+="), ("op", "-=")):
            op = self.next()[1]
            return ("assign", op, lhs, self.expr(0))
        while True:
            k, v = self.peek()
            if k == "op" and v in self.PREC and self.PREC[v] >= minprec:
                self.next()
                rhs = self.expr(self.PREC[v] + 1)
                lhs = ("bin", v, lhs, rhs)
                continue
            return lhs

    def unary(self):
        k, v = self.peek()
        if k == "op" and v in ("-", "!", "~", "&", "*"):
            self.next()
            return ("un", v, self.unary())
        if (k, v) == ("op", "(") and self.peek(1)[0] == "id" and self.peek(1)[1] in self.types \
                and self.peek(2) == ("op", ")"):
            self.i += 3
            return ("cast", self.t[self.i - 2][1], self.unary())
        return self.postfix(self.primary())

    def primary(self):
        k, v = self.next()
        if k == "num":
            return ("num", v)
        if k == "id":
            if self.accept("("):
                args = []
                if not self.accept(")"):
                    while True:
                        args.append(self.expr(0))
                        if self.accept(")"):
                            break
                        self.expect(",")
                return ("call", v, args)
            return ("var", v)
        if (k, v) == ("op", "("):
            e = self.expr(0)
            self.expect(")")
            return e
        self.i -= 1
        raise self.err("unexpected token")

    def postfix(self, e):
        while True:
            if self.accept("."):
                e = ("field", e, self.ident())
            elif self.accept("->"):
                e = ("arrow", e, self.ident())
            elif self.accept("["):
                i = self.expr(0)
                self.expect("]")
                e = ("index", e, i)
            else:
                return e


class CSCtx:
    """what the translated functions share: struct layouts, constants, signatures of everything callable"""

    def __init__(self, ints, flags, arrays, opaque):
        self.ints, self.flags, self.arrays, self.opaque = ints, flags, arrays, opaque
        self.structs, self.poly, self.funcs, self.out = {}, set(), {}, []
        self.S, self.flat = "S", {}        # the argument of the records' type parameter; declared shape of the opaque members

    def typenames(self):
        return set(_CS_INT) | {"bool", "void", "char"} | set(self.structs)

    def const_int(self, ast, name):
        return const_eval(ast, self.ints, name)

    # ---- struct declarations ----
    def add_struct(self, text, sname):
        m = find1(r"typedef\s+struct\s*\{([^{}]*)\}\s*" + sname + r"\s*;", text, "struct " + sname)
        p = CSParser(_cs_tokens(m.group(1), sname), sname, self.typenames())
        fields = []
        while p.peek()[0] != "eof":
            d = p.decl(param=True)
            p.expect(";")
            _, const, ty, star, fname, ln, _ = d
            if const or star:
                raise AnchorError(f"struct {sname}: member {fname}")
            if (sname, fname) in self.opaque:
                if ln is None:
                    raise AnchorError(f"struct {sname}: uninterpreted member {fname} is not an array")
                if ty in _CS_INT:
                    self.flat[(sname, fname)] = ("arr", _CS_INT[ty], self.const_int(ln, sname))
                fields.append((fname, ("opaque",)))
            elif ty in _CS_INT:
                fields.append((fname, ("arr", _CS_INT[ty], self.const_int(ln, sname)) if ln is not None
                               else ("int", _CS_INT[ty])))
            elif ty in self.structs and ln is None:
                fields.append((fname, ("struct", ty)))
            else:
                raise AnchorError(f"struct {sname}: member {fname} of type {ty}")
        for s, f in self.opaque:
            if s == sname and f not in [x for x, _ in fields]:
                raise AnchorError(f"struct {sname}: no member {f}")
        self.structs[sname] = fields
        if any(t == ("opaque",) or (t[0] == "struct" and t[1] in self.poly) for _, t in fields):
            self.poly.add(sname)
        self.emit_struct(sname)

    def coq_type(self, t):
        if t[0] == "int":
            return "N"
        if t[0] == "bool":
            return "bool"
        if t[0] == "arr":
            return "list N"
        if t[0] == "opaque":
            return self.S
        if t[0] == "parr":
            return "list (list N)"
        if t[0] in ("struct", "ptr"):
            return f"(src_{t[1]} {self.S})" if t[1] in self.poly else f"src_{t[1]}"
        raise AnchorError(f"no Gallina type for {t!r}")

    def is_poly(self, t):
        return t[0] in ("struct", "ptr") and t[1] in self.poly

    def interpret_flat(self):
        """from here on the opaque members are the flat arrays of their C declarations: the records are used at
        S := list N, and member access is translated (GenCHasherLoops.v)"""
        if self.S != "S" or len(self.opaque) != 1:
            raise AnchorError("interpret_flat: expected exactly one uninterpreted member")
        for (sname, fname) in self.opaque:
            if (sname, fname) not in self.flat or self.flat[(sname, fname)][1] != 8:
                raise AnchorError(f"struct {sname}: member {fname} is not a byte array")
            self.structs[sname] = [(f, self.flat[(sname, fname)] if f == fname else t) for f, t in self.structs[sname]]
        self.S = "(list N)"

    def zero_value(self, t, name):
        if t[0] == "int":
            return "0"
        if t[0] == "arr" and t[2] is not None:
            return f"(repeat 0 {t[2]}%nat)"
        if t[0] == "struct" and t[1] not in self.poly:
            return f"uninit_{t[1]}"
        raise AnchorError(f"{name}: no zero value of type {t!r}")

    def emit_struct(self, s):
        fields = self.structs[s]
        poly = s in self.poly
        sp, ty = (" (S : Type)", f"(src_{s} S)") if poly else ("", f"src_{s}")
        o = [f"Record src_{s}{sp} := mk_{s} {{\n"
             + ";\n".join(f"  {s}_{f} : {self.coq_type(t)}" for f, t in fields) + " }.\n"]
        if poly:
            o.append(f"Arguments mk_{s} {{S}}" + " _" * len(fields) + ".\n"
                     + "".join(f"Arguments {s}_{f} {{S}} _.\n" for f, _ in fields))
        for f, t in fields:
            args = " ".join("v" if g == f else f"({s}_{g} s)" for g, _ in fields)
            o.append(f"Definition set_{s}_{f}{' {S : Type}' if poly else ''} (s : {ty}) (v : {self.coq_type(t)}) : {ty} :=\n"
                     f"  mk_{s} {args}.\n")
        if not poly:
            o.append(f"Definition uninit_{s} : {ty} :=\n  mk_{s} "
                     + " ".join(self.zero_value(t, s) for _, t in fields) + ".\n")
        self.out.append("".join(o))

    # ---- signatures ----
    def param_type(self, d, name):
        _, const, ty, star, pname, ln, _ = d
        if ty in self.structs:
            if not star or ln is not None:
                raise AnchorError(f"{name}: struct parameter {pname} is not a pointer")
            return ("ptr", ty)
        if ty in _CS_BYTEPTR:
            if not (star and const and ln is None):
                raise AnchorError(f"{name}: parameter {pname}")
            return ("arr", 8, None)
        if ty == "bool" and not star and ln is None:
            return ("bool",)
        if ty in _CS_INT:
            if star and ln is None:
                if _CS_INT[ty] != 8:
                    raise AnchorError(f"{name}: pointer parameter {pname}")
                return ("arr", 8, None)
            if ln is not None and not star:
                return ("arr", _CS_INT[ty], self.const_int(ln, name))
            if not star:
                return ("int", _CS_INT[ty])
        raise AnchorError(f"{name}: parameter {pname} of type {ty}")

    def signature(self, name, ptext, rtype):
        p = CSParser(_cs_tokens(ptext, name), name, self.typenames())
        params = []
        for d in p.params():
            params.append((d[4], self.param_type(d, name), d[1]))
        if rtype == "void":
            ret = None
        elif rtype in _CS_INT:
            ret = ("int", _CS_INT[rtype])
        elif rtype in self.structs:
            ret = ("struct", rtype)
        else:
            raise AnchorError(f"{name}: return type {rtype!r}")
        return params, ret

    def result_type(self, f):
        parts = [self.coq_type(f["params"][i][1]) for i in f["inouts"]]
        if f["ret"] is not None:
            parts.append(self.coq_type(f["ret"]))
        if not parts:
            raise AnchorError(f"{f['c']}: neither a result nor a written parameter")
        t = parts[0] if len(parts) == 1 else "(" + " * ".join(parts) + ")"
        if f["res"]:
            return f"res {t}" if " " not in t or t.startswith("(") else f"res ({t})"
        return t

    def fun_type(self, f):
        return " -> ".join([self.coq_type(t) for _, t, _ in f["params"]] + [self.result_type(f)])

    def add_external(self, name, params, ret, res):
        inouts = [i for i, (_, t, const) in enumerate(params) if t[0] in ("arr", "ptr") and not const]
        self.funcs[name] = {"c": name, "coq": "ext_" + name, "params": params, "ret": ret, "inouts": inouts, "res": res,
                            "exts": [name], "extras": [], "external": True,
                            "poly": any(self.is_poly(t) for _, t, _ in params)}

    def external_from_source(self, text, name, header_re, res, prototype):
        m = find1(header_re, text, "ext " + name)
        i = m.end() - 1
        depth, j = 0, i
        while j < len(text):
            if text[j] == "(":
                depth += 1
            elif text[j] == ")":
                depth -= 1
                if depth == 0:
                    break
            j += 1
        else:
            raise AnchorError(f"ext {name}: unbalanced parentheses")
        if text[i] != "(" or text[j + 1:].lstrip()[:1] != (";" if prototype else "{"):
            raise AnchorError(f"ext {name}: not a {'prototype' if prototype else 'definition'}")
        params, ret = self.signature(name, text[i + 1:j], m.group(1))
        self.add_external(name, params, ret, res)


class CSFn:
    loops = False          # CSLoopFn: the statement shapes of GenCHasherLoops.v are accepted as well

    def __init__(self, ctx, text, cname):
        self.ctx, self.c, self.name = ctx, cname, "src_" + cname
        hdr = r"\b(?:INLINE\s+)?(void|size_t|uint8_t|uint32_t|uint64_t|output_t)\s+" + cname + r"\s*\("
        m = find1(hdr, text, self.name)
        ptext, between = _fn_header(text, hdr, self.name)
        if between:
            raise AnchorError(f"{self.name}: text between ')' and '{{': {between!r}")
        self.params, self.ret = ctx.signature(self.name, ptext, m.group(1))
        body = fn_body(text, hdr, self.name)
        self.stmts = CSParser(_cs_tokens(body, self.name), self.name, ctx.typenames()).stmts_until(("eof", None))
        self.env, self.lines, self.written, self.exts, self.extras = {}, [], set(), [], []
        self.monadic, self.tmp, self.poly = False, 0, False
        self.recorders, self.site, self.nsite, self.fuel, self.sites_used = [], None, 0, False, set()
        for pname, t, const in self.params:
            self.declare(pname, t, const=const, param=True)

    def err(self, msg):
        return AnchorError(f"{self.name}: {msg}")

    # ---- environment ----
    def declare(self, v, t, const=False, param=False, uninit=None):
        if v in self.env or v in self.ctx.ints or v in self.ctx.flags or v in self.ctx.arrays or v in self.ctx.funcs \
                or v == "fuel":
            raise self.err(f"{v} is declared twice or shadows a constant")
        if self.ctx.is_poly(t):
            self.poly = True
        self.env[v] = {"type": t, "const": const, "param": param, "uninit": uninit}

    def fresh(self):
        self.tmp += 1
        return f"t{self.tmp}"

    def let(self, v, term, res=False, note=None):
        note = f"   (* {note} *)" if note else ""
        self.assigned(v)
        if res:
            self.monadic = True
            self.lines.append(f"  {v} <- {term} ;;{note}")
        else:
            self.lines.append(f"  let {v} := {term} in{note}")

    def assigned(self, v):
        """v is (re)bound here: every enclosing block / loop body that is being translated hands it on"""
        if v in self.env:
            for r in self.recorders:
                r.add(v)

    # ---- object paths: (root variable, [members], type, is_pointer) ----
    def path(self, ast):
        k = ast[0]
        if k == "var":
            e = self.env.get(ast[1])
            if e is None or e["type"][0] == "alias":
                raise self.err(f"unknown object {ast[1]}")
            t = e["type"]
            if t[0] == "ptr":
                return ast[1], [], ("struct", t[1]), True
            return ast[1], [], t, False
        if k in ("arrow", "field"):
            root, fs, t, isptr = self.path(ast[1])
            if t[0] != "struct":
                raise self.err(f"member {ast[2]} of a non-struct")
            if (k == "arrow") != isptr:
                raise self.err(f"'{'->' if k == 'arrow' else '.'}{ast[2]}' applied to a {'pointer' if isptr else 'struct value'}")
            for f, ft in self.ctx.structs[t[1]]:
                if f == ast[2]:
                    if ft == ("opaque",):
                        raise self.err(f"access to the uninterpreted member {t[1]}.{f}")
                    return root, fs + [f], ft, False
            raise self.err(f"struct {t[1]} has no member {ast[2]}")
        if k == "un" and ast[1] == "&":
            root, fs, t, isptr = self.path(ast[2])
            if t[0] != "struct" or isptr:
                raise self.err("'&' of something that is not a struct value")
            return root, fs, t, True
        raise self.err(f"not an object: {ast!r}")

    def read(self, root, fs):
        e = self.env[root]
        term, t = root, e["type"]
        t = ("struct", t[1]) if t[0] == "ptr" else t
        for f in fs:
            if e["uninit"] is not None and f in e["uninit"]:
                raise self.err(f"{root}.{f} is read before it is written")
            term = f"({t[1]}_{f} {term})"
            t = dict(self.ctx.structs[t[1]])[f]
        if not fs and e["uninit"]:
            raise self.err(f"{root} is read before all of it is written")
        return term

    def write(self, root, fs, value, note=None, whole=True):
        e = self.env[root]
        if e["const"]:
            raise self.err(f"write through the const parameter {root}")
        t = e["type"]
        t = ("struct", t[1]) if t[0] == "ptr" else t

        def upd(term, t, fs):
            if not fs:
                return value
            inner = upd(f"({t[1]}_{fs[0]} {term})", dict(self.ctx.structs[t[1]])[fs[0]], fs[1:])
            return f"(set_{t[1]}_{fs[0]} {term} {inner})"
        term = upd(root, t, fs)
        self.let(root, term[1:-1] if fs else term, note=note)
        if e["param"]:
            self.written.add(root)
        if e["uninit"] is not None and whole:
            if fs:
                e["uninit"].discard(fs[0]) if len(fs) == 1 else None
            else:
                e["uninit"] = set()

    # ---- scalar expressions: (term : N or bool, type) with type ('int', w) | ('lit', value) | ('bool',) ----
    def fits(self, t, target):
        if target[0] == "bool":
            return t[0] == "bool"
        if t[0] == "lit":
            return t[1] < (1 << target[1])
        return t[0] == "int" and t[1] <= target[1]

    def val(self, ast, top=False):
        """pure term; a checked operation is bound to a fresh name first (or returned unbound when top=True: then the
        third component is True and the term has type res N)"""
        term, t, res = self.val0(ast)
        if res and not top:
            v = self.fresh()
            self.let(v, term, res=True)
            return v, t, False
        return term, t, res

    def val0(self, ast):
        k = ast[0]
        if k == "num":
            return str(ast[1]), ("lit", ast[1]), False
        if k == "var":
            v = ast[1]
            if v in self.env:
                t = self.env[v]["type"]
                if t[0] in ("int", "bool"):
                    if self.env[v]["uninit"]:
                        raise self.err(f"{v} is read before it is written")
                    return v, t, False
                raise self.err(f"{v} is not a scalar")
            if v in self.ctx.ints:
                return self.ctx.ints_coq[v], ("lit", self.ctx.ints[v]), False
            if v in self.ctx.flags:
                return "c_flag_" + v, ("lit", self.ctx.flags[v]), False
            if v in ("false", "true"):
                return v, ("bool",), False
            raise self.err(f"unknown identifier {v}")
        if k in ("arrow", "field"):
            root, fs, t, _ = self.path(ast)
            if t[0] != "int":
                raise self.err(f"member {ast[2]} is not a scalar")
            return self.read(root, fs), t, False
        if k == "cast":
            if ast[1] not in _CS_INT:
                raise self.err(f"cast to {ast[1]}")
            w = _CS_INT[ast[1]]
            a, t, _ = self.val(ast[2])
            if self.fits(t, ("int", w)):
                return a, ("int", w), False          # value-preserving
            return f"mi_cast {w} {a}", ("int", w), True
        if k == "bin" and ast[1] == "|":
            a, ta, _ = self.val(ast[2])
            b, tb, _ = self.val(ast[3])
            ws = [t[1] if t[0] == "int" else max(1, t[1].bit_length()) for t in (ta, tb) if t[0] in ("int", "lit")]
            if len(ws) != 2:
                raise self.err(f"operands of '|': {ast!r}")
            return f"(N.lor {a} {b})", ("int", max(8, max(ws))), False
        if k == "bin" and (ast[1] in ("+", "-") or (ast[1] == "*" and self.loops)):
            a, ta, _ = self.val(ast[2])
            b, tb, _ = self.val(ast[3])
            ws = [t[1] for t in (ta, tb) if t[0] == "int"]
            if ws and max(ws) == 64 and all(t[0] in ("int", "lit") for t in (ta, tb)):
                w = 64
            elif self.loops and ws and max(ws) < 32 and all(t[0] in ("int", "lit") for t in (ta, tb)):
                w = 31           # uint8_t / int operands: the operation is done in `int`; its non-negative range
            else:
                raise self.err(f"arithmetic that is not at size_t / uint64_t width: {ast!r}")
            term = f"{ {'+': 'mi_add', '-': 'mi_sub', '*': 'mi_mul'}[ast[1]]} {w} {a} {b}"
            if self.site is not None:
                term = f"at_site {self.site[0] if ast[1] == '-' else self.site[1]} ({term})"
            return term, ("int", w), True
        if k == "call":
            return self.call(ast, value=True)
        raise self.err(f"cannot translate expression {ast!r}")

    def cond(self, ast):
        if ast[0] == "bin" and ast[1] in ("==", ">", "<"):
            a, ta, _ = self.val(ast[2])
            b, tb, _ = self.val(ast[3])
            if any(t[0] not in ("int", "lit") for t in (ta, tb)):
                raise self.err(f"comparison {ast!r}")
            return {"==": f"({a} =? {b})", "<": f"({a} <? {b})", ">": f"({b} <? {a})"}[ast[1]]
        raise self.err(f"condition {ast!r}")

    # ---- arrays ----
    def arr_r(self, ast):
        """array rvalue: (term, element width, length or None)"""
        if ast[0] == "var" and ast[1] in self.ctx.arrays and ast[1] not in self.env:
            return self.ctx.arrays[ast[1]]
        if ast[0] == "var" and self.env.get(ast[1], {}).get("type", ("",))[0] == "alias":
            raise self.err(f"pointer {ast[1]} read as an array")
        root, fs, t, _ = self.path(ast)
        if t[0] != "arr":
            raise self.err(f"not an array: {ast!r}")
        return self.read(root, fs), t[1], t[2]

    def arr_w(self, ast):
        """array lvalue: (root, members, element width, length, offset term or None)"""
        if ast[0] == "var" and self.env.get(ast[1], {}).get("type", ("",))[0] == "alias":
            _, root, fs, w, ln, off = self.env[ast[1]]["type"][:6]
            return root, fs, w, ln, off
        root, fs, t, _ = self.path(ast)
        if t[0] != "arr":
            raise self.err(f"not an array: {ast!r}")
        return root, fs, t[1], t[2], None

    # ---- `&a[e]` and pointer locals initialised with one (GenCHasherLoops.v) ----
    def owner(self, root, fs):
        """(struct, member) of the last step of an object path"""
        t = self.env[root]["type"]
        t = ("struct", t[1]) if t[0] == "ptr" else t
        own = None
        for f in fs:
            own = (t[1], f)
            t = dict(self.ctx.structs[t[1]])[f]
        return own

    def ptr(self, ast):
        """None unless ast is `&a[e]` or a pointer local declared as one; then the dict
             root, fs, w, ln : the array object a (element width, declared length)
             off             : Gallina nat term of the offset e
             k               : e as a python int when it is a constant (then bounds are checked here), else None
             offN, code      : for a variable e (only into the flat cv_stack): the N term of e and the Panic code of the
                               bounds assert every access through this pointer carries"""
        if ast[0] == "var":
            t = self.env.get(ast[1], {}).get("type", ("",))
            return t[6] if t[0] == "alias" and len(t) == 7 else None
        if not (self.loops and ast[0] == "un" and ast[1] == "&" and ast[2][0] == "index"):
            return None
        root, fs, t, _ = self.path(ast[2][1])
        if t[0] != "arr" or t[2] is None:
            raise self.err(f"'&' of an element of something that is not an array of known length: {ast!r}")
        P = {"root": root, "fs": fs, "w": t[1], "ln": t[2], "off": None, "k": None, "offN": None, "code": None}
        try:
            P["k"] = self.ctx.const_int(ast[2][2], self.name)
        except AnchorError:
            pass
        if P["k"] is not None:
            P["off"] = f"{P['k']}%nat"
            return P
        if self.owner(root, fs) not in self.ctx.opaque:
            raise self.err(f"variable index into an array other than the flat cv_stack: {ast!r}")
        sites = _CS_STACK_SITES.get(self.c, [])
        if self.nsite >= len(sites):
            raise self.err("more cv_stack accesses than Panic codes in _CS_STACK_SITES")
        saved, self.site = self.site, sites[self.nsite]
        self.nsite += 1
        term, it, _ = self.val(ast[2][2])
        P["code"] = self.site[1]
        self.site = saved
        if it[0] != "int":
            raise self.err(f"index {ast[2][2]!r}")
        P["offN"], P["off"] = term, f"(N.to_nat {term})"
        return P

    def ptr_bounds(self, P, n, cur):
        if P["code"] is not None:
            self.monadic = True
            self.lines.append(f"  assert! ({P['offN']} + {n} <=? N.of_nat (length {cur})) code {P['code']} ;;")
        elif P["k"] + n > P["ln"]:
            raise self.err(f"{n} elements at offset {P['k']} of an array of {P['ln']}")

    def ptr_read(self, P, n, init=True):
        """the n elements at the pointer (bounds assert first); init: they must have been written"""
        cur = self.cur(P["root"], P["fs"])
        self.ptr_bounds(P, n, cur)
        en = self.env[P["root"]]
        if en["uninit"] is not None:
            if P["fs"] or P["k"] is None:
                raise self.err(f"pointer into the local {P['root']}")
            if init and en["uninit"] and not set(range(P["k"], P["k"] + n)) <= en.get("assigned", set()):
                raise self.err(f"{P['root']}[{P['k']} .. {P['k'] + n}) is read before it is written")
        return f"(firstn {n}%nat (skipn {P['off']} {cur}))"

    def ptr_write(self, P, data, n, note=None, checked=False):
        """n elements stored at the pointer (bounds assert first, unless this is the write-back of a callee's result
        into the n elements whose current contents were just passed to it, and asserted, by ptr_read)"""
        cur = self.cur(P["root"], P["fs"])
        if not checked:
            self.ptr_bounds(P, n, cur)
        en = self.env[P["root"]]
        if en["uninit"] is not None and (P["fs"] or P["k"] is None):
            raise self.err(f"pointer into the local {P['root']}")
        self.write(P["root"], P["fs"], f"(arr_store {cur} {P['off']} {data})", note=note, whole=False)
        if en["uninit"] is not None:
            self.mark(en, P["k"], n, P["ln"])

    def mark(self, en, k, n, ln):
        """elements [k, k + n) of a local array are written now"""
        en.setdefault("assigned", set()).update(range(k, k + n))
        if en["assigned"] >= set(range(ln)):
            en["uninit"] = set()

    def count(self, ast, w, what):
        """memcpy / memset byte count -> (Gallina nat term, python int or None)"""
        try:
            n = self.ctx.const_int(ast, self.name)
        except AnchorError:
            n = None
        if n is not None:
            if n % (w // 8):
                raise self.err(f"{what}: {n} bytes is not a whole number of elements")
            return f"{n // (w // 8)}%nat", n // (w // 8)
        a, t, _ = self.val(ast)
        if w != 8 or t != ("int", 64):
            raise self.err(f"{what}: variable byte count on a non-byte array")
        return f"(N.to_nat {a})", None

    def store(self, dst, data, n, src_text):
        root, fs, w, ln, off = dst
        if off is None and n is not None and ln is not None and n > ln:
            raise self.err(f"{src_text}: {n} elements into an array of {ln}")
        e = self.env[root]
        cur = root
        t = e["type"]
        t = ("struct", t[1]) if t[0] == "ptr" else t
        for f in fs:                                  # the current contents, even if not yet written
            cur = f"({t[1]}_{f} {cur})"
            t = dict(self.ctx.structs[t[1]])[f]
        whole = off is None and n is not None and n == ln
        self.write(root, fs, f"(arr_store {cur} {off or '0%nat'} {data})", note=src_text, whole=whole)
        if not whole and not fs and off is None and n is not None and ln is not None and e["uninit"] is not None \
                and e["type"][0] == "arr":
            self.mark(e, 0, n, ln)

    # ---- calls ----
    def call(self, ast, value=False, ret_stmt=False, bind=None):
        """bind: the name that receives the C return value of a call that also writes through its arguments
        (`T v = f(p, ..);`; '_' when the source discards it)"""
        fname, args = ast[1], ast[2]
        f = self.ctx.funcs.get(fname)
        if f is None:
            raise self.err(f"call of {fname}, which is neither translated nor a declared external")
        if len(args) != len(f["params"]):
            raise self.err(f"call of {fname}: {len(args)} arguments for {len(f['params'])} parameters")
        if f["poly"]:
            self.poly = True
        if f.get("fuel"):
            self.fuel = True
        for x in f["exts"]:
            if x not in self.exts:
                self.exts.append(x)
        terms, targets = [], []
        for i, (a, (pname, pt, pconst)) in enumerate(zip(args, f["params"])):
            P = self.ptr(a) if pt[0] == "arr" else None
            if pt[0] in ("int", "bool"):
                term, t, _ = self.val(a)
                if not self.fits(t, pt):
                    raise self.err(f"call of {fname}: argument {i + 1} does not fit the parameter {pname}")
                terms.append(term)
            elif P is not None:
                if pt[2] is None or P["w"] != pt[1]:
                    raise self.err(f"call of {fname}: pointer argument {i + 1} does not match {pname}")
                terms.append(self.ptr_read(P, pt[2], init=i not in f["inouts"]))
                if i in f["inouts"]:
                    targets.append(("*", P, pt[2]))
            elif pt[0] == "arr":
                if i in f["inouts"]:
                    root, fs, w, ln, off = self.arr_w(a)
                    if off is not None:
                        raise self.err(f"call of {fname}: offset pointer passed for {pname}")
                    cur = root if not fs else None
                    if cur is None:
                        e = self.env[root]
                        cur, t = root, e["type"]
                        t = ("struct", t[1]) if t[0] == "ptr" else t
                        for g in fs:
                            cur = f"({t[1]}_{g} {cur})"
                            t = dict(self.ctx.structs[t[1]])[g]
                    targets.append((root, fs))
                else:
                    cur, w, ln = self.arr_r(a)
                    if ln is None and pt[2] is not None:
                        cur = f"(firstn {pt[2]}%nat {cur})"      # a pointer passed for `const T p[n]`: the n elements at it
                if w != pt[1] or (pt[2] is not None and ln is not None and ln < pt[2]):
                    raise self.err(f"call of {fname}: array argument {i + 1} does not match {pname}")
                terms.append(cur)
            elif pt[0] == "parr":
                if a[0] != "var" or self.env.get(a[1], {}).get("type", ("",))[0] != "parr":
                    raise self.err(f"call of {fname}: argument {i + 1} is not an array of pointers")
                terms.append(a[1])
            elif pt[0] == "ptr":
                root, fs, t, isptr = self.path(a)
                if not isptr or t != ("struct", pt[1]):
                    raise self.err(f"call of {fname}: argument {i + 1} is not a pointer to {pt[1]}")
                if i in f["inouts"]:
                    e = self.env[root]
                    cur, tt = root, e["type"]
                    tt = ("struct", tt[1]) if tt[0] == "ptr" else tt
                    for g in fs:
                        cur = f"({tt[1]}_{g} {cur})"
                        tt = dict(self.ctx.structs[tt[1]])[g]
                    terms.append(cur)
                    targets.append((root, fs))
                else:
                    terms.append(self.read(root, fs))
            else:
                raise self.err(f"call of {fname}: parameter {pname}")
        for x, xt in f["extras"]:
            if x not in [y for y, _ in self.extras]:
                self.extras.append((x, xt))
        if f.get("fields"):
            # a formula of GenFormulas.v over the members its C body reads (anchored by the generator)
            sname = f["params"][0][1][1]
            terms = [f"({sname}_{g} {terms[0]})" for g in f["fields"]]
        head = [f["coq"]] + ["ext_" + x for x in (f["exts"] if not f.get("external") else [])] \
            + (["fuel"] if f.get("fuel") else []) + terms + [x for x, _ in f["extras"]]
        term = " ".join(head)
        if value or ret_stmt:
            if targets:
                raise self.err(f"call of {fname} writes through its arguments inside an expression")
            if f["ret"] is None:
                raise self.err(f"call of {fname}: no value")
            t = f["ret"]
            return f"({term})" if not f["res"] else term, t, f["res"]
        names = []
        for tg in targets:
            names.append(tg[0] if not tg[1] and tg[0] != "*" else self.fresh())
        if f["ret"] is not None and bind is None:
            raise self.err(f"call of {fname}: result discarded")
        if not names:
            raise self.err(f"call of {fname} has no effect")
        if bind is not None and f["ret"] is None:
            raise self.err(f"call of {fname}: no value")
        pnames = names + ([bind] if bind is not None else [])
        pat = pnames[0] if len(pnames) == 1 else "'(" + ", ".join(pnames) + ")"
        if f["res"]:
            self.monadic = True
            self.lines.append(f"  {pat} <- {term} ;;")
        else:
            self.lines.append(f"  let {pat} := {term} in")
        for tg, nm in zip(targets, names):
            if tg[0] == "*":
                self.ptr_write(tg[1], nm, tg[2], checked=True)
                continue
            root, fs = tg
            self.assigned(root)
            e = self.env[root]
            if e["const"]:
                raise self.err(f"call of {fname} writes through the const parameter {root}")
            if fs:
                self.write(root, fs, nm)
            else:
                if e["param"]:
                    self.written.add(root)
                if e["uninit"] is not None:
                    e["uninit"] = set()
        return f["ret"] if bind is not None else None

    # ---- statements ----
    def stmt(self, s, last):
        k = s[0]
        if k == "decl":
            return self.decl_stmt(s)
        if k == "expr":
            e = s[1]
            if e[0] == "call" and e[1] in ("memcpy", "memset"):
                return self.mem_stmt(e)
            if e[0] == "call" and e[1] == "store32":
                return self.store32_stmt(e)
            if e[0] == "call":
                return self.call(e)
            if e[0] == "assign":
                return self.assign(e)
            raise self.err(f"expression statement {e!r}")
        if k == "if" and s[3] is None:
            c = self.cond(s[1])
            if not s[2]:
                raise self.err("empty if")
            for b in s[2]:
                if not (b[0] == "expr" and b[1][0] == "assign" and b[1][1] == "=" and b[1][2][0] == "var"
                        and self.env.get(b[1][2][1], {}).get("type", ("",))[0] == "int"
                        and not self.env[b[1][2][1]]["param"]):
                    raise self.err(f"conditional statement {b!r}")
                v = b[1][2][1]
                n0 = len(self.lines)
                a, t, _ = self.val(b[1][3])
                if len(self.lines) != n0:
                    raise self.err("checked arithmetic under a condition")
                if not self.fits(t, self.env[v]["type"]):
                    raise self.err(f"assignment to {v} truncates")
                self.let(v, f"if {c} then {a} else {v}")
            return None
        raise self.err(f"statement {s!r} in this position")

    def decl_stmt(self, s):
        _, const, ty, star, v, ln, init = s
        if ty in _CS_INT or ty == "bool":
            t = ("bool",) if ty == "bool" else ("int", _CS_INT[ty])
            if star:
                # T *q = a + e
                if ln is not None or init is None or t != ("int", 8) or const:
                    raise self.err(f"pointer declaration {v}")
                if init[0] == "bin" and init[1] == "+":
                    root, fs, w, aln, off = self.arr_w(init[2])
                    o, ot, _ = self.val(init[3])
                    if off is not None or w != 8 or ot != ("int", 64):
                        raise self.err(f"pointer declaration {v}")
                    self.let(f"{v}_off", f"N.to_nat {o}")
                    self.declare(v, ("alias", root, fs, w, aln, f"{v}_off"))
                    return None
                P = self.ptr(init)
                if P is not None:
                    # T *q = &a[e]
                    if P["offN"] is not None:
                        self.let(f"{v}_off", P["offN"])
                        P = dict(P, offN=f"{v}_off", off=f"(N.to_nat {v}_off)")
                    self.declare(v, ("alias", P["root"], P["fs"], P["w"], P["ln"], P["off"], P))
                    return None
                raise self.err(f"pointer declaration {v}")
            if ln is not None:
                if init is not None or const or t[0] != "int":
                    raise self.err(f"array declaration {v}")
                n = self.ctx.const_int(ln, self.name)
                self.declare(v, ("arr", t[1], n), uninit={"*"})
                self.let(v, f"repeat 0 {n}%nat")
                return None
            if init is None:
                if not self.loops or t[0] != "int" or const:
                    raise self.err(f"scalar {v} declared without initialiser")
                self.declare(v, t, uninit={"*"})
                self.let(v, "0")
                return None
            if self.loops and init[0] == "call" and self.ctx.funcs.get(init[1], {}).get("inouts"):
                # T v = f(p, ..); where f also writes through p
                it = self.call(init, bind=v)
                if not self.fits(it, t):
                    raise self.err(f"initialiser of {v} does not fit {ty}")
                self.declare(v, t)
                return None
            term, it, res = self.val(init, top=True)
            if not self.fits(it, t):
                raise self.err(f"initialiser of {v} does not fit {ty}")
            self.declare(v, t)
            self.let(v, term, res=res)
            return None
        if ty in self.ctx.structs and not star and ln is None and init is None and not const:
            t = ("struct", ty)
            self.declare(v, t, uninit={f for f, _ in self.ctx.structs[ty]})
            if ty in self.ctx.poly:
                x = f"{v}_uninit"
                self.extras.append((x, t))
                self.let(v, x)
            else:
                self.let(v, f"uninit_{ty}")
            return None
        if self.loops and ty in self.ctx.structs and not star and ln is None and not const and init is not None \
                and init[0] == "call":
            # struct T v = f(..);
            term, rt, res = self.call(init, ret_stmt=True)
            if rt != ("struct", ty):
                raise self.err(f"initialiser of {v} is not a {ty}")
            self.declare(v, ("struct", ty))
            self.let(v, term, res=res)
            return None
        raise self.err(f"declaration {s!r}")

    def store32_stmt(self, e):
        # store32(&out[k], words[i])
        a = e[2]
        if not (len(a) == 2 and a[0][0] == "un" and a[0][1] == "&" and a[0][2][0] == "index" and a[1][0] == "index"):
            raise self.err(f"store32 call {e!r}")
        dst = self.arr_w(a[0][2][1])
        k = self.ctx.const_int(a[0][2][2], self.name)
        term, sw, sln = self.arr_r(a[1][1])
        i = self.ctx.const_int(a[1][2], self.name)
        if dst[2] != 8 or dst[4] is not None or sw != 32 or sln is None or i >= sln or dst[3] is None or k + 4 > dst[3]:
            raise self.err(f"store32 call {e!r}")
        root, fs = dst[0], dst[1]
        self.write(root, fs, f"(arr_store {self.cur(root, fs)} {k}%nat (bytes_of_word (arr_get {term} {i}%nat)))",
                   whole=False)
        en = self.env[root]
        if en["uninit"] is not None and not fs:
            en.setdefault("assigned", set()).update(range(k, k + 4))
            if en["assigned"] == set(range(dst[3])):
                en["uninit"] = set()
        return None

    def mem_stmt(self, e):
        fname, args = e[1], e[2]
        if len(args) != 3:
            raise self.err(f"{fname}: arguments")
        P = self.ptr(args[0])
        dst = self.arr_w(args[0]) if P is None else None
        w = dst[2] if P is None else P["w"]

        def put(data, n, what):
            if P is None:
                return self.store(dst, data, n, what)
            if n is None:
                raise self.err(f"{what}: variable byte count through a pointer")
            return self.ptr_write(P, data, n, note=what)
        if fname == "memcpy":
            Q = self.ptr(args[1])
            if Q is not None:
                cnt, n = self.count(args[2], w, "memcpy")
                if Q["w"] != w or n is None:
                    raise self.err("memcpy from a pointer: element type / variable byte count")
                return put(self.ptr_read(Q, n), n, "memcpy")
            term, sw, sln = self.arr_r(args[1])
            if sw != w:
                raise self.err("memcpy between arrays of different element types")
            cnt, n = self.count(args[2], w, "memcpy")
            if n is not None and sln is not None and n > sln:
                raise self.err(f"memcpy reads {n} elements of an array of {sln}")
            return put(f"(firstn {cnt} {term})", n, "memcpy")
        if args[1][0] != "num":
            raise self.err("memset value")
        cnt, n = self.count(args[2], w, "memset")
        return put(f"(repeat {args[1][1]} {cnt})", n, "memset")

    def assign(self, e):
        _, op, lhs, rhs = e
        if lhs[0] == "index":
            # a[i] = load32(&b[k])
            root, fs, w, ln, off = self.arr_w(lhs[1])
            i = self.ctx.const_int(lhs[2], self.name)
            if op != "=" or off is not None or w != 32 or ln is None or i >= ln:
                raise self.err(f"indexed assignment {e!r}")
            if not (rhs[0] == "call" and rhs[1] == "load32" and len(rhs[2]) == 1 and rhs[2][0][0] == "un"
                    and rhs[2][0][1] == "&" and rhs[2][0][2][0] == "index"):
                raise self.err(f"indexed assignment {e!r}")
            term, sw, sln = self.arr_r(rhs[2][0][2][1])
            j = self.ctx.const_int(rhs[2][0][2][2], self.name)
            if sw != 8 or (sln is not None and j + 4 > sln):
                raise self.err(f"load32 argument {rhs!r}")
            cur = self.cur(root, fs)
            self.write(root, fs, f"(arr_set {cur} {i}%nat (le_load32 (skipn {j}%nat {term})))", whole=False)
            en = self.env[root]
            if en["uninit"] is not None and not fs:
                en["uninit"].discard("*")
                en.setdefault("assigned", set()).add(i)
                if en["assigned"] != set(range(ln)):
                    en["uninit"].add("*")
            return None
        if self.loops and lhs[0] == "var" and lhs[1] in self.env:
            v, en = lhs[1], self.env[lhs[1]]
            if op == "+=" and en["param"] and en["type"][0] == "arr" and en["type"][1] == 8 and en["type"][2] is None:
                # p += n on `const uint8_t *p`: the bytes that remain (the pointed-to data is not written)
                a, rt, _ = self.val(rhs)
                if not self.fits(rt, ("int", 64)):
                    raise self.err(f"{e!r}: pointer increment")
                return self.let(v, f"skipn (N.to_nat {a}) {v}")
            if op == "=" and en["type"][0] == "struct" and not en["param"] and rhs[0] == "call":
                term, rt, res = self.call(rhs, ret_stmt=True)
                if rt != en["type"]:
                    raise self.err(f"assignment {e!r}: type")
                self.let(v, term, res=res)
                en["uninit"] = set()
                return None
        if lhs[0] == "var":
            v = lhs[1]
            en = self.env.get(v)
            if en is None or en["type"][0] != "int" or en["const"]:
                raise self.err(f"assignment to {v}")
            root, fs, t = v, [], en["type"]
            old = v
        else:
            root, fs, t, _ = self.path(lhs)
            if t[0] != "int":
                raise self.err(f"assignment to a non-scalar {lhs!r}")
            old = None
        if op == "=":
            code = _CS_ASSIGN_SITES.get((self.c, lhs[1])) if lhs[0] == "var" and self.loops else None
            if code is not None:
                if code in self.sites_used:
                    raise self.err(f"second assignment to {lhs[1]}: _CS_ASSIGN_SITES names one site")
                saved, self.site = self.site, (code, code)
            term, rt, res = self.val(rhs, top=(not fs and lhs[0] == "var"))
            if code is not None:
                self.site = saved
                if res:
                    self.sites_used.add(code)
            if not self.fits(rt, t):
                raise self.err(f"assignment {e!r} truncates")
            if lhs[0] == "var":
                if en["param"]:
                    raise self.err(f"assignment to the parameter {v}")
                self.let(v, term, res=res)
                if en["uninit"]:
                    en["uninit"] = set()
                return None
            return self.write(root, fs, term)
        # += / -=
        a, rt, _ = self.val(rhs)
        if not self.fits(rt, t):
            raise self.err(f"{e!r}: operand wider than the target")
        cur = old if old is not None else self.read(root, fs)
        if old is not None and self.env[old]["uninit"]:
            raise self.err(f"{old} is read before it is written")
        v = self.fresh()
        self.let(v, f"{'mi_add' if op == '+=' else 'mi_sub'} {t[1]} {cur} {a}", res=True)
        if lhs[0] == "var":
            return self.let(root, v)
        return self.write(root, fs, v)

    def cur(self, root, fs):
        e = self.env[root]
        cur, t = root, e["type"]
        t = ("struct", t[1]) if t[0] == "ptr" else t
        for f in fs:
            cur = f"({t[1]}_{f} {cur})"
            t = dict(self.ctx.structs[t[1]])[f]
        return cur

    def ret_value(self, e):
        """the returned expression -> pure Gallina term of the return type (checked sub-terms are bound first)"""
        if self.ret is None or e is None:
            raise self.err("return with a value in a void function / without a value")
        if self.ret[0] == "struct":
            if e[0] == "call":
                term, t, res = self.call(e, ret_stmt=True)
                if t != self.ret:
                    raise self.err("returned call has the wrong type")
                if res:
                    v = self.fresh()
                    self.let(v, term, res=True)
                    return v
                return term
            root, fs, t, isptr = self.path(e)
            if t != self.ret or isptr:
                raise self.err(f"returned object {e!r}")
            if self.env[root]["uninit"]:
                raise self.err(f"{root} is returned before {sorted(self.env[root]['uninit'])} are written")
            return self.read(root, fs)
        term, t, _ = self.val(e)
        if not self.fits(t, self.ret):
            raise self.err("returned value does not fit the return type")
        return term

    def translate(self):
        ctx = self.ctx
        stmts = list(self.stmts)
        result = None
        tail_if = None
        if stmts and stmts[-1][0] == "return":
            last = stmts.pop()
        elif stmts and stmts[-1][0] == "if" and stmts[-1][3] is not None:
            tail_if = stmts.pop()
            last = None
        else:
            last = None
            if self.ret is not None:
                raise self.err("no return statement at the end")
        for s in stmts:
            self.stmt(s, False)
        if last is not None:
            result = self.ret_value(last[1])
        elif tail_if is not None:
            # if (c) { return a; } else { return b; }
            _, c, th, el = tail_if
            if len(th) != 1 or len(el) != 1 or th[0][0] != "return" or el[0][0] != "return":
                raise self.err("if / else at the end is not a pair of returns")
            n0 = len(self.lines)
            cterm = self.cond(c)
            a, b = self.ret_value(th[0][1]), self.ret_value(el[0][1])
            if len(self.lines) != n0:
                raise self.err("checked arithmetic under a condition")
            result = f"(if {cterm} then {a} else {b})"
        inouts = [i for i, (p, t, const) in enumerate(self.params) if p in self.written]
        notes = [f"(* {p}: not const in the source, never written *)" for p, t, const in self.params
                 if t[0] in ("arr", "ptr") and not const and p not in self.written]
        for p in self.written:
            if self.env[p]["type"][0] not in ("arr", "ptr"):
                raise self.err(f"scalar parameter {p} is written")
        parts = [self.params[i][0] for i in inouts] + ([result] if result is not None else [])
        f = {"c": self.c, "coq": self.name, "params": self.params, "ret": self.ret, "inouts": inouts,
             "res": self.monadic, "exts": self.exts, "extras": self.extras, "poly": self.poly}
        rt = ctx.result_type(f)
        final = parts[0] if len(parts) == 1 else "(" + ", ".join(parts) + ")"
        if self.monadic:
            final = f"Ok {final}"
        sig = []
        if self.poly or any(ctx.funcs[x]["poly"] for x in self.exts):
            f["poly"] = True
            sig.append("{S : Type}")
        for x in self.exts:
            sig.append(f"(ext_{x} : {ctx.fun_type(ctx.funcs[x])})")
        for p, t, _ in self.params:
            sig.append(f"({p} : {ctx.coq_type(t)})")
        for x, t in self.extras:
            sig.append(f"({x} : {ctx.coq_type(t)})")
        ctx.funcs[self.c] = f
        text = "".join(n + "\n" for n in notes)
        text += f"Definition {self.name} " + " ".join(sig) + f"\n  : {rt} :=\n" \
            + "".join(l + "\n" for l in self.lines) + f"  {final}.\n"
        return text


def _c_hasher_small_parts():
    """(ctx, text pieces of GenCHasherSmall.v, (blake3.h, blake3_impl.h, blake3.c) without comments): the struct
    layouts, constants and signatures are built once here for GenCHasherSmall.v and GenCHasherLoops.v"""
    h = strip_comments(src("c/blake3.h"))
    ih = strip_comments(src("c/blake3_impl.h"))
    c = strip_comments(src("c/blake3.c"))
    ints, ints_coq = {}, {}
    for k in ["KEY_LEN", "OUT_LEN", "BLOCK_LEN", "CHUNK_LEN", "MAX_DEPTH"]:
        m = find1(r"#define\s+BLAKE3_" + k + r"\s+(\d+)", h, "c_" + k)
        ints["BLAKE3_" + k], ints_coq["BLAKE3_" + k] = int(m.group(1)), "c_" + k
    m = find1(r"enum\s+blake3_flags\s*\{(.*?)\}", ih, "c_flags")
    flags = {nm: const_eval(parse_expr(e, nm), {}, nm) for nm, e in re.findall(r"(\w+)\s*=\s*([^,}]+)", m.group(1))}
    find1(r"static const uint32_t IV\[8\]\s*=", ih, "c_IV")
    ctx = CSCtx(ints, flags, {"IV": ("c_IV", 32, 8)}, {("blake3_hasher", "cv_stack")})
    ctx.ints_coq = ints_coq
    out = [HEADER.replace("Base.MachInt.", "Base.MachInt Base.Word Base.Arr.\nFrom V Require Import gen.GenConsts.")]
    out.append("(* ---- struct declarations: c/blake3.h (blake3_chunk_state, blake3_hasher), c/blake3.c (output_t) ---- *)\n")
    ctx.add_struct(h, "blake3_chunk_state")
    ctx.add_struct(h, "blake3_hasher")
    ctx.add_struct(c, "output_t")
    out.extend(ctx.out)

    # functions that are called but not translated: their prototypes are the source's
    ctx.external_from_source(ih, "blake3_compress_in_place", r"\b(void)\s+blake3_compress_in_place\s*\(", False, True)
    ctx.external_from_source(c, "blake3_hasher_update_base", r"\bINLINE\s+(void)\s+blake3_hasher_update_base\s*\(",
                             True, False)
    ctx.external_from_source(c, "blake3_hasher_finalize_seek", r"\b(void)\s+blake3_hasher_finalize_seek\s*\(",
                             True, False)
    find1(r"#include\s*<string\.h>", c, "c/blake3.c includes <string.h>")      # memcpy, memset, strlen
    ctx.add_external("strlen", [("s", ("arr", 8, None), True)], ("int", 64), True)

    out.append("(* ---- c/blake3_impl.h ---- *)\n")
    for fn in ("load_key_words", "store_cv_words"):
        out.append(CSFn(ctx, ih, fn).translate())
    out.append("(* ---- c/blake3.c ---- *)\n")
    for fn in ("chunk_state_init", "chunk_state_reset", "chunk_state_fill_buf", "chunk_state_maybe_start_flag",
               "make_output", "output_chaining_value", "chunk_state_output", "parent_output", "hasher_init_base",
               "blake3_hasher_init", "blake3_hasher_init_keyed", "blake3_hasher_update", "blake3_hasher_finalize",
               "blake3_hasher_init_derive_key_raw", "blake3_hasher_init_derive_key", "blake3_hasher_reset"):
        out.append(CSFn(ctx, c, fn).translate())
    return ctx, out, (h, ih, c)


def gen_c_hasher_small():
    return "\n".join(_c_hasher_small_parts()[1])


# ---------------------------------------------------------------------------
# GenCHasherLoops.v: the loop-carrying core of c/blake3.c (chunk_state_update, hasher_merge_cv_stack, hasher_push_cv,
# blake3_hasher_finalize_seek), translated statement by statement on top of GenCHasherSmall.v (same records, same
# translated callees, same rules as above).  What is added:
#   * blake3_hasher.cv_stack is INTERPRETED: it is the flat `uint8_t cv_stack[(BLAKE3_MAX_DEPTH + 1) * BLAKE3_OUT_LEN]`
#     of c/blake3.h, i.e. the records are used at S := list N.  `&self->cv_stack[e]` is a pointer into it: e is
#     translated from the source text, and EVERY access through the pointer (n bytes read as an argument declared
#     `T p[n]` / as a memcpy source, n bytes written by a callee / by memcpy) is preceded by
#     `assert! (e + n <=? N.of_nat (length cv_stack)) code c`; a read is firstn n (skipn e cv_stack), a write is
#     arr_store cv_stack e data.  `&local[k]` with a constant k is the same without the assert (k + n is checked here).
#     A pointer argument passed for a parameter declared `const T p[n]` is the n elements at the pointer (firstn n).
#   * integer promotion: arithmetic whose operands are all narrower than int (uint8_t, literals) is done in `int`;
#     it is translated at width 31 (the non-negative range of int), stricter than C as everywhere: a negative or
#     overflowing result is a Panic.  `*` is mi_mul.
#   * Panic codes of the stack accesses: the codes of Model/CHasher.v, so that the results are comparable.
#     _CS_STACK_SITES[f][k] = (c1, c2) for the k-th `&self->cv_stack[e]` of f in source order: inside e a wrap-around of
#     a subtraction is Panic c1, an overflow of `+` / `*` and the bounds assert are Panic c2 (`at_site c r` replaces the
#     Panic code of the checked operation r by c).  _CS_ASSIGN_SITES[(f, v)] = c: the checked arithmetic of the one
#     assignment `v = e;` of f (`cvs_remaining = self->cv_stack_len - 2`: the stack entries below the top two).
#     The number of sites found must match these tables.
#   * `while (c) { body }` -> a separate `Fixpoint src_<f>_loop<k>` on explicit fuel.  Its parameters: the ext_
#     functions the body calls, `fuel : nat`, the variables in scope that the condition / body mention (declaration
#     order); its result: the variables the body assigns.  It tests the condition first (no checked arithmetic is
#     allowed there), returns OutOfFuel when the condition holds and fuel = O, otherwise runs the body statements in
#     source order and recurses on the predecessor.  A function that contains a loop, or calls one that does, takes
#     `fuel` after its ext_ parameters and passes it on unchanged.
#   * `if (c) { A } [else { B }]` with arbitrary statements: `'(v..) <- (if c then A ;; Ok (v..) else B ;; Ok (v..)) ;;`
#     where v.. are the variables of the enclosing scope that A or B assign; declarations inside a block are local
#     to it.  A local declared without initialiser (`output_t output; size_t cvs_remaining;`) is zero-filled, and
#     reading it is an AnchorError unless every path has assigned it (for arrays: every element read).
#   * `if (c) { A; return; }` at the top level of a void function: `if c then A ;; <result> else <the rest>`.
#   * `p += n` on a `const uint8_t *p` parameter: p is the list of the bytes that remain, `skipn (N.to_nat n) p`;
#     `x -= e` is mi_sub at the width of x; `T v = f(p, ..);` where f also writes through p binds both; the value of
#     such a call may be discarded only where _CS_DISCARD_OK says so (`chunk_state_fill_buf(self, input, input_len);`
#     at the end of chunk_state_update); `struct T v = f(..);` and `v = f(..);` for struct values.
#   * chunk_state_len(&s) and popcnt(x) are the formulas c_chunk_state_len / c_popcnt of GenFormulas.v (translated
#     there from the same return statements); here it is anchored that chunk_state_len reads exactly
#     s->blocks_compressed and s->buf_len, which are the formula's two arguments.
# Everything else raises AnchorError.
# ---------------------------------------------------------------------------
_CS_STACK_SITES = {"hasher_merge_cv_stack": [(320, 321)],
                   "hasher_push_cv": [(322, 322)],
                   "blake3_hasher_finalize_seek": [(326, 326), (324, 324)]}
_CS_ASSIGN_SITES = {("blake3_hasher_finalize_seek", "cvs_remaining"): 325}
_CS_DISCARD_OK = {"chunk_state_update": ("chunk_state_fill_buf",)}


class CSLoopFn(CSFn):
    loops = True

    def __init__(self, ctx, text, cname):
        CSFn.__init__(self, ctx, text, cname)
        self.monadic, self.nloop, self.loop_defs, self.early = True, 0, [], False

    # ---- the state of the "written before read" bookkeeping, per variable ----
    def snapshot(self):
        return {v: (None if e["uninit"] is None else set(e["uninit"]), set(e.get("assigned", ())))
                for v, e in self.env.items()}

    def restore(self, snap):
        for v, (u, a) in snap.items():
            if v in self.env:
                self.env[v]["uninit"] = None if u is None else set(u)
                self.env[v]["assigned"] = set(a)

    def block(self, stmts):
        """the statements of a `{ }` block -> (lines, variables of the enclosing scope it assigns)"""
        outer = set(self.env)
        saved, self.lines = self.lines, []
        rec = set()
        self.recorders.append(rec)
        for s in stmts:
            self.stmt(s, False)
        self.recorders.pop()
        lines, self.lines = self.lines, saved
        for v in list(self.env):
            if v not in outer:
                del self.env[v]
        return lines, rec

    @staticmethod
    def tup(vs):
        return vs[0] if len(vs) == 1 else "(" + ", ".join(vs) + ")"

    @staticmethod
    def pat(vs):
        return vs[0] if len(vs) == 1 else "'(" + ", ".join(vs) + ")"

    def vars_in(self, node, acc):
        if isinstance(node, tuple) and len(node) == 2 and node[0] == "var" and isinstance(node[1], str):
            if node[1] in self.env and node[1] not in acc:
                acc.append(node[1])
        elif isinstance(node, (tuple, list)):
            for x in node:
                self.vars_in(x, acc)
        return acc

    # ---- statements ----
    def stmt(self, s, top):
        k = s[0]
        if k == "if":
            return self.if_stmt(s, top)
        if k == "while":
            return self.while_stmt(s)
        if k == "expr" and s[1][0] == "call" and s[1][1] in _CS_DISCARD_OK.get(self.c, ()):
            self.call(s[1], bind="_")
            return None
        return CSFn.stmt(self, s, False)

    def if_stmt(self, s, top):
        _, c, th, el = s
        if not th or el == []:
            raise self.err("empty if / else")
        cterm = self.cond(c)
        snap = self.snapshot()
        if top and el is None and th[-1] == ("return", None):
            # if (c) { A; return; } at the top level of a void function
            if self.ret is not None:
                raise self.err("early return in a function that returns a value")
            lines, _ = self.block(th[:-1])
            self.restore(snap)
            self.early = True
            self.lines.append(f"  if {cterm} then")
            self.lines += ["  " + l for l in lines] + ["    @RET@", "  else"]
            return None
        la, ra = self.block(th)
        sa = self.snapshot()
        self.restore(snap)
        lb, rb = self.block(el) if el is not None else ([], set())
        sb = self.snapshot()
        for v, e in self.env.items():                   # written on both paths
            if e["uninit"] is not None:
                e["uninit"] = set(sa[v][0]) | set(sb[v][0])
                e["assigned"] = sa[v][1] & sb[v][1]
        vs = [v for v in self.env if v in ra or v in rb]
        if not vs:
            raise self.err(f"conditional block without effect: {s!r}")
        self.lines.append(f"  {self.pat(vs)} <- (if {cterm} then")
        self.lines += ["    " + l for l in la] + [f"      Ok {self.tup(vs)}", "    else"]
        self.lines += ["    " + l for l in lb] + [f"      Ok {self.tup(vs)}) ;;"]
        return None

    def while_stmt(self, s):
        _, c, body = s
        ctx = self.ctx
        self.nloop += 1
        lname = f"{self.name}_loop{self.nloop}"
        used = self.vars_in([c, body], [])
        used = [v for v in self.env if v in used]                     # declaration order
        for v in used:
            if self.env[v]["type"][0] == "alias":
                raise self.err(f"loop {self.nloop}: the pointer {v} is used inside the loop")
        snap = self.snapshot()
        saved, self.lines = self.lines, []
        cterm = self.cond(c)
        if self.lines:
            raise self.err(f"loop {self.nloop}: checked arithmetic / a call in the loop condition")
        self.lines = saved
        saved_exts, self.exts, n_extras = self.exts, [], len(self.extras)
        lines, rec = self.block(body)
        lexts = self.exts
        self.exts = saved_exts + [x for x in lexts if x not in saved_exts]
        if len(self.extras) != n_extras:
            raise self.err(f"loop {self.nloop}: uninitialised struct local inside the loop")
        self.restore(snap)                                            # the body may not run at all
        vs = [v for v in self.env if v in rec]
        if not vs or any(v not in used for v in vs):
            raise self.err(f"loop {self.nloop}: no effect")
        sig = [f"(ext_{x} : {ctx.fun_type(ctx.funcs[x])})" for x in lexts] + ["(fuel : nat)"] \
            + [f"({v} : {ctx.coq_type(self.env[v]['type'])})" for v in used]
        rtype = " * ".join(ctx.coq_type(self.env[v]["type"]) for v in vs)
        args = " ".join(["ext_" + x for x in lexts] + ["fuel"] + used)
        self.loop_defs.append(
            f"Fixpoint {lname} " + " ".join(sig) + f"\n  : res {rtype if len(vs) == 1 else '(' + rtype + ')'} :=\n"
            f"  if {cterm} then\n    match fuel with\n    | O => OutOfFuel\n    | S fuel =>\n"
            + "".join("    " + l + "\n" for l in lines)
            + f"      {lname} {args}\n    end\n  else Ok {self.tup(vs)}.\n")
        self.fuel = True
        for v in vs:
            self.assigned(v)
        self.lines.append(f"  {self.pat(vs)} <- {lname} {args} ;;")
        return None

    def translate(self):
        ctx = self.ctx
        stmts = list(self.stmts)
        last = None
        if stmts and stmts[-1][0] == "return" and stmts[-1][1] is not None:
            last = stmts.pop()
        elif self.ret is not None:
            raise self.err("no return statement at the end")
        for s in stmts:
            self.stmt(s, True)
        result = self.ret_value(last[1]) if last is not None else None
        if self.nsite != len(_CS_STACK_SITES.get(self.c, [])):
            raise self.err(f"{self.nsite} cv_stack accesses, _CS_STACK_SITES lists {len(_CS_STACK_SITES.get(self.c, []))}")
        for (fn, v), code in _CS_ASSIGN_SITES.items():
            if fn == self.c and code not in self.sites_used:
                raise self.err(f"no checked assignment to {v} (_CS_ASSIGN_SITES)")
        if self.extras:
            raise self.err("uninitialised struct local with an uninterpreted member")
        inouts = [i for i, (p, t, const) in enumerate(self.params) if p in self.written]
        notes = [f"(* {p}: not const in the source, never written *)" for p, t, const in self.params
                 if t[0] in ("arr", "ptr") and not const and p not in self.written]
        for p in self.written:
            if self.env[p]["type"][0] not in ("arr", "ptr"):
                raise self.err(f"scalar parameter {p} is written")
        parts = [self.params[i][0] for i in inouts] + ([result] if result is not None else [])
        f = {"c": self.c, "coq": self.name, "params": self.params, "ret": self.ret, "inouts": inouts,
             "res": True, "exts": self.exts, "extras": [], "poly": False, "fuel": self.fuel}
        rt = ctx.result_type(f)
        final = "Ok " + self.tup(parts)
        sig = [f"(ext_{x} : {ctx.fun_type(ctx.funcs[x])})" for x in self.exts]
        if self.fuel:
            sig.append("(fuel : nat)")
        sig += [f"({p} : {ctx.coq_type(t)})" for p, t, _ in self.params]
        ctx.funcs[self.c] = f
        text = "".join(d + "\n" for d in self.loop_defs) + "".join(n + "\n" for n in notes)
        text += f"Definition {self.name} " + " ".join(sig) + f"\n  : {rt} :=\n" \
            + "".join(l.replace("@RET@", final) + "\n" for l in self.lines) + f"  {final}.\n"
        return text


def gen_c_hasher_loops():
    ctx, _, (h, ih, c) = _c_hasher_small_parts()
    ctx.interpret_flat()
    out = [HEADER.replace("Base.MachInt.", "Base.MachInt Base.Word Base.Arr.\n"
                          "From V Require Import gen.GenConsts gen.GenFormulas gen.GenCHasherSmall.")]
    out.append("(* blake3_hasher.cv_stack is the flat byte array of c/blake3.h here: the records of GenCHasherSmall.v at\n"
               "   S := list N.  at_site: the Panic code of a checked operation replaced by the code of the source site it\n"
               "   belongs to (the site numbering of Model/CHasher.v); not translated from anything. *)\n"
               "Definition at_site {A : Type} (site : N) (r : res A) : res A :=\n"
               "  match r with Ok a => Ok a | Panic _ => Panic site | OutOfFuel => OutOfFuel end.\n")
    (_, flat), = ctx.flat.items()
    out.append(f"(* uint8_t cv_stack[{flat[2]}] *)\n")

    # called, not translated here
    ctx.external_from_source(c, "output_root_bytes", r"\bINLINE\s+(void)\s+output_root_bytes\s*\(", True, False)
    # popcnt(x) = c_popcnt x, chunk_state_len(&s) = c_chunk_state_len s.blocks_compressed s.buf_len (gen_formulas)
    find1(r"\bINLINE\s+unsigned\s+int\s+popcnt\s*\(\s*uint64_t\s+x\s*\)\s*\{", ih, "popcnt prototype")
    ctx.funcs["popcnt"] = {"c": "popcnt", "coq": "c_popcnt", "params": [("x", ("int", 64), False)], "ret": ("int", 32),
                           "inouts": [], "res": True, "exts": [], "extras": [], "poly": False}
    hdr = r"\bINLINE\s+(size_t)\s+chunk_state_len\s*\("
    ptext, between = _fn_header(c, hdr, "chunk_state_len")
    params, ret = ctx.signature("chunk_state_len", ptext, "size_t")
    body = CSParser(_cs_tokens(fn_body(c, hdr, "chunk_state_len"), "chunk_state_len"), "chunk_state_len",
                    ctx.typenames()).stmts_until(("eof", None))
    if between or params != [("self", ("ptr", "blake3_chunk_state"), True)] or len(body) != 1 or body[0][0] != "return":
        raise AnchorError("chunk_state_len: expected `(const blake3_chunk_state *self) { return e; }`")

    def members(node, acc):
        if isinstance(node, tuple) and node[:2] == ("arrow", ("var", "self")):
            acc.append(node[2])
        elif isinstance(node, tuple) and node == ("var", "self"):
            acc.append(None)
        elif isinstance(node, (tuple, list)):
            for x in node:
                members(x, acc)
        return acc
    if sorted(set(members(body[0][1], [])), key=str) != ["blocks_compressed", "buf_len"]:
        raise AnchorError("chunk_state_len: reads something other than self->blocks_compressed and self->buf_len")
    ctx.funcs["chunk_state_len"] = {"c": "chunk_state_len", "coq": "c_chunk_state_len", "params": params, "ret": ret,
                                    "inouts": [], "res": True, "exts": [], "extras": [], "poly": False,
                                    "fields": ["blocks_compressed", "buf_len"]}

    out.append("(* ---- c/blake3.c ---- *)\n")
    for fn in ("chunk_state_update", "hasher_merge_cv_stack", "hasher_push_cv", "blake3_hasher_finalize_seek"):
        out.append(CSLoopFn(ctx, c, fn).translate())
    return "\n".join(out)


# ---------------------------------------------------------------------------
# GenCHasherWide.v: the wide core of c/blake3.c (compress_chunks_parallel, compress_parents_parallel,
# blake3_compress_subtree_wide, compress_subtree_to_parent_node, blake3_hasher_update_base, output_root_bytes),
# translated statement by statement on top of GenCHasherSmall.v / GenCHasherLoops.v (same records at S := list N, same
# translated callees, the rules of CSFn / CSLoopFn).  What is added:
#   * preprocessor: `#if defined(BLAKE3_TESTING)` blocks are kept (the testing build's asserts), of
#     `#if defined(BLAKE3_USE_TBB) A #else B #endif` the arm B, `#if E .. #endif` with a comparison E of build constants
#     becomes `if (E) { .. }`; MAX_SIMD_DEGREE / MAX_SIMD_DEGREE_OR_2 are c_MAX_SIMD_DEGREE / c_MAX_SIMD_DEGREE_OR_2 of
#     GenConsts.v (the x86-64 values of blake3_impl.h); any other directive is an AnchorError.
#   * `assert(e);` -> `assert! e code c`, c from the per-function table in source order (the codes of Model/CHasher.v).
#   * a `(pointer, length)` pair is the list of ALL bytes from the pointer on plus the length: `&p[e]` / `p + e` for a
#     byte-pointer parameter or const pointer local is `skipn e p`, `p += n` likewise; `const uint8_t *q = &p[e]`,
#     `const uint8_t *q = (const uint8_t *)p` are such lists.
#   * `const uint8_t *a[N]` (an array of pointers) is a list of N such lists, `a[i] = &p[e]` -> bounds assert `i < N`
#     (site code), pa_set.  blake3_hash_many takes it with num_inputs and blocks.
#   * writing through a `uint8_t *out` parameter (memcpy(out, ..) / memcpy(&out[e], ..) / `&out[e]` passed for
#     `uint8_t cv[32]`) asserts `e + n <= length out` with the site's code first.  `out += n` on such a parameter
#     (output_root_bytes) moves an offset variable `out_off` (checked addition) instead of the list: the function still
#     returns the caller's buffer; `out` then means the bytes from out_off on (a callee that writes from there on gets
#     `skipn out_off out`, its result is put back behind `firstn out_off out`).  memcpy from `local + e` / from a local
#     array with a variable count asserts the source range with the site's code.
#   * `uint8_t *q = &a[e]` for a local array a SPLITS it, like split_at_mut: after the bounds assert `e <= length a`
#     (site code) `a` is a[0 .. e) and `q` the rest; where `a` is read as a whole afterwards it is `a ++ q`.
#   * recursion (blake3_compress_subtree_wide): a Fixpoint on fuel, `match fuel` after the leading
#     `if (c) { return e; }` statements, as in GenLibWide.v.  `if (c) { A; return e; }` / a final
#     `if (c) { A; return e; } else { return f; }` with values; `if (c) { A } else { return; }` nested in the last
#     position of an arm of a void function yields `early : bool` (then `if early then <result> else <rest>`).
#   * conditions: == != < > <= >= && and `if (x)` (x != 0); checked arithmetic inside a loop condition is evaluated at
#     the head of the loop function.  `/`, `%` by a non-zero constant are N.div / N.modulo, `&` is N.land
#     (`x & -64` at the width of x), `c ? a : b`, `x /= k`, `v = f(p, ..)` for calls that write through arguments.
#   * left_subtree_len / round_down_to_power_of_2 are the formulas c_left_subtree_len / c_round_down_to_power_of_2 of
#     GenFormulas.v (translated there from the same text); blake3_simd_degree, blake3_hash_many, blake3_compress_xof,
#     blake3_xof_many are ext_ parameters with the prototypes of blake3_impl.h.
# Everything else raises AnchorError.
# ---------------------------------------------------------------------------
_CW_TOK = re.compile(r"(?P<num>0[xX][0-9a-fA-F]+|\d+)[uUlL]*|(?P<id>[A-Za-z_]\w*)"
                     r"|(?P<op>->|\+=|-=|/=|==|!=|<=|>=|<<|>>|&&|\|\||[-+*/%&|^!~<>=().,\[\]{};?:])")


def _cw_tokens(text, name):
    out, i = [], 0
    while True:
        while i < len(text) and text[i].isspace():
            i += 1
        if i >= len(text):
            return out
        m = _CW_TOK.match(text, i)
        if not m:
            raise AnchorError(f"{name}: cannot tokenize {text[i:i + 20]!r}")
        if m.group("num") is not None:
            out.append(("num", int(m.group("num"), 0)))
        elif m.group("id") is not None:
            out.append(("id", m.group("id")))
        else:
            out.append(("op", m.group("op")))
        i = m.end()


def _c_preprocess(body, name):
    """the body of a function of c/blake3.c with its conditional compilation resolved (see the comment above)"""
    out, stack = [], []                       # stack entries: ("keep" | "drop" | "else-keep" | "block")
    for line in body.split("\n"):
        s = line.strip()
        if not s.startswith("#"):
            if not any(x == "drop" for x in stack):
                out.append(line)
            continue
        s = " ".join(s.split())
        if s == "#if defined(BLAKE3_TESTING)":
            stack.append("keep")
        elif s == "#if defined(BLAKE3_USE_TBB)":
            stack.append("drop")
        elif s == "#else" and stack and stack[-1] == "drop":
            stack[-1] = "keep"
        elif s.startswith("#if ") and re.fullmatch(r"#if [A-Z_0-9]+ (>|<|==|>=|<=) \d+", s):
            stack.append("block")
            out.append("if (" + s[4:] + ") {")
        elif s == "#endif":
            if not stack:
                raise AnchorError(f"{name}: #endif without #if")
            if stack.pop() == "block":
                out.append("}")
        else:
            raise AnchorError(f"{name}: preprocessor directive {s!r}")
    if stack:
        raise AnchorError(f"{name}: unterminated #if")
    return "\n".join(out)


class CWParser(CSParser):
    """CSParser plus `x /= e`, `c ? a : b` (('cond', c, a, b)) and pointer casts `(const uint8_t *)e` (('pcast', e))"""

    def expr(self, minprec, assign=False):
        lhs = self.unary()
        if assign and self.peek() in (("op", "="), ("op", "+="), ("op", "-="), ("op", "/=")):
            op = self.next()[1]
            return ("assign", op, lhs, self.expr(0))
        while True:
            k, v = self.peek()
            if k == "op" and v in self.PREC and self.PREC[v] >= minprec:
                self.next()
                rhs = self.expr(self.PREC[v] + 1)
                lhs = ("bin", v, lhs, rhs)
                continue
            if (k, v) == ("op", "?") and minprec == 0:
                self.next()
                a = self.expr(0)
                self.expect(":")
                b = self.expr(0)
                return ("cond", lhs, a, b)
            return lhs

    def unary(self):
        if self.peek() == ("op", "("):
            j = self.i + 1
            if self.t[j:j + 1] == [("id", "const")]:
                j += 1
            if j < len(self.t) and self.t[j][0] == "id" and self.t[j][1] in ("uint8_t",) \
                    and self.t[j + 1:j + 3] == [("op", "*"), ("op", ")")]:
                self.i = j + 3
                return ("pcast", self.unary())
        return CSParser.unary(self)


# per function: Panic codes of its assert(..) statements in source order, and [(kind, code)] of its checked pointer sites
# in translation order (the codes of Model/CHasher.v for the same sites)
_CW_FNS = {
    "compress_chunks_parallel": ([1600, 1601], [("parr", 301), ("out", 302)]),
    "compress_parents_parallel": ([1602, 1603], [("parr", 303), ("out", 304)]),
    "blake3_compress_subtree_wide": ([], [("split", 305), ("out", 308)]),
    "compress_subtree_to_parent_node": ([1604, 1605], []),
    "blake3_hasher_update_base": ([], []),
    "output_root_bytes": ([], [("src", 310), ("out", 313), ("src", 312), ("out", 313)]),        # 313: past the end of out
}


class CSWideFn(CSLoopFn):
    def __init__(self, ctx, text, cname):
        self.ctx, self.c, self.name = ctx, cname, "src_" + cname
        hdr = r"\b(?:INLINE\s+)?(void|size_t|uint8_t|uint32_t|uint64_t|output_t)\s+" + cname + r"\s*\("
        m = find1(hdr, text, self.name)
        ptext, between = _fn_header(text, hdr, self.name)
        if between:
            raise AnchorError(f"{self.name}: text between ')' and '{{': {between!r}")
        self.params, self.ret = ctx.signature(self.name, ptext, m.group(1))
        body = _c_preprocess(fn_body(text, hdr, self.name), self.name)
        self.stmts = CWParser(_cw_tokens(body, self.name), self.name, ctx.typenames()).stmts_until(("eof", None))
        self.env, self.lines, self.written, self.exts, self.extras = {}, [], set(), [], []
        self.monadic, self.tmp, self.poly = True, 0, False
        self.recorders, self.site, self.nsite, self.fuel, self.sites_used = [], None, 0, False, set()
        self.nloop, self.loop_defs, self.early = 0, [], False
        self.codes, self.wsites = [list(x) for x in _CW_FNS[cname]]
        self.code_i, self.wsite_i, self.closers, self.split = 0, 0, [], {}
        for pname, t, const in self.params:
            self.declare(pname, t, const=const, param=True)
        self.recursive = WFn.mentions_call(self.stmts, cname)
        self.offsets = {}                                  # written pointer parameter -> its offset variable (`out += n`)

    # ---- tables ----
    def wsite(self, kind):
        if self.wsite_i >= len(self.wsites):
            raise self.err(f"more checked pointer sites than entries in _CW_FNS (next: {kind})")
        k, code = self.wsites[self.wsite_i]
        if k != kind:
            raise self.err(f"site {self.wsite_i + 1} is a {kind!r}, the table expects {k!r}")
        self.wsite_i += 1
        return code

    def check(self, cond, code, note=None):
        self.monadic = True
        self.lines.append(f"  assert! {cond} code {code} ;;" + (f"   (* {note} *)" if note else ""))

    def is_byteptr(self, v):
        """a byte pointer with unknown extent: parameter or local"""
        e = self.env.get(v)
        return e is not None and e["type"] == ("arr", 8, None)

    # ---- expressions ----
    def try_const(self, ast):
        try:
            return self.ctx.const_int(ast, self.name)
        except (AnchorError, KeyError):
            return None

    def val0(self, ast):
        k = ast[0]
        if k in ("bin", "cond") or (k == "un" and ast[1] == "-"):
            n = self.try_const(ast) if self.no_vars(ast) else None
            if n is not None and n >= 0:
                return str(n), ("lit", n), False
        if k == "bin" and ast[1] in ("/", "%"):
            a, ta, _ = self.val(ast[2])
            d = self.try_const(ast[3]) if self.no_vars(ast[3]) else None
            if d is None or d <= 0 or ta[0] != "int":
                raise self.err(f"division by something that is not a positive constant: {ast!r}")
            b, _, _ = self.val(ast[3])
            return f"({a} {'/' if ast[1] == '/' else 'mod'} {b})", ta, False
        if k == "bin" and ast[1] == "&":
            a, ta, _ = self.val(ast[2])
            if ta[0] != "int":
                raise self.err(f"operands of '&': {ast!r}")
            if ast[3][0] == "un" and ast[3][1] == "-" and ast[3][2][0] == "num":
                return f"(N.land {a} {(1 << ta[1]) - ast[3][2][1]})", ta, False       # two's complement at the width of a
            b, tb, _ = self.val(ast[3])
            if tb[0] not in ("int", "lit"):
                raise self.err(f"operands of '&': {ast!r}")
            return f"(N.land {a} {b})", ("int", max(ta[1], tb[1] if tb[0] == "int" else 0)), False
        if k == "cond":
            c = self.cond(ast[1])
            a, ta, _ = self.val(ast[2])
            b, tb, _ = self.val(ast[3])
            if ta[0] != "int" or tb[0] != "int":
                raise self.err(f"conditional expression {ast!r}")
            return f"(if {c} then {a} else {b})", ("int", max(ta[1], tb[1])), False
        return CSLoopFn.val0(self, ast)

    def no_vars(self, node):
        if isinstance(node, tuple) and len(node) == 2 and node[0] == "var":
            return node[1] in self.ctx.ints and node[1] not in self.env
        if isinstance(node, tuple) and node and node[0] in ("call", "index", "arrow", "field"):
            return False
        if isinstance(node, (tuple, list)):
            return all(self.no_vars(x) for x in node if isinstance(x, (tuple, list)))
        return True

    def cond(self, ast):
        if ast[0] == "bin" and ast[1] == "&&":
            return f"({self.cond(ast[2])} && {self.cond(ast[3])})"
        if ast[0] == "bin" and ast[1] in ("==", "!=", "<", ">", "<=", ">="):
            a, ta, _ = self.val(ast[2])
            b, tb, _ = self.val(ast[3])
            if any(t[0] not in ("int", "lit") for t in (ta, tb)):
                raise self.err(f"comparison {ast!r}")
            return {"==": f"({a} =? {b})", "!=": f"(negb ({a} =? {b}))", "<": f"({a} <? {b})", ">": f"({b} <? {a})",
                    "<=": f"({a} <=? {b})", ">=": f"({b} <=? {a})"}[ast[1]]
        a, ta, _ = self.val(ast)
        if ta[0] != "int":
            raise self.err(f"condition {ast!r}")
        return f"(negb ({a} =? 0))"

    # ---- byte pointers with unknown extent ----
    def suffix(self, ast):
        """`p`, `&p[e]`, `p + e`, `(const uint8_t *)p` for a byte pointer p -> (root, Gallina term of the bytes from there
        on, offset term : N or None); None when ast is not of that shape"""
        if ast[0] == "pcast":
            return self.suffix(ast[1])
        if ast[0] == "var" and self.is_byteptr(ast[1]):
            return ast[1], self.cur_ptr(ast[1]), None
        if ast[0] == "un" and ast[1] == "&" and ast[2][0] == "index" and ast[2][1][0] == "var" and self.is_byteptr(ast[2][1][1]):
            root, idx = ast[2][1][1], ast[2][2]
        elif ast[0] == "bin" and ast[1] == "+" and ast[2][0] == "var" and self.is_byteptr(ast[2][1]):
            root, idx = ast[2][1], ast[3]
        else:
            return None
        e, t, _ = self.val(idx)
        if t[0] not in ("int", "lit"):
            raise self.err(f"pointer offset {idx!r}")
        return root, f"(skipn (N.to_nat {e}) {self.cur_ptr(root)})", e

    def cur_ptr(self, v):
        """the bytes a written pointer parameter currently points at (`out += n` moves it)"""
        if v in self.offsets:
            return f"(skipn (N.to_nat {self.offsets[v]}) {v})"
        return v

    def out_write(self, root, off, data, n, note):
        """n bytes stored through the non-const byte pointer `root` (+ off); bounds assert with the site's code first"""
        en = self.env[root]
        if en["const"]:
            raise self.err(f"write through the const pointer {root}")
        base = self.offsets.get(root)
        parts = [x for x in (base, off) if x is not None]
        o = " + ".join(parts) if parts else "0"
        self.check(f"({o} + {n} <=? N.of_nat (length {root}))", self.wsite("out"), f"{note}: {n} bytes at {root}")
        self.let(root, f"arr_store {root} (N.to_nat ({o})) {data}", note=note)
        if en["param"]:
            self.written.add(root)
        if en["uninit"] is not None:
            en["uninit"] = set()

    # ---- calls: pointer arguments are lowered to named lists first ----
    def call(self, ast, value=False, ret_stmt=False, bind=None):
        fname, args = ast[1], ast[2]
        f = self.ctx.funcs.get(fname)
        if f is None or len(args) != len(f["params"]):
            return CSLoopFn.call(self, ast, value, ret_stmt, bind)
        new_args, post = [], []
        for i, (a, (pname, pt, pconst)) in enumerate(zip(args, f["params"])):
            if pt[0] == "parr":
                if a[0] != "var" or self.env.get(a[1], {}).get("type", ("",))[0] != "parr":
                    raise self.err(f"call of {fname}: argument {i + 1} is not an array of pointers")
                new_args.append(a)
                continue
            if pt[0] != "arr" or pt[1] != 8:
                new_args.append(a)
                continue
            if a[0] == "var" and a[1] in self.split and i not in f["inouts"]:
                # a split local array read as a whole
                v = self.fresh()
                self.lines.append(f"  let {v} := ({a[1]} ++ {self.split[a[1]]}) in")
                self.declare(v, ("arr", 8, None), const=True)
                new_args.append(("var", v))
                continue
            s = self.suffix(a) if not (a[0] == "var" and a[1] not in self.offsets) else None
            if s is None:
                new_args.append(a)
                continue
            root, term, off = s
            v = self.fresh()
            if i in f["inouts"]:
                if pt[2] is None:
                    # the callee writes from there on: what lies before the pointer stays
                    self.lines.append(f"  let {v} := {term} in")
                    self.declare(v, ("arr", 8, None))
                    o = " + ".join(x for x in (self.offsets.get(root), off) if x is not None)
                    post.append((root, f"firstn (N.to_nat ({o})) {root} ++ {v}"))
                else:
                    n = pt[2]
                    o = " + ".join(x for x in (self.offsets.get(root), off) if x is not None) or "0"
                    self.check(f"({o} + {n} <=? N.of_nat (length {root}))", self.wsite("out"),
                               f"{n} bytes written at {root}")
                    self.lines.append(f"  let {v} := firstn {n}%nat {term} in")
                    self.declare(v, ("arr", 8, n))
                    post.append((root, f"arr_store {root} (N.to_nat ({o})) {v}"))
            else:
                self.lines.append(f"  let {v} := {term} in")
                self.declare(v, ("arr", 8, None), const=True)
            new_args.append(("var", v))
        r = CSLoopFn.call(self, ("call", fname, new_args), value, ret_stmt, bind)
        for root, term in post:
            en = self.env[root]
            if en["const"]:
                raise self.err(f"call of {fname} writes through the const pointer {root}")
            self.let(root, term)
            if en["param"]:
                self.written.add(root)
            if en["uninit"] is not None:
                en["uninit"] = set()
        return r

    def arr_r(self, ast):
        if ast[0] == "var" and ast[1] in self.split:
            a = ast[1]
            if self.env[a]["uninit"] or self.env[self.split[a]]["uninit"]:
                raise self.err(f"{a} is read before all of it is written")
            return f"({a} ++ {self.split[a]})", 8, None
        s = self.suffix(ast) if ast[0] != "var" or ast[1] in self.offsets else None
        if s is not None:
            return s[1], 8, None
        return CSLoopFn.arr_r(self, ast)

    # ---- statements ----
    def stmt(self, s, top):
        k = s[0]
        if k == "expr" and s[1][0] == "call" and s[1][1] == "assert" and len(s[1][2]) == 1:
            if self.code_i >= len(self.codes):
                raise self.err("more assert statements than Panic codes in _CW_FNS")
            self.code_i += 1
            return self.check(self.cond(s[1][2][0]), self.codes[self.code_i - 1], "assert")
        if k == "decl":
            r = self.wdecl(s)
            if r is not NotImplemented:
                return r
        if k == "expr" and s[1][0] == "assign":
            r = self.wassign(s[1])
            if r is not NotImplemented:
                return r
        if k == "expr" and s[1][0] == "call" and s[1][1] == "memcpy" and len(s[1][2]) == 3:
            r = self.wmemcpy(s[1])
            if r is not NotImplemented:
                return r
        return CSLoopFn.stmt(self, s, top)

    def wdecl(self, s):
        _, const, ty, star, v, ln, init = s
        if ty == "uint8_t" and star and const and ln is not None and init is None:
            n = self.ctx.const_int(ln, self.name)                  # const uint8_t *a[N]
            self.declare(v, ("parr", n))
            self.let(v, f"repeat [] {n}%nat")
            return None
        if ty == "uint8_t" and star and const and ln is None and init is not None:
            sfx = self.suffix(init)                                # const uint8_t *q = &p[e] / (const uint8_t *)p
            if sfx is None:
                raise self.err(f"pointer declaration {v}")
            self.declare(v, ("arr", 8, None), const=True)
            self.let(v, sfx[1])
            return None
        if ty == "uint8_t" and star and not const and ln is None and init is not None and init[0] == "un" \
                and init[1] == "&" and init[2][0] == "index" and init[2][1][0] == "var":
            a = init[2][1][1]
            en = self.env.get(a)
            if en is not None and en["type"][0] == "arr" and en["type"][1] == 8 and en["type"][2] is not None \
                    and not en["param"] and self.try_const(init[2][2]) is None:
                # uint8_t *q = &a[e] with a variable e: the local array a is split at e
                if a in self.split:
                    raise self.err(f"{a} is split twice")
                e, t, _ = self.val(init[2][2])
                if t[0] != "int":
                    raise self.err(f"pointer declaration {v}")
                self.check(f"({e} <=? N.of_nat (length {a}))", self.wsite("split"), f"&{a}[..]")
                self.declare(v, ("arr", 8, None), uninit=(set(en["uninit"]) if en["uninit"] is not None else None))
                self.let(v, f"skipn (N.to_nat {e}) {a}")
                self.let(a, f"firstn (N.to_nat {e}) {a}")
                self.env[a]["type"] = ("arr", 8, None)
                self.split[a] = v
                return None
        if (ty in _CS_INT) and not star and ln is None and init is not None and init[0] == "call" \
                and self.ctx.funcs.get(init[1], {}).get("inouts"):
            it = self.call(init, bind=v)
            if not self.fits(it, ("int", _CS_INT[ty])):
                raise self.err(f"initialiser of {v} does not fit {ty}")
            self.declare(v, ("int", _CS_INT[ty]))
            return None
        return NotImplemented

    def wassign(self, e):
        _, op, lhs, rhs = e
        if lhs[0] == "index" and lhs[1][0] == "var" and self.env.get(lhs[1][1], {}).get("type", ("",))[0] == "parr" and op == "=":
            a = lhs[1][1]
            sfx = self.suffix(rhs)
            if sfx is None:
                raise self.err(f"element of the pointer array {a}: {rhs!r}")
            i, t, _ = self.val(lhs[2])
            if t[0] != "int":
                raise self.err(f"index {lhs[2]!r}")
            self.check(f"({i} <? {self.env[a]['type'][1]})", self.wsite("parr"), f"{a}[..]")
            self.let(a, f"pa_set {a} (N.to_nat {i}) {sfx[1]}")
            return None
        if lhs[0] == "var" and lhs[1] in self.env:
            v, en = lhs[1], self.env[lhs[1]]
            if op == "+=" and en["type"] == ("arr", 8, None):
                a, rt, _ = self.val(rhs)
                if not self.fits(rt, ("int", 64)):
                    raise self.err(f"{e!r}: pointer increment")
                if en["const"]:
                    return self.let(v, f"skipn (N.to_nat {a}) {v}")           # the bytes that remain
                if not en["param"]:
                    raise self.err(f"{e!r}: increment of a written local pointer")
                o = f"{v}_off"                                               # a written pointer: its offset moves
                if v not in self.offsets:
                    raise self.err(f"{v} is advanced before its offset variable exists")
                t = self.fresh()
                self.let(t, f"mi_add 64 {o} {a}", res=True)
                self.let(o, t)
                return None
            if op == "/=" and en["type"][0] == "int" and not en["param"]:
                d = self.try_const(rhs)
                if d is None or d <= 0:
                    raise self.err(f"{e!r}: divisor")
                return self.let(v, f"({v} / {d})")
            if op == "=" and en["type"][0] == "int" and not en["param"] and rhs[0] == "call" \
                    and self.ctx.funcs.get(rhs[1], {}).get("inouts"):
                it = self.call(rhs, bind=v)
                if not self.fits(it, en["type"]):
                    raise self.err(f"assignment {e!r} truncates")
                if en["uninit"]:
                    en["uninit"] = set()
                self.assigned(v)
                return None
        return NotImplemented

    def wmemcpy(self, e):
        dst, src, cnt = e[2]
        d = None
        if dst[0] == "var" and self.is_byteptr(dst[1]) and not self.env[dst[1]]["const"]:
            d = (dst[1], None)
        elif dst[0] == "un" and dst[1] == "&" and dst[2][0] == "index" and dst[2][1][0] == "var" \
                and self.is_byteptr(dst[2][1][1]) and not self.env[dst[2][1][1]]["const"]:
            o, t, _ = self.val(dst[2][2])
            if t[0] not in ("int", "lit"):
                raise self.err(f"memcpy destination {dst!r}")
            d = (dst[2][1][1], o)
        local_src = src[0] == "bin" and src[1] == "+" and src[2][0] == "var" \
            and self.env.get(src[2][1], {}).get("type", ("", 0, None))[2] is not None
        if d is None and not local_src:
            return NotImplemented
        # the source
        n = self.try_const(cnt) if self.no_vars(cnt) else None
        if n is not None:
            nterm = f"{n}%nat"
            ncheck = str(n)
        else:
            c, t, _ = self.val(cnt)
            if t[0] != "int":
                raise self.err(f"memcpy count {cnt!r}")
            nterm, ncheck = f"(N.to_nat {c})", c
        if local_src:
            a = src[2][1]
            o, t, _ = self.val(src[3])
            if t[0] != "int" or self.env[a]["uninit"]:
                raise self.err(f"memcpy source {src!r}")
            self.check(f"({o} + {ncheck} <=? N.of_nat (length {a}))", self.wsite("src"), f"{ncheck} bytes read at {a} + ..")
            data = f"(firstn {nterm} (skipn (N.to_nat {o}) {a}))"
        else:
            term, sw, sln = self.arr_r(src)
            if sw != 8:
                raise self.err("memcpy between arrays of different element types")
            if n is None and sln is not None:
                self.check(f"({ncheck} <=? N.of_nat (length {term}))", self.wsite("src"), f"{ncheck} bytes read")
            data = f"(firstn {nterm} {term})"
        if d is None:
            raise self.err(f"memcpy {e!r}")
        self.out_write(d[0], d[1], data, ncheck, "memcpy")
        return None

    # ---- control flow ----
    @staticmethod
    def ends_in_return(stmts):
        if not stmts:
            return False
        s = stmts[-1]
        if s[0] == "return":
            return True
        return s[0] == "if" and s[3] is not None and (CSWideFn.ends_in_return(s[2]) or CSWideFn.ends_in_return(s[3]))

    def ret_value(self, e):
        if e is not None and e[0] == "call" and self.ctx.funcs.get(e[1], {}).get("inouts") and self.ret is not None \
                and self.ret[0] == "int":
            t = self.fresh()                                         # return f(p, ..); where f writes through p
            it = self.call(e, bind=t)
            if not self.fits(it, self.ret):
                raise self.err("returned value does not fit the return type")
            return t
        return CSLoopFn.ret_value(self, e)

    def result_term(self, e):
        """Ok (written parameters.., value of `return e`)"""
        val = self.ret_value(e) if e is not None else None
        if (e is None) != (self.ret is None):
            raise self.err("return with / without a value")
        parts = [p for p, t, const in self.params if p in self.all_written()] + ([val] if val is not None else [])
        return "Ok " + self.tup(parts)

    def all_written(self):
        return self.inout_names if self.inout_names is not None else self.written

    def if_stmt(self, s, top):
        _, c, th, el = s
        has_ret = WFn.has_return(th) or (el is not None and WFn.has_return(el))
        if not has_ret:
            return CSLoopFn.if_stmt(self, s, top)
        if top and el is None and th and th[-1][0] == "return":
            # if (c) { A; return e; }: the rest of the function is the else arm
            cterm = self.cond(c)
            snap = self.snapshot()
            outer = set(self.env)
            saved, self.lines = self.lines, []
            saved_off = dict(self.offsets)
            for st in th[:-1]:
                self.stmt(st, False)
            self.lines.append("  " + self.result_term(th[-1][1]))
            lines, self.lines = self.lines, saved
            for v in list(self.env):
                if v not in outer:
                    del self.env[v]
            self.restore(snap)
            self.offsets = saved_off
            self.lines.append(f"  if {cterm} then (")
            self.lines += ["  " + l for l in lines] + ["  ) else"]
            return None
        if self.ret is not None:
            raise self.err("nested return in a function that returns a value")
        self.flag_if(s)
        if not top:
            raise self.err("return inside a nested block")
        self.lines.append("  if (early : bool) then " + self.result_term(None) + " else")
        return None

    def flag_if(self, s):
        """if / else of a void function one of whose arms ends in `return;` (directly or through such an if in its last
        position): binds the variables the arms assign and `early : bool`"""
        _, c, th, el = s
        cterm = self.cond(c)
        snap = self.snapshot()
        la, ra, ea = self.flag_arm(th)
        sa = self.snapshot()
        self.restore(snap)
        lb, rb, eb = self.flag_arm(el if el is not None else [])
        sb = self.snapshot()
        for v, e in self.env.items():
            if e["uninit"] is not None:
                e["uninit"] = set(sa[v][0]) | set(sb[v][0])
                e["assigned"] = sa[v][1] & sb[v][1]
        vs = [v for v in self.env if v in ra or v in rb]
        for v in vs:
            self.assigned(v)
        self.lines.append(f"  {self.pat(vs + ['early'])} <- (if {cterm} then")
        self.lines += ["    " + l for l in la] + [f"      Ok {self.tup(vs + [ea])}", "    else"]
        self.lines += ["    " + l for l in lb] + [f"      Ok {self.tup(vs + [eb])}) ;;"]

    def flag_arm(self, stmts):
        outer = set(self.env)
        saved, self.lines = self.lines, []
        rec = set()
        self.recorders.append(rec)
        early = "false"
        if stmts and stmts[-1] == ("return", None):
            for st in stmts[:-1]:
                self.stmt(st, False)
            early = "true"
        elif stmts and stmts[-1][0] == "if" and WFn.has_return(stmts[-1]):
            for st in stmts[:-1]:
                self.stmt(st, False)
            self.flag_if(stmts[-1])
            early = "early"
        else:
            for st in stmts:
                self.stmt(st, False)
        self.recorders.pop()
        lines, self.lines = self.lines, saved
        for v in list(self.env):
            if v not in outer:
                del self.env[v]
        return lines, rec, early

    def while_stmt(self, s):
        _, c, body = s
        ctx = self.ctx
        self.nloop += 1
        lname = f"{self.name}_loop{self.nloop}"
        used = self.vars_in([c, body], [])
        used = [v for v in self.env if v in used]                     # declaration order
        for v in used:
            if self.env[v]["type"][0] == "alias" or v in self.split or v in self.offsets:
                raise self.err(f"loop {self.nloop}: the pointer {v} is used inside the loop")
        snap = self.snapshot()
        saved, self.lines = self.lines, []
        cterm = self.cond(c)
        head, self.lines = self.lines, saved                          # checked arithmetic of the condition
        saved_exts, self.exts, n_extras = self.exts, [], len(self.extras)
        saved_fuel, self.fuel = self.fuel, False
        lines, rec = self.block(body)
        lexts = self.exts
        self.exts = saved_exts + [x for x in lexts if x not in saved_exts]
        if len(self.extras) != n_extras:
            raise self.err(f"loop {self.nloop}: uninitialised struct local inside the loop")
        self.restore(snap)                                            # the body may not run at all
        vs = [v for v in self.env if v in rec]
        if not vs or any(v not in used for v in vs):
            raise self.err(f"loop {self.nloop}: no effect")
        sig = [f"(ext_{x} : {ctx.fun_type(ctx.funcs[x])})" for x in lexts] + ["(fuel : nat)"] \
            + [f"({v} : {ctx.coq_type(self.env[v]['type'])})" for v in used]
        rtype = " * ".join(ctx.coq_type(self.env[v]["type"]) for v in vs)
        args = " ".join(["ext_" + x for x in lexts] + ["fuel"] + used)
        self.loop_defs.append(
            f"Fixpoint {lname} " + " ".join(sig) + f"\n  : res {rtype if len(vs) == 1 else '(' + rtype + ')'} :=\n"
            + "".join(l + "\n" for l in head)
            + f"  if {cterm} then\n    match fuel with\n    | O => OutOfFuel\n    | S fuel =>\n"
            + "".join("    " + l + "\n" for l in lines)
            + f"      {lname} {args}\n    end\n  else Ok {self.tup(vs)}.\n")
        self.fuel = True
        for v in vs:
            self.assigned(v)
        self.lines.append(f"  {self.pat(vs)} <- {lname} {args} ;;")
        return None

    def open_fuel(self):
        self.lines += ["  match fuel with", "  | O => OutOfFuel", "  | S fuel =>"]
        self.closers.insert(0, "  end")
        self.fuel = True

    def translate(self):
        ctx = self.ctx
        stmts = list(self.stmts)
        # which parameters are written: needed before the body for returns inside it (verified at the end)
        self.inout_names = [p for p, t, const in self.params if t[0] in ("arr", "ptr") and not const]
        if self.recursive:
            ctx.funcs[self.c] = {"c": self.c, "coq": self.name, "params": self.params, "ret": self.ret,
                                 "inouts": [i for i, (p, t, const) in enumerate(self.params) if p in self.inout_names],
                                 "res": True, "exts": ["@SELF@"], "extras": [], "poly": False, "fuel": True}
        for p, t, const in self.params:                               # `out += n` on a written pointer parameter
            if t == ("arr", 8, None) and not const and self.advances(stmts, p):
                self.declare(f"{p}_off", ("int", 64))
                self.offsets[p] = f"{p}_off"
                self.lines.append(f"  let {p}_off := 0 in")
        tail = None
        if stmts and stmts[-1][0] == "return" and stmts[-1][1] is not None:
            tail = ("return", stmts.pop()[1])
        elif stmts and stmts[-1][0] == "if" and stmts[-1][3] is not None and self.ret is not None:
            tail = ("if", stmts.pop())
        elif self.ret is not None:
            raise self.err("no return statement at the end")
        opened = False
        for s in stmts:
            early = s[0] == "if" and s[3] is None and s[2] and s[2][-1][0] == "return"
            if self.recursive and not opened and not early:
                self.open_fuel()
                opened = True
            self.stmt(s, True)
        if self.recursive and not opened:
            self.open_fuel()
        if tail is None:
            self.lines.append("  " + self.result_term(None))
        elif tail[0] == "return":
            self.lines.append("  " + self.result_term(tail[1]))
        else:
            _, c, th, el = tail[1]
            if not th or not el or th[-1][0] != "return" or el[-1][0] != "return":
                raise self.err("if / else at the end is not a pair of returns")
            cterm = self.cond(c)
            arms = []
            for arm in (th, el):
                snap, outer, saved_off = self.snapshot(), set(self.env), dict(self.offsets)
                saved, self.lines = self.lines, []
                for st in arm[:-1]:
                    self.stmt(st, False)
                self.lines.append("  " + self.result_term(arm[-1][1]))
                lines, self.lines = self.lines, saved
                for v in list(self.env):
                    if v not in outer:
                        del self.env[v]
                self.restore(snap)
                self.offsets = saved_off
                arms.append(lines)
            self.lines.append(f"  if {cterm} then (")
            self.lines += ["  " + l for l in arms[0]] + ["  ) else ("] + ["  " + l for l in arms[1]] + ["  )"]
        if self.code_i != len(self.codes):
            raise self.err(f"{self.code_i} assert statements, {len(self.codes)} Panic codes in _CW_FNS")
        if self.wsite_i != len(self.wsites):
            raise self.err(f"{self.wsite_i} checked pointer sites, {len(self.wsites)} in _CW_FNS")
        if self.extras:
            raise self.err("uninitialised struct local with an uninterpreted member")
        if sorted(self.written) != sorted(self.inout_names):
            raise self.err(f"written parameters {sorted(self.written)}, non-const pointer parameters {sorted(self.inout_names)}")
        inouts = [i for i, (p, t, const) in enumerate(self.params) if p in self.written]
        self.exts = [x for x in self.exts if x != "@SELF@"]
        f = {"c": self.c, "coq": self.name, "params": self.params, "ret": self.ret, "inouts": inouts,
             "res": True, "exts": self.exts, "extras": [], "poly": False, "fuel": self.fuel}
        rt = ctx.result_type(f)
        sig = [f"(ext_{x} : {ctx.fun_type(ctx.funcs[x])})" for x in self.exts]
        if self.fuel:
            sig.append("(fuel : nat)")
        sig += [f"({p} : {ctx.coq_type(t)})" for p, t, _ in self.params]
        ctx.funcs[self.c] = f
        selfexts = " ".join("ext_" + x for x in self.exts)
        text = "".join(d + "\n" for d in self.loop_defs)
        kw, struct = ("Fixpoint", " {struct fuel}") if self.recursive else ("Definition", "")
        body = "".join(l + "\n" for l in self.lines + self.closers).replace("ext_@SELF@", selfexts)
        text += f"{kw} {self.name} " + " ".join(sig) + f"{struct}\n  : {rt} :=\n" + body.rstrip() + ".\n"
        return text.replace("ext_@SELF@", selfexts)

    @staticmethod
    def advances(node, p):
        if isinstance(node, tuple) and len(node) == 4 and node[0] == "assign" and node[1] == "+=" and node[2] == ("var", p):
            return True
        if isinstance(node, (tuple, list)):
            return any(CSWideFn.advances(x, p) for x in node)
        return False


def gen_c_hasher_wide():
    ctx, _, (h, ih, c) = _c_hasher_small_parts()
    ctx.interpret_flat()
    # the callees translated in GenCHasherLoops.v: same run, same text, same context
    ctx.external_from_source(c, "output_root_bytes", r"\bINLINE\s+(void)\s+output_root_bytes\s*\(", True, False)
    find1(r"\bINLINE\s+unsigned\s+int\s+popcnt\s*\(\s*uint64_t\s+x\s*\)\s*\{", ih, "popcnt prototype")
    ctx.funcs["popcnt"] = {"c": "popcnt", "coq": "c_popcnt", "params": [("x", ("int", 64), False)], "ret": ("int", 32),
                           "inouts": [], "res": True, "exts": [], "extras": [], "poly": False}
    params, ret = ctx.signature("chunk_state_len", _fn_header(c, r"\bINLINE\s+(size_t)\s+chunk_state_len\s*\(", "chunk_state_len")[0],
                                "size_t")
    ctx.funcs["chunk_state_len"] = {"c": "chunk_state_len", "coq": "c_chunk_state_len", "params": params, "ret": ret,
                                    "inouts": [], "res": True, "exts": [], "extras": [], "poly": False,
                                    "fields": ["blocks_compressed", "buf_len"]}
    for fn in ("chunk_state_update", "hasher_merge_cv_stack", "hasher_push_cv"):
        CSLoopFn(ctx, c, fn).translate()
    out = [HEADER.replace("NArith List.", "NArith List Bool.").replace(
        "Base.MachInt.", "Base.MachInt Base.Word Base.Arr Base.Slice.\n"
        "From V Require Import gen.GenConsts gen.GenFormulas gen.GenCHasherSmall gen.GenCHasherLoops.")]

    # build constants (gen_consts reads the same lines)
    m = find1(r"#if defined\(IS_X86\)\s*#define MAX_SIMD_DEGREE (\d+)", ih, "c_MAX_SIMD_DEGREE")
    ctx.ints["MAX_SIMD_DEGREE"], ctx.ints_coq["MAX_SIMD_DEGREE"] = int(m.group(1)), "c_MAX_SIMD_DEGREE"
    find1(r"#define MAX_SIMD_DEGREE_OR_2 \(MAX_SIMD_DEGREE > 2 \? MAX_SIMD_DEGREE : 2\)", ih, "c_MAX_SIMD_DEGREE_OR_2")
    ctx.ints["MAX_SIMD_DEGREE_OR_2"] = max(int(m.group(1)), 2)
    ctx.ints_coq["MAX_SIMD_DEGREE_OR_2"] = "c_MAX_SIMD_DEGREE_OR_2"
    find1(r"#include\s*<stdint\.h>", ih, "blake3_impl.h includes <stdint.h>")              # SIZE_MAX
    ctx.ints["SIZE_MAX"], ctx.ints_coq["SIZE_MAX"] = (1 << 64) - 1, str((1 << 64) - 1)
    find1(r"#include\s*<assert\.h>", ih, "blake3_impl.h includes <assert.h>")

    # called, not translated: the dispatcher's entry points (prototypes of blake3_impl.h)
    ctx.external_from_source(ih, "blake3_simd_degree", r"\b(size_t)\s+blake3_simd_degree\s*\(", False, True)
    ctx.external_from_source(ih, "blake3_compress_xof", r"\b(void)\s+blake3_compress_xof\s*\(", False, True)
    find1(r"\bvoid\s+blake3_hash_many\s*\(\s*const\s+uint8_t\s*\*\s*const\s*\*\s*inputs\s*,\s*size_t\s+num_inputs\s*,\s*"
          r"size_t\s+blocks\s*,\s*const\s+uint32_t\s+key\[8\]\s*,\s*uint64_t\s+counter\s*,\s*bool\s+increment_counter\s*,\s*"
          r"uint8_t\s+flags\s*,\s*uint8_t\s+flags_start\s*,\s*uint8_t\s+flags_end\s*,\s*uint8_t\s*\*\s*out\s*\)\s*;", ih,
          "blake3_hash_many prototype")
    ctx.add_external("blake3_hash_many",
                     [("inputs", ("parr", None), True), ("num_inputs", ("int", 64), False), ("blocks", ("int", 64), False),
                      ("key", ("arr", 32, 8), True), ("counter", ("int", 64), False), ("increment_counter", ("bool",), False),
                      ("flags", ("int", 8), False), ("flags_start", ("int", 8), False), ("flags_end", ("int", 8), False),
                      ("out", ("arr", 8, None), False)], None, True)
    find1(r"\bvoid\s+blake3_xof_many\s*\(\s*const\s+uint32_t\s+cv\[8\]\s*,\s*const\s+uint8_t\s+block\[BLAKE3_BLOCK_LEN\]\s*,\s*"
          r"uint8_t\s+block_len\s*,\s*uint64_t\s+counter\s*,\s*uint8_t\s+flags\s*,\s*uint8_t\s+out\[64\]\s*,\s*"
          r"size_t\s+outblocks\s*\)\s*;", ih, "blake3_xof_many prototype")
    ctx.add_external("blake3_xof_many",                                     # writes 64 * outblocks bytes from out on
                     [("cv", ("arr", 32, 8), True), ("block", ("arr", 8, 64), True), ("block_len", ("int", 8), False),
                      ("counter", ("int", 64), False), ("flags", ("int", 8), False), ("out", ("arr", 8, None), False),
                      ("outblocks", ("int", 64), False)], None, True)
    # left_subtree_len(n) = c_left_subtree_len n, round_down_to_power_of_2(x) = c_round_down_to_power_of_2 x (gen_formulas)
    find1(r"\bINLINE\s+size_t\s+left_subtree_len\s*\(\s*size_t\s+input_len\s*\)\s*\{", c, "left_subtree_len prototype")
    ctx.funcs["left_subtree_len"] = {"c": "left_subtree_len", "coq": "c_left_subtree_len",
                                     "params": [("input_len", ("int", 64), False)], "ret": ("int", 64), "inouts": [],
                                     "res": True, "exts": [], "extras": [], "poly": False}
    find1(r"\bINLINE\s+uint64_t\s+round_down_to_power_of_2\s*\(\s*uint64_t\s+x\s*\)\s*\{", ih, "round_down_to_power_of_2 prototype")
    ctx.funcs["round_down_to_power_of_2"] = {"c": "round_down_to_power_of_2", "coq": "c_round_down_to_power_of_2",
                                             "params": [("x", ("int", 64), False)], "ret": ("int", 64), "inouts": [],
                                             "res": True, "exts": [], "extras": [], "poly": False}
    out.append("(* ---- c/blake3.c ---- *)\n")
    for fn in ("compress_chunks_parallel", "compress_parents_parallel", "blake3_compress_subtree_wide",
               "compress_subtree_to_parent_node", "blake3_hasher_update_base", "output_root_bytes"):
        out.append(CSWideFn(ctx, c, fn).translate())
    return "\n".join(out)


ROUND_FILES = [("src/rust_sse2.rs", "rs", "rs_sse2", [("round", "transpose_vecs", "transpose_msg_vecs", "hash4", 4)]),
               ("src/rust_sse41.rs", "rs", "rs_sse41", [("round", "transpose_vecs", "transpose_msg_vecs", "hash4", 4)]),
               ("src/rust_avx2.rs", "rs", "rs_avx2", [("round", "transpose_vecs", "transpose_msg_vecs", "hash8", 8)]),
               ("c/blake3_sse2.c", "c", "c_sse2", [("round_fn", "transpose_vecs", "transpose_msg_vecs", "blake3_hash4_sse2", 4)]),
               ("c/blake3_sse41.c", "c", "c_sse41", [("round_fn", "transpose_vecs", "transpose_msg_vecs", "blake3_hash4_sse41", 4)]),
               ("c/blake3_avx2.c", "c", "c_avx2", [("round_fn", "transpose_vecs", "transpose_msg_vecs", "blake3_hash8_avx2", 8)]),
               ("c/blake3_avx512.c", "c", "c_avx512",
                [("round_fn4", "transpose_vecs_128", "transpose_msg_vecs4", "blake3_hash4_avx512", 4),
                 ("round_fn8", "transpose_vecs_256", "transpose_msg_vecs8", "blake3_hash8_avx512", 8),
                 ("round_fn16", "transpose_vecs_512", "transpose_msg_vecs16", "blake3_hash16_avx512", 16)])]


def gen_kernel_rounds():
    out = ["(* GENERATED by tools/gen_coq.py (gen_kernel_rounds) from the /repo working tree. Do not edit.\n"
           "   The vector round function and the register transposes of every C-intrinsics and Rust-intrinsics back end,\n"
           "   translated statement by statement (with every file-local helper they call: add/xor/rot16/rot12/rot8/rot7,\n"
           "   interleave128, unpack_lo_128/unpack_hi_128) into terms over Model/Intrinsics.v.\n"
           "   round: `v[i] = f(..)` is `let v<i> := f .. in`; `m[MSG_SCHEDULE[r][k]]` is `mw [] m r k` (Rust, rs_MSG_SCHEDULE)\n"
           "   or `c_mw m r k` (C, c_MSG_SCHEDULE); the result is the final contents of v.\n"
           "   transpose: `vecs[i]` read before any store is `vk vecs i`; the result is the final contents of vecs.\n"
           "   transpose_msg_vecs*: a pointer `&inputs[i][off]` / `inputs[i].add(off)` is the pair (inp inputs i, off : nat);\n"
           "   the prefetch loop (hints only) is recognised and dropped; `transpose_vecs(&out[k])` on a sub-array binds the\n"
           "   transposed square and its rows are read back with `vk`.\n"
           "   hashN: one iteration of the `for block` loop, as a function of the loop-carried state (h_vecs, the counter\n"
           "   vectors, block_flags) and of (inputs, block); a call `round_fn(v, msg_vecs, r)` rebinds v. *)\n"
           "From Coq Require Import NArith ZArith List.\n"
           "From V Require Import Base.Res Base.Word gen.GenConsts Model.Kernels Model.Intrinsics.\n"
           "Import ListNotations.\nOpen Scope N_scope.\n\n"]
    used, names = set(), []
    for rel, lang, prefix, groups in ROUND_FILES:
        vf = VecFile(rel, lang, prefix)
        if lang == "c":
            pats = (r"\b(round_fn\w*)\s*\([^()]*\)\s*\{", r"\b(transpose_vecs\w*)\s*\([^()]*\)\s*\{",
                    r"\b(transpose_msg_vecs\w*)\s*\([^()]*\)\s*\{", r"\b(blake3_hash[0-9]+_\w+)\s*\([^()]*\)\s*\{")
        else:
            pats = (r"\bfn\s+(round\w*)\s*\(", r"\bfn\s+(transpose_vecs\w*)\s*\(", r"\bfn\s+(transpose_msg_vecs\w*)\s*\(",
                    r"\bfn\s+(hash[0-9]+)\s*\(")
        for i, pat in enumerate(pats):
            found, want = sorted(set(re.findall(pat, vf.text))), sorted(g[i] for g in groups)
            if found != want:
                raise AnchorError(f"{rel}: functions {found}, expected {want}")
        for rnd, tr, tmsg, hashn, lanes in groups:
            coq, params, ln, size = vf.array_function(rnd, "match")
            if size != 16 or len(params) != 3 or ln != lanes:
                raise AnchorError(f"{rel}:{rnd}: expected (v[16], m[16], r) of {lanes}-lane registers")
            names.append(f"{coq}/{lanes}")
        for rnd, tr, tmsg, hashn, lanes in groups:
            coq, params, ln, size = vf.array_function(tr, "nth")
            if size != ln or len(params) != 1 or ln != lanes:
                raise AnchorError(f"{rel}:{tr}: expected one square array of {lanes} registers, got {size} x {ln}")
            names.append(f"{coq}/{lanes}")
        for rnd, tr, tmsg, hashn, lanes in groups:
            names.append(f"{vf.msg_function(tmsg, lanes)}/{lanes}")
        for rnd, tr, tmsg, hashn, lanes in groups:
            names.append(f"{vf.hash_block(hashn, lanes)}/{lanes}")
        out.extend(d + "\n" for d in vf.order)
        used |= vf.used
    out.append("(* translated functions and their lane counts: " + ", ".join(names) + " *)\n")
    out.append("(* intrinsics that occur: " + ", ".join(sorted(used)) + " *)\n")
    return "".join(out)
# GenRefImpl.v: the reference implementation (reference_impl/reference_impl.rs), translated statement by statement
# with the PFn shapes above plus the ones the reference implementation needs:
#   for i in LO..HI { a[..] = ..; a[..] ^= ..; }      -> fold_left (fun a i => ...) (seq LO (HI-LO)) a
#   for (c, w) in B.chunks_exact(K).zip(W) { *w = u32::from_le_bytes(c.try_into().unwrap()); }
#                                                      -> fold_left over seq 0 (min (length B / K) (length W))
#   debug_assert_eq!(n1, n2)   (leading statements)    -> a separate boolean Definition <name>_debug_assert
#   let v = <integer expression>                       -> res_val of the integer-formula emitter (casts, shifts)
#   let mut v = *w ;  *m = v                           -> array copies
#   f(&mut a, &b, ..)                                  -> let a := f a b .. (callee translated earlier)
#   a[LO..HI].copy_from_slice(&b)                      -> arr_copy (Base/Arr.v)
#   struct S { f: T, .. }                              -> Record ; `&self` methods take the record ; S { f: e, .. }
#   -> usize / u32 results (ChunkState::len, start_flag) go through the integer-formula emitter (res N).
# Constants (IV, MSG_PERMUTATION, BLOCK_LEN, flags) are the ref_ definitions of GenConsts.v, read from the same file.
# ---------------------------------------------------------------------------
def _rs_split_stmts(body, name):
    """Rust block body -> ([statements], tail expression).  A statement ends at a top-level `;`, or at the closing
    brace of a top-level `for` block."""
    stmts, depth, cur = [], 0, ""
    for ch in body:
        if ch in "([{":
            depth += 1
        elif ch in ")]}":
            depth -= 1
            if depth < 0:
                raise AnchorError(f"{name}: unbalanced brackets")
        if ch == ";" and depth == 0:
            stmts.append(cur)
            cur = ""
            continue
        cur += ch
        if ch == "}" and depth == 0 and re.match(r"\s*for\b", cur):
            stmts.append(cur)
            cur = ""
    return stmts, " ".join(cur.split())


def _call_parts(t):
    """`name(args)` with the final ')' closing the '(' right after the name -> (name, args text), else None"""
    m = re.match(r"(%s(?:::%s)*)\(" % (_IDENT, _IDENT), t)
    if not m or not t.endswith(")"):
        return None
    depth = 0
    for j in range(m.end() - 1, len(t)):
        if t[j] in "([{":
            depth += 1
        elif t[j] in ")]}":
            depth -= 1
            if depth == 0:
                return (m.group(1), t[m.end():j]) if j == len(t) - 1 else None
    return None


def _args(text):
    items = [a.strip() for a in _p_split_top(text, ",")]
    if items and not items[-1]:
        items.pop()
    return items


class RStruct:
    """`struct Name { field: type, .. }` with array ([u8|u32; n]) and integer (u8|u32|u64) fields -> Record"""

    def __init__(self, text, name, prefix, cenv, structs=None):
        self.name, self.coq = name, prefix + name
        self.structs = structs or {}
        body = fn_body(text, r"\bstruct\s+" + name + r"\s*\{", self.coq)
        self.fields = []          # (field, kind, width-or-None)
        # field separators: commas outside brackets, `<..>` of generic arguments included
        body = re.sub(r"<[^<>;]*>", lambda g: g.group(0).replace(",", "\x00"), body)
        for f in _args(body):
            f = f.replace("\x00", ",")
            m = re.fullmatch(r"(%s)\s*:\s*(.+)" % _IDENT, " ".join(f.split()))
            if not m:
                raise AnchorError(f"{self.coq}: field {f!r}")
            fld, ty = m.group(1), m.group(2)
            ma = re.fullmatch(r"\[\s*(u8|u32)\s*;\s*(\w+)\s*\]", ty)
            if ma:
                if not (ma.group(2).isdigit() or ma.group(2) in cenv):
                    raise AnchorError(f"{self.coq}: array length {ma.group(2)!r}")
                self.fields.append((fld, "arr", None))
            elif ty == "CVWords":
                self.fields.append((fld, "arr", None))
            elif ty in ("u8", "u32", "u64"):
                self.fields.append((fld, "word", TYPES[ty]))
            elif ty == "Platform":
                self.fields.append((fld, "platform", None))
            elif ty in self.structs:
                self.fields.append((fld, ("struct", ty), None))
            elif re.fullmatch(r"ArrayVec<\s*CVBytes\s*,\s*\{[^{}]*\}\s*>", ty):     # a stack of chaining values
                self.fields.append((fld, "cvstack", None))
            else:
                raise AnchorError(f"{self.coq}: field type {ty!r}")

    def proj(self, f):
        return f"{self.coq}_{f}"

    def record(self):
        ty = {"arr": "list N", "word": "N", "platform": "platform", "cvstack": "list (list N)"}
        rows = ";\n".join(f"  {self.proj(f)} : {self.structs[k[1]].coq if isinstance(k, tuple) else ty[k]}"
                          for f, k, _ in self.fields)
        return f"Record {self.coq} := {self.coq}_mk {{\n{rows} }}.\n"


class RFn(PFn):
    """A function of reference_impl.rs.  fns: name -> dict(coq, params=[kinds], ret) of the functions translated so far
    (ret: 'arr' | ('struct', S) | 'res' | ('inplace', index of the &mut parameter)); methods: (S, name) -> the same."""

    def __init__(self, coqname, text, header_re, consts, cenv, fns, structs=None, self_struct=None, methods=None,
                 platform_methods=None, impl_struct=None):
        self.cenv, self.fns, self.structs, self.self_struct = cenv, fns, structs or {}, self_struct
        self.platform_methods, self.impl_struct = platform_methods or {}, impl_struct or self_struct
        self.methods = methods if methods is not None else {}
        self.asserts, self.loop_assigned, self.in_loop = [], None, False
        callees = {"g": fns["g"]["coq"]} if "g" in fns else {}
        super().__init__("rs", coqname, text, header_re, consts, callees)

    # ---- signature ----
    def _param(self, p):
        if p == "&self":
            if not self.self_struct or self.order:
                raise self.err("unexpected &self")
            self.kind["self"] = "struct"
            self.order.append("self")
            return
        m = re.fullmatch(r"(%s)\s*:\s*(.+)" % _IDENT, p)
        if m:
            v, ty = m.group(1), m.group(2).strip()
            if re.fullmatch(r"\[\s*u32\s*;\s*\d+\s*\]", ty):            # array by value
                self._decl(v, "arr")
                self.order.append(v)
                return
            ms = re.fullmatch(r"&\s*(mut\s+)?\[\s*(u8|u32)\s*\]", ty)     # slice
            if ms:
                self._decl(v, "arr", mutable=bool(ms.group(1)))
                self.order.append(v)
                return
            if ty == "&CVBytes":
                self._decl(v, "arr")
                self.order.append(v)
                return
            if ty == "Platform":
                self._decl(v, "platform")
                self.order.append(v)
                return
        super()._param(p)

    # ---- expressions ----
    def idx(self, ast):
        if ast[0] == "bin" and ast[1] in ("+", "*") and any(
                a[0] == "var" and self.kind.get(a[1]) == "nat" for a in (ast[2], ast[3])):
            return f"({self.idx(ast[2])} {ast[1]} {self.idx(ast[3])})%nat"
        return super().idx(ast)

    def tenv(self):
        return {v: self.width[v] for v in self.kind if self.kind[v] == "word" and v in self.width}

    def wexpr(self, t, want):
        """integer-valued expression text -> term of type N"""
        t = t.strip()
        mf = re.fullmatch(r"self\.(%s)" % _IDENT, t)
        if mf and self.kind.get("self") == "struct":
            t = mf.group(1)
            if t not in self.self_fields or self.kind.get(t) != "word":
                raise self.err(f"self.{t} is not an integer field")
            return t
        if re.fullmatch(_IDENT, t) and self.kind.get(t) == "word":
            return t
        if re.fullmatch(r"\d+", t):
            return str(int(t))
        return f"(res_val {emit(parse_expr(t, self.name), self.tenv(), self.cenv, self.name, want)})"

    def call(self, f, argtexts, skip=None):
        """arguments of a call of the translated function f (dict), by the kinds of its parameters"""
        if len(argtexts) != len(f["params"]):
            raise self.err(f"call of {f['coq']}: {len(argtexts)} arguments for {len(f['params'])} parameters")
        out = []
        for i, (a, k) in enumerate(zip(argtexts, f["params"])):
            if i == skip:
                continue
            if k == "arr":
                out.append(self.aexpr(a))
            elif k == "word":
                out.append(self.wexpr(a, f["widths"][i]))
            elif k == "nat":
                out.append(self.idx(parse_expr(a, self.name)))
            elif k == "platform" and re.fullmatch(_IDENT, a) and self.kind.get(a) == "platform":
                out.append(a)
            elif k == "platform" and re.fullmatch(r"Platform::detect\(\)", a):
                # run-time CPU detection: its result is a parameter of the translated function
                if "detected_platform" in self.kind:
                    raise self.err("detected_platform shadows a variable")
                self.detects = True
                out.append("detected_platform")
            else:
                raise self.err(f"call of {f['coq']}: parameter kind {k!r} (argument {a!r})")
        return out

    def aexpr(self, t):
        """array-valued expression text -> term of type list N"""
        t = re.sub(r"^&\s*(mut\s+)?", "", t.strip())
        mf = re.fullmatch(r"self\.(%s)" % _IDENT, t)
        if mf and self.kind.get("self") == "struct":
            f = mf.group(1)
            if f not in self.self_fields or self.kind.get(f) != "arr":
                raise self.err(f"self.{f} is not an array field")
            return f
        if re.fullmatch(_IDENT, t):
            return self.arr_name(("var", t))
        m = re.fullmatch(r"(%s)\[(\d+)\.\.(\d+)\]\.try_into\(\)\.unwrap\(\)" % _IDENT, t)
        if m:
            lo, hi = int(m.group(2)), int(m.group(3))
            if hi < lo:
                raise self.err(f"range {t!r}")
            return f"(arr_slice {self.arr_name(('var', m.group(1)))} {lo}%nat {hi - lo}%nat)"
        m = re.fullmatch(r"(.+)\.(%s)\(\)" % _IDENT, t)
        if m and not _call_parts(t):
            recv, s = self.sexpr(m.group(1))
            meth = self.methods.get((s, m.group(2)))
            if not meth or meth["ret"] != "arr" or meth["params"] != [("struct", s)]:
                raise self.err(f"method call {t!r}")
            return f"({meth['coq']} {recv})"
        cp = _call_parts(t)
        if cp and cp[0] in self.fns and self.fns[cp[0]]["ret"] == "arr":
            f = self.fns[cp[0]]
            return "(" + " ".join([f["coq"]] + self.call(f, _args(cp[1]))) + ")"
        if cp and cp[0] in self.fns and self.fns[cp[0]]["ret"] == "newtype":      # struct Hash([u8; OUT_LEN])
            return self.aexpr(cp[1])
        if t.startswith("*") and re.fullmatch(_IDENT, t[1:].strip()):            # copy of an array behind a reference
            return self.arr_name(("var", t[1:].strip()))
        m = re.fullmatch(r"\[\s*0\s*;\s*(\w+)\s*\]", t)
        if m:
            return self.zeros(m.group(1))
        pm = self.platform_call(t)
        if pm and pm[0]["ret"] == "arr":
            return "(" + " ".join([pm[0]["coq"], "platform"] + self.call(pm[0], pm[1])) + ")"
        raise self.err(f"cannot translate array expression {t!r}")

    def zeros(self, n):
        if n.isdigit():
            return f"(repeat 0 {int(n)}%nat)"
        if n in self.cenv:
            return f"(repeat 0 (N.to_nat {self.cenv[n]}))"
        raise self.err(f"array length {n!r}")

    def platform_call(self, t):
        """`self.platform.method(args)` -> (method dict, [argument texts])"""
        m = re.fullmatch(r"self\.platform\s*\.\s*(%s\(.*\))" % _IDENT, t)
        cp = _call_parts(m.group(1)) if m else None
        if not cp or cp[0] not in self.platform_methods or self.kind.get("platform") != "platform":
            return None
        return self.platform_methods[cp[0]], _args(cp[1])

    def sexpr(self, t):
        """struct-valued expression text -> (term, struct name)"""
        t = t.strip()
        cp = _call_parts(t)
        if cp and cp[0] in self.fns and isinstance(self.fns[cp[0]]["ret"], tuple) and self.fns[cp[0]]["ret"][0] == "struct":
            f = self.fns[cp[0]]
            return "(" + " ".join([f["coq"]] + self.call(f, _args(cp[1]))) + ")", f["ret"][1]
        m = re.fullmatch(r"(%s) \{(.*)\}" % _IDENT, t)
        if m and (m.group(1) in self.structs or (m.group(1) == "Self" and self.impl_struct)):
            st = self.structs[self.impl_struct if m.group(1) == "Self" else m.group(1)]
            given = {}
            for item in _args(m.group(2)):
                mi = re.fullmatch(r"(%s)\s*(?::\s*(.+))?" % _IDENT, item)
                if not mi or mi.group(1) in given:
                    raise self.err(f"struct literal field {item!r}")
                given[mi.group(1)] = mi.group(2) if mi.group(2) is not None else mi.group(1)
            if set(given) != {f for f, _, _ in st.fields}:
                raise self.err(f"struct literal {t!r}: fields {sorted(given)}")
            vals = []
            for f, k, w in st.fields:
                if k == "arr":
                    vals.append(self.aexpr(given[f]))
                elif k == "word":
                    vals.append(self.wexpr(given[f], w))
                elif isinstance(k, tuple) and k[0] == "struct":
                    term, got = self.sexpr(given[f])
                    if got != k[1]:
                        raise self.err(f"struct literal field {f}: {given[f]!r} is not a {k[1]}")
                    vals.append(term)
                elif k == "cvstack" and re.fullmatch(r"ArrayVec::new\(\)", given[f]):
                    vals.append("[]")
                elif isinstance(k, str) and re.fullmatch(_IDENT, given[f]) and self.kind.get(given[f]) == k:
                    vals.append(given[f])
                else:
                    raise self.err(f"struct literal field {f}: {given[f]!r}")
            return "(" + " ".join([st.coq + "_mk"] + vals) + ")", st.name
        raise self.err(f"cannot translate struct expression {t!r}")

    def nexpr(self, ast):
        """length expression -> term of type nat"""
        if ast[0] == "num":
            return f"{ast[1]}%nat"
        if ast[0] == "meth" and ast[2] == "len" and not ast[3] and ast[1][0] == "var":
            return f"(length {self.arr_name(ast[1])})"
        if ast[0] == "bin" and ast[1] in ("*", "+"):
            return f"({self.nexpr(ast[2])} {ast[1]} {self.nexpr(ast[3])})%nat"
        raise self.err(f"length expression {ast!r}")

    # ---- statements ----
    def let(self, v, term):
        if self.loop_assigned is not None:
            self.loop_assigned.append(v)
        super().let(v, term)

    def _decl(self, v, kind, width=None, mutable=False):
        if self.in_loop:
            raise self.err(f"declaration of {v} inside a loop body")
        if v in getattr(self, "self_fields", ()):
            raise self.err(f"{v} shadows a field of self")
        super()._decl(v, kind, width, mutable)

    def loop(self, var, count_term, start, body_stmts):
        """fold_left over seq: the body may assign to one mutable array only"""
        if self.in_loop:
            raise self.err("nested loop")
        if var in self.kind or var in self.consts:
            raise self.err(f"loop variable {var} shadows a variable")
        saved_lines, self.lines, self.loop_assigned = self.lines, [], []
        self.kind[var] = "nat"
        self.in_loop = True
        try:
            for b in body_stmts:
                self.stmt(b)
        finally:
            self.in_loop = False
            del self.kind[var]
        body, assigned = self.lines, set(self.loop_assigned)
        self.lines, self.loop_assigned = saved_lines, None
        if len(assigned) != 1 or not body:
            raise self.err(f"loop body must assign to exactly one array (assigns {sorted(assigned)})")
        a = assigned.pop()
        if a not in self.mut:
            raise self.err(f"loop assigns to {a}, which is not mutable")
        inner = "\n".join("    " + l for l in body)
        self.let(a, f"fold_left (fun ({a} : list N) ({var} : nat) =>\n{inner}\n      {a}) (seq {start}%nat {count_term}) {a}")

    def stmt(self, s):
        s = " ".join(s.split())
        if s.startswith("#[rustfmt::skip] "):
            s = s[len("#[rustfmt::skip] "):]
        pe = lambda t: parse_expr(t, self.name)
        # debug_assert_eq!(n1, n2): only before any other statement
        m = re.fullmatch(r"debug_assert_eq!\((.*)\)", s)
        if m:
            if self.lines or self.in_loop:
                raise self.err("debug_assert_eq! after other statements")
            ab = _args(m.group(1))
            if len(ab) != 2:
                raise self.err(f"{s!r}")
            if ".len()" in m.group(1):
                self.asserts.append(f"Nat.eqb {self.nexpr(pe(ab[0]))} {self.nexpr(pe(ab[1]))}")
            else:
                self.asserts.append(f"N.eqb {self.wexpr(ab[0], 64)} {self.wexpr(ab[1], 64)}")
            return
        # for i in LO..HI { .. }
        m = re.fullmatch(r"for (%s) in (\d+)\.\.(\d+) \{(.*)\}" % _IDENT, s)
        if m:
            lo, hi = int(m.group(2)), int(m.group(3))
            if hi < lo:
                raise self.err(f"range of {s!r}")
            body, tail = _rs_split_stmts(m.group(4), self.name)
            if tail:
                raise self.err(f"loop body ends in an expression: {tail!r}")
            return self.loop(m.group(1), f"{hi - lo}%nat", lo, body)
        # for (chunk, word) in B.chunks_exact(K).zip(W) { *word = u32::from_le_bytes(chunk.try_into().unwrap()); }
        m = re.fullmatch(r"for \((%s), (%s)\) in (%s)\.chunks_exact\((\d+)\)\.zip\((%s)\) \{ \*(%s) = "
                         r"u32::from_le_bytes\((%s)\.try_into\(\)\.unwrap\(\)\); \}" % ((_IDENT,) * 3 + (_IDENT,) * 3), s)
        if m:
            cv, wv, b, k, w, wv2, cv2 = m.groups()
            k = int(k)
            if (cv, wv) != (cv2, wv2) or cv == wv or k == 0 or self.in_loop:
                raise self.err(f"zip loop {s!r}")
            for x in (cv, wv):
                if x in self.kind or x in self.consts:
                    raise self.err(f"loop variable {x} shadows a variable")
            bs, ws = self.arr_name(("var", b)), self.arr_name(("var", w))
            if w not in self.mut:
                raise self.err(f"zip loop writes through {w}, which is not mutable")
            # [u8; 4]::try_from(chunk).unwrap() needs chunks of exactly 4 bytes: the slice has the chunk length k
            return self.let(w, f"fold_left (fun ({ws} : list N) (i : nat) =>\n"
                               f"      arr_set {ws} i (le_load32 (arr_slice {bs} ({k} * i)%nat {k}%nat))) "
                               f"(seq 0%nat (Nat.min (Nat.div (length {bs}) {k}%nat) (length {ws}))) {ws}")
        # let mut v = *w
        m = re.fullmatch(r"let (mut )?(%s) = \*(%s)" % (_IDENT, _IDENT), s)
        if m:
            term = self.arr_name(("var", m.group(3)))
            self._decl(m.group(2), "arr", mutable=bool(m.group(1)))
            return self.let(m.group(2), term)
        # let mut v = [0; LEN]  /  let mut v = self.field
        m = re.fullmatch(r"let (mut )?(%s) = (\[\s*0\s*;\s*[A-Za-z_]\w*\s*\]|self\.%s)" % (_IDENT, _IDENT), s)
        if m and (m.group(3).startswith("[") or self.kind.get(m.group(3)[5:]) == "arr"):
            term = self.aexpr(m.group(3))
            self._decl(m.group(2), "arr", mutable=bool(m.group(1)))
            return self.let(m.group(2), term)
        # self.platform.method(&mut a, ..)
        pm = self.platform_call(s)
        if pm and isinstance(pm[0]["ret"], tuple) and pm[0]["ret"][0] == "inplace":
            f, args = pm
            mi = f["ret"][1]
            mm = re.fullmatch(r"&mut (%s)" % _IDENT, args[mi]) if mi < len(args) else None
            if not mm:
                raise self.err(f"call {s!r}")
            v = mm.group(1)
            self.arr_name(("var", v))
            self.assigned(v, ("none",))
            rest = self.call(f, args, skip=mi)
            rest.insert(mi, v)
            return self.let(v, " ".join([f["coq"], "platform"] + rest))
        # *m = v
        m = re.fullmatch(r"\*(%s) = (%s)" % (_IDENT, _IDENT), s)
        if m:
            v = m.group(1)
            if self.kind.get(v) != "arr" or v not in self.mut:
                raise self.err(f"assignment through {v}")
            return self.let(v, self.arr_name(("var", m.group(2))))
        # a[LO..HI].copy_from_slice(&b)   (either bound may be omitted)
        m = re.fullmatch(r"(%s)\[(\d*)\.\.(\d*)\]\.copy_from_slice\(&?(%s)\)" % (_IDENT, _IDENT), s)
        if m:
            v, lo, hi, b = m.groups()
            self.arr_name(("var", v))
            self.assigned(v, ("none",))
            lo_t = f"{int(lo)}%nat" if lo else "0%nat"
            hi_t = f"{int(hi)}%nat" if hi else f"(length {v})"
            return self.let(v, f"arr_copy {v} {lo_t} {hi_t} {self.arr_name(('var', b))}")
        # f(.., &mut a, ..)
        cp = _call_parts(s)
        if cp and cp[0] in self.fns and isinstance(self.fns[cp[0]]["ret"], tuple) and self.fns[cp[0]]["ret"][0] == "inplace":
            f = self.fns[cp[0]]
            args, mi = _args(cp[1]), f["ret"][1]
            mm = re.fullmatch(r"&mut (%s)" % _IDENT, args[mi]) if mi < len(args) else None
            if mm:
                v = mm.group(1)
                self.arr_name(("var", v))
                self.assigned(v, ("none",))
                rest = self.call(f, args, skip=mi)
                rest.insert(mi, v)
                return self.let(v, " ".join([f["coq"]] + rest))
        # let v = <integer expression>
        m = re.fullmatch(r"let (%s) = ([^\[*].*)" % _IDENT, s)
        if m and not _call_parts(m.group(2)) and "::" not in m.group(2):
            ast = pe(m.group(2))
            w = width_of(ast, self.tenv())
            if w is None:
                raise self.err(f"cannot infer the type of {s!r}")
            term = f"res_val {emit(ast, self.tenv(), self.cenv, self.name, w)}"
            self._decl(m.group(1), "word", w)
            return self.let(m.group(1), term)
        return super().stmt(s)

    def translate(self):
        self.self_fields = []
        ty = {"arr": "list N", "nat": "nat", "word": "N", "platform": "platform"}
        sig, kinds, widths = [], [], []
        for v in self.order:
            if v == "self":
                st = self.structs[self.self_struct]
                sig.append(f"(self : {st.coq})")
                kinds.append(("struct", st.name))
                widths.append(None)
            else:
                sig.append(f"({v} : {ty[self.kind[v]]})")
                kinds.append(self.kind[v])
                widths.append(self.width.get(v))
        sig = " ".join(sig)
        mut_params = [v for v in self.order if v in self.mut]
        if "self" in self.order:
            st = self.structs[self.self_struct]
            for f, k, w in st.fields:
                if re.search(r"\bself\.%s\b" % f, self.body):
                    self._decl(f, k, w)
                    self.let(f, f"{st.proj(f)} self")
            self.self_fields = [f for f, _, _ in st.fields]
            prelude, self.lines = self.lines, []
        else:
            prelude = []
        stmts, tail = _rs_split_stmts(self.body, self.name)
        for s in stmts:
            if not s.strip():
                raise self.err("empty statement")
            self.stmt(s)
        ret = " ".join(self.ret.split())
        if ret == "":
            if tail or len(mut_params) != 1:
                raise self.err(f"expected one mutable parameter and no result (tail {tail!r})")
            result, rty, rkind = self.arr_name(("var", mut_params[0])), "list N", ("inplace", self.order.index(mut_params[0]))
        elif re.fullmatch(r"-> \[(u8|u32); [^\]]+\]", ret) or ret in ("-> CVBytes", "-> CVWords") or (
                ret == "-> Hash" and self.fns.get("Hash", {}).get("ret") == "newtype"):
            result, rty, rkind = self.aexpr(tail), "list N", "arr"
        elif re.fullmatch(r"-> (%s)" % _IDENT, ret) and (ret[3:] in self.structs or (ret == "-> Self" and self.impl_struct)):
            want = self.impl_struct if ret == "-> Self" else ret[3:]
            result, s = self.sexpr(tail)
            if s != want:
                raise self.err(f"result {tail!r} is not a {want}")
            rty, rkind = self.structs[s].coq, ("struct", s)
        elif ret in ("-> usize", "-> u32", "-> u8"):
            w = TYPES[ret[3:]]
            tenv = self.tenv()
            m = re.fullmatch(r"if (.+) \{ (.+) \} else \{ (.+) \}", tail)
            if m:
                pe = lambda t: parse_expr(t, self.name)
                result = (f"b <- {emit_bool(pe(m.group(1)), tenv, self.cenv, self.name)} ;;\n"
                          f"  if (b : bool) then {emit(pe(m.group(2)), tenv, self.cenv, self.name, w)} "
                          f"else {emit(pe(m.group(3)), tenv, self.cenv, self.name, w)}")
            else:
                result = emit(parse_expr(tail, self.name), tenv, self.cenv, self.name, w)
            rty, rkind = "res N", "res"
        else:
            raise self.err(f"result type {ret!r}")
        lines = prelude + self.lines
        text = ""
        if getattr(self, "detects", False):
            sig += " (detected_platform : platform)"
            kinds.append("platform")
            widths.append(None)
        if self.asserts:
            text += (f"Definition {self.name}_debug_assert {sig} : bool :=\n" + "".join(l + "\n" for l in prelude)
                     + "  " + " && ".join(self.asserts) + ".\n\n")
        text += f"Definition {self.name} {sig} : {rty} :=\n" + "".join(l + "\n" for l in lines) + f"  {result}.\n"
        self.sig = {"coq": self.name, "params": kinds, "widths": widths, "ret": rkind}
        return text


def gen_refimpl():
    out = [HEADER.replace("NArith List.", "NArith List Bool.").replace(
        "Base.MachInt.", "Base.MachInt Base.Word Base.Arr.\nFrom V Require Import gen.GenConsts.")]
    ref = strip_comments(src("reference_impl/reference_impl.rs"))
    P = "refsrc_"
    # the tables and constants the translated bodies mention are GenConsts' ref_ definitions (same file, same run);
    # their declared shapes are checked here
    find1(r"\bconst\s+MSG_PERMUTATION\s*:\s*\[\s*usize\s*;\s*16\s*\]\s*=", ref, "reference_impl MSG_PERMUTATION: [usize; 16]")
    find1(r"\bconst\s+IV\s*:\s*\[\s*u32\s*;\s*8\s*\]\s*=", ref, "reference_impl IV: [u32; 8]")
    consts = {"IV": "ref_IV", "MSG_PERMUTATION": "ref_MSG_PERMUTATION"}
    cenv = {"BLOCK_LEN": "ref_BLOCK_LEN", "OUT_LEN": "ref_OUT_LEN", "KEY_LEN": "ref_KEY_LEN", "CHUNK_LEN": "ref_CHUNK_LEN"}
    for c in ("CHUNK_START", "CHUNK_END", "PARENT", "ROOT", "KEYED_HASH", "DERIVE_KEY_CONTEXT", "DERIVE_KEY_MATERIAL"):
        find1(r"\bconst\s+" + c + r"\s*:\s*u32\s*=", ref, "reference_impl " + c + ": u32")
        cenv[c] = "ref_flag_" + c
    for c in ("BLOCK_LEN", "OUT_LEN", "KEY_LEN", "CHUNK_LEN"):
        find1(r"\bconst\s+" + c + r"\s*:\s*usize\s*=", ref, "reference_impl " + c + ": usize")

    fns, methods, structs = {}, {}, {}
    out.append("(* ---- reference_impl/reference_impl.rs: free functions ---- *)\n")
    for fname in ("g", "round", "permute", "compress", "first_8_words", "words_from_little_endian_bytes"):
        f = RFn(P + fname, ref, r"\bfn\s+" + fname + r"\s*\(", consts, cenv, fns)
        out.append(f.translate())
        fns[fname] = f.sig

    out.append("(* ---- struct Output, struct ChunkState and their expression-bodied methods ---- *)\n")
    for s in ("Output", "ChunkState"):
        structs[s] = RStruct(ref, s, P, cenv)
        out.append(structs[s].record())
    for s, meths in (("Output", ("chaining_value",)), ("ChunkState", ("len", "start_flag"))):
        impl = fn_body(ref, r"\bimpl\s+" + s + r"\s*\{", "impl " + s)
        for mname in meths:
            f = RFn(P + s + "_" + mname, impl, r"\bfn\s+" + mname + r"\s*\(", consts, cenv, fns, structs, s, methods)
            out.append(f.translate())
            methods[(s, mname)] = f.sig

    out.append("(* ---- parent_output, parent_cv ---- *)\n")
    for fname in ("parent_output", "parent_cv"):
        f = RFn(P + fname, ref, r"\bfn\s+" + fname + r"\s*\(", consts, cenv, fns, structs, None, methods)
        out.append(f.translate())
        fns[fname] = f.sig
    return "\n".join(out)


# ---------------------------------------------------------------------------
# GenLibSmall.v: the small expression-bodied functions of src/lib.rs the models Model/RsChunk.v / RsHasher.v mirror by
# hand (properties C01 / C02), translated with the shapes of RFn: struct Output / ChunkState (records, the `platform`
# field is Model/Platform.v's record), Output::chaining_value / root_hash / root_output_block (which platform function
# with which arguments), ChunkState::new / start_flag, parent_node_output; and platform::le_bytes_from_words_32.
# `self.platform.compress_in_place(&mut cv, ..)` -> let cv := p_compress_in_place platform cv .. ; the order of the
# parameters of Platform::compress_in_place / compress_xof is anchored in src/platform.rs.
# ---------------------------------------------------------------------------
def _platform_method(plat_impl, name, want_params, want_ret, coq, ret):
    ptext, rtext = _fn_header(plat_impl, r"\bpub\s+fn\s+" + name + r"\s*\(", "Platform::" + name)
    got = [" ".join(a.split()) for a in _args(ptext)]
    if got != want_params or " ".join(rtext.split()) != want_ret:
        raise AnchorError(f"Platform::{name}: signature {got!r} {rtext!r}")
    return {"coq": coq, "params": ["arr", "arr", "word", "word", "word"], "widths": [None, None, 8, 64, 8], "ret": ret}


def gen_lib_small():
    out = [HEADER.replace("NArith List.", "NArith List Bool.").replace(
        "Base.MachInt.", "Base.MachInt Base.Word Base.Arr.\nFrom V Require Import gen.GenConsts Model.Platform.")]
    lib = strip_comments(src("src/lib.rs"))
    plat = strip_comments(src("src/platform.rs"))
    P = "lib_"
    find1(r"\btype\s+CVWords\s*=\s*\[\s*u32\s*;\s*8\s*\]\s*;", lib, "lib.rs type CVWords = [u32; 8]")
    find1(r"\btype\s+CVBytes\s*=\s*\[\s*u8\s*;\s*32\s*\]\s*;", lib, "lib.rs type CVBytes = [u8; 32]")
    find1(r"\bpub\s+struct\s+Hash\s*\(\s*\[\s*u8\s*;\s*OUT_LEN\s*\]\s*\)\s*;", lib, "lib.rs struct Hash([u8; OUT_LEN])")
    cenv = {"BLOCK_LEN": "rs_BLOCK_LEN", "OUT_LEN": "rs_OUT_LEN", "KEY_LEN": "rs_KEY_LEN", "CHUNK_LEN": "rs_CHUNK_LEN"}
    for c in ("BLOCK_LEN", "OUT_LEN", "KEY_LEN", "CHUNK_LEN"):
        find1(r"\bconst\s+" + c + r"\s*:\s*usize\s*=", lib, "lib.rs " + c + ": usize")
    for c in ("CHUNK_START", "CHUNK_END", "PARENT", "ROOT", "KEYED_HASH", "DERIVE_KEY_CONTEXT", "DERIVE_KEY_MATERIAL"):
        find1(r"\bconst\s+" + c + r"\s*:\s*u8\s*=", lib, "lib.rs " + c + ": u8")
        cenv[c] = "rs_flag_" + c

    out.append("(* ---- src/platform.rs ---- *)\n")
    f = PFn("rs", P + "le_bytes_from_words_32", plat, r"\bpub\s+fn\s+le_bytes_from_words_32\s*\(", {}, {})
    out.append(f.translate())
    fns = {"Hash": {"ret": "newtype"},
           "platform::le_bytes_from_words_32": {"coq": P + "le_bytes_from_words_32", "params": ["arr"], "widths": [None],
                                                 "ret": "arr"}}
    pimpl = fn_body(plat, r"\bimpl\s+Platform\s*\{", "impl Platform")
    tail_params = ["block: &[u8; BLOCK_LEN]", "block_len: u8", "counter: u64", "flags: u8"]
    pmeths = {
        "compress_in_place": _platform_method(pimpl, "compress_in_place", ["&self", "cv: &mut CVWords"] + tail_params, "",
                                              "p_compress_in_place", ("inplace", 0)),
        "compress_xof": _platform_method(pimpl, "compress_xof", ["&self", "cv: &CVWords"] + tail_params, "-> [u8; 64]",
                                         "p_compress_xof", "arr"),
    }

    out.append("(* ---- src/lib.rs: struct Output, struct ChunkState ---- *)\n")
    structs, methods = {}, {}
    for s in ("Output", "ChunkState"):
        structs[s] = RStruct(lib, s, P, cenv)
        out.append(structs[s].record())
    for s, meths in (("Output", ("chaining_value", "root_hash", "root_output_block")), ("ChunkState", ("new", "start_flag"))):
        impl = fn_body(lib, r"\bimpl\s+" + s + r"\s*\{", "impl " + s)
        for mname in meths:
            f = RFn(P + s + "_" + mname, impl, r"\bfn\s+" + mname + r"\s*\(", {}, cenv, fns, structs,
                    None if mname == "new" else s, methods, pmeths, impl_struct=s)
            out.append(f.translate())
            if mname == "new":
                fns[s + "::new"] = f.sig
            else:
                methods[(s, mname)] = f.sig

    out.append("(* ---- src/lib.rs: parent_node_output ---- *)\n")
    f = RFn(P + "parent_node_output", lib, r"\bfn\s+parent_node_output\s*\(", {}, cenv, fns, structs, None, methods, pmeths)
    out.append(f.translate())

    out.append("(* ---- src/lib.rs: struct Hasher, Hasher::new_internal (Platform::detect() is the extra parameter) ---- *)\n")
    structs["Hasher"] = RStruct(lib, "Hasher", P, cenv, structs)
    out.append(structs["Hasher"].record())
    impl = fn_body(lib, r"\bimpl\s+Hasher\s*\{", "impl Hasher")
    f = RFn(P + "Hasher_new_internal", impl, r"\bfn\s+new_internal\s*\(", {}, cenv, fns, structs, None, methods, pmeths,
            impl_struct="Hasher")
    out.append(f.translate())
    return "\n".join(out)


# ---------------------------------------------------------------------------
# GenLibLoops.v: the loop-carrying core of the incremental hasher of src/lib.rs, translated statement by statement:
# ChunkState::count / fill_buf / output / update, Hasher::merge_cv_stack / push_cv / reset / final_output / finalize /
# finalize_xof / count.  The records, ChunkState::new / start_flag and the constants are GenLibSmall's / GenConsts'.
#
# Representation
#   * every translated function is `lib_<Struct>_<fn>`; its parameters are, in this order: the functions it (or a
#     callee) calls that are NOT translated here, as explicit parameters ext_<name> (parent_node_output,
#     Output::chaining_value, Output::root_hash, OutputReader::new); `fuel : nat` when it (or a callee) contains a loop;
#     `self`; the source's parameters in source order.  The result is the tuple (self after the call when the receiver
#     is `&mut self`, every `&mut` parameter after the call, the returned value), inside `res` as soon as one statement
#     can panic.
#   * `self.f = e` is the record update <Struct>_set_f (generated here: the constructor applied to the other
#     projections); `self.f op= e` is checked arithmetic at the width of the field.
#   * integer expressions go through the integer-formula emitter (Base/MachInt.v: +, -, * panic on overflow, `as`
#     truncates, cmp::min -> mi_min); an expression that is not a variable / field / literal is bound first, in
#     evaluation order.  `x.len()` of a slice / array / ArrayVec is N.of_nat (length x) at width 64.
#   * `while c { body }` is a separate `Fixpoint <fn>_loop<k>` on `fuel` whose parameters are the variables in scope at
#     the loop and whose result is the tuple of the variables the body assigns: evaluate c; if it holds and the fuel is
#     exhausted the result is OutOfFuel (Base/Res.v), otherwise the body's statements in source order and the recursive
#     call.  The enclosing function passes its own `fuel` to each of its loops and to the callees that take one.
#   * `if c { .. } [else { .. }]` binds the tuple of the outer variables either arm assigns; an arm ending in `return e`
#     (only directly in the function body) makes the rest of the function the else arm.  `let mut v: T;` without
#     initialiser must be assigned in both arms before it is read.
#   * slices: `&s[..b]` -> firstn after `assert! (b <=? len) code 41`, `&s[a..]` -> skipn after `assert! (a <=? len)
#     code 40`, array_ref!(s, off, n) -> arr_slice after `assert! (off + n <=? len) code 54`;
#     `self.arr[a..][..b].copy_from_slice(src)` -> the two slice checks on the destination (codes 40, 41; the same sites
#     carry these codes in Model/RsChunk.v), `assert! (len src =? b) code 42`, arr_store at offset a.
#   * ArrayVec (Base/ArrayVec.v; the vector in index order): len -> av_len, push -> av_push CAP (Panic 51 when full; CAP
#     is GenConsts' rs_cv_stack_cap, read from the field's type), pop().unwrap() -> av_pop_unwrap (Panic 50),
#     `&v[i]` -> av_index (Panic 53), clear -> [], is_empty -> av_len = 0.
#   * debug_assert! / debug_assert_eq! / assert_eq! -> `assert! cond code c`; the codes are the ones the hand-written
#     models use for the same sites (table _LIB_LOOP_FNS below, one code per macro in source order; the number of macros
#     in the body must equal the number of codes).
#   * `self.platform.compress_in_place(&mut self.cv, ..)` -> self.cv := p_compress_in_place platform cv .. (parameter
#     order anchored in src/platform.rs, as in GenLibSmall).
# Everything that is not one of these shapes raises AnchorError: no statement is ever skipped.
# ---------------------------------------------------------------------------
_L_TOK = re.compile(r"""
    (?P<ws>\s+)
  | (?P<num>0[xX][0-9a-fA-F_]+|[0-9][0-9_]*)(?:_?(?:u8|u16|u32|u64|usize))?
  | (?P<str>"(?:\\.|[^"\\])*")
  | (?P<id>[A-Za-z_][A-Za-z0-9_]*(?:::[A-Za-z_][A-Za-z0-9_]*)*)
  | (?P<op>\.\.|\+=|-=|->|==|!=|<=|>=|&&|\|\||<<|>>|[-+*/%&|^!<>=().,\[\]{};:])
""", re.X)
_L_SLICE_FROM, _L_SLICE_TO, _L_COPY_LEN, _L_ARRAY_REF = 40, 41, 42, 54


def _l_tokens(text, name):
    out, i = [], 0
    while i < len(text):
        m = _L_TOK.match(text, i)
        if not m:
            raise AnchorError(f"{name}: cannot tokenize {text[i:i + 20]!r}")
        i = m.end()
        if m.group("ws"):
            continue
        if m.group("num"):
            out.append(("num", int(m.group("num").replace("_", ""), 0)))
        elif m.group("str") is not None:
            out.append(("str", m.group("str")))
        elif m.group("id"):
            out.append(("id", m.group("id")))
        else:
            out.append(("op", m.group("op")))
    return out


class LParser:
    """statements: ('let', mut, name, type | None, init | None) ('assign', op, lhs, rhs) ('expr', e)
                   ('if', cond, block, block | None) ('while', cond, block) ('return', e); a block is ([statements], tail | None)
       expressions: the nodes of Parser plus ('ref', mut, e) ('deref', e) ('range', lo | None, hi | None)
                    ('macro', name, [args]) ('str', text) ('struct', name, [(field, e)]) ('repeat', e, n)"""

    def __init__(self, toks, name, structs):
        self.t, self.i, self.name, self.structs = toks, 0, name, structs

    def err(self, msg):
        return AnchorError(f"{self.name}: {msg} at {self.t[self.i:self.i + 6]!r}")

    def peek(self, k=0):
        return self.t[self.i + k] if self.i + k < len(self.t) else ("eof", None)

    def next(self):
        tok = self.peek()
        self.i += 1
        return tok

    def accept(self, op):
        if self.peek() == ("op", op):
            self.i += 1
            return True
        return False

    def accept_id(self, word):
        if self.peek() == ("id", word):
            self.i += 1
            return True
        return False

    def expect(self, op):
        if not self.accept(op):
            raise self.err(f"expected {op!r}")

    def ident(self):
        k, v = self.next()
        if k != "id" or "::" in v:
            raise self.err("expected an identifier")
        return v

    # ---- statements ----
    def body(self):
        b = self.stmts(("eof", None))
        return b

    def block(self):
        self.expect("{")
        b = self.stmts(("op", "}"))
        self.expect("}")
        return b

    def stmts(self, end):
        out, tail = [], None
        while self.peek() != end:
            if self.peek()[0] == "eof":
                raise self.err("unexpected end")
            if tail is not None:
                raise self.err("expression without ';' in the middle of a block")
            k, v = self.peek()
            if (k, v) == ("id", "let"):
                self.next()
                mut = self.accept_id("mut")
                name = self.ident()
                ty = None
                if self.accept(":"):
                    ty = self.ident()
                init = self.expr(0) if self.accept("=") else None
                self.expect(";")
                out.append(("let", mut, name, ty, init))
            elif (k, v) == ("id", "if"):
                self.next()
                c = self.expr(0, nostruct=True)
                th = self.block()
                el = None
                if self.accept_id("else"):
                    el = self.block()
                out.append(("if", c, th, el))
            elif (k, v) == ("id", "while"):
                self.next()
                c = self.expr(0, nostruct=True)
                out.append(("while", c, self.block()))
            elif (k, v) == ("id", "return"):
                self.next()
                e = self.expr(0)
                self.expect(";")
                out.append(("return", e))
            elif k == "id" and v in ("for", "loop", "match", "break", "continue", "unsafe", "fn", "const", "static", "else"):
                raise self.err(f"statement {v!r} is not translated")
            else:
                e = self.expr(0)
                if self.peek() in (("op", "="), ("op", "+="), ("op", "-=")):
                    op = self.next()[1]
                    rhs = self.expr(0)
                    self.expect(";")
                    out.append(("assign", op, e, rhs))
                elif self.accept(";"):
                    out.append(("expr", e))
                else:
                    tail = e
        return out, tail

    # ---- expressions ----
    def expr(self, minprec, nostruct=False):
        lhs = self.unary(nostruct)
        while True:
            k, v = self.peek()
            if (k, v) == ("id", "as"):
                self.next()
                ty = self.next()[1]
                if ty not in TYPES:
                    raise self.err(f"cast to {ty!r}")
                lhs = ("cast", TYPES[ty], lhs)
                continue
            if k == "op" and v in BIN_PREC and BIN_PREC[v] >= minprec:
                self.next()
                rhs = self.expr(BIN_PREC[v] + 1, nostruct)
                lhs = ("bin", v, lhs, rhs)
                continue
            return lhs

    def unary(self, nostruct):
        if self.accept("!"):
            return ("un", "!", self.unary(nostruct))
        if self.accept("&"):
            mut = self.accept_id("mut")
            return ("ref", mut, self.unary(nostruct))
        if self.accept("*"):
            return ("deref", self.unary(nostruct))
        if self.peek() == ("op", "-"):
            raise self.err("unary minus")
        return self.postfix(self.primary(nostruct))

    def args(self, close):
        out = []
        while not self.accept(close):
            out.append(self.expr(0))
            if not self.accept(","):
                self.expect(close)
                break
        return out

    def primary(self, nostruct):
        k, v = self.next()
        if k == "num":
            return ("num", v)
        if k == "str":
            return ("str", v)
        if k == "id":
            if self.peek() == ("op", "!") and self.peek(1) == ("op", "("):
                self.i += 2
                return ("macro", v, self.args(")"))
            if self.accept("("):
                return ("call", v, self.args(")"))
            if not nostruct and v in self.structs and self.peek() == ("op", "{"):
                self.next()
                fields = []
                while not self.accept("}"):
                    f = self.ident()
                    e = self.expr(0) if self.accept(":") else ("var", f)
                    fields.append((f, e))
                    if not self.accept(","):
                        self.expect("}")
                        break
                return ("struct", v, fields)
            return ("var", v)
        if (k, v) == ("op", "("):
            e = self.expr(0)
            self.expect(")")
            return e
        if (k, v) == ("op", "["):
            e = self.expr(0)
            self.expect(";")
            n = self.expr(0)
            self.expect("]")
            return ("repeat", e, n)
        self.i -= 1
        raise self.err("unexpected token")

    def postfix(self, e):
        while True:
            if self.accept("."):
                m = self.ident()
                if self.accept("("):
                    e = ("meth", e, m, self.args(")"))
                else:
                    e = ("field", e, m)
            elif self.accept("["):
                lo = None if self.peek() == ("op", "..") else self.expr(0)
                if self.accept(".."):
                    hi = None if self.peek() == ("op", "]") else self.expr(0)
                    idx = ("range", lo, hi)
                else:
                    idx = lo
                self.expect("]")
                e = ("index", e, idx)
            else:
                return e


class LCtx:
    """shared by the translated functions: structs (RStruct), constants, signatures.
    A signature: dict(coq, self = None | 'ref' | 'mut', struct, params = [(name, kind, inout)], ret = kind | None, res,
    exts = [ext names], fuel).  Kinds: ('int', w) ('arr',) ('slice',) ('struct', S) ('platform',) ('cvstack',)
    ('ext', T)."""

    def __init__(self, prefix, structs, consts, cap):
        self.P, self.structs, self.consts, self.cap = prefix, structs, consts, cap
        self.fns, self.methods, self.exts, self.tyvars = {}, {}, {}, []

    def coq_type(self, k):
        if k[0] == "int":
            return "N"
        if k[0] in ("arr", "slice"):
            return "list N"
        if k[0] == "struct":
            return self.structs[k[1]].coq
        if k[0] == "platform":
            return "platform"
        if k[0] == "cvstack":
            return "list (list N)"
        if k[0] == "ext":
            return k[1]
        raise AnchorError(f"no Gallina type for {k!r}")

    def field(self, sname, f):
        for g, k, w in self.structs[sname].fields:
            if g == f:
                if k == "word":
                    return ("int", w)
                if isinstance(k, tuple):
                    return k
                return (k,)
        return None

    def setters(self, sname):
        st = self.structs[sname]
        out = []
        for f, _, _ in st.fields:
            args = " ".join("v" if g == f else f"({st.proj(g)} s)" for g, _, _ in st.fields)
            out.append(f"Definition {st.coq}_set_{f} (s : {st.coq}) (v : {self.coq_type(self.field(sname, f))}) : {st.coq} :=\n"
                       f"  {st.coq}_mk {args}.\n")
        return "".join(out)

    def add_ext(self, key, name, params, ret, tyvar=None):
        """an untranslated function: explicit parameter ext_<name> of every translated function that (transitively) calls it"""
        if tyvar and tyvar not in self.tyvars:
            self.tyvars.append(tyvar)
        ty = " -> ".join([self.coq_type(k) for _, k, _ in params] + [self.coq_type(ret)])
        self.exts[name] = {"type": ty, "tyvar": tyvar}
        sig = {"coq": "ext_" + name, "self": None, "struct": None, "params": params, "ret": ret, "res": False,
               "exts": [name], "fuel": False, "external": True}
        if isinstance(key, tuple):
            sig["self"] = "ref"
            self.methods[key] = sig
        else:
            self.fns[key] = sig


class LFn:
    def __init__(self, ctx, impl_text, struct, fname, header_re, codes):
        self.ctx, self.struct, self.fname = ctx, struct, fname
        self.name = f"{ctx.P}{struct}_{fname}"
        ptext, rtext = _fn_header(impl_text, header_re, self.name)
        self.block = LParser(_l_tokens(fn_body(impl_text, header_re, self.name), self.name), self.name,
                             set(ctx.structs)).body()
        self.codes, self.code_i = list(codes), 0
        self.env, self.params, self.selfmode = {}, [], None
        self.lines, self.tmp, self.monadic, self.exts, self.fuel, self.loops = [], 0, False, [], False, []
        self.frame = set()
        for p in _p_split_top(ptext, ","):
            p = " ".join(p.split())
            if p:
                self.param(p)
        self.ret = self.ret_kind(" ".join(rtext.split()))

    def err(self, msg):
        return AnchorError(f"{self.name}: {msg}")

    # ---- signature ----
    def param(self, p):
        if p in ("&self", "&mut self"):
            if self.params or self.selfmode:
                raise self.err("self is not the first parameter")
            self.selfmode = "mut" if p == "&mut self" else "ref"
            self.env["self"] = {"kind": ("struct", self.struct), "mut": self.selfmode == "mut", "uninit": False}
            return
        m = re.fullmatch(r"(mut )?(%s)\s*:\s*(.+)" % _IDENT, p)
        if not m:
            raise self.err(f"parameter {p!r}")
        mut, v, ty = bool(m.group(1)), m.group(2), m.group(3).strip()
        inout = False
        if ty == "&mut &[u8]":
            kind, inout, mut = ("slice",), True, True
        elif ty == "&[u8]":
            kind = ("slice",)
        elif ty in ("&CVBytes", "&CVWords"):
            kind = ("arr",)
        elif ty in ("u8", "u32", "u64", "usize"):
            kind = ("int", TYPES[ty])
        else:
            raise self.err(f"parameter type {ty!r}")
        self.declare(v, kind, mut)
        self.params.append((v, kind, inout))

    def ret_kind(self, r):
        if r in ("", "-> &mut Self"):
            if r and self.selfmode != "mut":
                raise self.err("-> &mut Self without &mut self")
            return None
        if r in ("-> u8", "-> u32", "-> u64", "-> usize"):
            return ("int", TYPES[r[3:]])
        if r == "-> Hash":
            return ("arr",)
        if r[3:] in self.ctx.structs:
            return ("struct", r[3:])
        if r == "-> OutputReader":
            return ("ext", "OutputReader")
        raise self.err(f"result type {r!r}")

    def declare(self, v, kind, mut, uninit=False):
        if v in self.env or v in self.ctx.consts or v == "fuel" or re.fullmatch(r"t\d+|ext_.*", v):
            raise self.err(f"{v} is declared twice, shadows a constant or is a reserved name")
        self.env[v] = {"kind": kind, "mut": mut, "uninit": uninit}

    # ---- output ----
    def fresh(self):
        self.tmp += 1
        return f"t{self.tmp}"

    def let(self, v, term):
        self.lines.append(f"let {v} := {term} in")

    def bind(self, v, term):
        self.monadic = True
        self.lines.append(f"{v} <- {term} ;;")

    def check(self, cond, code, note=None):
        self.monadic = True
        self.lines.append(f"assert! {cond} code {code} ;;" + (f"   (* {note} *)" if note else ""))

    def assigned(self, v):
        e = self.env.get(v)
        if e is None or not e["mut"]:
            raise self.err(f"assignment to {v}, which is not a mutable variable")
        e["uninit"] = False
        self.frame.add(v)

    def use_sig(self, sig):
        for x in sig["exts"]:
            if x not in self.exts:
                self.exts.append(x)
        if sig["fuel"]:
            self.fuel = True

    # ---- paths: a variable followed by fields -> (root, [fields], term, kind) ----
    def path(self, ast):
        if ast[0] == "var":
            e = self.env.get(ast[1])
            if e is None:
                return None
            if e["uninit"]:
                raise self.err(f"{ast[1]} is read before it is assigned")
            return ast[1], [], ast[1], e["kind"]
        if ast[0] == "field":
            p = self.path(ast[1])
            if p is None or p[3][0] != "struct":
                return None
            root, fs, term, kind = p
            k = self.ctx.field(kind[1], ast[2])
            if k is None:
                raise self.err(f"struct {kind[1]} has no field {ast[2]}")
            return root, fs + [ast[2]], f"({self.ctx.structs[kind[1]].proj(ast[2])} {term})", k
        return None

    def set_path(self, root, fs, value):
        """root.fs := value"""
        if not fs:
            self.let(root, value)
        else:
            def upd(term, sname, fs):
                st = self.ctx.structs[sname]
                if len(fs) == 1:
                    return f"{st.coq}_set_{fs[0]} {term} {value}"
                k = self.ctx.field(sname, fs[0])
                return f"{st.coq}_set_{fs[0]} {term} ({upd('(' + st.proj(fs[0]) + ' ' + term + ')', k[1], fs[1:])})"
            self.let(root, upd(root, self.env[root]["kind"][1], fs))
        self.assigned(root)

    # ---- integer expressions ----
    def method_sig(self, ast):
        """('meth', recv, m, args) on a struct-valued path -> (sig, receiver term) or None"""
        if ast[0] != "meth":
            return None
        p = self.path(ast[1])
        if p is None and ast[1][0] in ("meth", "call") and (self.kind_of(ast[1]) or ("",))[0] == "struct":
            term, s = self.struct_(ast[1])                  # a call as the receiver: evaluated first
            p = (None, [], term, ("struct", s))
        if p is None or p[3][0] != "struct":
            return None
        sig = self.ctx.methods.get((p[3][1], ast[2]))
        if sig is None:
            raise self.err(f"call of {p[3][1]}::{ast[2]}, which is neither translated nor a declared external")
        return sig, p[2]

    def len_term(self, ast):
        p = self.path(ast)
        if p is None or p[3][0] not in ("slice", "arr", "cvstack"):
            raise self.err(f"length of {ast!r}")
        return f"(av_len {p[2]})" if p[3][0] == "cvstack" else f"(N.of_nat (length {p[2]}))"

    def subst(self, ast):
        """integer expression -> the same expression over ('coq', term, width) / ('coqres', term, width) leaves"""
        k = ast[0]
        if k == "num":
            return ast
        if k == "var" and ast[1] in self.ctx.consts and ast[1] not in self.env:
            return ("coq",) + self.ctx.consts[ast[1]]
        if k in ("var", "field"):
            p = self.path(ast)
            if p is None or p[3][0] != "int":
                raise self.err(f"not an integer: {ast!r}")
            return ("coq", p[2], p[3][1])
        if k == "meth" and ast[2] == "len" and not ast[3]:
            return ("coq", self.len_term(ast[1]), 64)
        if k == "meth" and ast[2] in METHS and not ast[3]:
            return ("meth", self.subst(ast[1]), ast[2], [])
        if k == "meth":
            ms = self.method_sig(ast)
            if ms and ms[0]["ret"] and ms[0]["ret"][0] == "int" and ms[0]["self"] == "ref" and not ms[0]["params"] and not ast[3]:
                sig, recv = ms
                self.use_sig(sig)
                if sig["exts"] or sig["fuel"]:
                    raise self.err(f"integer method {ast[2]} with externals")
                return ("coqres" if sig["res"] else "coq", f"({sig['coq']} {recv})", sig["ret"][1])
        if k == "cast":
            return ("cast", ast[1], self.subst(ast[2]))
        if k == "bin" and ast[1] in BINOPS:
            return ("bin", ast[1], self.subst(ast[2]), self.subst(ast[3]))
        if k == "call" and ast[1] == "cmp::min" and len(ast[2]) == 2:
            return ("call", ast[1], [self.subst(a) for a in ast[2]])
        raise self.err(f"cannot translate the integer expression {ast!r}")

    def int_res(self, ast, want):
        """term of type res N"""
        self.monadic = True
        return emit(self.subst(ast), {}, {}, self.name, want)

    def int_atom(self, ast, want):
        """term of type N; anything but a variable / field / literal is bound first"""
        s = self.subst(ast)
        w = width_of(s, {})
        if w is not None and want is not None and w != want:
            raise self.err(f"{ast!r} has width {w}, expected {want}")
        if s[0] == "num":
            if want is not None and s[1] >= (1 << want):
                raise self.err(f"literal {s[1]} does not fit {want} bits")
            return str(s[1])
        if s[0] == "coq":
            return s[1]
        v = self.fresh()
        self.bind(v, emit(s, {}, {}, self.name, want))
        return v

    def cond(self, ast):
        """term of type res bool"""
        self.monadic = True
        if ast[0] == "bin" and (ast[1] in CMPOPS or ast[1] in (">", ">=")):
            return emit_bool(("bin", ast[1], self.subst(ast[2]), self.subst(ast[3])), {}, {}, self.name)
        if ast[0] == "un" and ast[1] == "!":
            return f"(b <- {self.cond(ast[2])} ;; Ok (negb b))"
        if ast[0] == "meth" and ast[2] == "is_empty" and not ast[3]:
            return f"(mcmp N.eqb (Ok {self.len_term(ast[1])}) (Ok 0))"
        raise self.err(f"condition {ast!r}")

    # ---- array / struct / platform valued expressions ----
    def named(self, term):
        if re.fullmatch(r"[\w']+", term):
            return term
        v = self.fresh()
        self.let(v, term)
        return v

    def arr(self, ast):
        """term of type list N (bounds checks and binds are emitted first)"""
        k = ast[0]
        if k == "ref":
            return self.arr(ast[2])
        if k == "deref" and ast[1][0] == "var":
            p = self.path(ast[1])
            if p and p[3] == ("arr",):
                return p[2]
        if k in ("var", "field"):
            p = self.path(ast)
            if p and p[3][0] in ("arr", "slice"):
                return p[2]
        if k == "index" and ast[2][0] == "range":
            p = self.path(ast[1])
            lo, hi = ast[2][1], ast[2][2]
            if p and p[3][0] in ("slice", "arr"):
                ln = f"(N.of_nat (length {p[2]}))"
                if lo is None and hi is not None:
                    b = self.int_atom(hi, 64)
                    self.check(f"({b} <=? {ln})", _L_SLICE_TO, "[..b]")
                    return f"(firstn (N.to_nat {b}) {p[2]})"
                if lo is not None and hi is None:
                    a = self.int_atom(lo, 64)
                    self.check(f"({a} <=? {ln})", _L_SLICE_FROM, "[a..]")
                    return f"(skipn (N.to_nat {a}) {p[2]})"
        if k == "index" and ast[2][0] != "range":
            p = self.path(ast[1])
            if p and p[3] == ("cvstack",):
                i = self.int_atom(ast[2], 64)
                v = self.fresh()
                self.bind(v, f"av_index {p[2]} {i}")
                return v
        if k == "macro" and ast[1] == "array_ref" and len(ast[2]) == 3:
            p = self.path(ast[2][0])
            if p and p[3][0] in ("slice", "arr"):
                off, n = self.int_atom(ast[2][1], 64), self.int_atom(ast[2][2], 64)
                self.check(f"({off} + {n} <=? N.of_nat (length {p[2]}))", _L_ARRAY_REF, "array_ref!")
                return f"(arr_slice {p[2]} (N.to_nat {off}) (N.to_nat {n}))"
        if k == "repeat" and ast[1] == ("num", 0):
            return f"(repeat 0 (N.to_nat {self.int_atom(ast[2], 64)}))"
        if k == "meth":
            ms = self.method_sig(ast)
            if ms and ms[0]["ret"] == ("arr",):
                term, res = self.call(ms[0], ms[1], ast[3])
                return self.value_of(term, res)
        raise self.err(f"cannot translate the array expression {ast!r}")

    def value_of(self, term, res):
        if res:
            v = self.fresh()
            self.bind(v, term)
            return v
        return f"({term})"

    def struct_(self, ast, want=None):
        """(term, struct name)"""
        k = ast[0]
        term = None
        if k in ("var", "field"):
            p = self.path(ast)
            if p and p[3][0] == "struct":
                term, s = p[2], p[3][1]
        elif k == "call" and ast[1] in self.ctx.fns and (self.ctx.fns[ast[1]]["ret"] or ("",))[0] == "struct":
            sig = self.ctx.fns[ast[1]]
            t, res = self.call(sig, None, ast[2])
            term, s = self.value_of(t, res), sig["ret"][1]
        elif k == "meth":
            ms = self.method_sig(ast)
            if ms and (ms[0]["ret"] or ("",))[0] == "struct":
                t, res = self.call(ms[0], ms[1], ast[3])
                term, s = self.value_of(t, res), ms[0]["ret"][1]
        elif k == "struct":
            s = ast[1]
            st = self.ctx.structs[s]
            given = dict(ast[2])
            if len(given) != len(ast[2]) or set(given) != {f for f, _, _ in st.fields}:
                raise self.err(f"struct literal {s}: fields {[f for f, _ in ast[2]]}")
            vals = {}
            for f, e in ast[2]:                              # evaluation order: as written
                vals[f] = self.value(e, self.ctx.field(s, f))
            term = "(" + " ".join([st.coq + "_mk"] + [vals[f] for f, _, _ in st.fields]) + ")"
        if term is None:
            raise self.err(f"cannot translate the struct expression {ast!r}")
        if want is not None and s != want:
            raise self.err(f"{ast!r} is a {s}, expected {want}")
        return term, s

    def value(self, ast, kind):
        if kind[0] == "int":
            return self.int_atom(ast, kind[1])
        if kind[0] in ("arr", "slice"):
            return self.arr(ast)
        if kind[0] == "struct":
            return self.struct_(ast, kind[1])[0]
        if kind[0] == "platform":
            p = self.path(ast)
            if p and p[3] == ("platform",):
                return p[2]
        raise self.err(f"cannot translate {ast!r} as a {kind!r}")

    def kind_of(self, ast):
        """kind of the value of an initialiser, from its head"""
        k = ast[0]
        if k in ("var", "field"):
            p = self.path(ast)
            if p:
                return p[3]
        if k == "call" and ast[1] in self.ctx.fns:
            return self.ctx.fns[ast[1]]["ret"]
        if k == "meth":
            p = self.path(ast[1])
            if p and p[3][0] == "struct" and (p[3][1], ast[2]) in self.ctx.methods:
                return self.ctx.methods[(p[3][1], ast[2])]["ret"]
        if k == "struct":
            return ("struct", ast[1])
        if k in ("ref", "deref", "repeat") or (k == "index") or (k == "macro" and ast[1] == "array_ref"):
            return ("arr",)
        s = self.subst(ast)
        return ("int", width_of(s, {}))

    # ---- calls ----
    def call(self, sig, recv, args):
        """(term, is it in res); the caller binds the result"""
        if len(args) != len(sig["params"]):
            raise self.err(f"call of {sig['coq']}: {len(args)} arguments for {len(sig['params'])} parameters")
        if any(io for _, _, io in sig["params"]) or sig["self"] == "mut":
            raise self.err(f"call of {sig['coq']} inside an expression writes through its arguments")
        self.use_sig(sig)
        terms = [self.value(a, k) for a, (_, k, _) in zip(args, sig["params"])]
        return self.call_term(sig, recv, terms), sig["res"]

    def call_term(self, sig, recv, terms):
        head = [sig["coq"]]
        if not sig.get("external"):
            head += ["ext_" + x for x in sig["exts"]] + (["fuel"] if sig["fuel"] else [])
        return " ".join(head + ([recv] if recv is not None else []) + terms)

    def call_stmt(self, sig, args):
        """self.m(args) with a `&mut self` receiver, as a statement"""
        if sig["self"] != "mut" or sig["ret"] is not None:
            raise self.err(f"call of {sig['coq']} as a statement")
        if len(args) != len(sig["params"]):
            raise self.err(f"call of {sig['coq']}: {len(args)} arguments for {len(sig['params'])} parameters")
        self.use_sig(sig)
        terms, outs = [], ["self"]
        for a, (_, k, io) in zip(args, sig["params"]):
            if io:
                if not (a[0] == "ref" and a[1] and a[2][0] == "var" and self.env.get(a[2][1], {}).get("kind") == k
                        and self.env[a[2][1]]["mut"]):
                    raise self.err(f"call of {sig['coq']}: argument {a!r} for a &mut parameter")
                terms.append(self.path(a[2])[2])
                outs.append(a[2][1])
            else:
                terms.append(self.value(a, k))
        pat = outs[0] if len(outs) == 1 else "'(" + ", ".join(outs) + ")"
        term = self.call_term(sig, "self", terms)
        if sig["res"]:
            self.bind(pat, term)
        else:
            self.let(pat, term)
        for v in outs:
            self.assigned(v)

    # ---- statements ----
    def next_code(self):
        if self.code_i >= len(self.codes):
            raise self.err("more assertion macros than Panic codes in the table")
        self.code_i += 1
        return self.codes[self.code_i - 1]

    def place(self, ast):
        """a sub-slice of an array field of self -> (root, fields, current array term, offset : N or None, length : N)"""
        if ast[0] == "index" and ast[2][0] == "range":
            root, fs, base, off, ln = self.place(ast[1])
            lo, hi = ast[2][1], ast[2][2]
            if lo is not None and hi is None:
                a = self.int_atom(lo, 64)
                self.check(f"({a} <=? {ln})", _L_SLICE_FROM, "[a..]")
                return root, fs, base, a if off is None else f"({off} + {a})", f"({ln} - {a})"
            if lo is None and hi is not None:
                b = self.int_atom(hi, 64)
                self.check(f"({b} <=? {ln})", _L_SLICE_TO, "[..b]")
                return root, fs, base, off, b
            raise self.err(f"range {ast!r}")
        p = self.path(ast)
        if p and p[3] == ("arr",) and p[1] and self.env[p[0]]["mut"]:
            return p[0], p[1], p[2], None, f"(N.of_nat (length {p[2]}))"
        raise self.err(f"not a mutable array place: {ast!r}")

    def stmt(self, s, top):
        k = s[0]
        if k == "let":
            _, mut, v, ty, init = s
            if init is None:
                if ty not in self.ctx.structs:
                    raise self.err(f"declaration of {v} without initialiser")
                return self.declare(v, ("struct", ty), mut, uninit=True)
            if ty is not None:
                raise self.err(f"let {v}: type annotation with an initialiser")
            # let x = self.cv_stack.pop().unwrap()
            if init[0] == "meth" and init[2] == "unwrap" and not init[3] and init[1][0] == "meth" and init[1][2] == "pop" \
                    and not init[1][3]:
                p = self.path(init[1][1])
                if not p or p[3] != ("cvstack",):
                    raise self.err(f"pop() on {init[1][1]!r}")
                t = self.fresh()
                self.bind(f"'({t}, {v})", f"av_pop_unwrap {p[2]}")
                self.set_path(p[0], p[1], t)
                return self.declare(v, ("arr",), mut)
            kind = self.kind_of(init)
            if kind is None:
                raise self.err(f"let {v} = {init!r}: no value")
            if kind[0] == "int":
                if kind[1] is None:
                    raise self.err(f"cannot infer the type of {v}")
                if self.subst(init)[0] == "coq":
                    self.let(v, self.int_atom(init, kind[1]))
                else:
                    self.bind(v, self.int_res(init, kind[1]))
            else:
                term = self.value(init, kind)
                self.let(v, term)
            return self.declare(v, kind, mut)
        if k == "assign":
            return self.assign(s)
        if k == "expr":
            return self.expr_stmt(s[1])
        if k == "if":
            return self.if_stmt(s)
        if k == "while":
            return self.while_stmt(s)
        raise self.err(f"statement {s!r} in this position")

    def assign(self, s):
        _, op, lhs, rhs = s
        if lhs[0] == "deref" and lhs[1][0] == "var" and self.env.get(lhs[1][1], {}).get("kind") == ("slice",):
            lhs = lhs[1]                                  # `*input = ..` through a `&mut &[u8]` parameter
        p = self.path(lhs) if not (lhs[0] == "var" and self.env.get(lhs[1], {}).get("uninit")) else \
            (lhs[1], [], lhs[1], self.env[lhs[1]]["kind"])
        if p is None:
            raise self.err(f"assignment to {lhs!r}")
        root, fs, cur, kind = p
        if not self.env[root]["mut"]:
            raise self.err(f"assignment to {root}, which is not mutable")
        if kind[0] == "int":
            if op == "=":
                s2 = self.subst(rhs)
                if s2[0] in ("num", "coq"):
                    val = self.int_atom(rhs, kind[1])
                else:
                    val = self.fresh()
                    self.bind(val, emit(s2, {}, {}, self.name, kind[1]))
            else:
                val = self.fresh()
                e = ("bin", op[0], ("coq", cur, kind[1]), self.subst(rhs))
                w = width_of(e[3], {})
                if w is not None and w != kind[1]:
                    raise self.err(f"{lhs!r} {op} {rhs!r}: operand widths")
                self.bind(val, emit(e, {}, {}, self.name, kind[1]))
            return self.set_path(root, fs, val)
        if op != "=":
            raise self.err(f"{op} on a non-integer")
        if kind[0] == "struct":
            return self.set_path(root, fs, self.struct_(rhs, kind[1])[0])
        if kind[0] in ("arr", "slice"):
            return self.set_path(root, fs, self.arr(rhs))
        raise self.err(f"assignment to {lhs!r}")

    def expr_stmt(self, e):
        if e[0] == "macro" and e[1] in ("debug_assert", "debug_assert_eq", "assert_eq", "assert"):
            args = [a for a in e[2]]
            if args and args[-1][0] == "str":
                args.pop()                                   # the panic message
            code = self.next_code()
            if e[1].endswith("_eq") and len(args) == 2:
                c = self.cond(("bin", "==", args[0], args[1]))
            elif not e[1].endswith("_eq") and len(args) == 1:
                c = self.cond(args[0])
            else:
                raise self.err(f"{e[1]}! with {len(args)} arguments")
            t = self.fresh()
            self.bind(t, c)
            return self.check(t, code, e[1] + "!")
        if e[0] == "meth":
            recv, m, args = e[1], e[2], e[3]
            if m == "copy_from_slice" and len(args) == 1:
                root, fs, base, off, ln = self.place(recv)
                src = self.named(self.arr(args[0]))
                self.check(f"(N.of_nat (length {src}) =? {ln})", _L_COPY_LEN, "copy_from_slice")
                return self.set_path(root, fs, f"(arr_store {base} (N.to_nat {off or '0'}) {src})")
            p = self.path(recv)
            if p and p[3] == ("cvstack",) and m == "push" and len(args) == 1:
                x = self.arr(args[0])
                t = self.fresh()
                self.bind(t, f"av_push {self.ctx.cap} {p[2]} {x}")
                return self.set_path(p[0], p[1], t)
            if p and p[3] == ("cvstack",) and m == "clear" and not args:
                return self.set_path(p[0], p[1], "[]")
            if p and p[3] == ("platform",) and m in self.ctx.platform_methods:
                f = self.ctx.platform_methods[m]
                if not (isinstance(f["ret"], tuple) and f["ret"][0] == "inplace") or len(args) != len(f["params"]):
                    raise self.err(f"platform call {m}")
                mi = f["ret"][1]
                a = args[mi]
                q = self.path(a[2]) if a[0] == "ref" and a[1] else None
                if not q or q[3] != ("arr",) or not q[1]:
                    raise self.err(f"platform call {m}: argument {a!r}")
                terms = []
                for i, (x, kd) in enumerate(zip(args, f["params"])):
                    if i == mi:
                        terms.append(q[2])
                    else:
                        terms.append(self.value(x, ("arr",) if kd == "arr" else ("int", f["widths"][i])))
                return self.set_path(q[0], q[1], "(" + " ".join([f["coq"], p[2]] + terms) + ")")
            if p and p[0] == "self" and not p[1] and (self.struct, m) in self.ctx.methods:
                return self.call_stmt(self.ctx.methods[(self.struct, m)], args)
        raise self.err(f"expression statement {e!r}")

    # ---- blocks ----
    def sub_block(self, stmts, tail_ok=False):
        """translate statements in a fresh frame -> (lines, outer variables assigned, in declaration order)"""
        saved_lines, saved_frame, outer = self.lines, self.frame, list(self.env)
        self.lines, self.frame = [], set()
        for s in stmts:
            self.stmt(s, False)
        lines, frame = self.lines, self.frame
        for v in list(self.env):
            if v not in outer:
                del self.env[v]                              # block-local variables go out of scope
        self.lines, self.frame = saved_lines, saved_frame
        return lines, [v for v in outer if v in frame]

    def tuple_of(self, vs):
        return "tt" if not vs else vs[0] if len(vs) == 1 else "(" + ", ".join(vs) + ")"

    def pat_of(self, vs):
        return "_" if not vs else vs[0] if len(vs) == 1 else "'(" + ", ".join(vs) + ")"

    def if_stmt(self, s):
        _, c, (th, th_tail), el = s
        if th_tail is not None or (el is not None and el[1] is not None):
            raise self.err("if block with a value")
        t = self.fresh()
        self.bind(t, self.cond(c))
        before = {v: dict(e) for v, e in self.env.items()}
        th_lines, th_vars = self.sub_block(th)
        after_th = {v: e["uninit"] for v, e in self.env.items()}
        for v, e in before.items():
            self.env[v]["uninit"] = e["uninit"]
        el_lines, el_vars = self.sub_block(el[0]) if el is not None else ([], [])
        vs = [v for v in self.env if v in th_vars or v in el_vars]
        for v in vs:
            if before[v]["uninit"] and (after_th[v] or self.env[v]["uninit"]):
                raise self.err(f"{v} is not assigned in both arms of the if")
            self.env[v]["uninit"] = False
            self.frame.add(v)
        ret = f"Ok {self.tuple_of(vs)}"
        self.lines.append(f"{self.pat_of(vs)} <- (if ({t} : bool) then")
        self.lines += ["    " + l for l in th_lines] + ["    " + ret, "  else"]
        self.lines += ["    " + l for l in el_lines] + ["    " + ret + ") ;;"]

    def while_stmt(self, s):
        _, c, (body, tail) = s
        if tail is not None:
            raise self.err("loop body with a value")
        for v, e in self.env.items():
            if e["uninit"]:
                raise self.err(f"{v} is not initialised at the loop")
        scope = [(v, self.ctx.coq_type(e["kind"])) for v, e in self.env.items()]
        saved_lines, saved_frame = self.lines, self.frame
        self.lines, self.frame = [], set()
        t = self.fresh()
        self.bind(t, self.cond(c))
        head = self.lines
        self.lines = saved_lines
        self.frame = saved_frame
        body_lines, vs = self.sub_block(body)
        if not vs:
            raise self.err("loop body assigns nothing")
        lname = f"{self.name}_loop{len(self.loops) + 1}"
        rty = " * ".join(self.ctx.coq_type(self.env[v]["kind"]) for v in vs)
        text = (f"Fixpoint {lname} @EXTS@(fuel : nat) " + " ".join(f"({v} : {ty})" for v, ty in scope)
                + f"\n  : res ({rty}) :=\n" + "".join("  " + l + "\n" for l in head)
                + f"  if ({t} : bool) then\n    match fuel with\n    | O => OutOfFuel\n    | S fuel =>\n"
                + "".join("      " + l + "\n" for l in body_lines)
                + f"      {lname} @EXTARGS@fuel " + " ".join(v for v, _ in scope) + "\n    end\n"
                + f"  else Ok {self.tuple_of(vs)}.\n")
        self.loops.append(text)
        self.fuel = True
        self.bind(self.pat_of(vs), f"{lname} @EXTARGS@fuel " + " ".join(v for v, _ in scope))
        for v in vs:
            self.assigned(v)

    def result(self, tail):
        parts = (["self"] if self.selfmode == "mut" else []) + [v for v, _, io in self.params if io]
        for v in parts:
            if self.env[v]["uninit"]:
                raise self.err(f"{v} is not initialised at the end")
        if self.ret is None:
            if tail is not None and not (tail == ("var", "self") and self.selfmode == "mut"):
                raise self.err(f"result expression {tail!r}")
        else:
            if tail is None:
                raise self.err("no result expression")
            if self.ret[0] == "int":
                s = self.subst(tail)
                if s[0] in ("num", "coq"):
                    parts.append(self.int_atom(tail, self.ret[1]))
                else:
                    v = self.fresh()
                    self.bind(v, emit(s, {}, {}, self.name, self.ret[1]))
                    parts.append(v)
            elif self.ret[0] == "ext":
                if not (tail[0] == "call" and tail[1] in self.ctx.fns and self.ctx.fns[tail[1]]["ret"] == self.ret):
                    raise self.err(f"result expression {tail!r}")
                t, res = self.call(self.ctx.fns[tail[1]], None, tail[2])
                parts.append(self.value_of(t, res))
            else:
                parts.append(self.value(tail, self.ret))
        if not parts:
            raise self.err("neither a result nor a written parameter")
        return self.tuple_of(parts)

    def translate(self):
        ctx = self.ctx
        stmts, tail = self.block
        early = []                                           # (bound condition, lines of the arm, its result)
        for i, s in enumerate(stmts):
            if s[0] == "if" and s[3] is None and s[2][1] is None and s[2][0] and s[2][0][-1][0] == "return":
                # if c { ..; return e; }  -> the rest of the function is the else arm
                t = self.fresh()
                self.bind(t, self.cond(s[1]))
                lines, vs = self.sub_block(s[2][0][:-1])
                if vs:
                    raise self.err("assignments before an early return")
                saved = self.lines
                self.lines = []
                r = self.result(s[2][0][-1][1])
                arm = lines + self.lines
                self.lines = saved
                self.lines.append(f"if ({t} : bool) then (")
                self.lines += ["    " + l for l in arm] + [f"    Ok {r})", "else"]
            else:
                self.stmt(s, True)
        r = self.result(tail)
        if self.code_i != len(self.codes):
            raise self.err(f"{self.code_i} assertion macros in the body, {len(self.codes)} Panic codes in the table")
        parts = ([("struct", self.struct)] if self.selfmode == "mut" else []) + [k for _, k, io in self.params if io] \
            + ([self.ret] if self.ret is not None else [])
        rty = " * ".join(ctx.coq_type(k) for k in parts)
        if self.monadic:
            rty = f"res ({rty})" if " " in rty else f"res {rty}"
        self.exts = [x for x in ctx.exts if x in self.exts]              # declaration order
        ext_sig = "".join(f"(ext_{x} : {ctx.exts[x]['type']}) " for x in self.exts)
        tyvars = [ctx.exts[x]["tyvar"] for x in self.exts if ctx.exts[x]["tyvar"]]
        ty_sig = "".join(f"{{{t} : Type}} " for t in dict.fromkeys(tyvars))
        ext_args = "".join(f"ext_{x} " for x in self.exts)
        sig = ty_sig + ext_sig + ("(fuel : nat) " if self.fuel else "")
        if self.selfmode:
            sig += f"(self : {ctx.structs[self.struct].coq}) "
        sig += " ".join(f"({v} : {ctx.coq_type(k)})" for v, k, _ in self.params)
        text = "".join(l.replace("@EXTS@", ty_sig + ext_sig).replace("@EXTARGS@", ext_args) + "\n" for l in self.loops)
        body = "".join("  " + l.replace("@EXTARGS@", ext_args) + "\n" for l in self.lines)
        text += f"Definition {self.name} {sig.rstrip()}\n  : {rty} :=\n{body}  {'Ok ' if self.monadic else ''}{r}.\n"
        self.sig = {"coq": self.name, "self": self.selfmode, "struct": self.struct, "params": self.params, "ret": self.ret,
                    "res": self.monadic, "exts": self.exts, "fuel": self.fuel}
        return text


# (struct, function, Panic codes of its debug_assert! / debug_assert_eq! / assert_eq! macros in source order: the codes
#  Model/RsChunk.v / Model/RsHasher.v give the same sites; 1406 = debug_assert!(self.cv_stack.len() >= 2), which the model
#  leaves to the index panic that follows it)
_LIB_LOOP_FNS = [("ChunkState", "count", []), ("ChunkState", "fill_buf", []), ("ChunkState", "output", []),
                 ("ChunkState", "update", [1302, 1301, 1303, 1304]),
                 ("Hasher", "merge_cv_stack", []), ("Hasher", "push_cv", []), ("Hasher", "reset", []),
                 ("Hasher", "final_output", [1404, 1405, 1406]), ("Hasher", "finalize", [22]),
                 ("Hasher", "finalize_xof", [22]), ("Hasher", "count", [])]


def _lib_loops_parts():
    """(ctx, text pieces of GenLibLoops.v, (lib.rs, platform.rs without comments, impl ChunkState, impl Hasher, impl Output)):
    the records, constants, externals and the translated methods are built once here for GenLibLoops.v and GenLibWide.v"""
    out = [HEADER.replace("NArith List.", "NArith List Bool.").replace(
        "Base.MachInt.", "Base.MachInt Base.Word Base.Arr Base.ArrayVec.\n"
        "From V Require Import gen.GenConsts Model.Platform gen.GenLibSmall.")]
    lib = strip_comments(src("src/lib.rs"))
    plat = strip_comments(src("src/platform.rs"))
    P = "lib_"
    find1(r"\btype\s+CVWords\s*=\s*\[\s*u32\s*;\s*8\s*\]\s*;", lib, "lib.rs type CVWords = [u32; 8]")
    find1(r"\btype\s+CVBytes\s*=\s*\[\s*u8\s*;\s*32\s*\]\s*;", lib, "lib.rs type CVBytes = [u8; 32]")
    find1(r"\buse\s+core::cmp\s*;", lib, "lib.rs use core::cmp")
    find1(r"\buse\s+arrayvec::\{[^}]*\bArrayVec\b[^}]*\}\s*;", lib, "lib.rs use arrayvec::ArrayVec")
    find1(r"cv_stack\s*:\s*ArrayVec<\s*CVBytes\s*,\s*\{(.*?)\}\s*>", lib, "Hasher.cv_stack: ArrayVec<CVBytes, {..}>")
    cenv = {"BLOCK_LEN": "rs_BLOCK_LEN", "OUT_LEN": "rs_OUT_LEN", "KEY_LEN": "rs_KEY_LEN", "CHUNK_LEN": "rs_CHUNK_LEN"}
    consts = {}
    for c in ("BLOCK_LEN", "OUT_LEN", "KEY_LEN", "CHUNK_LEN"):
        find1(r"\bconst\s+" + c + r"\s*:\s*usize\s*=", lib, "lib.rs " + c + ": usize")
        consts[c] = ("rs_" + c, 64)
    for c in ("CHUNK_START", "CHUNK_END", "PARENT", "ROOT", "KEYED_HASH", "DERIVE_KEY_CONTEXT", "DERIVE_KEY_MATERIAL"):
        find1(r"\bconst\s+" + c + r"\s*:\s*u8\s*=", lib, "lib.rs " + c + ": u8")
        cenv[c] = "rs_flag_" + c
        consts[c] = ("rs_flag_" + c, 8)
    structs = {}
    for s in ("Output", "ChunkState"):
        structs[s] = RStruct(lib, s, P, cenv)
    structs["Hasher"] = RStruct(lib, "Hasher", P, cenv, structs)
    ctx = WCtx(P, structs, consts, "rs_cv_stack_cap")
    pimpl = fn_body(plat, r"\bimpl\s+Platform\s*\{", "impl Platform")
    tail_params = ["block: &[u8; BLOCK_LEN]", "block_len: u8", "counter: u64", "flags: u8"]
    ctx.platform_methods = {
        "compress_in_place": _platform_method(pimpl, "compress_in_place", ["&self", "cv: &mut CVWords"] + tail_params, "",
                                              "p_compress_in_place", ("inplace", 0))}

    # translated in GenLibSmall.v (same run, same text): ChunkState::new, ChunkState::start_flag
    cs_impl = fn_body(lib, r"\bimpl\s+ChunkState\s*\{", "impl ChunkState")
    h_impl = fn_body(lib, r"\bimpl\s+Hasher\s*\{", "impl Hasher")
    small_fns = {"Hash": {"ret": "newtype"}}
    f = RFn(P + "ChunkState_new", cs_impl, r"\bfn\s+new\s*\(", {}, cenv, small_fns, structs, None, {}, {}, impl_struct="ChunkState")
    f.translate()
    if f.sig["params"] != ["arr", "word", "word", "platform"] or f.sig["widths"][1:3] != [64, 8]:
        raise AnchorError(f"ChunkState::new: parameters {f.sig['params']!r}")
    ctx.fns["ChunkState::new"] = {"coq": P + "ChunkState_new", "self": None, "struct": None,
                                  "params": [("key", ("arr",), False), ("chunk_counter", ("int", 64), False),
                                             ("flags", ("int", 8), False), ("platform", ("platform",), False)],
                                  "ret": ("struct", "ChunkState"), "res": False, "exts": [], "fuel": False}
    f = RFn(P + "ChunkState_start_flag", cs_impl, r"\bfn\s+start_flag\s*\(", {}, cenv, small_fns, structs, "ChunkState", {}, {},
            impl_struct="ChunkState")
    f.translate()
    if f.sig["ret"] != "res" or f.ret != "-> u8":
        raise AnchorError("ChunkState::start_flag: result")
    ctx.methods[("ChunkState", "start_flag")] = {"coq": P + "ChunkState_start_flag", "self": "ref", "struct": "ChunkState",
                                                 "params": [], "ret": ("int", 8), "res": True, "exts": [], "fuel": False}

    # called, not translated here: explicit parameters (their signatures are the source's)
    def anchored(text, hdr, want_params, want_ret, what):
        ptext, rtext = _fn_header(text, hdr, what)
        got = [" ".join(a.split()) for a in _args(ptext)]
        if got != want_params or " ".join(rtext.split()) != want_ret:
            raise AnchorError(f"{what}: signature {got!r} {rtext!r}")
    anchored(lib, r"\bfn\s+parent_node_output\s*\(",
             ["left_child: &CVBytes", "right_child: &CVBytes", "key: &CVWords", "flags: u8", "platform: Platform"],
             "-> Output", "parent_node_output")
    ctx.add_ext("parent_node_output", "parent_node_output",
                [("left_child", ("arr",), False), ("right_child", ("arr",), False), ("key", ("arr",), False),
                 ("flags", ("int", 8), False), ("platform", ("platform",), False)], ("struct", "Output"))
    o_impl = fn_body(lib, r"\bimpl\s+Output\s*\{", "impl Output")
    anchored(o_impl, r"\bfn\s+chaining_value\s*\(", ["&self"], "-> CVBytes", "Output::chaining_value")
    ctx.add_ext(("Output", "chaining_value"), "Output_chaining_value", [], ("arr",))
    ctx.methods[("Output", "chaining_value")]["params"] = []
    ctx.exts["Output_chaining_value"]["type"] = f"{structs['Output'].coq} -> list N"
    anchored(o_impl, r"\bfn\s+root_hash\s*\(", ["&self"], "-> Hash", "Output::root_hash")
    ctx.add_ext(("Output", "root_hash"), "Output_root_hash", [], ("arr",))
    ctx.exts["Output_root_hash"]["type"] = f"{structs['Output'].coq} -> res (list N)"
    ctx.methods[("Output", "root_hash")]["res"] = True
    r_impl = fn_body(lib, r"\bimpl\s+OutputReader\s*\{", "impl OutputReader")
    anchored(r_impl, r"\bfn\s+new\s*\(", ["inner: Output"], "-> Self", "OutputReader::new")
    ctx.add_ext("OutputReader::new", "OutputReader_new", [("inner", ("struct", "Output"), False)],
                ("ext", "OutputReader"), tyvar="OutputReader")

    out.append("(* ---- record updates for `self.field = e` ---- *)\n")
    for s in ("ChunkState", "Hasher"):
        out.append(ctx.setters(s))
    for s, impl, title in (("ChunkState", cs_impl, "impl ChunkState"), ("Hasher", h_impl, "impl Hasher")):
        out.append(f"(* ---- src/lib.rs: {title} ---- *)\n")
        for st, fname, codes in _LIB_LOOP_FNS:
            if st != s:
                continue
            f = LFn(ctx, impl, s, fname, r"\bfn\s+" + fname + r"\s*\(", codes)
            out.append(f.translate())
            ctx.methods[(s, fname)] = f.sig
    return ctx, out, (lib, plat, cs_impl, h_impl, o_impl)


def gen_lib_loops():
    return "\n".join(_lib_loops_parts()[1])


# ---------------------------------------------------------------------------
# GenLibWide.v: the all-at-once / wide core of src/lib.rs (largest_power_of_two_leq, compress_chunks_parallel,
# compress_parents_parallel, compress_subtree_wide, compress_subtree_to_parent_node, hash_all_at_once, hash, keyed_hash,
# derive_key, Hasher::update_with_join, Hasher::update) and hazmat::left_subtree_len, translated statement by statement
# on top of GenLibSmall.v / GenLibLoops.v (same records, same translated callees, the rules of LFn).  What is added:
#   * every function is in `res`; `out: &mut [u8]` parameters are threaded: the function returns (out, result), a call
#     `f(.., out)` / `f(.., &mut arr)` rebinds the variable.
#   * recursion (compress_subtree_wide): a Fixpoint on explicit fuel.  The leading `if c { return e; }` statements are
#     evaluated first; `match fuel with O => OutOfFuel | S fuel =>` stands before the first other statement, so every
#     call below it (the recursive ones included) receives the predecessor.
#   * `J::join(|| a, || b)` is `a` then `b` (join::SerialJoin; that the schedule does not matter is C08 / WideSchedP);
#     `f::<J>(..)` / `f::<join::SerialJoin>(..)` is `f(..)`: the type argument must be the function's own `J` or
#     join::SerialJoin.
#   * `s.chunks_exact(N)` is the pair sl_chunks_exact N s (Base/Slice.v); `for x in &mut it { body }` is a Fixpoint
#     <f>_for<k> by structural recursion over the pieces, `it.remainder()` the second component.
#     `ArrayVec::<&[u8; N], CAP>::new()` is [], push is av_push CAP (Base/ArrayVec.v) under at_code.
#   * `s.split_at(k)` -> bounds assert, (firstn k s, skipn k s); `a.split_at_mut(k)` the same, and `a` is rebuilt as
#     `left ++ right` after the last statement that mentions one of the two halves (using `a` before is an AnchorError).
#   * `*array_mut_ref!(s, off, n) = e` -> e first, then the bounds assert, then arr_store; `s[a..][..b]` places.
#   * Panic codes: the assertion macros take the codes of the first table in source order; every slice index, split,
#     array_ref!, push and copy_from_slice takes the next entry of the second table, which also names the KIND of
#     operation expected at that position (a mismatch is an AnchorError).  The codes are the ones Model/RsWide.v /
#     Model/RsHasher.v use for the same sites; 40 / 41 / 42 / 54 are the generic slice / copy / array_ref! codes for
#     sites the models do not check separately.
#   * `if c { .. } else { return self; }` nested in the last position of an arm: the `if` yields an extra component
#     `early : option <result>`; after the outermost one `match early with Some r => Ok r | None => <rest> end`.
#   * `if let Some(x) = hazmat::max_subtree_len(e) { body }` -> match on the formula rs_max_subtree_len of GenFormulas.v
#     (translated there from hazmat.rs); `let x = if c { ..; a } else { b };` and a final `if c { ..; a } else { b }`.
#   * constants of the build (MAX_SIMD_DEGREE, MAX_SIMD_DEGREE_OR_2: cfg-dependent in platform.rs) and
#     Platform::detect() are ext_ parameters like the functions that are called but not translated
#     (Platform::hash_many with `out` threaded, platform::words_from_le_bytes_32, hazmat::hash_derive_key_context).
# Everything else raises AnchorError.
# ---------------------------------------------------------------------------
_W_TOK = re.compile(r"""
    (?P<ws>\s+)
  | (?P<num>0[xX][0-9a-fA-F_]+|[0-9][0-9_]*)(?:_?(?:u8|u16|u32|u64|usize))?
  | (?P<str>"(?:\\.|[^"\\])*")
  | (?P<id>[A-Za-z_][A-Za-z0-9_]*(?:::[A-Za-z_][A-Za-z0-9_]*)*)
  | (?P<op>::|\.\.|\+=|-=|/=|->|==|!=|<=|>=|&&|\|\||<<|>>|[-+*/%&|^!<>=().,\[\]{};:])
""", re.X)
_W_RENAME = {"left": "left_", "right": "right_"}          # constructors of Coq's sumbool: unusable in patterns


def _w_tokens(text, name):
    out, i = [], 0
    while i < len(text):
        m = _W_TOK.match(text, i)
        if not m:
            raise AnchorError(f"{name}: cannot tokenize {text[i:i + 20]!r}")
        i = m.end()
        if m.group("ws"):
            continue
        if m.group("num"):
            out.append(("num", int(m.group("num").replace("_", ""), 0)))
        elif m.group("str") is not None:
            out.append(("str", m.group("str")))
        elif m.group("id"):
            out.append(("id", _W_RENAME.get(m.group("id"), m.group("id"))))
        else:
            out.append(("op", m.group("op")))
    return out


class WParser(LParser):
    """LParser plus
       statements:  ('lettuple', [names], init) ('for', var, iterator, block) ('iflet', ctor, var, e, block)
       expressions: ('ifexpr', cond, block, block) ('gcall', name, generics, [args]) ('gmeth', recv, m, generics, [args])
                    ('closure', e) ('tfield', e, k);  an `if` with valued arms at the end of a block is the block's value"""

    def stmts(self, end):
        out, tail = [], None
        while self.peek() != end:
            if self.peek()[0] == "eof":
                raise self.err("unexpected end")
            if tail is not None:
                raise self.err("expression without ';' in the middle of a block")
            k, v = self.peek()
            if (k, v) == ("id", "let"):
                self.next()
                if self.accept("("):
                    names = []
                    while True:
                        names.append(self.ident())
                        if self.accept(")"):
                            break
                        self.expect(",")
                    self.expect("=")
                    init = self.expr(0)
                    self.expect(";")
                    out.append(("lettuple", names, init))
                    continue
                mut = self.accept_id("mut")
                name = self.ident()
                ty = None
                if self.accept(":"):
                    ty = self.ident()
                init = self.expr(0) if self.accept("=") else None
                self.expect(";")
                out.append(("let", mut, name, ty, init))
            elif (k, v) == ("id", "if"):
                self.next()
                if self.accept_id("let"):
                    ctor = self.ident()
                    self.expect("(")
                    var = self.ident()
                    self.expect(")")
                    self.expect("=")
                    e = self.expr(0, nostruct=True)
                    b = self.block()
                    if self.peek() == ("id", "else"):
                        raise self.err("if let .. else")
                    out.append(("iflet", ctor, var, e, b))
                    continue
                c = self.expr(0, nostruct=True)
                th = self.block()
                el = None
                if self.accept_id("else"):
                    el = self.block()
                if self.peek() == end and th[1] is not None and el is not None and el[1] is not None:
                    tail = ("ifexpr", c, th, el)
                else:
                    out.append(("if", c, th, el))
            elif (k, v) == ("id", "while"):
                self.next()
                c = self.expr(0, nostruct=True)
                out.append(("while", c, self.block()))
            elif (k, v) == ("id", "for"):
                self.next()
                var = self.ident()
                if not self.accept_id("in"):
                    raise self.err("for without in")
                it = self.expr(0, nostruct=True)
                out.append(("for", var, it, self.block()))
            elif (k, v) == ("id", "return"):
                self.next()
                e = self.expr(0)
                self.expect(";")
                out.append(("return", e))
            elif k == "id" and v in ("loop", "match", "break", "continue", "unsafe", "fn", "const", "static", "else"):
                raise self.err(f"statement {v!r} is not translated")
            else:
                e = self.expr(0)
                if self.peek() in (("op", "="), ("op", "+="), ("op", "-="), ("op", "/=")):
                    op = self.next()[1]
                    rhs = self.expr(0)
                    self.expect(";")
                    out.append(("assign", op, e, rhs))
                elif self.accept(";"):
                    out.append(("expr", e))
                else:
                    tail = e
        return out, tail

    def generics(self):
        self.expect("::")
        self.expect("<")
        depth, toks = 1, []
        while True:
            t = self.next()
            if t[0] == "eof":
                raise self.err("unterminated generic arguments")
            if t == ("op", "<"):
                depth += 1
            elif t == ("op", ">"):
                depth -= 1
                if depth == 0:
                    return " ".join(str(x) for _, x in toks)
            toks.append(t)

    def args(self, close):
        out = []
        while not self.accept(close):
            if self.accept("||"):
                out.append(("closure", self.expr(0)))
            else:
                out.append(self.expr(0))
            if not self.accept(","):
                self.expect(close)
                break
        return out

    def primary(self, nostruct):
        k, v = self.peek()
        if (k, v) == ("id", "if"):
            self.next()
            c = self.expr(0, nostruct=True)
            th = self.block()
            if not self.accept_id("else"):
                raise self.err("if expression without else")
            return ("ifexpr", c, th, self.block())
        if k == "id" and self.peek(1) == ("op", "::") and self.peek(2) == ("op", "<"):
            self.next()
            gens = self.generics()
            name = v
            if self.accept("::"):
                name += "::" + self.ident()
            self.expect("(")
            return ("gcall", name, gens, self.args(")"))
        return LParser.primary(self, nostruct)

    def postfix(self, e):
        while True:
            if self.peek() == ("op", ".") and self.peek(1)[0] == "num":
                self.i += 2
                e = ("tfield", e, self.t[self.i - 1][1])
            elif self.accept("."):
                m = self.ident()
                if self.peek() == ("op", "::") and self.peek(1) == ("op", "<"):
                    gens = self.generics()
                    self.expect("(")
                    e = ("gmeth", e, m, gens, self.args(")"))
                elif self.accept("("):
                    e = ("meth", e, m, self.args(")"))
                else:
                    e = ("field", e, m)
            elif self.accept("["):
                lo = None if self.peek() == ("op", "..") else self.expr(0)
                if self.accept(".."):
                    hi = None if self.peek() == ("op", "]") else self.expr(0)
                    idx = ("range", lo, hi)
                else:
                    idx = lo
                self.expect("]")
                e = ("index", e, idx)
            else:
                return e


class WCtx(LCtx):
    """LCtx plus the kinds ('vec', cap term) (an ArrayVec of array references: list (list N)), ('chunks',) (a ChunksExact
    iterator: pieces and remainder), ('bool',), ('option', w); ext_consts: identifier -> (ext name, kind)"""

    def __init__(self, prefix, structs, consts, cap):
        LCtx.__init__(self, prefix, structs, consts, cap)
        self.ext_consts, self.arr_consts = {}, {}

    def coq_type(self, k):
        if k[0] == "vec":
            return "list (list N)"
        if k[0] == "chunks":
            return "(list (list N) * list N)"
        if k[0] == "bool":
            return "bool"
        return LCtx.coq_type(self, k)

    def add_ext_const(self, ident, name, kind):
        self.exts[name] = {"type": self.coq_type(kind), "tyvar": None}
        self.ext_consts[ident] = (name, kind)


class WFn(LFn):
    def __init__(self, ctx, text, struct, fname, header_re, codes, sites, key=None):
        self.ctx, self.struct, self.fname = ctx, struct, fname
        self.name = f"{ctx.P}{struct}_{fname}" if struct else f"{ctx.P}{fname}"
        self.key = key or fname                        # the name under which calls refer to this function
        ptext, rtext = _fn_header(text, header_re, self.name)
        self.generic = None
        mg = re.search(r"<\s*(%s)\s*:\s*join::Join\s*>\s*\($" % _IDENT, find1(header_re, text, self.name).group(0))
        if mg:
            self.generic = mg.group(1)
        self.block = WParser(_w_tokens(fn_body(text, header_re, self.name), self.name), self.name,
                             set(ctx.structs)).body()
        self.codes, self.code_i = list(codes), 0
        self.sites, self.site_i = list(sites), 0
        self.env, self.params, self.selfmode = {}, [], None
        self.lines, self.tmp, self.monadic, self.exts, self.fuel, self.loops = [], 0, True, [], False, []
        self.frame, self.closers, self.nfor, self.lent, self.rest = set(), [], 0, {}, []
        for p in _p_split_top(ptext, ","):
            p = " ".join(p.split())
            if p:
                self.param(p)
        self.ret = self.ret_kind(" ".join(rtext.split()))
        self.recursive = self.mentions_call(self.block, self.key)

    # ---- signature ----
    def param(self, p):
        if p in ("&self", "&mut self"):
            return LFn.param(self, p)
        m = re.fullmatch(r"(mut )?(%s)\s*:\s*(.+)" % _IDENT, p)
        if not m:
            raise self.err(f"parameter {p!r}")
        mut, v, ty = bool(m.group(1)), _W_RENAME.get(m.group(2), m.group(2)), m.group(3).strip()
        inout = False
        if ty == "&mut [u8]":
            kind, inout, mut = ("slice",), True, True
        elif ty in ("&[u8]", "&str"):
            kind = ("slice",)
        elif ty in ("&CVBytes", "&CVWords") or re.fullmatch(r"&\[u8; (KEY_LEN|OUT_LEN|BLOCK_LEN|\d+)\]", ty):
            kind = ("arr",)
        elif ty in ("u8", "u32", "u64", "usize"):
            kind = ("int", TYPES[ty])
        elif ty == "Platform":
            kind = ("platform",)
        else:
            raise self.err(f"parameter type {ty!r}")
        self.declare(v, kind, mut)
        self.params.append((v, kind, inout))

    def ret_kind(self, r):
        if r in ("-> [u8; BLOCK_LEN]", "-> [u8; OUT_LEN]"):
            return ("arr",)
        return LFn.ret_kind(self, r)

    def result_type(self):
        parts = ([("struct", self.struct)] if self.selfmode == "mut" else []) + [k for _, k, io in self.params if io] \
            + ([self.ret] if self.ret is not None else [])
        return " * ".join(self.ctx.coq_type(k) for k in parts)

    # ---- tables ----
    def site(self, kind):
        if self.site_i >= len(self.sites):
            raise self.err(f"more slice / split / push sites than entries in the table (next: {kind})")
        k, code = self.sites[self.site_i]
        if k != kind:
            raise self.err(f"site {self.site_i + 1} is a {kind!r}, the table expects {k!r}")
        self.site_i += 1
        return code

    def use_ext(self, name):
        if name not in self.exts:
            self.exts.append(name)

    def use_sig(self, sig):
        for x in sig["exts"]:
            if x != "@SELF@" and x not in self.exts:
                self.exts.append(x)
        if sig["fuel"]:
            self.fuel = True

    def check_generics(self, gens):
        if gens not in ("join::SerialJoin",) + ((self.generic,) if self.generic else ()):
            raise self.err(f"type argument {gens!r} is neither join::SerialJoin nor the function's own Join parameter")

    @staticmethod
    def mentions(node, names):
        if isinstance(node, tuple) and len(node) == 2 and node[0] == "var" and node[1] in names:
            return True
        if isinstance(node, (tuple, list)):
            return any(WFn.mentions(x, names) for x in node)
        return False

    @staticmethod
    def mentions_call(node, fname):
        if isinstance(node, tuple) and len(node) >= 2 and node[0] in ("call", "gcall") and node[1] == fname:
            return True
        if isinstance(node, (tuple, list)):
            return any(WFn.mentions_call(x, fname) for x in node)
        return False

    @staticmethod
    def has_return(node):
        if isinstance(node, tuple) and len(node) == 2 and node[0] == "return":
            return True
        if isinstance(node, (tuple, list)):
            return any(WFn.has_return(x) for x in node)
        return False

    # ---- paths ----
    def path(self, ast):
        if ast[0] == "var" and ast[1] in self.lent:
            raise self.err(f"{ast[1]} is used while split_at_mut borrows it")
        return LFn.path(self, ast)

    def kind_of(self, ast):
        """kind of an expression from its head, without emitting anything; ('int', None) when nothing else applies"""
        k = ast[0]
        if k in ("var", "field"):
            p = self.path(ast)
            if p:
                return p[3]
            if k == "var" and ast[1] in self.ctx.arr_consts:
                return ("arr",)
        if ast == ("call", "Platform::detect", []):
            return ("platform",)
        if k in ("call", "gcall") and ast[1] in self.ctx.fns:
            return self.ctx.fns[ast[1]]["ret"]
        if k in ("meth", "gmeth"):
            rk = self.kind_of(ast[1])
            if rk and rk[0] == "struct":
                sig = self.ctx.methods.get((rk[1], ast[2]))
                if sig:
                    return ("struct", rk[1]) if sig["ret"] is None and sig["self"] == "mut" else sig["ret"]
            if rk == ("chunks",) and ast[2] == "remainder":
                return ("arr",)
        if k == "struct":
            return ("struct", ast[1])
        if k == "ref":
            ik = self.kind_of(ast[2])
            return ik if ik and ik[0] in ("vec", "struct") else ("arr",)
        if k in ("deref", "repeat", "index", "tfield") or (k == "macro" and ast[1] in ("array_ref", "array_mut_ref")):
            return ("arr",)
        return ("int", None)

    def method_sig(self, ast):
        if ast[0] != "meth":
            return None
        p = self.path(ast[1])
        if p is None and (self.kind_of(ast[1]) or ("",))[0] == "struct":
            term, st = self.struct_(ast[1])                  # a call as the receiver: evaluated first
            p = (None, [], term, ("struct", st))
        if p is None or p[3][0] != "struct":
            return None
        sig = self.ctx.methods.get((p[3][1], ast[2]))
        if sig is None:
            raise self.err(f"call of {p[3][1]}::{ast[2]}, which is neither translated nor a declared external")
        return sig, p[2]

    def len_term(self, ast):
        p = self.path(ast)
        if p is not None and p[3][0] in ("cvstack", "vec"):
            return f"(av_len {p[2]})"
        return f"(N.of_nat (length {self.arr(ast)}))"

    # ---- integer expressions ----
    def subst(self, ast):
        k = ast[0]
        if k == "var" and ast[1] in self.ctx.ext_consts and ast[1] not in self.env:
            name, kind = self.ctx.ext_consts[ast[1]]
            if kind[0] != "int":
                raise self.err(f"{ast[1]} is not an integer")
            self.use_ext(name)
            return ("coq", "ext_" + name, kind[1])
        if k == "meth" and ast[2] == "simd_degree" and not ast[3]:
            p = self.path(ast[1])
            if p and p[3] == ("platform",):
                return ("coq", f"(p_degree {p[2]})", 64)
        if k == "call" and ast[1] == "cmp::max" and len(ast[2]) == 2:
            a, b = self.subst(ast[2][0]), self.subst(ast[2][1])
            w = width_of(a, {}) or width_of(b, {})
            if w is None:
                raise self.err(f"cannot infer the width of {ast!r}")
            return ("coqres", f"(mb (mi_max {w}) {emit(a, {}, {}, self.name, w)} {emit(b, {}, {}, self.name, w)})", w)
        if k in ("call", "gcall") and ast[1] in self.ctx.fns and (self.ctx.fns[ast[1]]["ret"] or ("",))[0] == "int":
            sig = self.ctx.fns[ast[1]]
            if k == "gcall":
                self.check_generics(ast[2])
            t = self.call_any(sig, None, ast[2] if k == "call" else ast[3])
            return ("coq", t, sig["ret"][1])
        return LFn.subst(self, ast)

    def atom_of(self, s, want, what):
        """the integer expression s (already through subst) as a term of type N"""
        w = width_of(s, {})
        if w is not None and want is not None and w != want:
            raise self.err(f"{what!r} has width {w}, expected {want}")
        if s[0] == "num":
            if want is not None and s[1] >= (1 << want):
                raise self.err(f"literal {s[1]} does not fit {want} bits")
            return str(s[1])
        if s[0] == "coq":
            return s[1]
        v = self.fresh()
        self.bind(v, emit(s, {}, {}, self.name, want))
        return v

    def int_atom(self, ast, want):
        return self.atom_of(self.subst(ast), want, ast)

    def cond(self, ast):
        if ast[0] == "bin" and ast[1] == "&&":
            return f"(a <- {self.cond(ast[2])} ;; if (a : bool) then {self.cond(ast[3])} else Ok false)"
        return LFn.cond(self, ast)

    # ---- array valued expressions ----
    def arr(self, ast):
        k = ast[0]
        if k == "ref":
            return self.arr(ast[2])
        if k == "deref":
            return self.arr(ast[1])
        if k == "tfield" and ast[2] == 0:
            return self.arr(ast[1])                         # Hash(bytes).0
        if k == "var" and ast[1] in self.ctx.arr_consts and ast[1] not in self.env:
            return self.ctx.arr_consts[ast[1]]
        if k in ("var", "field"):
            p = self.path(ast)
            if p and p[3][0] in ("arr", "slice"):
                return p[2]
        if k == "index" and ast[2][0] == "range":
            base = self.named(self.arr(ast[1]))
            lo, hi = ast[2][1], ast[2][2]
            ln = f"(N.of_nat (length {base}))"
            if lo is None and hi is not None:
                b = self.int_atom(hi, 64)
                self.check(f"({b} <=? {ln})", self.site("to"), "[..b]")
                return f"(firstn (N.to_nat {b}) {base})"
            if lo is not None and hi is None:
                a = self.int_atom(lo, 64)
                self.check(f"({a} <=? {ln})", self.site("from"), "[a..]")
                return f"(skipn (N.to_nat {a}) {base})"
        if k == "macro" and ast[1] == "array_ref" and len(ast[2]) == 3:
            base = self.named(self.arr(ast[2][0]))
            off, n = self.int_atom(ast[2][1], 64), self.int_atom(ast[2][2], 64)
            self.check(f"({off} + {n} <=? N.of_nat (length {base}))", self.site("array_ref"), "array_ref!")
            return f"(arr_slice {base} (N.to_nat {off}) (N.to_nat {n}))"
        if k == "repeat" and ast[1] == ("num", 0):
            return f"(repeat 0 (N.to_nat {self.int_atom(ast[2], 64)}))"
        if k == "meth" and ast[2] == "remainder" and not ast[3]:
            p = self.path(ast[1])
            if p and p[3] == ("chunks",):
                return f"(snd {p[2]})"
        if k in ("call", "gcall") and ast[1] in self.ctx.fns and self.ctx.fns[ast[1]]["ret"] == ("arr",):
            if k == "gcall":
                self.check_generics(ast[2])
            return self.call_any(self.ctx.fns[ast[1]], None, ast[2] if k == "call" else ast[3])
        if k == "index" and ast[2][0] != "range":
            p = self.path(ast[1])
            if p and p[3] == ("cvstack",):
                i = self.int_atom(ast[2], 64)
                v = self.fresh()
                self.bind(v, f"av_index {p[2]} {i}")
                return v
        if k == "meth":
            ms = self.method_sig(ast)
            if ms and ms[0]["ret"] == ("arr",):
                term, res = self.call(ms[0], ms[1], ast[3])
                return self.value_of(term, res)
        raise self.err(f"cannot translate the array expression {ast!r}")

    def struct_(self, ast, want=None):
        k = ast[0]
        if k == "gcall" and ast[1] in self.ctx.fns and (self.ctx.fns[ast[1]]["ret"] or ("",))[0] == "struct":
            self.check_generics(ast[2])
            sig = self.ctx.fns[ast[1]]
            term, s = self.call_any(sig, None, ast[3]), sig["ret"][1]
        elif k == "meth" and (self.kind_of(ast[1]) or ("",))[0] == "struct" \
                and self.ctx.methods.get((self.kind_of(ast[1])[1], ast[2]), {}).get("self") == "mut":
            # t.m(args) with `&mut self` on a temporary, returning &mut Self: the updated value
            sig = self.ctx.methods[(self.kind_of(ast[1])[1], ast[2])]
            if sig["ret"] is not None or self.path(ast[1]) is not None or any(io for _, _, io in sig["params"]):
                raise self.err(f"`&mut self` method {ast[2]} inside an expression")
            recv, s = self.struct_(ast[1])
            recv = self.named(recv)
            if len(ast[3]) != len(sig["params"]):
                raise self.err(f"call of {sig['coq']}: arguments")
            terms = [self.value(a, kd) for a, (_, kd, _) in zip(ast[3], sig["params"])]
            self.use_sig(sig)
            term = self.fresh()
            if sig["res"]:
                self.bind(term, self.call_term(sig, recv, terms))
            else:
                self.let(term, self.call_term(sig, recv, terms))
        else:
            return LFn.struct_(self, ast, want)
        if want is not None and s != want:
            raise self.err(f"{ast!r} is a {s}, expected {want}")
        return term, s

    def value(self, ast, kind):
        if kind[0] == "vec":
            e = ast[2] if ast[0] == "ref" and not ast[1] else ast
            p = self.path(e)
            if p and p[3][0] == "vec":
                return p[2]
        if kind[0] == "bool":
            if ast[0] == "var" and ast[1] in self.ctx.bool_consts:
                return self.ctx.bool_consts[ast[1]]
        if kind[0] == "platform" and ast == ("call", "Platform::detect", []):
            name, k = self.ctx.ext_consts["Platform::detect"]
            self.use_ext(name)
            return "ext_" + name
        if kind[0] not in ("vec", "bool"):
            return LFn.value(self, ast, kind)
        raise self.err(f"cannot translate {ast!r} as a {kind!r}")

    # ---- calls ----
    def call_term(self, sig, recv, terms):
        head = [sig["coq"]]
        if not sig.get("external"):
            head += ["@SELFEXTS@" if x == "@SELF@" else "ext_" + x for x in sig["exts"]] + (["fuel"] if sig["fuel"] else [])
        return " ".join(head + ([recv] if recv is not None else []) + terms)

    def inout_var(self, a, kind):
        v = None
        if a[0] == "var" and self.env.get(a[1], {}).get("kind") == ("slice",):
            v = a[1]
        elif a[0] == "ref" and a[1] and a[2][0] == "var" and self.env.get(a[2][1], {}).get("kind") == ("arr",):
            v = a[2][1]
        if v is None or not self.env[v]["mut"] or v in self.lent or kind != ("slice",):
            raise self.err(f"argument {a!r} for a `&mut [u8]` parameter")
        return v

    def call_any(self, sig, recv, args):
        """a call in statement / initialiser position: `&mut [u8]` arguments are rebound; -> the term of the returned
        value (None when there is none)"""
        if len(args) != len(sig["params"]) or sig["self"] == "mut":
            raise self.err(f"call of {sig['coq']}: arguments")
        self.use_sig(sig)
        terms, outs = [], []
        for a, (_, k, io) in zip(args, sig["params"]):
            if io:
                v = self.inout_var(a, k)
                terms.append(v)
                outs.append(v)
            else:
                terms.append(self.value(a, k))
        term = self.call_term(sig, recv, terms)
        ret = sig["ret"]
        if not outs:
            if ret is None:
                raise self.err(f"call of {sig['coq']} has no effect")
            if sig["res"]:
                t = self.fresh()
                self.bind(t, term)
                return t
            return f"({term})"
        pats, t = list(outs), None
        if ret is not None:
            t = self.fresh()
            pats.append(t)
        pat = pats[0] if len(pats) == 1 else "'(" + ", ".join(pats) + ")"
        if sig["res"]:
            self.bind(pat, term)
        else:
            self.let(pat, term)
        for v in outs:
            self.assigned(v)
        return t

    # ---- statements ----
    def run_stmts(self, stmts, top=False):
        saved = self.rest
        for i, s in enumerate(stmts):
            self.rest = stmts[i + 1:]
            self.stmt(s, top)
            self.after(s)
        self.rest = saved

    def after(self, s):
        for a, (l, r, last) in list(self.lent.items()):
            if last is s:
                del self.lent[a]
                self.let(a, f"({l} ++ {r})")
                self.assigned(a)
                del self.env[l], self.env[r]

    def sub_block(self, stmts, tail_ok=False):
        saved_lines, saved_frame, outer = self.lines, self.frame, list(self.env)
        self.lines, self.frame = [], set()
        self.run_stmts(stmts)
        lines, frame = self.lines, self.frame
        for v in list(self.env):
            if v not in outer:
                if any(v in (l, r) for l, r, _ in self.lent.values()):
                    raise self.err(f"{v} goes out of scope while it borrows")
                del self.env[v]
        self.lines, self.frame = saved_lines, saved_frame
        return lines, [v for v in outer if v in frame]

    def stmt(self, s, top):
        k = s[0]
        if k == "let":
            return self.let_stmt(s)
        if k == "lettuple":
            return self.lettuple(s)
        if k == "for":
            return self.for_stmt(s)
        if k == "iflet":
            return self.iflet(s)
        if k == "if" and self.has_return(s):
            if not top:
                raise self.err("return inside a nested block")
            self.flag_if(s)
            self.lines.append("match early with Some r => Ok r | None =>")
            self.closers.insert(0, "end")
            return None
        return LFn.stmt(self, s, top)

    def let_stmt(self, s):
        _, mut, v, ty, init = s
        if init is None or ty is not None:
            return LFn.stmt(self, s, False)
        if init[0] == "meth" and init[2] == "unwrap":
            return LFn.stmt(self, s, False)
        if init[0] == "meth" and init[2] == "chunks_exact" and len(init[3]) == 1:
            base = self.arr(init[1])
            n = self.int_atom(init[3][0], 64)
            self.let(v, f"sl_chunks_exact {n} {base}")
            return self.declare(v, ("chunks",), mut)
        if init[0] == "gcall" and init[1] == "ArrayVec::new" and not init[3]:
            m = re.fullmatch(r"& \[ u8 ; (\w+) \] , (\w+)", init[2])
            if not m:
                raise self.err(f"ArrayVec::<{init[2]}>::new()")
            self.int_atom(("var", m.group(1)), 64)                      # the element length is a known constant
            cap = self.int_atom(("var", m.group(2)), 64)
            self.let(v, "[]")
            return self.declare(v, ("vec", cap), mut)
        if init[0] == "ifexpr":
            return self.let_ifexpr(v, mut, init)
        kind = self.kind_of(init)
        if kind is None:
            raise self.err(f"let {v} = {init!r}: no value")
        if kind[0] == "int":
            sx = self.subst(init)
            w = width_of(sx, {})
            if w is None:
                raise self.err(f"cannot infer the type of {v}")
            if sx[0] == "coq":
                self.let(v, sx[1])
            else:
                self.bind(v, emit(sx, {}, {}, self.name, w))
            return self.declare(v, ("int", w), mut)
        if kind[0] == "platform":
            self.let(v, self.value(init, kind))
            return self.declare(v, kind, mut)
        self.let(v, self.value(init, kind))
        return self.declare(v, ("arr",) if kind[0] == "slice" and init[0] != "var" else kind, mut)

    def let_ifexpr(self, v, mut, init):
        """let v = if c { ..; a } else { b };  (an integer)"""
        _, c, th, el = init
        t = self.fresh()
        self.bind(t, self.cond(c))
        arms = []
        for stmts, tail in (th, el):
            if tail is None:
                raise self.err("if expression: arm without a value")
            saved_lines, saved_frame, outer = self.lines, self.frame, list(self.env)
            self.lines, self.frame = [], set()
            self.run_stmts(stmts)
            sx = self.subst(tail)
            arms.append([self.lines, sx, width_of(sx, {})])
            if self.frame:
                raise self.err("if expression: an arm assigns outer variables")
            for x in list(self.env):
                if x not in outer:
                    del self.env[x]
            self.lines, self.frame = saved_lines, saved_frame
        w = arms[0][2] or arms[1][2]
        if w is None or any(a[2] not in (None, w) for a in arms):
            raise self.err(f"if expression: widths {[a[2] for a in arms]!r}")
        for a in arms:
            saved_lines, self.lines = self.lines, a[0]
            a[0].append(f"Ok {self.atom_of(a[1], w, init)}")
            self.lines = saved_lines
        self.lines.append(f"{v} <- (if ({t} : bool) then")
        self.lines += ["    " + l for l in arms[0][0]] + ["  else"] + ["    " + l for l in arms[1][0][:-1]] \
            + ["    " + arms[1][0][-1] + ") ;;"]
        return self.declare(v, ("int", w), mut)

    def lettuple(self, s):
        _, names, init = s
        if len(names) != 2:
            raise self.err(f"tuple pattern {names!r}")
        a, b = names
        if init[0] == "meth" and init[2] in ("split_at", "split_at_mut") and len(init[3]) == 1:
            mutable = init[2] == "split_at_mut"
            k = self.int_atom(init[3][0], 64)
            if mutable:
                p = self.path(init[1])
                if not p or p[1] or p[3] != ("arr",) or not self.env[p[0]]["mut"]:
                    raise self.err(f"split_at_mut on {init[1]!r}")
                base = p[2]
            else:
                base = self.named(self.arr(init[1]))
            self.check(f"({k} <=? N.of_nat (length {base}))", self.site(init[2]), init[2])
            self.let(a, f"(firstn (N.to_nat {k}) {base})")
            self.let(b, f"(skipn (N.to_nat {k}) {base})")
            self.declare(a, ("slice",), mutable)
            self.declare(b, ("slice",), mutable)
            if mutable:
                last = None
                for st in self.rest:
                    if self.mentions(st, (a, b)):
                        last = st
                self.lent[p[0]] = (a, b, last if last is not None else s)
            return None
        if init[0] == "call" and self.generic and init[1] == self.generic + "::join" and len(init[2]) == 2 \
                and all(x[0] == "closure" for x in init[2]):
            for v, (_, e) in zip(names, init[2]):
                if e[0] not in ("call", "gcall") or e[1] not in self.ctx.fns or \
                        (self.ctx.fns[e[1]]["ret"] or ("",))[0] != "int":
                    raise self.err(f"join closure {e!r}")
                sx = self.subst(e)
                self.let(v, sx[1])
                self.declare(v, ("int", sx[2]), False)
            return None
        raise self.err(f"let {names!r} = {init!r}")

    def for_stmt(self, s):
        _, var, it, (body, tail) = s
        if tail is not None:
            raise self.err("loop body with a value")
        if not (it[0] == "ref" and it[1] and it[2][0] == "var" and self.env.get(it[2][1], {}).get("kind") == ("chunks",)):
            raise self.err(f"for over {it!r}")
        itv = it[2][1]
        if "items" in self.env or var == "items":
            raise self.err("the name `items` is taken")
        scope = [(v, self.ctx.coq_type(e["kind"])) for v, e in self.env.items() if v != itv]
        order = list(self.env)
        hidden = self.env.pop(itv)                              # the body cannot reach the iterator it is driven by
        self.declare(var, ("arr",), False)
        fuel_before, self.fuel = self.fuel, False
        body_lines, vs = self.sub_block(body)
        if self.fuel:
            raise self.err("a call that needs fuel inside a for loop")
        self.fuel = fuel_before
        del self.env[var]
        self.env = {k: (hidden if k == itv else self.env[k]) for k in order}
        if not vs:
            raise self.err("loop body assigns nothing")
        self.nfor += 1
        fname = f"{self.name}_for{self.nfor}"
        rty = " * ".join(self.ctx.coq_type(self.env[v]["kind"]) for v in vs)
        args = " ".join(v for v, _ in scope)
        text = (f"Fixpoint {fname} @EXTS@(items : list (list N)) " + " ".join(f"({v} : {ty})" for v, ty in scope)
                + f" {{struct items}}\n  : res ({rty}) :=\n  match items with\n  | [] => Ok {self.tuple_of(vs)}\n"
                + f"  | {var} :: items =>\n" + "".join("      " + l + "\n" for l in body_lines)
                + f"      {fname} @EXTARGS@items {args}\n  end.\n")
        self.loops.append(text)
        self.bind(self.pat_of(vs), f"{fname} @EXTARGS@(fst {itv}) {args}")
        for v in vs:
            self.assigned(v)

    def iflet(self, s):
        _, ctor, var, e, (body, tail) = s
        if ctor != "Some" or tail is not None or e[0] != "call" or e[1] not in self.ctx.fns \
                or (self.ctx.fns[e[1]]["ret"] or ("",))[0] != "option":
            raise self.err(f"if let {ctor}({var}) = {e!r}")
        sig = self.ctx.fns[e[1]]
        t = self.call_any(sig, None, e[2])
        self.declare(var, ("int", sig["ret"][1]), False)
        lines, vs = self.sub_block(body)
        del self.env[var]
        ret = f"Ok {self.tuple_of(vs)}"
        self.lines.append(f"{self.pat_of(vs)} <- (match {t} with")
        self.lines.append(f"  | Some {var} =>")
        self.lines += ["      " + l for l in lines] + ["      " + ret, f"  | None => {ret}", "  end) ;;"]
        for v in vs:
            self.frame.add(v)

    def flag_if(self, s):
        """an `if` / `else` one of whose arms ends in `return e` (directly, or through such an `if` in its last
        position): binds the outer variables the arms assign and `early : option <result>`"""
        _, c, (th, th_tail), el = s
        if th_tail is not None or (el is not None and el[1] is not None):
            raise self.err("if with a return: arms with values")
        t = self.fresh()
        self.bind(t, self.cond(c))
        before = {v: e["uninit"] for v, e in self.env.items()}
        la, va, ea = self.flag_arm(th)
        for v, u in before.items():
            self.env[v]["uninit"] = u
        lb, vb, eb = self.flag_arm(el[0] if el is not None else [])
        vs = [v for v in self.env if v in va or v in vb]
        for v in vs:
            self.env[v]["uninit"] = False
            self.frame.add(v)
        self.lines.append(f"{self.pat_of(vs + ['early'])} <- (if ({t} : bool) then")
        self.lines += ["    " + l for l in la] + ["    Ok " + self.tuple_of(vs + [ea]), "  else"]
        self.lines += ["    " + l for l in lb] + ["    Ok " + self.tuple_of(vs + [eb]) + ") ;;"]

    def flag_arm(self, stmts):
        saved_lines, saved_frame, outer = self.lines, self.frame, list(self.env)
        self.lines, self.frame = [], set()
        early = f"(None : option ({self.result_type()}))"
        if stmts and stmts[-1][0] == "return":
            self.run_stmts(stmts[:-1])
            early = f"(Some {self.result(stmts[-1][1])})"
        elif stmts and stmts[-1][0] == "if" and self.has_return(stmts[-1]):
            self.run_stmts(stmts[:-1])
            self.flag_if(stmts[-1])
            early = "early"
        else:
            self.run_stmts(stmts)
        lines, frame = self.lines, self.frame
        for v in list(self.env):
            if v not in outer:
                del self.env[v]
        self.lines, self.frame = saved_lines, saved_frame
        return lines, [v for v in outer if v in frame], early

    def place(self, ast):
        """a sub-slice of a mutable array / slice variable or field -> (root, fields, base term, offset or None, length)"""
        if ast[0] == "index" and ast[2][0] == "range":
            root, fs, base, off, ln = self.place(ast[1])
            lo, hi = ast[2][1], ast[2][2]
            if lo is not None and hi is None:
                a = self.int_atom(lo, 64)
                self.check(f"({a} <=? {ln})", self.site("from"), "[a..]")
                return root, fs, base, a if off is None else f"({off} + {a})", f"({ln} - {a})"
            if lo is None and hi is not None:
                b = self.int_atom(hi, 64)
                self.check(f"({b} <=? {ln})", self.site("to"), "[..b]")
                return root, fs, base, off, b
            raise self.err(f"range {ast!r}")
        p = self.path(ast)
        if p and p[3][0] in ("arr", "slice") and self.env[p[0]]["mut"]:
            return p[0], p[1], p[2], None, f"(N.of_nat (length {p[2]}))"
        raise self.err(f"not a mutable array place: {ast!r}")

    def assign(self, s):
        _, op, lhs, rhs = s
        if lhs[0] == "deref" and lhs[1][0] == "macro" and lhs[1][1] == "array_mut_ref" and op == "=" and len(lhs[1][2]) == 3:
            val = self.named(self.arr(rhs))                         # the right operand is evaluated first
            p = self.path(lhs[1][2][0])
            if not p or p[3][0] not in ("arr", "slice") or not self.env[p[0]]["mut"]:
                raise self.err(f"array_mut_ref! on {lhs[1][2][0]!r}")
            off, n = self.int_atom(lhs[1][2][1], 64), self.int_atom(lhs[1][2][2], 64)
            self.check(f"({off} + {n} <=? N.of_nat (length {p[2]}))", self.site("array_mut_ref"), "array_mut_ref!")
            return self.set_path(p[0], p[1], f"(arr_store {p[2]} (N.to_nat {off}) {val})")
        p = self.path(lhs) if lhs[0] in ("var", "field") else None
        if p is not None and p[3][0] == "int" and not (lhs[0] == "var" and self.env[lhs[1]]["uninit"]):
            root, fs, cur, kind = p
            if not self.env[root]["mut"]:
                raise self.err(f"assignment to {root}, which is not mutable")
            if op == "=":
                val = self.atom_of(self.subst(rhs), kind[1], rhs)
            else:
                sx = self.subst(rhs)
                w = width_of(sx, {})
                if w is not None and w != kind[1]:
                    raise self.err(f"{lhs!r} {op} {rhs!r}: operand widths")
                val = self.fresh()
                self.bind(val, emit(("bin", op[0], ("coq", cur, kind[1]), sx), {}, {}, self.name, kind[1]))
            return self.set_path(root, fs, val)
        return LFn.assign(self, s)

    def expr_stmt(self, e):
        if e[0] == "macro" and e[1] in ("debug_assert", "debug_assert_eq", "assert_eq", "assert"):
            n = 2 if e[1].endswith("_eq") else 1
            args = list(e[2])
            if len(args) > n and args[n][0] == "str":
                args = args[:n]                              # the panic message and its format arguments
            code = self.next_code()
            if len(args) != n:
                raise self.err(f"{e[1]}! with {len(args)} arguments")
            c = self.cond(("bin", "==", args[0], args[1])) if n == 2 else self.cond(args[0])
            t = self.fresh()
            self.bind(t, c)
            return self.check(t, code, e[1] + "!")
        if e[0] == "meth":
            recv, m, args = e[1], e[2], e[3]
            if m == "copy_from_slice" and len(args) == 1:
                root, fs, base, off, ln = self.place(recv)
                src = self.named(self.arr(args[0]))
                self.check(f"(N.of_nat (length {src}) =? {ln})", self.site("copy"), "copy_from_slice")
                return self.set_path(root, fs, f"(arr_store {base} (N.to_nat {off or '0'}) {src})")
            p = self.path(recv)
            if p and p[3][0] == "vec" and m == "push" and len(args) == 1 and not p[1]:
                x = self.arr(args[0])
                t = self.fresh()
                self.bind(t, f"at_code {self.site('push')} (av_push {p[3][1]} {p[2]} {x})")
                return self.set_path(p[0], p[1], t)
            if p and p[3] == ("platform",) and m == "hash_many":
                sig = self.ctx.fns["Platform::hash_many"]
                self.call_any(sig, None, [recv] + args)
                return None
            if p and p[3][0] == "struct" and not (p[0] == "self" and not p[1]) and (p[3][1], m) in self.ctx.methods:
                # self.field.m(args) / local.m(args) with `&mut self`
                sig = self.ctx.methods[(p[3][1], m)]
                if sig["self"] != "mut" or sig["ret"] is not None or any(io for _, _, io in sig["params"]) \
                        or len(args) != len(sig["params"]):
                    raise self.err(f"call of {sig['coq']} as a statement")
                self.use_sig(sig)
                terms = [self.value(a, k) for a, (_, k, _) in zip(args, sig["params"])]
                t = self.fresh()
                if sig["res"]:
                    self.bind(t, self.call_term(sig, p[2], terms))
                else:
                    self.let(t, self.call_term(sig, p[2], terms))
                return self.set_path(p[0], p[1], t)
        return LFn.expr_stmt(self, e)

    # ---- the function ----
    def result(self, tail):
        ret_term = None
        if self.ret is None:
            if tail is not None and tail[0] == "gmeth" and tail[1] == ("var", "self") and self.selfmode == "mut" \
                    and (self.struct, tail[2]) in self.ctx.methods:
                self.check_generics(tail[3])
                self.call_stmt(self.ctx.methods[(self.struct, tail[2])], tail[4])
            elif tail is not None and not (tail == ("var", "self") and self.selfmode == "mut"):
                raise self.err(f"result expression {tail!r}")
        else:
            if tail is None:
                raise self.err("no result expression")
            if self.ret[0] == "int":
                ret_term = self.atom_of(self.subst(tail), self.ret[1], tail)
            elif self.ret[0] == "ext":
                if not (tail[0] == "call" and tail[1] in self.ctx.fns and self.ctx.fns[tail[1]]["ret"] == self.ret):
                    raise self.err(f"result expression {tail!r}")
                t, res = self.call(self.ctx.fns[tail[1]], None, tail[2])
                ret_term = self.value_of(t, res)
            else:
                ret_term = self.value(tail, self.ret)
        parts = (["self"] if self.selfmode == "mut" else []) + [v for v, _, io in self.params if io]
        for v in parts:
            if self.env[v]["uninit"] or v in self.lent:
                raise self.err(f"{v} is not available at the end")
        parts += [ret_term] if ret_term is not None else []
        if not parts:
            raise self.err("neither a result nor a written parameter")
        return self.tuple_of(parts)

    def finish(self, tail):
        if tail is not None and tail[0] == "ifexpr":
            _, c, th, el = tail
            t = self.fresh()
            self.bind(t, self.cond(c))
            self.lines.append(f"if ({t} : bool) then (")
            self.arm(th)
            self.lines.append(") else (")
            self.arm(el)
            self.lines.append(")")
        else:
            r = self.result(tail)
            self.lines.append(f"Ok {r}")

    def arm(self, block, ret=None):
        """a block that ends the function: its statements, then the result"""
        stmts, tail = block
        saved_lines, outer = self.lines, list(self.env)
        snap = ({v: e["uninit"] for v, e in self.env.items()}, dict(self.lent))
        self.lines = []
        self.run_stmts(stmts)
        self.finish(tail if ret is None else ret)
        lines, self.lines = self.lines, saved_lines
        for v in list(self.env):
            if v not in outer:
                del self.env[v]
        for v, u in snap[0].items():
            self.env[v]["uninit"] = u
        self.lent = snap[1]
        self.lines += ["    " + l for l in lines]

    def open_fuel(self):
        self.lines += ["match fuel with", "| O => OutOfFuel", "| S fuel =>"]
        self.closers.insert(0, "end")
        self.fuel = True

    def translate(self):
        ctx = self.ctx
        stmts, tail = self.block
        sig0 = {"coq": self.name, "self": self.selfmode, "struct": self.struct, "params": self.params, "ret": self.ret,
                "res": True, "exts": ["@SELF@"], "fuel": True}
        if self.recursive:
            if self.struct:
                raise self.err("recursive method")
            ctx.fns[self.key] = sig0
        opened = False
        saved_rest = self.rest
        for i, s in enumerate(stmts):
            self.rest = stmts[i + 1:]
            early = s[0] == "if" and s[3] is None and s[2][1] is None and s[2][0] and s[2][0][-1][0] == "return"
            if self.recursive and not opened and not early:
                self.open_fuel()
                opened = True
            if early:
                # if c { ..; return e; }  -> the rest of the function is the else arm
                t = self.fresh()
                self.bind(t, self.cond(s[1]))
                self.lines.append(f"if ({t} : bool) then (")
                self.arm((s[2][0][:-1], None), ret=s[2][0][-1][1])
                self.lines.append(") else")
            else:
                self.stmt(s, True)
                self.after(s)
        self.rest = saved_rest
        if self.recursive and not opened:
            self.open_fuel()
        self.finish(tail)
        if self.code_i != len(self.codes):
            raise self.err(f"{self.code_i} assertion macros in the body, {len(self.codes)} Panic codes in the table")
        if self.site_i != len(self.sites):
            raise self.err(f"{self.site_i} slice / split / push sites in the body, {len(self.sites)} in the table")
        if self.lent:
            raise self.err(f"{sorted(self.lent)} still borrowed at the end")
        rty = self.result_type()
        rty = f"res ({rty})" if " " in rty else f"res {rty}"
        self.exts = [x for x in ctx.exts if x in self.exts]              # declaration order
        ext_sig = "".join(f"(ext_{x} : {ctx.exts[x]['type']}) " for x in self.exts)
        tyvars = [ctx.exts[x]["tyvar"] for x in self.exts if ctx.exts[x]["tyvar"]]
        ty_sig = "".join(f"{{{t} : Type}} " for t in dict.fromkeys(tyvars))
        ext_args = "".join(f"ext_{x} " for x in self.exts)
        sig = ty_sig + ext_sig + ("(fuel : nat) " if self.fuel else "")
        if self.selfmode:
            sig += f"(self : {ctx.structs[self.struct].coq}) "
        sig += " ".join(f"({v} : {ctx.coq_type(k)})" for v, k, _ in self.params)

        def fill(l):
            return l.replace("@EXTS@", ty_sig + ext_sig).replace("@EXTARGS@", ext_args).replace("@SELFEXTS@", ext_args.rstrip())
        text = "".join(fill(l) + "\n" for l in self.loops)
        body = "".join("  " + fill(l) + "\n" for l in self.lines + self.closers)
        kw = "Fixpoint" if self.recursive else "Definition"
        struct = " {struct fuel}" if self.recursive else ""
        text += f"{kw} {self.name} {sig.rstrip()}{struct}\n  : {rty} :=\n{body.rstrip()}.\n"
        self.sig = {"coq": self.name, "self": self.selfmode, "struct": self.struct, "params": self.params, "ret": self.ret,
                    "res": True, "exts": self.exts, "fuel": self.fuel}
        return text


# (struct | None, function, text, header, Panic codes of the assertion macros in source order,
#  [(kind, Panic code)] of the slice / split / array_ref! / push / copy_from_slice sites in translation order).
# 1212 = debug_assert_eq!(child_chaining_values.len() % OUT_LEN, 0), 1407 = debug_assert_eq!(CHUNK_LEN.count_ones(), 1):
# the models work on whole chaining values / a literal 1024 and have no such site.
_G = r"\s*<\s*J\s*:\s*join::Join\s*>\s*\("
_LIB_WIDE_FNS = [
    (None, "largest_power_of_two_leq", "lib", r"\bfn\s+largest_power_of_two_leq\s*\(", [], []),
    (None, "hazmat_left_subtree_len", "haz", r"\bpub\s+fn\s+left_subtree_len\s*\(", [1205], []),
    (None, "compress_chunks_parallel", "lib", r"\bfn\s+compress_chunks_parallel\s*\(", [1200, 1201],
     [("array_ref", 54), ("push", 30), ("array_mut_ref", 31)]),
    (None, "compress_parents_parallel", "lib", r"\bfn\s+compress_parents_parallel\s*\(", [1212, 1202, 1203],
     [("array_ref", 54), ("push", 32), ("from", 33), ("to", 33), ("copy", 42)]),
    (None, "compress_subtree_wide", "lib", r"\bfn\s+compress_subtree_wide" + _G, [1204, 1206, 1207, 1208],
     [("split_at", 34), ("split_at_mut", 35), ("to", 36), ("to", 41), ("copy", 42), ("to", 41)]),
    (None, "compress_subtree_to_parent_node", "lib", r"\bfn\s+compress_subtree_to_parent_node" + _G, [1209, 1210],
     [("to", 41), ("to", 41), ("to", 41), ("copy", 42), ("array_ref", 1211)]),
    (None, "hash_all_at_once", "lib", r"\bfn\s+hash_all_at_once" + _G, [], []),
    (None, "hash", "lib", r"\bpub\s+fn\s+hash\s*\(", [], []),
    (None, "keyed_hash", "lib", r"\bpub\s+fn\s+keyed_hash\s*\(", [], []),
    (None, "derive_key", "lib", r"\bpub\s+fn\s+derive_key\s*\(", [], []),
    ("Hasher", "update_with_join", "h_impl", r"\bfn\s+update_with_join" + _G, [21, 1400, 1401, 1407, 1402, 1403],
     [("to", 41), ("from", 40), ("to", 52), ("to", 52), ("array_ref", 54), ("array_ref", 54), ("from", 52)]),
    ("Hasher", "update", "h_impl", r"\bpub\s+fn\s+update\s*\(", [], []),
]


def gen_lib_wide():
    ctx, _, (lib, plat, cs_impl, h_impl, o_impl) = _lib_loops_parts()
    haz = strip_comments(src("src/hazmat.rs"))
    join = strip_comments(src("src/join.rs"))
    out = [HEADER.replace("NArith List.", "NArith List Bool.").replace(
        "Base.MachInt.", "Base.MachInt Base.Word Base.Arr Base.ArrayVec Base.Slice.\n"
        "From V Require Import gen.GenConsts gen.GenFormulas Model.Platform gen.GenLibSmall gen.GenLibLoops.")]
    texts = {"lib": lib, "haz": haz, "h_impl": h_impl}

    def anchored(text, hdr, want_params, want_ret, what):
        ptext, rtext = _fn_header(text, hdr, what)
        got = [" ".join(a.split()) for a in _args(ptext)]
        if got != want_params or " ".join(rtext.split()) != want_ret:
            raise AnchorError(f"{what}: signature {got!r} {rtext!r}")

    # ---- constants ----
    find1(r"\bconst\s+IV\s*:\s*&CVWords\s*=", lib, "lib.rs IV: &CVWords")
    ctx.arr_consts["IV"] = "rs_IV"
    for c in ("MAX_SIMD_DEGREE", "MAX_SIMD_DEGREE_OR_2"):
        find1(r"\bpub\s+const\s+" + c + r"\s*:\s*usize\s*=", plat, "platform.rs " + c + ": usize")
        find1(r"\buse\s+(?:crate::)?platform::\{[^}]*\b" + c + r"\b[^}]*\}", lib, "lib.rs use platform::" + c)
        ctx.add_ext_const(c, c, ("int", 64))
    # enum IncrementCounter { Yes, No } and IncrementCounter::yes()
    find1(r"\bpub\s+enum\s+IncrementCounter\s*\{\s*Yes\s*,\s*No\s*,?\s*\}", lib, "enum IncrementCounter { Yes, No }")
    find1(r"IncrementCounter::Yes\s*=>\s*true\s*,\s*IncrementCounter::No\s*=>\s*false", lib, "IncrementCounter::yes")
    ctx.bool_consts = {"IncrementCounter::Yes": "true", "IncrementCounter::No": "false"}
    # join::SerialJoin::join runs oper_a then oper_b
    sj = fn_body(join, r"\bimpl\s+Join\s+for\s+SerialJoin\s*\{", "impl Join for SerialJoin")
    find1(r"\(\s*oper_a\s*\(\s*\)\s*,\s*oper_b\s*\(\s*\)\s*\)", fn_body(sj, r"\bfn\s+join\s*<", "SerialJoin::join"),
          "SerialJoin::join = (oper_a(), oper_b())")

    # ---- called, not translated here ----
    pimpl = fn_body(plat, r"\bimpl\s+Platform\s*\{", "impl Platform")
    anchored(pimpl, r"\bpub\s+fn\s+hash_many\s*<\s*const\s+N\s*:\s*usize\s*>\s*\(",
             ["&self", "inputs: &[&[u8; N]]", "key: &CVWords", "counter: u64", "increment_counter: IncrementCounter",
              "flags: u8", "flags_start: u8", "flags_end: u8", "out: &mut [u8]"], "", "Platform::hash_many")
    ctx.add_ext("Platform::hash_many", "hash_many",
                [("self", ("platform",), False), ("inputs", ("vec", None), False), ("key", ("arr",), False),
                 ("counter", ("int", 64), False), ("increment_counter", ("bool",), False), ("flags", ("int", 8), False),
                 ("flags_start", ("int", 8), False), ("flags_end", ("int", 8), False), ("out", ("slice",), True)], ("slice",))
    ctx.exts["hash_many"]["type"] = "platform -> list (list N) -> list N -> N -> bool -> N -> N -> N -> list N -> res (list N)"
    ctx.fns["Platform::hash_many"]["res"] = True
    ctx.fns["Platform::hash_many"]["ret"] = None
    anchored(pimpl, r"\bpub\s+fn\s+simd_degree\s*\(", ["&self"], "-> usize", "Platform::simd_degree")
    anchored(pimpl, r"\bpub\s+fn\s+detect\s*\(", [], "-> Self", "Platform::detect")
    ctx.add_ext_const("Platform::detect", "Platform_detect", ("platform",))
    anchored(plat, r"\bpub\s+fn\s+words_from_le_bytes_32\s*\(", ["bytes: &[u8; 32]"], "-> [u32; 8]",
             "platform::words_from_le_bytes_32")
    ctx.add_ext("platform::words_from_le_bytes_32", "words_from_le_bytes_32", [("bytes", ("arr",), False)], ("arr",))
    anchored(haz, r"\bpub\s+fn\s+hash_derive_key_context\s*\(", ["context: &str"], "-> ContextKey",
             "hazmat::hash_derive_key_context")
    find1(r"\bpub\s+type\s+ContextKey\s*=\s*\[\s*u8\s*;\s*KEY_LEN\s*\]\s*;", haz, "hazmat ContextKey = [u8; KEY_LEN]")
    ctx.add_ext("hazmat::hash_derive_key_context", "hash_derive_key_context", [("context", ("slice",), False)], ("arr",))
    ctx.exts["hash_derive_key_context"]["type"] = "list N -> res (list N)"
    ctx.fns["hazmat::hash_derive_key_context"]["res"] = True
    # hazmat::max_subtree_len is the formula rs_max_subtree_len of GenFormulas.v (translated there, statement by statement)
    anchored(haz, r"\bpub\s+fn\s+max_subtree_len\s*\(", ["input_offset: u64"], "-> Option<u64>", "hazmat::max_subtree_len")
    ctx.fns["hazmat::max_subtree_len"] = {"coq": "rs_max_subtree_len", "self": None, "struct": None,
                                          "params": [("input_offset", ("int", 64), False)], "ret": ("option", 64),
                                          "res": True, "exts": [], "fuel": False}
    # Output::root_hash returns Hash(bytes); `.0` is the byte array
    find1(r"\bpub\s+struct\s+Hash\s*\(\s*\[\s*u8\s*;\s*OUT_LEN\s*\]\s*\)\s*;", lib, "struct Hash([u8; OUT_LEN])")

    keys = {"hazmat_left_subtree_len": "hazmat::left_subtree_len"}
    for st, fname, which, hdr, codes, sites in _LIB_WIDE_FNS:
        out.append(f"(* ---- {'src/hazmat.rs' if which == 'haz' else 'src/lib.rs'}: "
                   f"{(st + '::') if st else ''}{keys.get(fname, fname).split('::')[-1]} ---- *)\n")
        f = WFn(ctx, texts[which], st, fname, hdr, codes, sites, key=keys.get(fname))
        out.append(f.translate())
        if st:
            ctx.methods[(st, fname)] = f.sig
        else:
            ctx.fns[keys.get(fname, fname)] = f.sig
    return "\n".join(out)


def write_if_changed(path, text):
    try:
        with open(path) as f:
            if f.read() == text:
                return False
    except OSError:
        pass
    tmp = path + ".tmp%d" % os.getpid()
    with open(tmp, "w") as f:
        f.write(text)
    os.replace(tmp, path)
    return True


# ---------------------------------------------------------------------------
# writable global symbols (C18).  NOT part of the default outputs: needs built objects, so it is
# invoked only by tools/props/C18.py (gen_globals(c_objects, rs_archives)).
# ---------------------------------------------------------------------------
WRITABLE_CLASSES = set("bBdDCsSgG")


def nm_writable(path):
    """[(symbol, class, section, member)] of the symbols nm places in writable sections of an object / archive.
    `.data.rel.ro*` (constant after relocation: vtables, panic locations, anonymous constants) is not writable state."""
    import subprocess
    p = subprocess.run(["nm", "--format=sysv", path], stdout=subprocess.PIPE, stderr=subprocess.PIPE, text=True)
    if p.returncode != 0:
        raise AnchorError("nm failed on %s: %s" % (path, p.stderr[-300:]))
    out, member = [], os.path.basename(path)
    for line in p.stdout.split("\n"):
        m = re.match(r"^Symbols from (.*):$", line.strip())
        if m:
            member = os.path.basename(m.group(1))
            continue
        f = [x.strip() for x in line.split("|")]
        if len(f) != 7 or f[2] not in WRITABLE_CLASSES:
            continue
        if f[6].startswith(".data.rel.ro"):
            continue
        out.append((f[0], f[2], f[6], member))
    return out


def rust_demangle(sym):
    """legacy (_ZN...E) Rust symbol -> path without the hash; anything else unchanged"""
    s = re.sub(r"\.llvm\.\d+$", "", sym)
    if not (s.startswith("_ZN") and s.endswith("E")):
        return s
    i, parts = 3, []
    while i < len(s) - 1:
        m = re.match(r"\d+", s[i:])
        if not m:
            return s
        n = int(m.group(0))
        i += len(m.group(0))
        parts.append(s[i:i + n])
        i += n
    if parts and re.fullmatch(r"h[0-9a-f]{16}", parts[-1]):
        parts.pop()
    esc = {"$LT$": "<", "$GT$": ">", "$u20$": " ", "$u7b$": "{", "$u7d$": "}", "$RF$": "&", "$BP$": "*", "$C$": ",",
           "$LP$": "(", "$RP$": ")", "$u27$": "'", "$u5b$": "[", "$u5d$": "]", "..": "::"}
    out = []
    for p in parts:
        for k, v in esc.items():
            p = p.replace(k, v)
        out.append(p.lstrip("_") if p.startswith("_<") or p.startswith("_{") else p)
    return "::".join(out)


def gen_globals(c_objects, rs_archives, rs_crate="blake3", hook_prefixes=()):
    """nm over the C library objects and over the blake3 rlib / native archives of a Rust build.  Writes
    coq/gen/GenGlobals.v (globals_c, globals_rs : list (list N), ASCII codes, sorted, duplicates removed).
    Names starting with one of hook_prefixes (statics of the cfg-gated verification hooks, present only because the
    harness build enables them) go to a separate list globals_rs_hooks.
    Returns dict(c=[names], rs=[names], rs_hooks=[names], rs_foreign=[names not in the blake3 crate path], changed, sha256)."""
    c_names = set()
    for o in c_objects:
        for name, cls, sec, member in nm_writable(o):
            c_names.add(name)
    rs_names, foreign = set(), set()
    for a in rs_archives:
        for name, cls, sec, member in nm_writable(a):
            d = rust_demangle(name)
            if d.startswith(rs_crate + "::") or a.endswith(".a"):
                rs_names.add(d)       # native archives built by the crate's build script belong to it entirely
            else:
                foreign.add(d)

    def coq_names(ns):
        if not ns:
            return "[]"
        return "[" + ";\n   ".join(coq_list(list(n.encode())) for n in ns) + "]"
    hooks = sorted(n for n in rs_names if n.startswith(tuple(hook_prefixes))) if hook_prefixes else []
    rs_names -= set(hooks)
    c_sorted, rs_sorted = sorted(c_names), sorted(rs_names)
    text = ("(* GENERATED by tools/gen_coq.py gen_globals (invoked by tools/props/C18.py) from `nm` over the freshly built\n"
            "   C library objects and the blake3 rlib. Do not edit.  Symbols in writable sections (nm classes b B d D C s S g G,\n"
            "   minus .data.rel.ro), Rust names demangled without their hash; as lists of ASCII codes. *)\n"
            "From Coq Require Import NArith List.\nImport ListNotations.\nOpen Scope N_scope.\n\n")
    text += "(* %s *)\n" % ", ".join(c_sorted)
    text += "Definition globals_c : list (list N) :=\n  %s.\n\n" % coq_names(c_sorted)
    text += "(* %s *)\n" % ", ".join(rs_sorted)
    text += "Definition globals_rs : list (list N) :=\n  %s.\n\n" % coq_names(rs_sorted)
    text += "(* statics of the verification hooks (cfg blake3_team_blake3_verif): %s *)\n" % ", ".join(hooks)
    text += "Definition globals_rs_hooks : list (list N) :=\n  %s.\n" % coq_names(hooks)
    os.makedirs(OUT, exist_ok=True)
    changed = write_if_changed(os.path.join(OUT, "GenGlobals.v"), text)
    return {"c": c_sorted, "rs": rs_sorted, "rs_hooks": hooks, "rs_foreign": sorted(foreign), "changed": changed,
            "sha256": hashlib.sha256(text.encode()).hexdigest()}


GENERATORS = [("GenConsts.v", gen_consts), ("GenFormulas.v", gen_formulas), ("GenTestVectors.v", gen_test_vectors),
              ("GenDispatch.v", gen_dispatch),
              ("GenAsmFrames.v", gen_asm_frames),
              ("GenApi.v", gen_api), ("GenB3sum.v", gen_b3sum_literals), ("GenPortable.v", gen_portable), ("GenCHasherSmall.v", gen_c_hasher_small),
              ("GenCHasherLoops.v", gen_c_hasher_loops), ("GenCHasherWide.v", gen_c_hasher_wide),
              ("GenRefImpl.v", gen_refimpl), ("GenLibSmall.v", gen_lib_small), ("GenLibLoops.v", gen_lib_loops),
              ("GenLibWide.v", gen_lib_wide),
              ("GenCounters.v", gen_counters),
              ("GenRounds.v", gen_kernel_rounds)]


def main():
    os.makedirs(OUT, exist_ok=True)
    status = {"changed": [], "errors": [], "read": READ, "generated": {}}
    for fname, g in GENERATORS:
        try:
            text = g()
        except AnchorError as e:
            status["errors"].append({"file": fname, "anchor": str(e)})
            continue
        if write_if_changed(os.path.join(OUT, fname), text):
            status["changed"].append(fname)
        status["generated"][fname] = hashlib.sha256(text.encode()).hexdigest()
    json.dump(status, sys.stdout, indent=1)
    print()
    return 1 if status["errors"] else 0


if __name__ == "__main__":
    sys.exit(main())
