(* The three C hashN functions whose per-block theorem needs well-formed registers (lanes below 2^32): blake3_hash4_sse2,
   blake3_hash4_sse41, blake3_hash8_avx2 as translated (gen/GenKern2.v) = the kernel models hash4_c / hash8_c.
   The loop invariant is `Preg`: 8 vectors of n lanes, every lane a 32-bit word. *)
From Coq Require Import NArith ZArith List Bool Arith Lia.
From V Require Import Base.Res Base.Word Base.MachInt gen.GenConsts gen.GenFormulas Model.Portable Model.Kernels
  Model.Intrinsics Model.Intrinsics2 gen.GenCounters gen.GenRounds gen.GenRows gen.GenKern2
  Proofs.ListP Proofs.KernelsP Proofs.CountersP Proofs.RoundsP Proofs.RowsP Proofs.GenKern2P.
Import ListNotations.
Open Scope N_scope.

Definition Preg (n : nat) (h : list vec) : Prop := length h = 8%nat /\ Forall (reg n) h.

Lemma Forall_reg_wf n l : Forall (reg n) l -> Forall (wf n) l.
Proof. intros H. eapply Forall_impl; [|exact H]. intros a [La _]. exact La. Qed.

Lemma reg_of_lanes n (v : vec) : length v = n -> (forall i, (i < n)%nat -> W (nth i v 0)) -> reg n v.
Proof.
  intros L H. split; [exact L|]. apply Forall_forall. intros x Hx.
  destruct (In_nth _ _ 0 Hx) as (i & Hi & E). rewrite <- E. apply H. lia.
Qed.

Lemma reg_vxor' n a b : reg n a -> reg n b -> reg n (vxor a b).
Proof.
  intros [La Wa] [Lb Wb]. split; [unfold vxor, vmap2; rewrite map_length, combine_length, La, Lb; apply Nat.min_id|].
  apply vmap2_W. intros x y Hx Hy. rewrite Forall_forall in Wa, Wb. apply W_lxor; [apply Wa, Hx|apply Wb, Hy].
Qed.

Lemma vxor_pairs_reg n : forall a b, Forall (reg n) a -> Forall (reg n) b -> Forall (reg n) (vxor_pairs a b).
Proof.
  unfold vxor_pairs. induction a as [|x a IH]; intros b Ha Hb; [constructor|].
  destruct b as [|y b]; [constructor|]. cbn [combine map fst snd].
  inversion Ha; subst. inversion Hb; subst. constructor; [apply reg_vxor'; assumption|apply IH; assumption].
Qed.

Lemma vcompress_reg n h msg clo chi bl bf :
  length h = 8%nat -> length msg = 16%nat -> Forall (reg n) h -> Forall (reg n) msg -> reg n clo -> reg n chi ->
  W bl -> W bf ->
  length (vcompress n h msg clo chi bl bf) = 8%nat /\ Forall (reg n) (vcompress n h msg clo chi bl bf).
Proof.
  intros Lh Lm Hh Hm Hlo Hhi Wbl Wbf. unfold vcompress, vrounds7. cbv zeta.
  set (v0 := vstate n h clo chi bl bf).
  assert (L0 : length v0 = 16%nat) by (subst v0; unfold vstate; rewrite app_length, Lh; reflexivity).
  assert (R0 : Forall (reg n) v0).
  { subst v0. unfold vstate. apply Forall_app. split; [exact Hh|].
    repeat (apply Forall_cons; [first [assumption | apply reg_vset1; first [apply W_IV | assumption]]|]). constructor. }
  pose proof (vround_reg n v0 msg 0 L0 Lm ltac:(lia) R0 Hm) as R1.
  pose proof (vround_length v0 msg 0) as L1. rewrite L0 in L1.
  pose proof (vround_reg n _ msg 1 L1 Lm ltac:(lia) R1 Hm) as R2.
  pose proof (vround_length (vround v0 msg 0) msg 1) as L2. rewrite L1 in L2.
  pose proof (vround_reg n _ msg 2 L2 Lm ltac:(lia) R2 Hm) as R3.
  pose proof (vround_length (vround (vround v0 msg 0) msg 1) msg 2) as L3. rewrite L2 in L3.
  pose proof (vround_reg n _ msg 3 L3 Lm ltac:(lia) R3 Hm) as R4.
  pose proof (vround_length (vround (vround (vround v0 msg 0) msg 1) msg 2) msg 3) as L4. rewrite L3 in L4.
  pose proof (vround_reg n _ msg 4 L4 Lm ltac:(lia) R4 Hm) as R5.
  pose proof (vround_length (vround (vround (vround (vround v0 msg 0) msg 1) msg 2) msg 3) msg 4) as L5. rewrite L4 in L5.
  pose proof (vround_reg n _ msg 5 L5 Lm ltac:(lia) R5 Hm) as R6.
  pose proof (vround_length (vround (vround (vround (vround (vround v0 msg 0) msg 1) msg 2) msg 3) msg 4) msg 5) as L6. rewrite L5 in L6.
  pose proof (vround_reg n _ msg 6 L6 Lm ltac:(lia) R6 Hm) as R7.
  pose proof (vround_length (vround (vround (vround (vround (vround (vround v0 msg 0) msg 1) msg 2) msg 3) msg 4) msg 5) msg 6) as L7.
  rewrite L6 in L7.
  split.
  - unfold vxor_pairs. rewrite map_length, combine_length, firstn_length, skipn_length, L7. reflexivity.
  - apply vxor_pairs_reg; [apply KernelsP.Forall_firstn|apply KernelsP.Forall_skipn]; exact R7.
Qed.

Lemma init_Preg n (k0 k1 k2 k3 k4 k5 k6 k7 : N) : W k0 -> W k1 -> W k2 -> W k3 -> W k4 -> W k5 -> W k6 -> W k7 ->
  Preg n [vset1 n k0; vset1 n k1; vset1 n k2; vset1 n k3; vset1 n k4; vset1 n k5; vset1 n k6; vset1 n k7].
Proof. intros. split; [reflexivity|]. repeat (apply Forall_cons; [apply reg_vset1; assumption|]). constructor. Qed.

(* the per-block obligation of fold_loop for the back ends whose block theorem needs registers *)
Lemma block_reg n tmsg blockf inputs clo chi blocks : (0 < n)%nat -> tmsg_ok n tmsg ->
  (forall h clo chi bf inputs block, length h = 8%nat -> Forall (reg n) h -> reg n clo -> reg n chi -> bf < 4294967296 ->
     (forall j, (j < n)%nat -> (block * 64 + 64 <= length (inp inputs j))%nat) ->
     (forall j, (j < n)%nat -> Forall (fun b => b < 256) (inp inputs j)) ->
     blockf h clo chi bf inputs block = vcompress n h (tmsg inputs (block * 64)%nat) clo chi rs_BLOCK_LEN bf) ->
  (forall j, (j < n)%nat -> length (inp inputs j) = (blocks * 64)%nat) ->
  (forall j, (j < n)%nat -> Forall (fun b => b < 256) (inp inputs j)) ->
  reg n clo -> reg n chi ->
  forall h bf block, Preg n h -> W bf -> (block < blocks)%nat ->
    blockf h clo chi bf inputs block = vcompress n h (tmsg inputs (block * 64)%nat) clo chi rs_BLOCK_LEN bf /\
    Preg n (vcompress n h (tmsg inputs (block * 64)%nat) clo chi rs_BLOCK_LEN bf).
Proof.
  intros Hn Ht Hb Hlen Hbytes Rlo Rhi h bf block [L F] Wbf Hbl.
  assert (Hlen' : forall j, (j < n)%nat -> (block * 64 + 64 <= length (inp inputs j))%nat)
    by (intros j Hj; rewrite (Hlen j Hj); nia).
  split; [apply Hb; assumption|].
  destruct (Ht inputs (block * 64)%nat 0%nat Hn Hlen') as (_ & Lm & _).
  apply vcompress_reg; try assumption.
  - apply (tmsg_reg n tmsg Ht Hn); assumption.
  - reflexivity.
Qed.

(* the counters of the compare-variant load_counters are registers *)
Lemma cmp_counters_reg n counter incr : N.of_nat n <= 4294967296 -> counter + N.of_nat n <= 2 ^ 64 ->
  exists clo chi, load_counters_cmp n counter incr = Ok (clo, chi) /\ reg n clo /\ reg n chi.
Proof.
  intros Hn Hc. destruct (load_counters_cmp_ok n Hn counter incr Hc) as (clo & chi & E & Wlo & Whi & Hl).
  exists clo, chi. split; [exact E|]. split; apply reg_of_lanes; try assumption; intros i Hi; destruct (Hl i Hi) as [E1 E2].
  - rewrite E1. apply RowsP.W_ctr_lo.
  - rewrite E2. apply RowsP.W_ctr_hi.
Qed.

Ltac loop_to_model_reg n tmsg tmsgok blockf blockok inputs clo chi flags fe blocks Hlen Hbytes Rlo Rhi Hf Hfs Hfe :=
  match goal with
  | |- context [fold_left ?f (seq 0 blocks) (?h0, ?bf0)] =>
      let E := fresh "E" in let L := fresh "L" in let F := fresh "F" in
      destruct (fold_loop n tmsg blockf (Preg n) inputs clo chi flags fe blocks (W_u8 _ Hf) (W_u8 _ Hfe)
                  (block_reg n tmsg blockf inputs clo chi blocks ltac:(lia) tmsgok blockok Hlen Hbytes Rlo Rhi)
                  blocks 0%nat bf0 h0 ltac:(apply init_Preg; assumption)
                  ltac:(apply W_lor; apply W_u8; assumption) ltac:(lia)) as [E [L F]];
      change (fold_left f (seq 0 blocks) (h0, bf0)) with
        (fold_left (stepf blockf inputs clo chi flags fe blocks) (seq 0 blocks) (h0, bf0));
      let h' := fresh "h'" in let bf' := fresh "bf'" in
      destruct (fold_left _ _ _) as [h' bf']; cbn [fst] in E; subst h'; cbn [bind]; apply Forall_reg_wf in F
  end.

Theorem k2_c_sse41_blake3_hash4_sse41_ok inputs blocks key counter incr flags fs fe out :
  length key = 8%nat -> Forall W key ->
  (forall j, (j < 4)%nat -> length (inp inputs j) = (blocks * 64)%nat) ->
  (forall j, (j < 4)%nat -> Forall (fun b => b < 256) (inp inputs j)) ->
  counter + 4 <= 2 ^ 64 -> flags < 256 -> fs < 256 -> fe < 256 -> length out = 128%nat ->
  Ok (k2_c_sse41_blake3_hash4_sse41 inputs blocks key counter incr flags fs fe out) =
  (outs <- hash4_c inputs blocks key counter incr flags fs fe ;; Ok (concat outs)).
Proof.
  intros Lk Wk Hlen Hbytes Hc Hf Hfs Hfe Lo.
  unfold k2_c_sse41_blake3_hash4_sse41, hash4_c, hashN_gen. cbv zeta.
  pose proof (c_sse41_load_counters_model counter incr) as M.
  destruct (cmp_counters_reg 4 counter incr ltac:(cbn; lia) Hc) as (clo & chi & Em & Rlo & Rhi).
  rewrite Em in M.
  match type of M with Ok ?x = Ok ?y => let M' := fresh "M'" in assert (M' : x = y) by congruence; rewrite M', Em end; cbn [bind].
  lanes_of key 8%nat Lk. forall_inv. cbn [nth map seq].
  rewrite !c_sse41_set1_ok by assumption.
  loop_to_model_reg 4%nat transpose_msg_vecs4 tmsg_ok_4 c_sse41_blake3_hash4_sse41_block
    (fun h clo chi bf inputs block => c_sse41_blake3_hash4_sse41_block_ok h clo chi bf inputs block)
    inputs clo chi flags fe blocks Hlen Hbytes Rlo Rhi Hf Hfs Hfe.
  unfold k2_c_sse41_storeu. rewrite !c_sse41_transpose_vecs_ok.
  finish_store store4_chain out L F Lo.
Qed.

Theorem k2_c_sse2_blake3_hash4_sse2_ok inputs blocks key counter incr flags fs fe out :
  length key = 8%nat -> Forall W key ->
  (forall j, (j < 4)%nat -> length (inp inputs j) = (blocks * 64)%nat) ->
  (forall j, (j < 4)%nat -> Forall (fun b => b < 256) (inp inputs j)) ->
  counter + 4 <= 2 ^ 64 -> flags < 256 -> fs < 256 -> fe < 256 -> length out = 128%nat ->
  Ok (k2_c_sse2_blake3_hash4_sse2 inputs blocks key counter incr flags fs fe out) =
  (outs <- hash4_c inputs blocks key counter incr flags fs fe ;; Ok (concat outs)).
Proof.
  intros Lk Wk Hlen Hbytes Hc Hf Hfs Hfe Lo.
  unfold k2_c_sse2_blake3_hash4_sse2, hash4_c, hashN_gen. cbv zeta.
  pose proof (c_sse2_load_counters_model counter incr) as M.
  destruct (cmp_counters_reg 4 counter incr ltac:(cbn; lia) Hc) as (clo & chi & Em & Rlo & Rhi).
  rewrite Em in M.
  match type of M with Ok ?x = Ok ?y => let M' := fresh "M'" in assert (M' : x = y) by congruence; rewrite M', Em end; cbn [bind].
  lanes_of key 8%nat Lk. forall_inv. cbn [nth map seq].
  rewrite !c_sse2_set1_ok by assumption.
  loop_to_model_reg 4%nat transpose_msg_vecs4 tmsg_ok_4 c_sse2_blake3_hash4_sse2_block
    (fun h clo chi bf inputs block => c_sse2_blake3_hash4_sse2_block_ok h clo chi bf inputs block)
    inputs clo chi flags fe blocks Hlen Hbytes Rlo Rhi Hf Hfs Hfe.
  unfold k2_c_sse2_storeu. rewrite !c_sse2_transpose_vecs_ok.
  finish_store store4_chain out L F Lo.
Qed.

Theorem k2_c_avx2_blake3_hash8_avx2_ok inputs blocks key counter incr flags fs fe out :
  length key = 8%nat -> Forall W key ->
  (forall j, (j < 8)%nat -> length (inp inputs j) = (blocks * 64)%nat) ->
  (forall j, (j < 8)%nat -> Forall (fun b => b < 256) (inp inputs j)) ->
  counter + 8 <= 2 ^ 64 -> flags < 256 -> fs < 256 -> fe < 256 -> length out = 256%nat ->
  Ok (k2_c_avx2_blake3_hash8_avx2 inputs blocks key counter incr flags fs fe out) =
  (outs <- hash8_c inputs blocks key counter incr flags fs fe ;; Ok (concat outs)).
Proof.
  intros Lk Wk Hlen Hbytes Hc Hf Hfs Hfe Lo.
  unfold k2_c_avx2_blake3_hash8_avx2, hash8_c, hashN_gen. cbv zeta.
  pose proof (c_avx2_load_counters_model counter incr) as M.
  destruct (cmp_counters_reg 8 counter incr ltac:(cbn; lia) Hc) as (clo & chi & Em & Rlo & Rhi).
  rewrite Em in M.
  match type of M with Ok ?x = Ok ?y => let M' := fresh "M'" in assert (M' : x = y) by congruence; rewrite M', Em end; cbn [bind].
  lanes_of key 8%nat Lk. forall_inv. cbn [nth map seq].
  rewrite !c_avx2_set1_ok by assumption.
  loop_to_model_reg 8%nat transpose_msg_vecs8 tmsg_ok_8 c_avx2_blake3_hash8_avx2_block
    (fun h clo chi bf inputs block => c_avx2_blake3_hash8_avx2_block_ok h clo chi bf inputs block)
    inputs clo chi flags fe blocks Hlen Hbytes Rlo Rhi Hf Hfs Hfe.
  unfold k2_c_avx2_storeu. rewrite !c_avx2_transpose_vecs_ok.
  finish_store store8_chain out L F Lo.
Qed.

(* hence (KernelsP.hN_ok): portable hash1 of each input at counter + i *)
Theorem k2_c_sse41_blake3_hash4_sse41_spec : forall inputs blocks key counter incr flags fs fe out,
  length key = 8%nat -> Forall W key ->
  (forall j, (j < 4)%nat -> length (inp inputs j) = (blocks * 64)%nat) ->
  (forall j, (j < 4)%nat -> Forall (fun b => b < 256) (inp inputs j)) ->
  counter + 4 <= 2 ^ 64 -> flags < 256 -> fs < 256 -> fe < 256 -> length out = 128%nat ->
  exists outs, hash4_c inputs blocks key counter incr flags fs fe = Ok outs /\
               k2_c_sse41_blake3_hash4_sse41 inputs blocks key counter incr flags fs fe out = concat outs.
Proof.
  intros inputs blocks key counter incr flags fs fe out Lk Wk Hlen Hbytes Hc Hf Hfs Hfe Lo.
  pose proof (k2_c_sse41_blake3_hash4_sse41_ok inputs blocks key counter incr flags fs fe out Lk Wk Hlen Hbytes Hc Hf Hfs Hfe Lo) as E.
  destruct (hash4_c inputs blocks key counter incr flags fs fe) as [outs| |]; cbn [bind] in E; try discriminate E.
  exists outs. split; [reflexivity|]. congruence.
Qed.
