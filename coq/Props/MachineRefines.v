(* The two interpreters of the case language agree (end to end).
   Statements only; proofs in Proofs/MachineRefinesP.v.

   Machine.run_case is the IMPLEMENTATION machine: the case language of tools/caselang.md
   interpreted over the executable models that mirror the Rust code (panics are `Panic code`).
   SpecMachine.spec_run_case is the SPECIFICATION machine: the same language interpreted with
   Spec/*.v only (one byte list + input offset per hasher, (root output, position) per reader);
   it returns None for the histories it does not cover.

   Whenever the specification machine accepts a history, the implementation machine produces
   exactly the same observations and does not panic, on every PlatformOK platform.

   Ops covered (= every op the specification machine interprets): new, update, write, finalize,
   finalize_xof, update_reader (scripted readers), count, clone, reset, set_input_offset, finalize_non_root, the one-shot functions,
   merge_subtrees_{non_root,root,root_xof}, hash_derive_key_context, the OutputReader ops
   (new, fill, read, position, set_position, seek, clone) and the RustCrypto trait ops
   (update, reset, finalize, finalize_reset, finalize_xof, finalize_xof_reset, KeyInit::new,
   Digest::new).  Not interpreted by the specification machine (it answers None, so the theorem
   says nothing about them): Debug, Zeroize. *)
From Coq Require Import NArith ZArith List Bool.
From V Require Import Base.Res Base.Word Spec.Compress Spec.Tree Spec.Blake3 Model.Platform Model.RsChunk
  Model.RsHasher Model.RsXof Model.RsIo Model.Machine Model.SpecMachine
  Proofs.XofP Proofs.C02P Proofs.MachineRefinesP.
Import ListNotations.
Open Scope N_scope.

(* the domain of a mode: mode_ok MHash = True; mode_ok (MKeyed k) = (length k = 32);
   mode_ok (MDerive c) = mode_ok (MDeriveK c) = (len c < 2^64) *)
Theorem MR_mode_ok_def : forall m,
  mode_ok m = match m with
              | MHash => True
              | MKeyed k => length k = 32%nat
              | MDerive c | MDeriveK c => len c < 2 ^ 64
              end.
Proof. reflexivity. Qed.

(* the main theorem *)
Theorem MR_machine_refines_spec : forall p, PlatformOK p -> forall pname m ops obs,
  mode_ok m ->
  spec_run_case m ops = Some obs ->
  Machine.run_case p pname m ops = (obs, Ok tt).
Proof. exact machine_refines_spec. Qed.

(* the key words and flags of the implementation's hashers are those of the specification's mode *)
Theorem MR_mode_init : forall p, PlatformOK p -> forall m, mode_ok m ->
  mode_init p m = Ok (mode_key (spec_mode m), mode_flags (spec_mode m)).
Proof. exact mode_init_spec. Qed.

(* the simulation relation: hasher i has absorbed si_bytes as the subtree that starts at chunk si_off
   (InvS of C02/C09/C10), reader j is at position sr_pos of the stream of sr_out (Rd of C03), the saved
   chaining values are equal (and 32 bytes long) *)
Theorem MR_Sim_def : forall m ms ss,
  Sim m ms ss <->
  (Forall2 (fun h x => si_off x < 2 ^ 54 /\
                       InvS (mode_key (spec_mode m)) (mode_flags (spec_mode m)) (si_off x) h (si_bytes x))
           (st_hashers ms) (ss_h ss) /\
   Forall2 (fun r x => Rd r (sr_out x) (sr_pos x) /\ sr_pos x <= 2 ^ 64 - 1) (st_readers ms) (ss_r ss) /\
   st_vals ms = ss_v ss /\ Forall (fun v => length v = 32%nat) (ss_v ss)).
Proof. intros. reflexivity. Qed.

(* one step, for EVERY op: an accepted specification step is matched by the implementation step with
   the same observations, and the relation is kept *)
Theorem MR_step_refines_spec : forall p, PlatformOK p -> forall m, mode_ok m -> forall pname o ms ss ss' out,
  Sim m ms ss -> sstep m ss o = Some (ss', out) ->
  exists ms', step p pname m (mode_key (spec_mode m)) (mode_flags (spec_mode m)) ms o = Ok (ms', out) /\
              Sim m ms' ss'.
Proof. exact step_refines_spec. Qed.

(* any history from any pair of related states *)
Theorem MR_run_refines_spec : forall p, PlatformOK p -> forall m, mode_ok m -> forall pname ops ms ss obs,
  Sim m ms ss -> srun m ss ops = Some obs ->
  run_ops p pname m (mode_key (spec_mode m)) (mode_flags (spec_mode m)) ms ops [] = (obs, Ok tt).
Proof. exact run_refines_spec. Qed.

(* consequences *)
Theorem MR_no_panic : forall p, PlatformOK p -> forall pname m ops obs,
  mode_ok m -> spec_run_case m ops = Some obs -> snd (Machine.run_case p pname m ops) = Ok tt.
Proof. exact machine_no_panic. Qed.

Theorem MR_platform_independent : forall p1 p2, PlatformOK p1 -> PlatformOK p2 -> forall pn1 pn2 m ops obs,
  mode_ok m -> spec_run_case m ops = Some obs ->
  Machine.run_case p1 pn1 m ops = Machine.run_case p2 pn2 m ops.
Proof. exact machine_platform_independent. Qed.

(* non-vacuity: a keyed history over five hashers and five readers that uses offsets, subtree chaining
   values, merges, extended output, seeking and the trait methods is accepted by the specification
   machine and the implementation machine yields the same 21 observations *)
Definition MR_example_ops : list op :=
  [OpUpdate 0 (repeat 7 1500); OpNew; OpSetOffset 1 2048; OpUpdate 1 (repeat 9 700); OpNonRoot 1;
   OpNew; OpUpdate 2 (repeat 1 2048); OpNonRoot 2; OpMergeRoot (VRef 1) (VRef 0); OpMergeNonRoot (VRef 1) (VLit (repeat 5 32));
   OpFinalize 0; OpXof 0 70; OpReaderNew 0; OpFill 0 10; OpSeek 0 (SeekCurrent (-3)%Z); OpRead 0 5; OpPos 0;
   OpSeek 0 (SeekEnd 0%Z); OpSetPos 0 274877906940; OpFill 0 9; OpReaderClone 0;
   OpTKeyInit; OpTUpdate 3 [1; 2; 3]; OpTFinalizeReset 3; OpCount 3; OpOneShot [1; 2; 3]; OpContextKey [4; 5];
   OpClone 0; OpReset 0; OpCount 0; OpWrite 4 [1]; OpTXof 4 5; OpTXofReset 4 3; OpMergeXof (VRef 0) (VRef 1); OpFill 4 3].

Example MR_nonvacuous :
  let p := sim_platform 4 16 in
  let m := MKeyed (map N.of_nat (seq 0 32)) in
  mode_ok m /\
  exists obs, spec_run_case m MR_example_ops = Some obs /\
              Machine.run_case p [] m MR_example_ops = (obs, Ok tt) /\ length obs = 21%nat.
Proof.
  cbv zeta. split; [reflexivity|]. eexists. split; [vm_compute; reflexivity|].
  split; vm_compute; reflexivity.
Qed.

(* the specification machine refuses what the implementation would panic on: finalize of a subtree
   hasher (a non-zero input offset) *)
Example MR_spec_refuses_misuse :
  spec_run_case MHash [OpSetOffset 0 1024; OpUpdate 0 [1]; OpFinalize 0] = None /\
  snd (Machine.run_case (sim_platform 4 16) [] MHash [OpSetOffset 0 1024; OpUpdate 0 [1]; OpFinalize 0]) = Panic 22.
Proof. split; vm_compute; reflexivity. Qed.

Print Assumptions MR_mode_ok_def.
Print Assumptions MR_machine_refines_spec.
Print Assumptions MR_mode_init.
Print Assumptions MR_Sim_def.
Print Assumptions MR_step_refines_spec.
Print Assumptions MR_run_refines_spec.
Print Assumptions MR_no_panic.
Print Assumptions MR_platform_independent.
Print Assumptions MR_nonvacuous.
Print Assumptions MR_spec_refuses_misuse.
