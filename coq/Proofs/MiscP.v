(* Small model-level theorems: Debug non-interference and zeroize (C17), trait ops
   delegate to the inherent ops (C16), guts API = spec chunk / parent values (C16). *)
From V Require Import Proofs.ListP.
From V Require Import Base.Res Base.Word Base.MachInt gen.GenConsts gen.GenFormulas
  Spec.Compress Spec.Tree Spec.Blake3 Model.Portable Model.Platform Model.RsChunk Model.RsWide
  Model.RsHasher Model.RsXof Model.RsIo Model.RsDebug Model.RsGuts Model.Machine
  Proofs.PortableP Proofs.ChunkP Proofs.TreeP Proofs.FormulasP Proofs.WideP Proofs.C01P Proofs.XofP.
Open Scope N_scope.

(* ---- C17: Debug output is a function of the public fields only -------------------- *)
Lemma debug_hasher_public h1 h2 pname :
  h_flags h1 = h_flags h2 -> debug_hasher h1 pname = debug_hasher h2 pname.
Proof. intros H. unfold debug_hasher. rewrite H. reflexivity. Qed.

Lemma debug_reader_public r1 r2 :
  reader_position r1 = reader_position r2 -> debug_reader r1 = debug_reader r2.
Proof. intros H. unfold debug_reader. rewrite H. reflexivity. Qed.

Lemma debug_chunk_state_public c1 c2 pname :
  cs_count c1 = cs_count c2 -> cs_ctr c1 = cs_ctr c2 -> cs_flags c1 = cs_flags c2 ->
  debug_chunk_state c1 pname = debug_chunk_state c2 pname.
Proof. intros H1 H2 H3. unfold debug_chunk_state. rewrite H1, H2, H3. reflexivity. Qed.

(* in particular: states that differ only in key, CVs, buffered bytes, CV stack print alike *)
Lemma debug_hasher_ignores_secrets key1 key2 cv1 cv2 buf1 buf2 bl1 bl2 blk1 blk2 ctr1 ctr2 init1 init2 st1 st2 fl pname :
  debug_hasher (mkHasher key1 (mkCS cv1 ctr1 buf1 bl1 blk1 fl) init1 st1) pname =
  debug_hasher (mkHasher key2 (mkCS cv2 ctr2 buf2 bl2 blk2 fl) init2 st2) pname.
Proof. reflexivity. Qed.

Lemma zero_hasher_is_zero h : hasher_is_zero (zero_hasher h) = true.
Proof. reflexivity. Qed.
Lemma zero_reader_is_zero r : reader_is_zero (zero_reader r) = true.
Proof. reflexivity. Qed.

(* ---- C16: trait methods are the inherent methods ------------------------------------- *)
Section Traits.
  Variables (p : platform) (pn : list N) (m : mmode) (key : list N) (flags : N).
  Notation stp := (step p pn m key flags).

  Lemma trait_update st i b : stp st (OpTUpdate i b) = stp st (OpUpdate i b).
  Proof. reflexivity. Qed.
  Lemma trait_reset st i : stp st (OpTReset i) = stp st (OpReset i).
  Proof. reflexivity. Qed.
  Lemma trait_finalize st i : stp st (OpTFinalize i) = stp st (OpFinalize i).
  Proof. reflexivity. Qed.

  (* finalize_into_reset = finalize, then reset *)
  Lemma trait_finalize_reset st i :
    stp st (OpTFinalizeReset i) =
    ('(st1, o1) <- stp st (OpFinalize i) ;; '(st2, o2) <- stp st1 (OpReset i) ;; Ok (st2, o1 ++ o2)).
  Proof.
    cbn [step]. destruct (get (st_hashers st) i) as [h| |] eqn:E; cbn [bind]; try reflexivity.
    destruct (hasher_finalize p h) as [d| |]; cbn [bind]; try reflexivity.
    rewrite E. reflexivity.
  Qed.

  Lemma get_app_last {A} (l : list A) x : get (l ++ [x]) (length l) = Ok x.
  Proof. unfold get. rewrite nth_error_app2 by lia. rewrite Nat.sub_diag. reflexivity. Qed.

  Lemma set_nth_app_last {A} (l : list A) x y : set_nth (l ++ [x]) (length l) y = l ++ [y].
  Proof. induction l as [|a l IH]; cbn [app length set_nth]; [reflexivity|]. rewrite IH. reflexivity. Qed.

  (* ExtendableOutput::finalize_xof + XofReader::read = inherent finalize_xof, then fill *)
  Lemma trait_xof st i n :
    stp st (OpTXof i n) =
    ('(st1, o1) <- stp st (OpReaderNew i) ;;
     '(st2, o2) <- stp st1 (OpFill (length (st_readers st)) n) ;; Ok (st2, o1 ++ o2)).
  Proof.
    cbn [step]. destruct (get (st_hashers st) i) as [h| |] eqn:E; cbn [bind]; try reflexivity.
    destruct (hasher_finalize_output p h) as [o| |]; cbn [bind]; try reflexivity.
    unfold add_reader at 2. cbn [st_readers]. rewrite get_app_last. cbn [bind].
    destruct (reader_fill p (reader_new o) n) as [[r bs]| |]; cbn [bind]; try reflexivity.
    unfold set_reader, add_reader. cbn [st_hashers st_readers st_vals]. rewrite set_nth_app_last. reflexivity.
  Qed.
End Traits.

(* ---- C16: guts ---------------------------------------------------------------------- *)
Section Guts.
  Variable p : platform.
  Hypothesis POK : PlatformOK p.

  Lemma Hcip_spec : forall cv b bl c f, length cv = 8%nat -> length b = 64%nat ->
    p_compress_in_place p cv b bl c f = spec_c8 cv b bl c f.
  Proof. intros. rewrite (ok_cip p POK). apply spec_c8_cip; assumption. Qed.

  Notation TightG := (Tight spec_c8 IV 0).

  (* guts::ChunkState fed any pieces totalling at most one chunk *)
  Lemma guts_feed_spec ctr : forall pieces cs bs acc,
    TightG ctr cs bs -> len (bs ++ concat pieces) <= 1024 ->
    exists cs' lens, guts_feed p cs pieces acc = Ok (cs', rev acc ++ lens) /\ TightG ctr cs' (bs ++ concat pieces) /\
                     length lens = length pieces.
  Proof.
    induction pieces as [|x tl IH]; intros cs bs acc HT Hl.
    - exists cs, []. cbn [guts_feed concat]. rewrite !app_nil_r. auto.
    - cbn [guts_feed concat] in *. rewrite app_assoc in Hl.
      destruct (cs_update_spec spec_c8 p Hcip_spec spec_c8_len IV 0 ctr eq_refl cs bs x HT) as (cs1 & Hu & HT1).
      { rewrite !len_app in *. lia. }
      unfold guts_update. rewrite Hu. cbn [bind].
      destruct HT1 as (nb & HR & Hx).
      unfold guts_len. rewrite (Repr_count spec_c8 p Hcip_spec spec_c8_len IV 0 ctr eq_refl cs1 _ nb HR). cbn [bind].
      destruct (IH cs1 (bs ++ x) (len (bs ++ x) :: acc)) as (cs' & lens & Hf & HT' & Hlen).
      { exists nb. auto. }
      { exact Hl. }
      exists cs', (len (bs ++ x) :: lens). rewrite Hf. cbn [rev]. rewrite <- !app_assoc. cbn [app].
      rewrite <- app_assoc in HT'. split; [reflexivity|]. split; [exact HT'|cbn [length]; lia].
  Qed.

  (* non-root: the spec's chunk chaining value; root (chunk 0): the spec's 32-byte root hash *)
  Theorem guts_chunk_spec ctr pieces :
    len (concat pieces) <= 1024 ->
    exists cs lens, guts_feed p (guts_new ctr) pieces [] = Ok (cs, lens) /\
      guts_finalize p cs false = Ok (chaining_value spec_c8 (chunk_output spec_c8 IV 0 ctr (concat pieces))) /\
      (ctr = 0 -> guts_finalize p cs true = Ok (stream spec_c64 (chunk_output spec_c8 IV 0 0 (concat pieces)) 0 32)).
  Proof.
    intros Hl.
    destruct (guts_feed_spec ctr pieces (guts_new ctr) [] []) as (cs & lens & Hf & HT & _).
    { unfold guts_new. rewrite rs_IV_is_spec. apply (Tight_new spec_c8 p Hcip_spec spec_c8_len IV 0 ctr eq_refl). }
    { exact Hl. }
    cbn [app rev] in *. exists cs, lens. split; [exact Hf|].
    pose proof (cs_output_spec spec_c8 p Hcip_spec spec_c8_len IV 0 ctr eq_refl cs _ HT) as Ho.
    pose proof (chunk_output_wf spec_c8 p POK spec_c8_cip spec_c8_len IV 0 eq_refl ctr (concat pieces) Hl) as Hwf.
    unfold guts_finalize. rewrite Ho. split.
    - f_equal. apply (wf_chaining_value spec_c8 p POK spec_c8_cip); exact Hwf.
    - intros ->. unfold out_root_hash.
      destruct (subtree_output_root_wf spec_c8 p POK spec_c8_cip spec_c8_len IV 0 eq_refl (concat pieces)) as [_ Hc].
      { rewrite two64. lia. }
      rewrite tree_height_S, subtree_output_unfold in Hc. replace (len (concat pieces) <=? 1024) with true in Hc by lia.
      rewrite Hc. change (0 =? 0) with true. cbn [check bind].
      destruct Hwf as [W1 W2]. rewrite Hcip_spec by assumption. rewrite stream_32 by assumption. reflexivity.
  Qed.

  Theorem guts_parent_spec l r :
    length l = 32%nat -> length r = 32%nat ->
    guts_parent_cv p l r false = Ok (chaining_value spec_c8 (parent_output IV 0 l r)) /\
    guts_parent_cv p l r true = Ok (stream spec_c64 (parent_output IV 0 l r) 0 32).
  Proof.
    intros Hl Hr. unfold guts_parent_cv. rewrite rs_IV_is_spec.
    assert (W1 : length (o_cv (parent_output IV 0 l r)) = 8%nat) by reflexivity.
    assert (W2 : length (o_block (parent_output IV 0 l r)) = 64%nat) by (cbn [parent_output o_block]; rewrite app_length; lia).
    split.
    - unfold out_chaining_value, chaining_value. rewrite Hcip_spec by assumption. reflexivity.
    - unfold out_root_hash. cbn [parent_output o_ctr]. change (0 =? 0) with true. cbn [check bind].
      rewrite Hcip_spec by assumption. rewrite stream_32 by assumption. reflexivity.
  Qed.
End Guts.
