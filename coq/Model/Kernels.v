(* Model of the SIMD kernels' ALGORITHMS (C05):
     src/rust_sse2.rs, src/rust_sse41.rs, src/rust_avx2.rs (Rust intrinsics),
     c/blake3_sse2.c, c/blake3_sse41.c, c/blake3_avx2.c, c/blake3_avx512.c (C intrinsics;
     the assembly files implement the same algorithms and are tied by correspondence only).
   A SIMD register of n 32-bit lanes is a `list N` of length n (lane 0 first, i.e. the
   little-endian memory order of loadu/storeu).  Lane operations are the scalar
   operations of Base/Word.v mapped over the lanes.  Shuffles/unpacks are explicit
   index permutations.
   Parts:
     1  lane-wise operations
     2  the round function, generic in the "word" type: source statement order (round_src)
        and G-by-G order (roundS); instantiated on vectors and on scalars
     3  unpack/shuffle intrinsics and transpose_vecs for 4x4, 8x8, 16x16
     4  load_counters in the four source variants
     5  hashN (n = 4, 8, 16): transposed message load, 7 rounds, transposed store
     6  hash_many cascades of every back end
     7  row-vectorised single-block compression (compress_pre of rust_sse41.rs)
     8  xofN and the xof_many cascade of blake3_avx512.c
     9  the four platforms *)
From Coq Require Import NArith ZArith List Bool Arith.
From V Require Import Base.Res Base.Word Base.MachInt gen.GenConsts gen.GenFormulas
  Model.Portable Model.Platform.
Import ListNotations.
Open Scope N_scope.

(* ------------------------------------------------------------------ *)
(* 1. lane-wise operations                                             *)
(* ------------------------------------------------------------------ *)
Definition vec := list N.

Definition vmap2 (f : N -> N -> N) (a b : vec) : vec :=
  map (fun p => f (fst p) (snd p)) (combine a b).
Definition vadd : vec -> vec -> vec := vmap2 add32.           (* _mm*_add_epi32 *)
Definition vxor : vec -> vec -> vec := vmap2 xor32.           (* _mm*_xor_si* *)
Definition vrot (a : vec) (r : N) : vec := map (fun x => rotr32 x r) a.   (* rot16/12/8/7 *)
Definition vset1 (n : nat) (x : N) : vec := repeat x n.       (* _mm*_set1_epi32 *)

(* ------------------------------------------------------------------ *)
(* 2. the round, generic in the word type                              *)
(* ------------------------------------------------------------------ *)
Section RoundG.
  Context {T : Type} (add xor : T -> T -> T) (rot : T -> N -> T) (dflt : T).

  (* G with the association used by every SIMD source: (a + m) + b *)
  Definition gS (a b c d x y : T) : T * T * T * T :=
    let a := add (add a x) b in
    let d := rot (xor d a) 16 in
    let c := add c d in
    let b := rot (xor b c) 12 in
    let a := add (add a y) b in
    let d := rot (xor d a) 8 in
    let c := add c d in
    let b := rot (xor b c) 7 in
    (a, b, c, d).

  Definition mw (msg : list T) (r i : nat) : T := nth (sched r i) msg dflt.

  (* G by G (the shape of portable.rs) *)
  Definition roundS (s msg : list T) (r : nat) : list T :=
    match s with
    | [s0; s1; s2; s3; s4; s5; s6; s7; s8; s9; s10; s11; s12; s13; s14; s15] =>
        let '(s0, s4, s8, s12) := gS s0 s4 s8 s12 (mw msg r 0) (mw msg r 1) in
        let '(s1, s5, s9, s13) := gS s1 s5 s9 s13 (mw msg r 2) (mw msg r 3) in
        let '(s2, s6, s10, s14) := gS s2 s6 s10 s14 (mw msg r 4) (mw msg r 5) in
        let '(s3, s7, s11, s15) := gS s3 s7 s11 s15 (mw msg r 6) (mw msg r 7) in
        let '(s0, s5, s10, s15) := gS s0 s5 s10 s15 (mw msg r 8) (mw msg r 9) in
        let '(s1, s6, s11, s12) := gS s1 s6 s11 s12 (mw msg r 10) (mw msg r 11) in
        let '(s2, s7, s8, s13) := gS s2 s7 s8 s13 (mw msg r 12) (mw msg r 13) in
        let '(s3, s4, s9, s14) := gS s3 s4 s9 s14 (mw msg r 14) (mw msg r 15) in
        [s0; s1; s2; s3; s4; s5; s6; s7; s8; s9; s10; s11; s12; s13; s14; s15]
    | _ => s
    end.

  (* fn round(v, m, r) of rust_sse41.rs / rust_sse2.rs / rust_avx2.rs and round_fn,
     round_fn4/8/16 of the C files: the same 112 statements in the same order
     (this text is produced from rust_sse41.rs lines 373-487) *)
  Definition round_src (v m : list T) (r : nat) : list T :=
    match v with
    | [v0; v1; v2; v3; v4; v5; v6; v7; v8; v9; v10; v11; v12; v13; v14; v15] =>
      let v0 := add v0 (mw m r 0) in
      let v1 := add v1 (mw m r 2) in
      let v2 := add v2 (mw m r 4) in
      let v3 := add v3 (mw m r 6) in
      let v0 := add v0 v4 in
      let v1 := add v1 v5 in
      let v2 := add v2 v6 in
      let v3 := add v3 v7 in
      let v12 := xor v12 v0 in
      let v13 := xor v13 v1 in
      let v14 := xor v14 v2 in
      let v15 := xor v15 v3 in
      let v12 := rot v12 16 in
      let v13 := rot v13 16 in
      let v14 := rot v14 16 in
      let v15 := rot v15 16 in
      let v8 := add v8 v12 in
      let v9 := add v9 v13 in
      let v10 := add v10 v14 in
      let v11 := add v11 v15 in
      let v4 := xor v4 v8 in
      let v5 := xor v5 v9 in
      let v6 := xor v6 v10 in
      let v7 := xor v7 v11 in
      let v4 := rot v4 12 in
      let v5 := rot v5 12 in
      let v6 := rot v6 12 in
      let v7 := rot v7 12 in
      let v0 := add v0 (mw m r 1) in
      let v1 := add v1 (mw m r 3) in
      let v2 := add v2 (mw m r 5) in
      let v3 := add v3 (mw m r 7) in
      let v0 := add v0 v4 in
      let v1 := add v1 v5 in
      let v2 := add v2 v6 in
      let v3 := add v3 v7 in
      let v12 := xor v12 v0 in
      let v13 := xor v13 v1 in
      let v14 := xor v14 v2 in
      let v15 := xor v15 v3 in
      let v12 := rot v12 8 in
      let v13 := rot v13 8 in
      let v14 := rot v14 8 in
      let v15 := rot v15 8 in
      let v8 := add v8 v12 in
      let v9 := add v9 v13 in
      let v10 := add v10 v14 in
      let v11 := add v11 v15 in
      let v4 := xor v4 v8 in
      let v5 := xor v5 v9 in
      let v6 := xor v6 v10 in
      let v7 := xor v7 v11 in
      let v4 := rot v4 7 in
      let v5 := rot v5 7 in
      let v6 := rot v6 7 in
      let v7 := rot v7 7 in
      let v0 := add v0 (mw m r 8) in
      let v1 := add v1 (mw m r 10) in
      let v2 := add v2 (mw m r 12) in
      let v3 := add v3 (mw m r 14) in
      let v0 := add v0 v5 in
      let v1 := add v1 v6 in
      let v2 := add v2 v7 in
      let v3 := add v3 v4 in
      let v15 := xor v15 v0 in
      let v12 := xor v12 v1 in
      let v13 := xor v13 v2 in
      let v14 := xor v14 v3 in
      let v15 := rot v15 16 in
      let v12 := rot v12 16 in
      let v13 := rot v13 16 in
      let v14 := rot v14 16 in
      let v10 := add v10 v15 in
      let v11 := add v11 v12 in
      let v8 := add v8 v13 in
      let v9 := add v9 v14 in
      let v5 := xor v5 v10 in
      let v6 := xor v6 v11 in
      let v7 := xor v7 v8 in
      let v4 := xor v4 v9 in
      let v5 := rot v5 12 in
      let v6 := rot v6 12 in
      let v7 := rot v7 12 in
      let v4 := rot v4 12 in
      let v0 := add v0 (mw m r 9) in
      let v1 := add v1 (mw m r 11) in
      let v2 := add v2 (mw m r 13) in
      let v3 := add v3 (mw m r 15) in
      let v0 := add v0 v5 in
      let v1 := add v1 v6 in
      let v2 := add v2 v7 in
      let v3 := add v3 v4 in
      let v15 := xor v15 v0 in
      let v12 := xor v12 v1 in
      let v13 := xor v13 v2 in
      let v14 := xor v14 v3 in
      let v15 := rot v15 8 in
      let v12 := rot v12 8 in
      let v13 := rot v13 8 in
      let v14 := rot v14 8 in
      let v10 := add v10 v15 in
      let v11 := add v11 v12 in
      let v8 := add v8 v13 in
      let v9 := add v9 v14 in
      let v5 := xor v5 v10 in
      let v6 := xor v6 v11 in
      let v7 := xor v7 v8 in
      let v4 := xor v4 v9 in
      let v5 := rot v5 7 in
      let v6 := rot v6 7 in
      let v7 := rot v7 7 in
      let v4 := rot v4 7 in
      [v0; v1; v2; v3; v4; v5; v6; v7; v8; v9; v10; v11; v12; v13; v14; v15]
    | _ => v
    end.
End RoundG.

(* vector instance *)
Definition vround (v m : list vec) (r : nat) : list vec := round_src vadd vxor vrot [] v m r.

(* one transposed compression: the body of the `for block` loop of hashN / of xofN.
   v[0..7] = h, v[8..11] = set1(IV[0..3]), counter vectors, set1(block_len), set1(flags) *)
Definition vstate (n : nat) (h : list vec) (clo chi : vec) (block_len block_flags : N) : list vec :=
  h ++ [vset1 n (nth 0 rs_IV 0); vset1 n (nth 1 rs_IV 0); vset1 n (nth 2 rs_IV 0); vset1 n (nth 3 rs_IV 0);
        clo; chi; vset1 n block_len; vset1 n block_flags].

Definition vrounds7 (v msg : list vec) : list vec :=
  let v := vround v msg 0 in
  let v := vround v msg 1 in
  let v := vround v msg 2 in
  let v := vround v msg 3 in
  let v := vround v msg 4 in
  let v := vround v msg 5 in
  let v := vround v msg 6 in
  v.

Definition vxor_pairs (a b : list vec) : list vec :=
  map (fun p => vxor (fst p) (snd p)) (combine a b).

(* h_vecs[i] = xor(v[i], v[i+8]) *)
Definition vcompress (n : nat) (h msg : list vec) (clo chi : vec) (block_len block_flags : N) : list vec :=
  let v := vrounds7 (vstate n h clo chi block_len block_flags) msg in
  vxor_pairs (firstn 8 v) (skipn 8 v).

(* ------------------------------------------------------------------ *)
(* 3. unpack / shuffle intrinsics and transposes (polymorphic in the   *)
(*    lane contents; `d` is the value of an out-of-range lane, never   *)
(*    reached on well-formed registers)                                *)
(* ------------------------------------------------------------------ *)
Section Shuffles.
  Context {A : Type} (d : A).
  Definition ln (a : list A) (i : nat) : A := nth i a d.

  (* per 128-bit lane k (4 words): the unpack instructions of SSE2/AVX2/AVX-512 *)
  Definition per128 (a : list A) (f : nat -> list A) : list A :=
    flat_map f (seq 0 (Nat.div (length a) 4)).
  Definition unpacklo32 (a b : list A) : list A :=
    per128 a (fun k => [ln a (4*k); ln b (4*k); ln a (4*k+1); ln b (4*k+1)])%nat.
  Definition unpackhi32 (a b : list A) : list A :=
    per128 a (fun k => [ln a (4*k+2); ln b (4*k+2); ln a (4*k+3); ln b (4*k+3)])%nat.
  Definition unpacklo64 (a b : list A) : list A :=
    per128 a (fun k => [ln a (4*k); ln a (4*k+1); ln b (4*k); ln b (4*k+1)])%nat.
  Definition unpackhi64 (a b : list A) : list A :=
    per128 a (fun k => [ln a (4*k+2); ln a (4*k+3); ln b (4*k+2); ln b (4*k+3)])%nat.

  (* the k-th 128-bit lane of a register *)
  Definition q128 (a : list A) (k : nat) : list A :=
    [ln a (4*k); ln a (4*k+1); ln a (4*k+2); ln a (4*k+3)]%nat.
  (* _mm256_permute2x128_si256(a, b, 0x20) and (a, b, 0x31) *)
  Definition permute2x128_20 (a b : list A) : list A := q128 a 0 ++ q128 b 0.
  Definition permute2x128_31 (a b : list A) : list A := q128 a 1 ++ q128 b 1.
  (* _mm512_shuffle_i32x4(a, b, 0x88) = lanes a0 a2 b0 b2; (a, b, 0xdd) = a1 a3 b1 b3 *)
  Definition unpack_lo_128 (a b : list A) : list A := q128 a 0 ++ q128 a 2 ++ q128 b 0 ++ q128 b 2.
  Definition unpack_hi_128 (a b : list A) : list A := q128 a 1 ++ q128 a 3 ++ q128 b 1 ++ q128 b 3.

  (* _mm_shuffle_epi32(a, _MM_SHUFFLE(z, y, x, w)) *)
  Definition shuffle_epi32 (a : list A) (z y x w : nat) : list A := [ln a w; ln a x; ln a y; ln a z].
  (* shuffle2!(a, b, _MM_SHUFFLE(z, y, x, w)) = _mm_shuffle_ps *)
  Definition shuffle2 (a b : list A) (z y x w : nat) : list A := [ln a w; ln a x; ln b y; ln b z].
  (* _mm_blend_epi16(a, b, imm): imm has one bit per 16-bit half; the two masks used
     (0xCC, 0xC0) have equal bits for the two halves of every 32-bit lane, so the blend
     selects whole lanes; lane k is taken from b iff bit 2k of imm is set *)
  Definition blend_epi16 (a b : list A) (imm : N) : list A :=
    map (fun k => if N.testbit imm (N.of_nat (2 * k)) then ln b k else ln a k) [0; 1; 2; 3]%nat.

  Definition vk (vecs : list (list A)) (k : nat) : list A := nth k vecs [].

  (* transpose_vecs of rust_sse2.rs/rust_sse41.rs, transpose_vecs(_128) of the C files *)
  Definition transpose_vecs_128 (vecs : list (list A)) : list (list A) :=
    let ab_01 := unpacklo32 (vk vecs 0) (vk vecs 1) in
    let ab_23 := unpackhi32 (vk vecs 0) (vk vecs 1) in
    let cd_01 := unpacklo32 (vk vecs 2) (vk vecs 3) in
    let cd_23 := unpackhi32 (vk vecs 2) (vk vecs 3) in
    let abcd_0 := unpacklo64 ab_01 cd_01 in
    let abcd_1 := unpackhi64 ab_01 cd_01 in
    let abcd_2 := unpacklo64 ab_23 cd_23 in
    let abcd_3 := unpackhi64 ab_23 cd_23 in
    [abcd_0; abcd_1; abcd_2; abcd_3].

  (* transpose_vecs of rust_avx2.rs, blake3_avx2.c; transpose_vecs_256 of blake3_avx512.c *)
  Definition transpose_vecs_256 (vecs : list (list A)) : list (list A) :=
    let ab_0145 := unpacklo32 (vk vecs 0) (vk vecs 1) in
    let ab_2367 := unpackhi32 (vk vecs 0) (vk vecs 1) in
    let cd_0145 := unpacklo32 (vk vecs 2) (vk vecs 3) in
    let cd_2367 := unpackhi32 (vk vecs 2) (vk vecs 3) in
    let ef_0145 := unpacklo32 (vk vecs 4) (vk vecs 5) in
    let ef_2367 := unpackhi32 (vk vecs 4) (vk vecs 5) in
    let gh_0145 := unpacklo32 (vk vecs 6) (vk vecs 7) in
    let gh_2367 := unpackhi32 (vk vecs 6) (vk vecs 7) in
    let abcd_04 := unpacklo64 ab_0145 cd_0145 in
    let abcd_15 := unpackhi64 ab_0145 cd_0145 in
    let abcd_26 := unpacklo64 ab_2367 cd_2367 in
    let abcd_37 := unpackhi64 ab_2367 cd_2367 in
    let efgh_04 := unpacklo64 ef_0145 gh_0145 in
    let efgh_15 := unpackhi64 ef_0145 gh_0145 in
    let efgh_26 := unpacklo64 ef_2367 gh_2367 in
    let efgh_37 := unpackhi64 ef_2367 gh_2367 in
    [permute2x128_20 abcd_04 efgh_04; permute2x128_20 abcd_15 efgh_15;
     permute2x128_20 abcd_26 efgh_26; permute2x128_20 abcd_37 efgh_37;
     permute2x128_31 abcd_04 efgh_04; permute2x128_31 abcd_15 efgh_15;
     permute2x128_31 abcd_26 efgh_26; permute2x128_31 abcd_37 efgh_37].

  (* transpose_vecs_512 of blake3_avx512.c *)
  Definition transpose_vecs_512 (vecs : list (list A)) : list (list A) :=
    let ab_0 := unpacklo32 (vk vecs 0) (vk vecs 1) in
    let ab_2 := unpackhi32 (vk vecs 0) (vk vecs 1) in
    let cd_0 := unpacklo32 (vk vecs 2) (vk vecs 3) in
    let cd_2 := unpackhi32 (vk vecs 2) (vk vecs 3) in
    let ef_0 := unpacklo32 (vk vecs 4) (vk vecs 5) in
    let ef_2 := unpackhi32 (vk vecs 4) (vk vecs 5) in
    let gh_0 := unpacklo32 (vk vecs 6) (vk vecs 7) in
    let gh_2 := unpackhi32 (vk vecs 6) (vk vecs 7) in
    let ij_0 := unpacklo32 (vk vecs 8) (vk vecs 9) in
    let ij_2 := unpackhi32 (vk vecs 8) (vk vecs 9) in
    let kl_0 := unpacklo32 (vk vecs 10) (vk vecs 11) in
    let kl_2 := unpackhi32 (vk vecs 10) (vk vecs 11) in
    let mn_0 := unpacklo32 (vk vecs 12) (vk vecs 13) in
    let mn_2 := unpackhi32 (vk vecs 12) (vk vecs 13) in
    let op_0 := unpacklo32 (vk vecs 14) (vk vecs 15) in
    let op_2 := unpackhi32 (vk vecs 14) (vk vecs 15) in
    let abcd_0 := unpacklo64 ab_0 cd_0 in
    let abcd_1 := unpackhi64 ab_0 cd_0 in
    let abcd_2 := unpacklo64 ab_2 cd_2 in
    let abcd_3 := unpackhi64 ab_2 cd_2 in
    let efgh_0 := unpacklo64 ef_0 gh_0 in
    let efgh_1 := unpackhi64 ef_0 gh_0 in
    let efgh_2 := unpacklo64 ef_2 gh_2 in
    let efgh_3 := unpackhi64 ef_2 gh_2 in
    let ijkl_0 := unpacklo64 ij_0 kl_0 in
    let ijkl_1 := unpackhi64 ij_0 kl_0 in
    let ijkl_2 := unpacklo64 ij_2 kl_2 in
    let ijkl_3 := unpackhi64 ij_2 kl_2 in
    let mnop_0 := unpacklo64 mn_0 op_0 in
    let mnop_1 := unpackhi64 mn_0 op_0 in
    let mnop_2 := unpacklo64 mn_2 op_2 in
    let mnop_3 := unpackhi64 mn_2 op_2 in
    let abcdefgh_0 := unpack_lo_128 abcd_0 efgh_0 in
    let abcdefgh_1 := unpack_lo_128 abcd_1 efgh_1 in
    let abcdefgh_2 := unpack_lo_128 abcd_2 efgh_2 in
    let abcdefgh_3 := unpack_lo_128 abcd_3 efgh_3 in
    let abcdefgh_4 := unpack_hi_128 abcd_0 efgh_0 in
    let abcdefgh_5 := unpack_hi_128 abcd_1 efgh_1 in
    let abcdefgh_6 := unpack_hi_128 abcd_2 efgh_2 in
    let abcdefgh_7 := unpack_hi_128 abcd_3 efgh_3 in
    let ijklmnop_0 := unpack_lo_128 ijkl_0 mnop_0 in
    let ijklmnop_1 := unpack_lo_128 ijkl_1 mnop_1 in
    let ijklmnop_2 := unpack_lo_128 ijkl_2 mnop_2 in
    let ijklmnop_3 := unpack_lo_128 ijkl_3 mnop_3 in
    let ijklmnop_4 := unpack_hi_128 ijkl_0 mnop_0 in
    let ijklmnop_5 := unpack_hi_128 ijkl_1 mnop_1 in
    let ijklmnop_6 := unpack_hi_128 ijkl_2 mnop_2 in
    let ijklmnop_7 := unpack_hi_128 ijkl_3 mnop_3 in
    [unpack_lo_128 abcdefgh_0 ijklmnop_0; unpack_lo_128 abcdefgh_1 ijklmnop_1;
     unpack_lo_128 abcdefgh_2 ijklmnop_2; unpack_lo_128 abcdefgh_3 ijklmnop_3;
     unpack_lo_128 abcdefgh_4 ijklmnop_4; unpack_lo_128 abcdefgh_5 ijklmnop_5;
     unpack_lo_128 abcdefgh_6 ijklmnop_6; unpack_lo_128 abcdefgh_7 ijklmnop_7;
     unpack_hi_128 abcdefgh_0 ijklmnop_0; unpack_hi_128 abcdefgh_1 ijklmnop_1;
     unpack_hi_128 abcdefgh_2 ijklmnop_2; unpack_hi_128 abcdefgh_3 ijklmnop_3;
     unpack_hi_128 abcdefgh_4 ijklmnop_4; unpack_hi_128 abcdefgh_5 ijklmnop_5;
     unpack_hi_128 abcdefgh_6 ijklmnop_6; unpack_hi_128 abcdefgh_7 ijklmnop_7].
End Shuffles.

(* ------------------------------------------------------------------ *)
(* 4. load_counters, four source variants                              *)
(* ------------------------------------------------------------------ *)
Fixpoint res_map {A B} (f : A -> res B) (l : list A) : res (list B) :=
  match l with
  | [] => Ok []
  | x :: tl => y <- f x ;; ys <- res_map f tl ;; Ok (y :: ys)
  end.

Definition lane_ids (n : nat) : vec := map N.of_nat (seq 0 n).

(* (R) rust_sse2.rs / rust_sse41.rs / rust_avx2.rs:
     let mask = if increment_counter.yes() { !0 } else { 0 };
     set4(counter_low(counter + (mask & 0)), ...), set4(counter_high(counter + (mask & 0)), ...)
   `counter + ...` is a u64 addition: overflow panics in a debug build (code 1001) *)
Definition load_counters_rs (n : nat) (counter : N) (incr : bool) : res (vec * vec) :=
  let mask := if incr then N.ones 64 else 0 in
  cs <- res_map (fun i => mi_add 64 counter (N.land mask i)) (lane_ids n) ;;
  Ok (map ctr_lo cs, map ctr_hi cs).

Definition vand : vec -> vec -> vec := vmap2 N.land.
(* _mm*_sub_epi32 *)
Definition sub32 (a b : N) : N := w32 (w32 a + 4294967296 - w32 b).
Definition vsub : vec -> vec -> vec := vmap2 sub32.
(* _mm*_cmpgt_epi32: SIGNED comparison of the lanes, all-ones where a > b *)
Definition to_signed32 (x : N) : Z :=
  if x <? 2147483648 then Z.of_N x else (Z.of_N x - 4294967296)%Z.
Definition cmpgt32 (a b : N) : N := if (to_signed32 b <? to_signed32 a)%Z then mask32 else 0.
Definition vcmpgt : vec -> vec -> vec := vmap2 cmpgt32.

(* (C) load_counters of blake3_sse2.c, blake3_sse41.c, blake3_avx2.c (and, with the
   ADD0/ADD1/CMP_MSB_MASK tables, of the assembly): 32-bit lane addition of the lane
   index, carry found by the biased signed comparison, subtracted (carry = -1) from
   the high words.  No panic: everything wraps. *)
Definition load_counters_cmp (n : nat) (counter : N) (incr : bool) : res (vec * vec) :=
  let mask := vset1 n (if incr then mask32 else 0) in        (* set1(-(int32_t)increment_counter) *)
  let add0 := lane_ids n in                                  (* set_epi32(n-1, ..., 1, 0) *)
  let add1 := vand mask add0 in
  let l := vadd (vset1 n (w32 counter)) add1 in
  let carry := vcmpgt (vxor add1 (vset1 n 0x80000000)) (vxor l (vset1 n 0x80000000)) in
  let h := vsub (vset1 n (w32 (N.shiftr counter 32))) carry in
  Ok (l, h).

(* _mm512_andnot_si512(a, b) = (NOT a) AND b on 32-bit lanes; _mm512_srli_epi32 *)
Definition vandnot : vec -> vec -> vec := vmap2 (fun a b => N.land (N.lxor a mask32) b).
Definition vshr (a : vec) (k : N) : vec := map (fun x => N.shiftr x k) a.

(* (A) load_counters16 of blake3_avx512.c: carry = bit 31 set before the addition and
   clear after it *)
Definition load_counters_andnot (n : nat) (counter : N) (incr : bool) : res (vec * vec) :=
  let mask := vset1 n (if incr then mask32 else 0) in
  let deltas := lane_ids n in
  let masked_deltas := vand deltas mask in
  let low_words := vadd (vset1 n (w32 counter)) masked_deltas in
  let carries := vshr (vandnot low_words (vset1 n (w32 counter))) 31 in
  let high_words := vadd (vset1 n (w32 (N.shiftr counter 32))) carries in
  Ok (low_words, high_words).

(* (W) load_counters4 / load_counters8 of blake3_avx512.c: 64-bit lanes
   counter + (mask & i) (wrapping), then cvtepi64_epi32 of the value and of value >> 32 *)
Definition load_counters_64 (n : nat) (counter : N) (incr : bool) : res (vec * vec) :=
  let mask := if incr then N.ones 64 else 0 in
  let counters := map (fun i => N.land (counter + N.land mask i) (N.ones 64)) (lane_ids n) in
  Ok (map w32 counters, map (fun c => w32 (N.shiftr c 32)) counters).

(* ------------------------------------------------------------------ *)
(* 5. hashN                                                            *)
(* ------------------------------------------------------------------ *)
(* loadu of k words (16, 32 or 64 bytes) at byte offset `off` *)
Definition loadu (k : nat) (src : list N) (off : nat) : vec :=
  words_of_bytes (firstn (4 * k) (skipn off src)).
Definition inp (inputs : list (list N)) (i : nat) : list N := nth i inputs [].

(* transpose_msg_vecs: 16/n squares of n x n words; square c holds bytes
   [off + 4nc, off + 4n(c+1)) of every input, then is transposed in place *)
Definition transpose_msg_vecs (n : nat) (tr : list vec -> list vec)
           (inputs : list (list N)) (off : nat) : list vec :=
  flat_map (fun c => tr (map (fun i => loadu n (inp inputs i) (off + 4 * n * c)) (seq 0 n)))
           (seq 0 (Nat.div 16 n)).

Definition transpose_msg_vecs4 := transpose_msg_vecs 4 (transpose_vecs_128 0).
Definition transpose_msg_vecs8 := transpose_msg_vecs 8 (transpose_vecs_256 0).
Definition transpose_msg_vecs16 := transpose_msg_vecs 16 (transpose_vecs_512 0).

(* the stores at the end of hash4 / hash8 / hash16: one 32-byte CV per input *)
Definition store4 (h : list vec) : list (list N) :=
  let a := transpose_vecs_128 0 (firstn 4 h) in
  let b := transpose_vecs_128 0 (skipn 4 h) in
  (* storeu(h_vecs[0], out + 0); storeu(h_vecs[4], out + 16); storeu(h_vecs[1], out + 32); ... *)
  map (fun i => bytes_of_words (vk a i ++ vk b i)) (seq 0 4).
Definition store8 (h : list vec) : list (list N) :=
  map bytes_of_words (transpose_vecs_256 0 h).
(* hash16: pad to 16 vectors with zeros, transpose, store the low 256 bits of each *)
Definition store16 (h : list vec) : list (list N) :=
  map (fun v => bytes_of_words (firstn 8 v))
      (transpose_vecs_512 0 (h ++ repeat (vset1 16 0) 8)).

(* for block in 0..blocks { if block + 1 == blocks { block_flags |= flags_end } ... block_flags = flags } *)
Fixpoint hashN_loop (n : nat) (tmsg : list (list N) -> nat -> list vec) (inputs : list (list N))
         (clo chi : vec) (flags flags_end : N) (todo block blocks : nat) (block_flags : N)
         (h : list vec) : list vec :=
  match todo with
  | O => h
  | S todo' =>
      let block_flags := if (block + 1 =? blocks)%nat then N.lor block_flags flags_end else block_flags in
      let msg := tmsg inputs (block * 64)%nat in
      let h := vcompress n h msg clo chi rs_BLOCK_LEN block_flags in
      hashN_loop n tmsg inputs clo chi flags flags_end todo' (S block) blocks flags h
  end.

Definition hashN_gen (n : nat) (tmsg : list (list N) -> nat -> list vec)
           (lc : N -> bool -> res (vec * vec)) (store : list vec -> list (list N))
           (inputs : list (list N)) (blocks : nat) (key : list N) (counter : N) (incr : bool)
           (flags flags_start flags_end : N) : res (list (list N)) :=
  let h := map (fun k => vset1 n (nth k key 0)) (seq 0 8) in
  '(clo, chi) <- lc counter incr ;;
  let h := hashN_loop n tmsg inputs clo chi flags flags_end blocks 0 blocks (N.lor flags flags_start) h in
  Ok (store h).

Definition hashN_fn := list (list N) -> nat -> list N -> N -> bool -> N -> N -> N -> res (list (list N)).

(* Rust intrinsics *)
Definition hash4_rs : hashN_fn := hashN_gen 4 transpose_msg_vecs4 (load_counters_rs 4) store4.
Definition hash8_rs : hashN_fn := hashN_gen 8 transpose_msg_vecs8 (load_counters_rs 8) store8.
(* C intrinsics: blake3_hash4_sse2/sse41, blake3_hash8_avx2 *)
Definition hash4_c : hashN_fn := hashN_gen 4 transpose_msg_vecs4 (load_counters_cmp 4) store4.
Definition hash8_c : hashN_fn := hashN_gen 8 transpose_msg_vecs8 (load_counters_cmp 8) store8.
(* blake3_avx512.c *)
Definition hash4_avx512 : hashN_fn := hashN_gen 4 transpose_msg_vecs4 (load_counters_64 4) store4.
Definition hash8_avx512 : hashN_fn := hashN_gen 8 transpose_msg_vecs8 (load_counters_64 8) store8.
Definition hash16_avx512 : hashN_fn := hashN_gen 16 transpose_msg_vecs16 (load_counters_andnot 16) store16.

(* ------------------------------------------------------------------ *)
(* 6. hash_many cascades                                               *)
(* ------------------------------------------------------------------ *)
Definition cip_fn := list N -> list N -> N -> N -> N -> list N.
(* input blocks key counter flags flags_start flags_end *)
Definition hash1_fn := list N -> nat -> list N -> N -> N -> N -> N -> res (list N).

(* fn hash1<const N> of the Rust back ends, over the back end's own compress_in_place *)
Fixpoint hash1_rs_go (cip : cip_fn) (fuel : nat) (cv input : list N) (counter flags block_flags flags_end : N) : list N :=
  match fuel with
  | O => cv
  | S fuel' =>
      if N.of_nat (length input) <? rs_BLOCK_LEN then cv
      else
        let block_flags := if N.of_nat (length input) =? rs_BLOCK_LEN then N.lor block_flags flags_end else block_flags in
        let cv := cip cv (firstn (N.to_nat rs_BLOCK_LEN) input) rs_BLOCK_LEN counter block_flags in
        hash1_rs_go cip fuel' cv (skipn (N.to_nat rs_BLOCK_LEN) input) counter flags flags flags_end
  end.
Definition hash1_rs (cip : cip_fn) : hash1_fn := fun input _ key counter flags flags_start flags_end =>
  assert! (N.of_nat (length input) mod rs_BLOCK_LEN =? 0) code 1100 ;;
  Ok (bytes_of_words (hash1_rs_go cip (S (Nat.div (length input) 64)) key input counter flags
                                  (N.lor flags flags_start) flags_end)).

(* hash_one_<isa> of the C files: loop on the block count, no assertion *)
Fixpoint hash_one_go (cip : cip_fn) (blocks : nat) (cv input : list N) (counter flags block_flags flags_end : N) : list N :=
  match blocks with
  | O => cv
  | S blocks' =>
      let block_flags := if (blocks =? 1)%nat then N.lor block_flags flags_end else block_flags in
      let cv := cip cv (firstn 64 input) c_BLOCK_LEN counter block_flags in
      hash_one_go cip blocks' cv (skipn 64 input) counter flags flags flags_end
  end.
Definition hash_one_c (cip : cip_fn) : hash1_fn := fun input blocks key counter flags flags_start flags_end =>
  Ok (bytes_of_words (hash_one_go cip blocks key input counter flags (N.lor flags flags_start) flags_end)).

(* counter += DEGREE: Rust u64 `+=` (debug overflow panic) or C uint64_t (wraps) *)
Definition cadd_rs (a b : N) : res N := mi_add 64 a b.
Definition cadd_c (a b : N) : res N := Ok (N.land (a + b) (N.ones 64)).

(* one `while inputs.len() >= DEGREE [&& out.len() >= DEGREE * OUT_LEN]` loop.
   cap = remaining capacity of `out` in CVs (only the Rust loops look at it).
   Returns the CVs produced and the loop-carried state (inputs, counter, cap). *)
Fixpoint batch_while (fuel deg : nat) (hN : hashN_fn) (cadd : N -> N -> res N) (chk_cap : bool)
         (inputs : list (list N)) (blocks : nat) (key : list N) (counter : N) (incr : bool)
         (flags flags_start flags_end cap : N)
  : res (list (list N) * (list (list N) * N * N)) :=
  match fuel with
  | O => OutOfFuel
  | S fuel' =>
      if (deg <=? length inputs)%nat && (negb chk_cap || (N.of_nat deg <=? cap)) then
        outs <- hN (firstn deg inputs) blocks key counter incr flags flags_start flags_end ;;
        counter' <- (if incr then cadd counter (N.of_nat deg) else Ok counter) ;;
        '(outs', st) <- batch_while fuel' deg hN cadd chk_cap (skipn deg inputs) blocks key counter' incr
                                    flags flags_start flags_end (cap - N.of_nat deg) ;;
        Ok (outs ++ outs', st)
      else Ok ([], (inputs, counter, cap))
  end.

(* the trailing one-at-a-time loop.  Rust: `for (&input, output) in
   inputs.iter().zip(out.chunks_exact_mut(OUT_LEN))` stops when `out` is exhausted (zip_cap);
   C: `while (num_inputs > 0)` *)
Fixpoint single_loop (h1 : hash1_fn) (cadd : N -> N -> res N) (zip_cap : bool)
         (inputs : list (list N)) (blocks : nat) (key : list N) (counter : N) (incr : bool)
         (flags flags_start flags_end cap : N) : res (list (list N)) :=
  match inputs with
  | [] => Ok []
  | input :: tl =>
      if zip_cap && (cap =? 0) then Ok []
      else
        cv <- h1 input blocks key counter flags flags_start flags_end ;;
        counter' <- (if incr then cadd counter 1 else Ok counter) ;;
        rest <- single_loop h1 cadd zip_cap tl blocks key counter' incr flags flags_start flags_end (cap - 1) ;;
        Ok (cv :: rest)
  end.

(* `blocks = N / BLOCK_LEN`: N is the common length of the inputs (a const generic in
   Rust, the `blocks` argument in C); the model reads it off the first input *)
Definition blocks_of (inputs : list (list N)) : nat := Nat.div (length (hd [] inputs)) 64.

Definition hash_many_fn := list (list N) -> list N -> N -> bool -> N -> N -> N -> N -> res (list (list N)).

(* rust_sse2.rs / rust_sse41.rs hash_many (degree 4, then hash1) *)
Definition hash_many_rs4 (lc4 : N -> bool -> res (vec * vec)) (cip : cip_fn) : hash_many_fn :=
  fun inputs key counter incr flags flags_start flags_end cap =>
  assert! (N.of_nat (length inputs) <=? cap) code 1101 ;;
  let blocks := blocks_of inputs in
  '(outs, (rest, counter', cap')) <-
     batch_while (S (length inputs)) 4 (hashN_gen 4 transpose_msg_vecs4 lc4 store4) cadd_rs true
                 inputs blocks key counter incr flags flags_start flags_end cap ;;
  outs' <- single_loop (hash1_rs cip) cadd_rs true rest blocks key counter' incr flags flags_start flags_end cap' ;;
  Ok (outs ++ outs').

(* rust_avx2.rs hash_many: degree 8, then crate::sse41::hash_many on what is left *)
Definition hash_many_rs8 (lc8 lc4 : N -> bool -> res (vec * vec)) (cip : cip_fn) : hash_many_fn :=
  fun inputs key counter incr flags flags_start flags_end cap =>
  assert! (N.of_nat (length inputs) <=? cap) code 1101 ;;
  let blocks := blocks_of inputs in
  '(outs, (rest, counter', cap')) <-
     batch_while (S (length inputs)) 8 (hashN_gen 8 transpose_msg_vecs8 lc8 store8) cadd_rs true
                 inputs blocks key counter incr flags flags_start flags_end cap ;;
  outs' <- hash_many_rs4 lc4 cip rest key counter' incr flags flags_start flags_end cap' ;;
  Ok (outs ++ outs').

(* blake3_hash_many_sse2 / blake3_hash_many_sse41 (C; the assembly has the same cascade);
   `blocks` is an argument *)
Definition hash_many_c4 (lc4 : N -> bool -> res (vec * vec)) (cip : cip_fn)
           (inputs : list (list N)) (blocks : nat) (key : list N) (counter : N) (incr : bool)
           (flags flags_start flags_end : N) : res (list (list N)) :=
  '(outs, (rest, counter', _)) <-
     batch_while (S (length inputs)) 4 (hashN_gen 4 transpose_msg_vecs4 lc4 store4) cadd_c false
                 inputs blocks key counter incr flags flags_start flags_end 0 ;;
  outs' <- single_loop (hash_one_c cip) cadd_c false rest blocks key counter' incr flags flags_start flags_end 0 ;;
  Ok (outs ++ outs').

(* blake3_hash_many_avx2: degree 8, then blake3_hash_many_sse41 *)
Definition hash_many_c8 (lc8 lc4 : N -> bool -> res (vec * vec)) (cip : cip_fn)
           (inputs : list (list N)) (blocks : nat) (key : list N) (counter : N) (incr : bool)
           (flags flags_start flags_end : N) : res (list (list N)) :=
  '(outs, (rest, counter', _)) <-
     batch_while (S (length inputs)) 8 (hashN_gen 8 transpose_msg_vecs8 lc8 store8) cadd_c false
                 inputs blocks key counter incr flags flags_start flags_end 0 ;;
  outs' <- hash_many_c4 lc4 cip rest blocks key counter' incr flags flags_start flags_end ;;
  Ok (outs ++ outs').

(* blake3_hash_many_avx512: 16, 8, 4, 1 *)
Definition hash_many_c16 (cip : cip_fn)
           (inputs : list (list N)) (blocks : nat) (key : list N) (counter : N) (incr : bool)
           (flags flags_start flags_end : N) : res (list (list N)) :=
  '(o16, (rest, counter, _)) <-
     batch_while (S (length inputs)) 16 hash16_avx512 cadd_c false
                 inputs blocks key counter incr flags flags_start flags_end 0 ;;
  '(o8, (rest, counter, _)) <-
     batch_while (S (length rest)) 8 hash8_avx512 cadd_c false
                 rest blocks key counter incr flags flags_start flags_end 0 ;;
  '(o4, (rest, counter, _)) <-
     batch_while (S (length rest)) 4 hash4_avx512 cadd_c false
                 rest blocks key counter incr flags flags_start flags_end 0 ;;
  o1 <- single_loop (hash_one_c cip) cadd_c false rest blocks key counter incr flags flags_start flags_end 0 ;;
  Ok (o16 ++ o8 ++ o4 ++ o1).

(* the Rust FFI wrappers (ffi_sse2.rs, ffi_sse41.rs, ffi_avx2.rs, ffi_avx512.rs):
   `assert!(out.len() >= inputs.len() * OUT_LEN)` -- an unconditional assert (code 101),
   unlike the debug_assert! (code 1101) of the pure-Rust back ends -- then the C symbol
   with blocks = N / BLOCK_LEN *)
Definition ffi_hash_many (f : list (list N) -> nat -> list N -> N -> bool -> N -> N -> N -> res (list (list N)))
  : hash_many_fn := fun inputs key counter incr flags flags_start flags_end cap =>
  assert! (N.of_nat (length inputs) <=? cap) code 101 ;;
  f inputs (blocks_of inputs) key counter incr flags flags_start flags_end.

(* ------------------------------------------------------------------ *)
(* 7. row-vectorised single-block compression                          *)
(*    (compress_pre of rust_sse41.rs / rust_sse2.rs, blake3_sse41.c,   *)
(*    blake3_sse2.c, and the 128-bit compress_pre of blake3_avx512.c)  *)
(* ------------------------------------------------------------------ *)
Definition rows := (vec * vec * vec * vec)%type.

Definition g1r (row0 row1 row2 row3 m : vec) : rows :=
  let row0 := vadd (vadd row0 m) row1 in
  let row3 := vxor row3 row0 in
  let row3 := vrot row3 16 in
  let row2 := vadd row2 row3 in
  let row1 := vxor row1 row2 in
  let row1 := vrot row1 12 in
  (row0, row1, row2, row3).

Definition g2r (row0 row1 row2 row3 m : vec) : rows :=
  let row0 := vadd (vadd row0 m) row1 in
  let row3 := vxor row3 row0 in
  let row3 := vrot row3 8 in
  let row2 := vadd row2 row3 in
  let row1 := vxor row1 row2 in
  let row1 := vrot row1 7 in
  (row0, row1, row2, row3).

(* row1 stays unrotated (see the comment in the source) *)
Definition diagonalize (row0 row2 row3 : vec) : vec * vec * vec :=
  (shuffle_epi32 0 row0 2 1 0 3, shuffle_epi32 0 row2 0 3 2 1, shuffle_epi32 0 row3 1 0 3 2).
Definition undiagonalize (row0 row2 row3 : vec) : vec * vec * vec :=
  (shuffle_epi32 0 row0 0 3 2 1, shuffle_epi32 0 row2 2 1 0 3, shuffle_epi32 0 row3 1 0 3 2).

Definition msgs := (vec * vec * vec * vec)%type.

(* g1(t0); g2(t1); diagonalize; g1(t2); g2(t3); undiagonalize *)
Definition rows_round (rs : rows) (t : msgs) : rows :=
  let '(row0, row1, row2, row3) := rs in
  let '(t0, t1, t2, t3) := t in
  let '(row0, row1, row2, row3) := g1r row0 row1 row2 row3 t0 in
  let '(row0, row1, row2, row3) := g2r row0 row1 row2 row3 t1 in
  let '(row0, row2, row3) := diagonalize row0 row2 row3 in
  let '(row0, row1, row2, row3) := g1r row0 row1 row2 row3 t2 in
  let '(row0, row1, row2, row3) := g2r row0 row1 row2 row3 t3 in
  let '(row0, row2, row3) := undiagonalize row0 row2 row3 in
  (row0, row1, row2, row3).

(* Round 1: from input order into the groups mixed in parallel *)
Definition msg_round1 (m : msgs) : msgs :=
  let '(m0, m1, m2, m3) := m in
  let t0 := shuffle2 0 m0 m1 2 0 2 0 in
  let t1 := shuffle2 0 m0 m1 3 1 3 1 in
  let t2 := shuffle2 0 m2 m3 2 0 2 0 in
  let t2 := shuffle_epi32 0 t2 2 1 0 3 in
  let t3 := shuffle2 0 m2 m3 3 1 3 1 in
  let t3 := shuffle_epi32 0 t3 2 1 0 3 in
  (t0, t1, t2, t3).

(* Rounds 2..7: the fixed permutation applied to the previous round's vectors *)
Definition msg_next (m : msgs) : msgs :=
  let '(m0, m1, m2, m3) := m in
  let t0 := shuffle2 0 m0 m1 3 1 1 2 in
  let t0 := shuffle_epi32 0 t0 0 3 2 1 in
  let t1 := shuffle2 0 m2 m3 3 3 2 2 in
  let tt := shuffle_epi32 0 m0 0 0 3 3 in
  let t1 := blend_epi16 0 tt t1 0xCC in
  let t2 := unpacklo64 0 m3 m1 in
  let tt := blend_epi16 0 t2 m2 0xC0 in
  let t2 := shuffle_epi32 0 tt 1 3 2 0 in
  let t3 := unpackhi32 0 m1 m3 in
  let tt := unpacklo32 0 m2 t3 in
  let t3 := shuffle_epi32 0 tt 0 1 3 2 in
  (t0, t1, t2, t3).

Definition compress_pre_rows (cv block : list N) (block_len counter flags : N) : rows :=
  let row0 := firstn 4 cv in                                   (* loadu(cv + 0) *)
  let row1 := firstn 4 (skipn 4 cv) in                         (* loadu(cv + 4) *)
  let row2 := [nth 0 rs_IV 0; nth 1 rs_IV 0; nth 2 rs_IV 0; nth 3 rs_IV 0] in
  let row3 := [ctr_lo counter; ctr_hi counter; block_len; flags] in
  let rs := (row0, row1, row2, row3) in
  let m := (loadu 4 block 0, loadu 4 block 16, loadu 4 block 32, loadu 4 block 48) in
  let t := msg_round1 m in let rs := rows_round rs t in        (* round 1 *)
  let t := msg_next t in let rs := rows_round rs t in          (* round 2 *)
  let t := msg_next t in let rs := rows_round rs t in
  let t := msg_next t in let rs := rows_round rs t in
  let t := msg_next t in let rs := rows_round rs t in
  let t := msg_next t in let rs := rows_round rs t in
  let t := msg_next t in let rs := rows_round rs t in          (* round 7 *)
  rs.

Definition compress_in_place_rows : cip_fn := fun cv block block_len counter flags =>
  let '(row0, row1, row2, row3) := compress_pre_rows cv block block_len counter flags in
  vxor row0 row2 ++ vxor row1 row3.

Definition compress_xof_rows : cip_fn := fun cv block block_len counter flags =>
  let '(row0, row1, row2, row3) := compress_pre_rows cv block block_len counter flags in
  let row0 := vxor row0 row2 in
  let row1 := vxor row1 row3 in
  let row2 := vxor row2 (firstn 4 cv) in
  let row3 := vxor row3 (firstn 4 (skipn 4 cv)) in
  bytes_of_words (row0 ++ row1 ++ row2 ++ row3).

(* rust_sse2.rs blend_epi16: _mm_blend_epi16 emulated with a 16-bit-lane mask,
   (mask & b) | (andnot mask a).  At 32-bit lane k the mask is 0xFFFF for bit 2k of imm
   plus 0xFFFF0000 for bit 2k+1. *)
Definition blend_mask32 (imm : N) (k : nat) : N :=
  N.lor (if N.testbit imm (N.of_nat (2 * k)) then 0xFFFF else 0)
        (if N.testbit imm (N.of_nat (2 * k + 1)) then 0xFFFF0000 else 0).
Definition blend_epi16_sse2 (a b : vec) (imm : N) : vec :=
  map (fun k => N.lor (N.land (blend_mask32 imm k) (ln 0 b k))
                      (N.land (N.lxor (blend_mask32 imm k) mask32) (ln 0 a k))) [0; 1; 2; 3]%nat.

(* ------------------------------------------------------------------ *)
(* 8. xofN and xof_many (blake3_avx512.c)                              *)
(* ------------------------------------------------------------------ *)
(* load_block_words: 16 little-endian words of the 64-byte block *)
Definition load_block_words (block : list N) : list N :=
  map (fun i => nth i (words_of_bytes block) 0) (seq 0 16).

Definition xofN_gen (n : nat) (lc : N -> bool -> res (vec * vec)) (store_x : list vec -> list N)
           (cv block : list N) (block_len counter flags : N) : res (list N) :=
  let h := map (fun k => vset1 n (nth k cv 0)) (seq 0 8) in
  let msg := map (vset1 n) (load_block_words block) in
  '(clo, chi) <- lc counter true ;;
  let v := vrounds7 (vstate n h clo chi block_len flags) msg in
  (* v[i] = xor(v[i], v[i+8]); v[i+8] = xor(v[i+8], h_vecs[i]) *)
  let v := vxor_pairs (firstn 8 v) (skipn 8 v) ++ vxor_pairs (skipn 8 v) h in
  Ok (store_x v).

(* xof16: one 16x16 transpose, vector i is the 64 output bytes of lane i *)
Definition store_x16 (v : list vec) : list N :=
  bytes_of_words (concat (transpose_vecs_512 0 v)).
(* xof8: two 8x8 transposes; storeu(v[i], out + 64 i), storeu(v[i+8], out + 64 i + 32) *)
Definition store_x8 (v : list vec) : list N :=
  let a := transpose_vecs_256 0 (firstn 8 v) in
  let b := transpose_vecs_256 0 (skipn 8 v) in
  bytes_of_words (concat (map (fun i => vk a i ++ vk b i) (seq 0 8))).
(* xof4: four 4x4 transposes; v[i], v[i+4], v[i+8], v[i+12] make lane i's 64 bytes *)
Definition store_x4 (v : list vec) : list N :=
  let a := transpose_vecs_128 0 (firstn 4 v) in
  let b := transpose_vecs_128 0 (firstn 4 (skipn 4 v)) in
  let c := transpose_vecs_128 0 (firstn 4 (skipn 8 v)) in
  let d := transpose_vecs_128 0 (skipn 12 v) in
  bytes_of_words (concat (map (fun i => vk a i ++ vk b i ++ vk c i ++ vk d i) (seq 0 4))).

Definition xof16_avx512 := xofN_gen 16 (load_counters_andnot 16) store_x16.
Definition xof8_avx512 := xofN_gen 8 (load_counters_64 8) store_x8.
Definition xof4_avx512 := xofN_gen 4 (load_counters_64 4) store_x4.

Definition xofN_fn := list N -> list N -> N -> N -> N -> res (list N).

(* while (outblocks >= deg) { xofN(...); counter += deg; outblocks -= deg; out += deg * 64 } *)
Fixpoint xof_while (fuel deg : nat) (xN : xofN_fn) (cv block : list N) (block_len counter flags outblocks : N)
  : res (list N * (N * N)) :=
  match fuel with
  | O => OutOfFuel
  | S fuel' =>
      if N.of_nat deg <=? outblocks then
        out <- xN cv block block_len counter flags ;;
        counter' <- cadd_c counter (N.of_nat deg) ;;
        '(out', st) <- xof_while fuel' deg xN cv block block_len counter' flags (outblocks - N.of_nat deg) ;;
        Ok (out ++ out', st)
      else Ok ([], (counter, outblocks))
  end.

Definition xof1 (cx : cip_fn) : xofN_fn := fun cv block block_len counter flags =>
  Ok (cx cv block block_len counter flags).

(* blake3_xof_many_avx512 *)
Definition xof_many_avx512 (cx : cip_fn) (cv block : list N) (block_len counter flags outblocks : N) : res (list N) :=
  '(o16, (counter, outblocks)) <- xof_while (S (N.to_nat outblocks)) 16 xof16_avx512 cv block block_len counter flags outblocks ;;
  '(o8, (counter, outblocks)) <- xof_while (S (N.to_nat outblocks)) 8 xof8_avx512 cv block block_len counter flags outblocks ;;
  '(o4, (counter, outblocks)) <- xof_while (S (N.to_nat outblocks)) 4 xof4_avx512 cv block block_len counter flags outblocks ;;
  '(o1, _) <- xof_while (S (N.to_nat outblocks)) 1 (xof1 cx) cv block block_len counter flags outblocks ;;
  Ok (o16 ++ o8 ++ o4 ++ o1).

(* Platform::xof_many, AVX512 arm (unix): nothing for an empty output, else the C function *)
Definition xof_many_avx512_rs (cx : cip_fn) (cv block : list N) (block_len counter flags nblocks : N) : res (list N) :=
  if nblocks =? 0 then Ok [] else xof_many_avx512 cx cv block block_len counter flags nblocks.

(* Platform::xof_many, every other arm: the loop over the platform's compress_xof,
   `counter += 1` in Rust (xof_many_loop of Model/Platform.v) *)
Definition xof_many_generic (cx : cip_fn) (cv block : list N) (block_len counter flags nblocks : N) : res (list N) :=
  xof_many_loop cx cv block block_len counter flags (N.to_nat nblocks).

(* ------------------------------------------------------------------ *)
(* 9. platforms                                                        *)
(* ------------------------------------------------------------------ *)
(* The kernels above take lists where the code takes fixed-size arrays: cv/key is
   `&[u32; 8]`, the inputs of hash_many are `&[&[u8; N]]` (one common length, and the
   crate only instantiates N = BLOCK_LEN and N = CHUNK_LEN, multiples of 64).
   Arguments outside these types do not exist for the real code.  PlatformOK quantifies
   over all lists, so the platform records below give such arguments the portable
   meaning by an explicit guard; inside the types the guard is the identity and the
   vector kernel runs (KernelsP: *_guard_in). *)
Definition cv_ok (cv : list N) : bool := (length cv =? 8)%nat.
Definition inputs_ok (inputs : list (list N)) : bool :=
  forallb (fun i => (length i =? length (hd [] inputs))%nat && (Nat.modulo (length i) 64 =? 0)%nat) inputs.

Definition guard_cip (k : cip_fn) (dflt : cip_fn) : cip_fn := fun cv block bl ctr fl =>
  if cv_ok cv then k cv block bl ctr fl else dflt cv block bl ctr fl.
Definition guard_hm (extra : list (list N) -> N -> bool) (k : hash_many_fn) : hash_many_fn :=
  fun inputs key ctr incr fl fs fe cap =>
  if cv_ok key && inputs_ok inputs && extra inputs cap then k inputs key ctr incr fl fs fe cap
  else hash_many inputs key ctr incr fl fs fe cap.
Definition guard_xm (k : list N -> list N -> N -> N -> N -> N -> res (list N)) :=
  fun cv block bl ctr fl n =>
  if cv_ok cv then k cv block bl ctr fl n else portable_xof_many cv block bl ctr fl n.
Definition no_extra (_ : list (list N)) (_ : N) : bool := true.
(* the FFI wrapper's assert! is unconditional (code 101) where portable has a
   debug_assert! (code 1101): equal only when the assertion holds *)
Definition cap_ok (inputs : list (list N)) (cap : N) : bool := N.of_nat (length inputs) <=? cap.

Definition cip_rows := guard_cip compress_in_place_rows compress_in_place.
Definition cx_rows := guard_cip compress_xof_rows compress_xof.

(* pure-Rust back ends (the `pure`/intrinsics build) *)
Definition sse41_platform : platform :=
  mkPlatform rs_degree_SSE41 16 cip_rows cx_rows
    (guard_hm no_extra (hash_many_rs4 (load_counters_rs 4) compress_in_place_rows))
    (guard_xm (xof_many_generic compress_xof_rows)).
(* rust_sse2.rs differs from rust_sse41.rs only in emulating _mm_blend_epi16
   (blend_epi16_sse2, related to blend_epi16 in KernelsP for words < 2^32) *)
Definition sse2_platform : platform :=
  mkPlatform rs_degree_SSE2 16 cip_rows cx_rows
    (guard_hm no_extra (hash_many_rs4 (load_counters_rs 4) compress_in_place_rows))
    (guard_xm (xof_many_generic compress_xof_rows)).
(* rust_avx2.rs: hash8 + the SSE4.1 kernels for everything else *)
Definition avx2_platform : platform :=
  mkPlatform rs_degree_AVX2 16 cip_rows cx_rows
    (guard_hm no_extra (hash_many_rs8 (load_counters_rs 8) (load_counters_rs 4) compress_in_place_rows))
    (guard_xm (xof_many_generic compress_xof_rows)).
(* AVX-512 is always C (or assembly) behind ffi_avx512.rs *)
Definition avx512_platform : platform :=
  mkPlatform rs_degree_AVX512 16 cip_rows cx_rows
    (guard_hm cap_ok (ffi_hash_many (hash_many_c16 compress_in_place_rows)))
    (guard_xm (xof_many_avx512_rs compress_xof_rows)).

(* the C back ends / assembly behind the FFI wrappers, for the other degrees *)
Definition sse41_ffi_platform : platform :=
  mkPlatform rs_degree_SSE41 16 cip_rows cx_rows
    (guard_hm cap_ok (ffi_hash_many (hash_many_c4 (load_counters_cmp 4) compress_in_place_rows)))
    (guard_xm (xof_many_generic compress_xof_rows)).
Definition avx2_ffi_platform : platform :=
  mkPlatform rs_degree_AVX2 16 cip_rows cx_rows
    (guard_hm cap_ok (ffi_hash_many (hash_many_c8 (load_counters_cmp 8) (load_counters_cmp 4) compress_in_place_rows)))
    (guard_xm (xof_many_generic compress_xof_rows)).
