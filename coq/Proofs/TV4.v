(* test vectors, cases with index in [33, 35): evaluated inside the kernel *)
From Coq Require Import NArith List Bool.
From V Require Import Proofs.TVCommon.

Lemma tv_slice_4_ok : forallb check_case (tv_slice 33 35) = true.
Proof. vm_compute. reflexivity. Qed.
