(* C02: incremental hashing is independent of input splitting; finalize is a pure query.
   Statements only; proofs in Proofs/{StackArithP,HasherP,C02P}.v.
   K / F are the key words and mode flags of any mode (IV/0, key/KEYED_HASH,
   context key/DERIVE_KEY_MATERIAL): root_output of the mode is subtree_output at counter 0. *)
From Coq Require Import NArith List Bool.
From V Require Import Base.Res Base.Word Spec.Compress Spec.Tree Spec.Blake3 Model.Platform Model.RsChunk
  Model.RsHasher Model.RsXof Model.RsIo Model.Machine Model.SpecMachine Proofs.IoP Proofs.HasherP Proofs.C02P Proofs.MachineRefinesP.
Import ListNotations.
Open Scope N_scope.

(* the specification's root output of a mode is the counter-0 subtree with the mode's key and flags *)
Theorem C02_root_output_of_mode : forall m input,
  b3_root_output m input = subtree_output spec_c8 tree_height (mode_key m) (mode_flags m) 0 input.
Proof. reflexivity. Qed.

(* any sequence of update calls, then count / finalize / finalize_xof: exactly the concatenation *)
Theorem C02_hasher_refines : forall p, PlatformOK p -> forall K F, length K = 8%nat -> forall pieces,
  len (concat pieces) < 2 ^ 64 ->
  exists h, updates p (new_internal K F) pieces = Ok h /\
    hasher_count h = Ok (len (concat pieces)) /\
    hasher_finalize_output p h = Ok (subtree_output spec_c8 tree_height K F 0 (concat pieces)) /\
    hasher_finalize p h = Ok (stream spec_c64 (subtree_output spec_c8 tree_height K F 0 (concat pieces)) 0 32).
Proof. exact hasher_refines. Qed.

(* one update step keeps the invariant "this state has absorbed exactly bs" *)
Theorem C02_update_step : forall p, PlatformOK p -> forall K F, length K = 8%nat -> forall h bs input,
  InvS K F 0 h bs -> len (bs ++ input) < 2 ^ 64 ->
  exists h', hasher_update p h input = Ok h' /\ InvS K F 0 h' (bs ++ input).
Proof.
  intros p POK K F HK h bs input HI H. apply (InvS_update p POK K F HK 0 (c0_zero_lt) h bs input HI); [|exact H].
  rewrite lim0. apply N.lt_le_incl. exact H.
Qed.

(* call histories over any number of instances: update / clone / finalize / finalize_xof / count /
   reset / new in any order give exactly the observations of the abstract machine that keeps one
   byte list per instance (finalize* and count leave every state unchanged; clones are independent) *)
Theorem C02_history_refines : forall p, PlatformOK p -> forall K F, length K = 8%nat ->
  forall pn m ops hs rs vs abs obs,
  Forall2 (InvS K F 0) hs abs -> arun_h K F abs ops = Some obs ->
  run_ops p pn m K F (mkState hs rs vs) (map hop_op ops) [] = (obs, Ok tt).
Proof. exact history_refines. Qed.

Theorem C02_new_is_empty : forall p, PlatformOK p -> forall K F, length K = 8%nat ->
  InvS K F 0 (new_internal K F) [].
Proof. exact new_internal_Inv. Qed.

(* non-vacuity: a concrete history on a concrete platform *)
Example C02_nonvacuous :
  let p := sim_platform 4 16 in
  let pieces := [map N.of_nat (seq 0 100); repeat 7 3000; []; repeat 9 1025] in
  exists h, updates p (new_internal IV 0) pieces = Ok h /\ hasher_count h = Ok 4125 /\
            length (h_stack h) = 1%nat.
Proof. cbv zeta. eexists. split; [vm_compute; reflexivity|]. split; vm_compute; reflexivity. Qed.

(* the functions of the modelled source are exactly the functions the model was written against
   (gen/GenApi.v is regenerated from /repo on every run; see Model/ApiSurface.v) *)
From V Require gen.GenApi Model.ApiSurface.
Theorem C02_api_lib_core : GenApi.api_lib_core = ApiSurface.expected_lib_core.
Proof. reflexivity. Qed.

Print Assumptions C02_api_lib_core.
Print Assumptions C02_root_output_of_mode.
(* END TO END, over the whole case language: whenever the specification-only machine (Model/SpecMachine.v: one byte
   list + input offset per hasher, (root output, position) per reader, nothing but Spec/) accepts a history of
   new / update / write / finalize / finalize_xof / count / clone / reset / set_input_offset / finalize_non_root /
   one-shot functions / merge_subtrees_* / hash_derive_key_context / OutputReader fill, read, position, set_position,
   seek, clone / RustCrypto trait operations, over any number of hasher and reader instances, the implementation
   machine produces exactly the same observations and does not panic, on every PlatformOK platform *)
Theorem C02_machine_refines_spec : forall p, PlatformOK p -> forall pname m ops obs,
  mode_ok m -> spec_run_case m ops = Some obs -> Machine.run_case p pname m ops = (obs, Ok tt).
Proof. exact machine_refines_spec. Qed.

Print Assumptions C02_hasher_refines.
Print Assumptions C02_machine_refines_spec.
Print Assumptions C02_update_step.
Print Assumptions C02_history_refines.
Print Assumptions C02_new_is_empty.
Print Assumptions C02_nonvacuous.

(* ---- the model against the source text: the small functions of src/lib.rs -----------------------------
   gen/GenLibSmall.v is the text of struct Output / ChunkState, Output::chaining_value / root_hash /
   root_output_block, ChunkState::new / start_flag, parent_node_output, Hasher::new_internal (src/lib.rs) and
   platform::le_bytes_from_words_32 (src/platform.rs), translated statement by statement (tools/gen_coq.py
   gen_lib_small): which platform function is called with which arguments (cv, block, block_len, counter,
   flags | ROOT), block = left ++ right, BLOCK_LEN, counter 0, flags | PARENT are the source's.  Each equals the
   definition of Model/RsChunk.v (or the specification's parent_output the models use), for all arguments; the
   source's records carry the platform, which the models pass separately. *)
From V Require Import Base.Arr gen.GenLibSmall Proofs.GenLibSmallP.

Theorem C02_lib_src_records : forall cv block bl ctr fl p buf buf_len blocks,
  out_of_lib (lib_Output_mk cv block bl ctr fl p) = mkOutput cv block bl ctr fl /\
  cs_of_lib (lib_ChunkState_mk cv ctr buf buf_len blocks fl p) = mkCS cv ctr buf buf_len blocks fl.
Proof. intros. split; reflexivity. Qed.
Print Assumptions C02_lib_src_records.

Theorem C02_lib_src_le_bytes_from_words_32 : forall words, length words = 8%nat ->
  lib_le_bytes_from_words_32 words = bytes_of_words words.
Proof. exact lib_le_bytes_from_words_32_eq. Qed.
Print Assumptions C02_lib_src_le_bytes_from_words_32.

Theorem C02_lib_src_output_chaining_value : forall o,
  PlatformOK (lib_Output_platform o) -> length (lib_Output_input_chaining_value o) = 8%nat ->
  lib_Output_chaining_value o = out_chaining_value (lib_Output_platform o) (out_of_lib o).
Proof. exact lib_Output_chaining_value_eq. Qed.
Print Assumptions C02_lib_src_output_chaining_value.

(* the model's assert 1300 is the source's debug_assert_eq!(self.counter, 0) *)
Theorem C02_lib_src_output_root_hash : forall o,
  PlatformOK (lib_Output_platform o) -> length (lib_Output_input_chaining_value o) = 8%nat ->
  out_root_hash (lib_Output_platform o) (out_of_lib o) =
  if lib_Output_root_hash_debug_assert o then Ok (lib_Output_root_hash o) else Panic 1300.
Proof. exact lib_Output_root_hash_eq. Qed.
Print Assumptions C02_lib_src_output_root_hash.

Theorem C02_lib_src_output_root_output_block : forall o,
  lib_Output_root_output_block o = out_root_output_block (lib_Output_platform o) (out_of_lib o).
Proof. exact lib_Output_root_output_block_eq. Qed.
Print Assumptions C02_lib_src_output_root_output_block.

Theorem C02_lib_src_chunk_state_new : forall key chunk_counter flags p,
  cs_of_lib (lib_ChunkState_new key chunk_counter flags p) = cs_new key chunk_counter flags /\
  lib_ChunkState_platform (lib_ChunkState_new key chunk_counter flags p) = p.
Proof. exact lib_ChunkState_new_eq. Qed.
Print Assumptions C02_lib_src_chunk_state_new.

Theorem C02_lib_src_chunk_state_start_flag : forall c,
  lib_ChunkState_start_flag c = Ok (cs_start_flag (cs_of_lib c)).
Proof. exact lib_ChunkState_start_flag_eq. Qed.
Print Assumptions C02_lib_src_chunk_state_start_flag.

Theorem C02_lib_src_parent_node_output : forall left_child right_child key flags p,
  length left_child = 32%nat -> length right_child = 32%nat ->
  out_of_lib (lib_parent_node_output left_child right_child key flags p) = parent_output key flags left_child right_child /\
  lib_Output_platform (lib_parent_node_output left_child right_child key flags p) = p.
Proof. exact lib_parent_node_output_eq. Qed.
Print Assumptions C02_lib_src_parent_node_output.

(* Hasher::new_internal; the platform Platform::detect() returns is a parameter of the translation (the models take
   the platform as an argument of every operation); cv_stack: ArrayVec::new() is the empty stack *)
Theorem C02_lib_src_hasher_new_internal : forall key flags p,
  hasher_of_lib (lib_Hasher_new_internal key flags p) = new_internal key flags /\
  lib_ChunkState_platform (lib_Hasher_chunk_state (lib_Hasher_new_internal key flags p)) = p.
Proof. exact lib_Hasher_new_internal_eq. Qed.
Print Assumptions C02_lib_src_hasher_new_internal.
