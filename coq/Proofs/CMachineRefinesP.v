(* The two interpreters of the C case language agree: whenever the SPECIFICATION machine
   (Model/CSpecMachine.v: one byte list + trace per blake3_hasher; Spec/*.v only) accepts a
   history, the IMPLEMENTATION machine (Model/CHasher.v: c_run_case, built from the executable
   model of c/blake3.c) produces exactly the same observations and does not panic, on every
   PlatformOK platform (= every feature level the C dispatcher can select).  Proved by a
   simulation relation (Forall2 of: CInv K F h bytes, and h is the replay of the trace from the
   initialiser's struct) and one step lemma per op, reusing Proofs/CHasherP4.v.
   The same histories restricted to new / update / finalize(n) / reset give the same
   observations as the Rust machine (Model/Machine.v) on the corresponding ops. *)
From V Require Import Proofs.ListP.
From V Require Import Base.Res Base.Word Base.MachInt gen.GenConsts gen.GenFormulas
  Spec.Compress Spec.Tree Spec.Blake3 Model.Portable Model.Platform Model.RsChunk Model.RsWide Model.RsXof
  Model.CHasher Model.CSpecMachine Model.Machine Model.SpecMachine
  Proofs.PortableP Proofs.ChunkP Proofs.TreeP Proofs.FormulasP Proofs.WideP Proofs.C01P Proofs.XofP
  Proofs.StackArithP Proofs.HasherP Proofs.CFormulasP Proofs.CHasherP Proofs.CHasherP2 Proofs.CHasherP3 Proofs.CHasherP4
  Proofs.C02P Proofs.MachineRefinesP.
Open Scope N_scope.

(* the domain of a mode: a keyed hash has a 32-byte key, a context string is shorter than 2^64 *)
Definition c_mode_ok (m : c_mode) : Prop :=
  match m with
  | CMHash => True
  | CMKeyed k => length k = 32%nat
  | CMDerive c | CMDeriveRaw c => len c < 2 ^ 64
  end.

Definition ckey (m : c_mode) : list N := mode_key (c_spec_mode m).
Definition cflags (m : c_mode) : N := mode_flags (c_spec_mode m).

(* ---- list helpers ---------------------------------------------------------------------------- *)
Lemma c_get_nth (l : list c_hasher) i x : nth_error l i = Some x -> c_get l i = Ok x.
Proof. unfold c_get. intros ->. reflexivity. Qed.

Lemma Forall2_nth_r {A B} (R : A -> B -> Prop) l1 l2 i y :
  Forall2 R l1 l2 -> nth_error l2 i = Some y -> exists x, nth_error l1 i = Some x /\ R x y.
Proof.
  intros H. revert i. induction H as [|a b l1 l2 Hab H IH]; intros i Hi; [destruct i; discriminate|].
  destruct i as [|i]; cbn [nth_error] in *; [injection Hi as <-; eauto|auto].
Qed.

Lemma Forall2_upd_nth {A B} (R : A -> B -> Prop) l1 l2 i x y :
  Forall2 R l1 l2 -> R x y -> Forall2 R (upd_nth i x l1) (upd_nth i y l2).
Proof.
  intros H Hxy. revert i. induction H as [|a b l1 l2 Hab H IH]; intros i; [destruct i; constructor|].
  destruct i as [|i]; cbn [upd_nth]; constructor; auto.
Qed.

Lemma Forall2_snoc_r {A B} (R : A -> B -> Prop) l1 l2 x y :
  Forall2 R l1 l2 -> R x y -> Forall2 R (l1 ++ [x]) (l2 ++ [y]).
Proof. intros H Hxy. apply Forall2_app; [exact H|constructor; [exact Hxy|constructor]]. Qed.

Lemma upd_nth_same {A} (l : list A) i x : nth_error l i = Some x -> upd_nth i x l = l.
Proof.
  revert i. induction l as [|y l IH]; intros i H; [destruct i; reflexivity|].
  destruct i as [|i]; cbn [nth_error upd_nth] in *; [injection H as ->; reflexivity|].
  rewrite (IH i H). reflexivity.
Qed.

Lemma list_eqb_eq {A} (eqb : A -> A -> bool) : (forall x y, eqb x y = true -> x = y) ->
  forall a b, list_eqb eqb a b = true -> a = b.
Proof.
  intros H. induction a as [|x a IH]; intros [|y b] E; cbn [list_eqb] in E; try discriminate; [reflexivity|].
  apply andb_true_iff in E. destruct E as [E1 E2]. rewrite (H x y E1), (IH b E2). reflexivity.
Qed.

Lemma c_ev_eqb_eq a b : c_ev_eqb a b = true -> a = b.
Proof.
  destruct a as [x|], b as [y|]; cbn [c_ev_eqb]; intros E; try discriminate; [|reflexivity].
  rewrite (list_eqb_eq N.eqb (fun u v Huv => proj1 (N.eqb_eq u v) Huv) x y E). reflexivity.
Qed.

Lemma c_trace_eqb_eq a b : list_eqb c_ev_eqb a b = true -> a = b.
Proof. apply list_eqb_eq. exact c_ev_eqb_eq. Qed.

(* ---- strlen of the NUL-terminated copy --------------------------------------------------------- *)
Lemma c_str_prefix_nz c : Forall (fun b => b <> 0) (c_str_prefix c).
Proof.
  induction c as [|b c IH]; cbn [c_str_prefix]; [constructor|].
  destruct (b =? 0) eqn:E; [constructor|]. constructor; [lia|exact IH].
Qed.

Lemma c_str_prefix_len c : len (c_str_prefix c) <= len c.
Proof.
  unfold len. induction c as [|b c IH]; cbn [c_str_prefix]; [lia|].
  destruct (b =? 0); cbn [length]; lia.
Qed.

Lemma c_str_prefix_split c : exists rest, c ++ [0] = c_str_prefix c ++ 0 :: rest.
Proof.
  induction c as [|b c [rest IH]]; cbn [c_str_prefix app]; [exists []; reflexivity|].
  destruct (b =? 0) eqn:E.
  - exists (c ++ [0]). replace b with 0 by lia. reflexivity.
  - exists rest. cbn [app]. rewrite IH. reflexivity.
Qed.

(* ---- replaying a trace of state-changing calls on a struct ---------------------------------------- *)
Fixpoint c_replay (p : platform) (h : c_hasher) (tr : list c_ev) : res c_hasher :=
  match tr with
  | [] => Ok h
  | CEvUpdate b :: tl => h' <- c_hasher_update p h b ;; c_replay p h' tl
  | CEvReset :: tl => c_replay p (c_hasher_reset h) tl
  end.

Lemma c_replay_app p : forall tr1 tr2 h0 h,
  c_replay p h0 tr1 = Ok h -> c_replay p h0 (tr1 ++ tr2) = c_replay p h tr2.
Proof.
  induction tr1 as [|e tr1 IH]; intros tr2 h0 h H.
  - cbn [c_replay app] in *. injection H as ->. reflexivity.
  - destruct e as [b|]; cbn [c_replay app] in *.
    + destruct (c_hasher_update p h0 b) as [h'| |]; cbn [bind] in *; try discriminate.
      apply IH. exact H.
    + apply IH. exact H.
Qed.

(* ---- the modes ---------------------------------------------------------------------------------- *)
Section Modes.
  Variable p : platform.
  Hypothesis POK : PlatformOK p.
  Local Opaque subtree_output stream.

  Lemma ckey_length m : c_mode_ok m -> length (ckey m) = 8%nat.
  Proof.
    destruct m as [|k|c|c]; cbn [c_mode_ok ckey c_spec_mode mode_key]; intros H.
    - reflexivity.
    - apply words_of_bytes_length. rewrite H. reflexivity.
    - exact (derive_key_len (c_str_prefix c)).
    - exact (derive_key_len c).
  Qed.

  (* every initialiser produces hasher_init_base over the driver's memory with the mode's key words and
     flags *)
  Lemma c_new_hasher_spec m : c_mode_ok m ->
    c_new_hasher p m = Ok (c_hasher_init_base c_mem_cd (ckey m) (cflags m)).
  Proof.
    destruct m as [|k|c|c]; cbn [c_mode_ok c_new_hasher]; intros H.
    - reflexivity.
    - exact (proj1 (c_init_keyed_spec c_mem_cd k H)).
    - destruct (c_str_prefix_split c) as [rest Hs]. rewrite Hs.
      rewrite (c_derive_key_agree p c_mem_cd (c_str_prefix c) rest (c_str_prefix_nz c)).
      pose proof (c_str_prefix_len c) as Hl.
      exact (c_init_derive_key_raw_spec p POK c_mem_cd (c_str_prefix c) ltac:(lia)).
    - exact (c_init_derive_key_raw_spec p POK c_mem_cd c H).
  Qed.
End Modes.

(* ---- one step of the machines -------------------------------------------------------------------- *)
Section Steps.
  Variable p : platform.
  Hypothesis POK : PlatformOK p.
  Variable m : c_mode.
  Hypothesis Hm : c_mode_ok m.
  Local Opaque subtree_output stream.

  Notation K := (ckey m).
  Notation F := (cflags m).

  Lemma CHK : length K = 8%nat.
  Proof. apply ckey_length. exact Hm. Qed.

  (* the struct every initialiser call of the case produces *)
  Definition c_h0 : c_hasher := c_hasher_init_base c_mem_cd K F.

  (* h has absorbed exactly ci_bytes, and h is what the traced calls make of the initialiser's struct *)
  Definition CRh (h : c_hasher) (x : c_sinst) : Prop :=
    CInv K F h (ci_bytes x) /\ c_replay p c_h0 (ci_trace x) = Ok h.

  Definition CSim (hs : list c_hasher) (ss : list c_sinst) : Prop := Forall2 CRh hs ss.

  Lemma CRh_new : CRh c_h0 (mkCI [] []).
  Proof. split; [apply (CInv_init p POK K F CHK c_mem_cd eq_refl)|reflexivity]. Qed.

  Lemma c_root_out_eq bs : c_root_out m bs = subtree_output spec_c8 tree_height K F 0 bs.
  Proof. reflexivity. Qed.

  Lemma csim_update h x b : CRh h x -> len (ci_bytes x) + len b < 2 ^ 64 ->
    exists h', c_hasher_update p h b = Ok h' /\
               CRh h' (mkCI (ci_bytes x ++ b) (c_trace_update (ci_trace x) b)).
  Proof.
    intros [HI HT] Hl.
    destruct (c_hasher_update_spec p POK K F CHK h (ci_bytes x) b HI) as (h' & Hu & HI').
    { rewrite len_app. exact Hl. }
    exists h'. split; [exact Hu|]. split; [exact HI'|]. cbn [ci_trace].
    destruct b as [|b0 b]; cbn [c_trace_update].
    - change (c_hasher_update p h []) with (Ok h) in Hu. injection Hu as <-. exact HT.
    - rewrite (c_replay_app p _ [CEvUpdate (b0 :: b)] _ _ HT). cbn [c_replay]. rewrite Hu. reflexivity.
  Qed.

  Lemma csim_reset h x : CRh h x -> CRh (c_hasher_reset h) (mkCI [] (ci_trace x ++ [CEvReset])).
  Proof.
    intros [HI HT]. split; [apply (CInv_reset p POK K F CHK h _ HI)|].
    cbn [ci_trace]. rewrite (c_replay_app p _ [CEvReset] _ _ HT). reflexivity.
  Qed.

  Lemma csim_finalize_seek h x seek n : CRh h x -> seek + n <= 2 ^ 64 - 1 ->
    c_hasher_finalize_seek p h seek n = Ok (stream spec_c64 (c_root_out m (ci_bytes x)) seek (N.to_nat n)).
  Proof.
    intros [HI _] Hn. rewrite c_root_out_eq. apply (c_finalize_seek_spec p POK K F CHK h _ seek n HI Hn).
  Qed.

  Lemma csim_same a b x y : CRh a x -> CRh b y -> list_eqb c_ev_eqb (ci_trace x) (ci_trace y) = true ->
    c_hasher_eqb a b = true.
  Proof.
    intros [_ Ha] [_ Hb] E. apply c_trace_eqb_eq in E. rewrite E in Ha. rewrite Ha in Hb. injection Hb as <-.
    apply c_hasher_eqb_refl.
  Qed.

  Lemma c_fin0 h : c_hasher_finalize p h 0 = Ok [].
  Proof. reflexivity. Qed.
  Lemma c_fins0 h seek : c_hasher_finalize_seek p h seek 0 = Ok [].
  Proof. reflexivity. Qed.
  Lemma c_upd0 h : c_hasher_update p h [] = Ok h.
  Proof. reflexivity. Qed.

  Definition c_step_ok (o : c_op) : Prop := forall hs ss ss' out,
    CSim hs ss -> c_sstep m ss o = Some (ss', out) ->
    exists hs', c_step p m hs o = Ok (hs', out) /\ CSim hs' ss'.

  Ltac cstart := intros hs ss ss' out HH Hs; unfold CSim in *; cbn [c_sstep c_step] in *.

  Ltac cget i x h En Hn HR :=
    match goal with
    | HH : Forall2 CRh _ ?ss, Hs : _ = Some _ |- _ =>
        revert Hs; destruct (nth_error ss i) as [x|] eqn:En; [|discriminate]; intros Hs;
        destruct (Forall2_nth_r _ _ _ _ _ HH En) as (h & Hn & HR);
        rewrite (c_get_nth _ _ _ Hn), bind_ret
    end.

  Lemma cstep_new : c_step_ok COpNew.
  Proof.
    cstart. injection Hs as <- <-. rewrite (c_new_hasher_spec p POK m Hm), bind_ret.
    eexists. split; [reflexivity|]. apply Forall2_snoc_r; [exact HH|exact CRh_new].
  Qed.

  Lemma cstep_update i b : c_step_ok (COpUpdate i b).
  Proof.
    cstart. cget i x h En Hn HR.
    destruct (len (ci_bytes x) + len b <? 2 ^ 64) eqn:El; [|discriminate]. apply N.ltb_lt in El.
    injection Hs as <- <-.
    destruct (csim_update h x b HR El) as (h' & Hu & HR'). rewrite Hu, bind_ret.
    eexists. split; [reflexivity|]. apply Forall2_upd_nth; assumption.
  Qed.

  Lemma cstep_update0 i : c_step_ok (COpUpdate0 i).
  Proof.
    cstart. cget i x h En Hn HR. injection Hs as <- <-. rewrite c_upd0, bind_ret.
    rewrite (upd_nth_same _ _ _ Hn). eexists. split; [reflexivity|exact HH].
  Qed.

  Lemma cstep_finalize i n : c_step_ok (COpFinalize i n).
  Proof.
    cstart. cget i x h En Hn HR.
    destruct (n <=? c_max_position) eqn:El; [|discriminate]. apply N.leb_le in El. unfold c_max_position in El.
    injection Hs as <- <-. unfold c_hasher_finalize.
    rewrite (csim_finalize_seek h x 0 n HR ltac:(lia)), bind_ret.
    eexists. split; [reflexivity|exact HH].
  Qed.

  Lemma cstep_finalize_seek i seek n : c_step_ok (COpFinalizeSeek i seek n).
  Proof.
    cstart. cget i x h En Hn HR.
    destruct (seek + n <=? c_max_position) eqn:El; [|discriminate]. apply N.leb_le in El. unfold c_max_position in El.
    injection Hs as <- <-.
    rewrite (csim_finalize_seek h x seek n HR El), bind_ret.
    eexists. split; [reflexivity|exact HH].
  Qed.

  Lemma cstep_finalize0 i : c_step_ok (COpFinalize0 i).
  Proof.
    cstart. cget i x h En Hn HR. injection Hs as <- <-.
    rewrite c_fin0, bind_ret, c_fins0, bind_ret.
    eexists. split; [reflexivity|exact HH].
  Qed.

  Lemma cstep_reset i : c_step_ok (COpReset i).
  Proof.
    cstart. cget i x h En Hn HR. injection Hs as <- <-.
    eexists. split; [reflexivity|]. apply Forall2_upd_nth; [exact HH|]. apply csim_reset. exact HR.
  Qed.

  Lemma cstep_clone i : c_step_ok (COpClone i).
  Proof.
    cstart. cget i x h En Hn HR. injection Hs as <- <-.
    eexists. split; [reflexivity|]. apply Forall2_snoc_r; assumption.
  Qed.

  Lemma cstep_cmp i j : c_step_ok (COpCmp i j).
  Proof.
    cstart. cget i x a En Hn HR.
    revert Hs. destruct (nth_error ss j) as [y|] eqn:En2; [|discriminate]. intros Hs.
    destruct (Forall2_nth_r _ _ _ _ _ HH En2) as (b & Hn2 & HR2).
    rewrite (c_get_nth _ _ _ Hn2), bind_ret.
    destruct (list_eqb c_ev_eqb (ci_trace x) (ci_trace y)) eqn:E; [|discriminate]. injection Hs as <- <-.
    rewrite (csim_same a b x y HR HR2 E).
    eexists. split; [reflexivity|exact HH].
  Qed.

  Theorem c_step_refines_spec o : c_step_ok o.
  Proof.
    destruct o.
    - apply cstep_new.
    - apply cstep_update.
    - apply cstep_update0.
    - apply cstep_finalize.
    - apply cstep_finalize_seek.
    - apply cstep_finalize0.
    - apply cstep_reset.
    - apply cstep_clone.
    - apply cstep_cmp.
  Qed.

  Lemma c_run_ops_acc : forall ops st acc,
    c_run_ops p m st ops acc = (rev acc ++ fst (c_run_ops p m st ops []), snd (c_run_ops p m st ops [])).
  Proof.
    induction ops as [|o ops IH]; intros st acc.
    - cbn [c_run_ops rev fst snd]. rewrite app_nil_r. reflexivity.
    - cbn [c_run_ops]. destruct (c_step p m st o) as [[st' out]| |].
      + rewrite (IH st' (rev out ++ acc)), (IH st' (rev out ++ [])). cbn [fst snd].
        rewrite !app_nil_r, rev_app_distr, !rev_involutive, <- app_assoc. reflexivity.
      + cbn [fst snd rev]. rewrite app_nil_r. reflexivity.
      + cbn [fst snd rev]. rewrite app_nil_r. reflexivity.
  Qed.

  (* any history from related states *)
  Theorem c_run_refines_spec : forall ops hs ss obs,
    CSim hs ss -> c_srun m ss ops = Some obs -> c_run_ops p m hs ops [] = (obs, Ok tt).
  Proof.
    induction ops as [|o ops IH]; intros hs ss obs HS Hr.
    - cbn [c_srun c_run_ops rev] in *. injection Hr as <-. reflexivity.
    - cbn [c_srun c_run_ops] in *.
      destruct (c_sstep m ss o) as [[ss' out]|] eqn:Es; [|discriminate].
      destruct (c_srun m ss' ops) as [rest|] eqn:Er; [|discriminate]. injection Hr as <-.
      destruct (c_step_refines_spec o hs ss ss' out HS Es) as (hs' & Hst & HS').
      rewrite Hst. rewrite c_run_ops_acc. rewrite (IH hs' ss' rest HS' Er). cbn [fst snd].
      rewrite app_nil_r, rev_involutive. reflexivity.
  Qed.

  Lemma CSim_init : CSim [c_h0] [mkCI [] []].
  Proof. constructor; [exact CRh_new|constructor]. Qed.
End Steps.

(* ---- the two machines ------------------------------------------------------------------------------ *)
Theorem c_machine_refines_spec : forall p, PlatformOK p -> forall m ops obs,
  c_mode_ok m -> c_spec_run_case m ops = Some obs -> c_run_case p m ops = (obs, Ok tt).
Proof.
  intros p POK m ops obs Hm Hs. unfold c_run_case. rewrite (c_new_hasher_spec p POK m Hm).
  apply (c_run_refines_spec p POK m Hm ops _ _ obs (CSim_init p POK m Hm) Hs).
Qed.

(* consequences: the model of the C library never leaves an array, fires an assert or wraps an integer on a
   history the specification accepts, and its observations do not depend on the dispatcher's feature level *)
Corollary c_machine_no_panic : forall p, PlatformOK p -> forall m ops obs,
  c_mode_ok m -> c_spec_run_case m ops = Some obs -> snd (c_run_case p m ops) = Ok tt.
Proof. intros p POK m ops obs Hm Hs. rewrite (c_machine_refines_spec p POK m ops obs Hm Hs). reflexivity. Qed.

Corollary c_machine_platform_independent : forall p1 p2, PlatformOK p1 -> PlatformOK p2 -> forall m ops obs,
  c_mode_ok m -> c_spec_run_case m ops = Some obs -> c_run_case p1 m ops = c_run_case p2 m ops.
Proof.
  intros p1 p2 P1 P2 m ops obs Hm Hs.
  rewrite (c_machine_refines_spec p1 P1 m ops obs Hm Hs), (c_machine_refines_spec p2 P2 m ops obs Hm Hs). reflexivity.
Qed.

(* ---- the C machine and the Rust machine ---------------------------------------------------------------
   Histories of new / update / finalize(n) / reset exist in both case languages (finalize(n) is
   finalize_xof + fill(n) on the Rust side): both implementation machines produce the same output bytes,
   because both equal their specification machines and those agree on this fragment. *)
Definition c_to_rs_mode (m : c_mode) : mmode :=
  match m with
  | CMHash => MHash
  | CMKeyed k => MKeyed k
  | CMDerive c => MDerive (c_str_prefix c)
  | CMDeriveRaw c => MDerive c
  end.

Definition c_to_rs_op (o : c_op) : option op :=
  match o with
  | COpNew => Some OpNew
  | COpUpdate i b => Some (OpUpdate i b)
  | COpFinalize i n => Some (OpXof i n)
  | COpReset i => Some (OpReset i)
  | _ => None
  end.

Fixpoint c_to_rs_ops (l : list c_op) : option (list op) :=
  match l with
  | [] => Some []
  | o :: tl => match c_to_rs_op o, c_to_rs_ops tl with
               | Some o', Some tl' => Some (o' :: tl')
               | _, _ => None
               end
  end.

Lemma c_to_rs_mode_ok m : c_mode_ok m -> mode_ok (c_to_rs_mode m).
Proof.
  destruct m as [|k|c|c]; cbn [c_mode_ok c_to_rs_mode mode_ok]; intros H; try exact H.
  pose proof (c_str_prefix_len c). lia.
Qed.

Lemma c_to_rs_spec_mode m : spec_mode (c_to_rs_mode m) = c_spec_mode m.
Proof. destruct m; reflexivity. Qed.

Section Rust.
  Variable m : c_mode.
  Local Opaque subtree_output stream.

  Definition c_to_rs_inst (x : c_sinst) : sinst := mkSI (ci_bytes x) 0.
  Definition c_to_rs_state (ss : list c_sinst) : sstate := mkSS (map c_to_rs_inst ss) [] [].

  Lemma sub_out_c bs : sub_out (c_to_rs_mode m) 0 bs = c_root_out m bs.
  Proof. unfold sub_out, c_root_out. rewrite c_to_rs_spec_mode. reflexivity. Qed.

  Lemma map_upd_nth {A B} (f : A -> B) i x l : map f (upd_nth i x l) = set_nth (map f l) i (f x).
  Proof.
    revert i. induction l as [|y l IH]; intros i; [destruct i; reflexivity|].
    destruct i as [|i]; cbn [upd_nth set_nth map]; [reflexivity|]. rewrite IH. reflexivity.
  Qed.

  Lemma c_sstep_rs co o ss ss' out :
    c_to_rs_op co = Some o -> c_sstep m ss co = Some (ss', out) ->
    exists outs, out = map CObXof outs /\
      sstep (c_to_rs_mode m) (c_to_rs_state ss) o = Some (c_to_rs_state ss', map ObXof outs).
  Proof.
    intros Ho Hs. destruct co as [|i b|i|i n|i s n|i|i|i|i j]; cbn [c_to_rs_op] in Ho; try discriminate;
      injection Ho as <-; cbn [c_sstep] in Hs; unfold sstep, snth, c_to_rs_state; cbn [ss_h ss_r ss_v].
    - injection Hs as <- <-. exists []. split; [reflexivity|]. rewrite map_app. reflexivity.
    - rewrite nth_error_map. destruct (nth_error ss i) as [x|]; [|discriminate]. cbn [option_map c_to_rs_inst si_off si_bytes room].
      destruct (len (ci_bytes x) + len b <? 2 ^ 64); [|discriminate]. injection Hs as <- <-.
      exists []. split; [reflexivity|]. rewrite map_upd_nth. reflexivity.
    - rewrite nth_error_map. destruct (nth_error ss i) as [x|]; [|discriminate]. cbn [option_map c_to_rs_inst si_off si_bytes].
      change (0 =? 0) with true. cbn [andb]. change max_position with c_max_position.
      destruct (n <=? c_max_position); [|discriminate]. injection Hs as <- <-.
      eexists [_]. split; [reflexivity|]. rewrite sub_out_c. reflexivity.
    - rewrite nth_error_map. destruct (nth_error ss i) as [x|]; [|discriminate]. cbn [option_map]. injection Hs as <- <-.
      exists []. split; [reflexivity|]. rewrite map_upd_nth. reflexivity.
  Qed.

  Lemma c_srun_rs : forall cops ops ss obs,
    c_to_rs_ops cops = Some ops -> c_srun m ss cops = Some obs ->
    exists outs, obs = map CObXof outs /\ srun (c_to_rs_mode m) (c_to_rs_state ss) ops = Some (map ObXof outs).
  Proof.
    induction cops as [|co cops IH]; intros ops ss obs Ho Hr.
    - cbn [c_to_rs_ops c_srun] in *. injection Ho as <-. injection Hr as <-. exists []. split; reflexivity.
    - cbn [c_to_rs_ops c_srun] in *.
      destruct (c_to_rs_op co) as [o|] eqn:Eo; [|discriminate].
      destruct (c_to_rs_ops cops) as [tl|] eqn:Et; [|discriminate]. injection Ho as <-.
      destruct (c_sstep m ss co) as [[ss' out]|] eqn:Es; [|discriminate].
      destruct (c_srun m ss' cops) as [rest|] eqn:Er; [|discriminate]. injection Hr as <-.
      destruct (c_sstep_rs co o ss ss' out Eo Es) as (o1 & -> & Hs1).
      destruct (IH tl ss' rest eq_refl Er) as (o2 & -> & Hs2).
      exists (o1 ++ o2). split; [rewrite map_app; reflexivity|].
      cbn [srun]. rewrite Hs1, Hs2, map_app. reflexivity.
  Qed.
End Rust.

Theorem c_machine_equals_rust : forall p1 p2, PlatformOK p1 -> PlatformOK p2 -> forall pname m cops ops obs,
  c_mode_ok m -> c_to_rs_ops cops = Some ops -> c_spec_run_case m cops = Some obs ->
  exists outs, c_run_case p1 m cops = (map CObXof outs, Ok tt) /\
               run_case p2 pname (c_to_rs_mode m) ops = (map ObXof outs, Ok tt).
Proof.
  intros p1 p2 P1 P2 pname m cops ops obs Hm Ho Hs.
  destruct (c_srun_rs m cops ops _ obs Ho Hs) as (outs & -> & Hr).
  exists outs. split; [exact (c_machine_refines_spec p1 P1 m cops _ Hm Hs)|].
  exact (machine_refines_spec p2 P2 pname (c_to_rs_mode m) ops _ (c_to_rs_mode_ok m Hm) Hr).
Qed.
