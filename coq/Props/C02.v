(* C02: incremental hashing is independent of input splitting; finalize is a pure query.
   Statements only; proofs in Proofs/{StackArithP,HasherP,C02P}.v.
   K / F are the key words and mode flags of any mode (IV/0, key/KEYED_HASH,
   context key/DERIVE_KEY_MATERIAL): root_output of the mode is subtree_output at counter 0. *)
From Coq Require Import NArith List Bool.
From V Require Import Base.Res Base.Word Spec.Compress Spec.Tree Spec.Blake3 Model.Platform Model.RsChunk
  Model.RsHasher Model.RsXof Model.RsIo Model.Machine Model.SpecMachine Proofs.IoP Proofs.HasherP Proofs.C02P Proofs.MachineRefinesP.
Import ListNotations.
Open Scope N_scope.

(* the specification's root output of a mode is the counter-0 subtree with the mode's key and flags *)
Theorem C02_root_output_of_mode : forall m input,
  b3_root_output m input = subtree_output spec_c8 tree_height (mode_key m) (mode_flags m) 0 input.
Proof. reflexivity. Qed.

(* any sequence of update calls, then count / finalize / finalize_xof: exactly the concatenation *)
Theorem C02_hasher_refines : forall p, PlatformOK p -> forall K F, length K = 8%nat -> forall pieces,
  len (concat pieces) < 2 ^ 64 ->
  exists h, updates p (new_internal K F) pieces = Ok h /\
    hasher_count h = Ok (len (concat pieces)) /\
    hasher_finalize_output p h = Ok (subtree_output spec_c8 tree_height K F 0 (concat pieces)) /\
    hasher_finalize p h = Ok (stream spec_c64 (subtree_output spec_c8 tree_height K F 0 (concat pieces)) 0 32).
Proof. exact hasher_refines. Qed.

(* one update step keeps the invariant "this state has absorbed exactly bs" *)
Theorem C02_update_step : forall p, PlatformOK p -> forall K F, length K = 8%nat -> forall h bs input,
  InvS K F 0 h bs -> len (bs ++ input) < 2 ^ 64 ->
  exists h', hasher_update p h input = Ok h' /\ InvS K F 0 h' (bs ++ input).
Proof.
  intros p POK K F HK h bs input HI H. apply (InvS_update p POK K F HK 0 (c0_zero_lt) h bs input HI); [|exact H].
  rewrite lim0. apply N.lt_le_incl. exact H.
Qed.

(* call histories over any number of instances: update / clone / finalize / finalize_xof / count /
   reset / new in any order give exactly the observations of the abstract machine that keeps one
   byte list per instance (finalize* and count leave every state unchanged; clones are independent) *)
Theorem C02_history_refines : forall p, PlatformOK p -> forall K F, length K = 8%nat ->
  forall pn m ops hs rs vs abs obs,
  Forall2 (InvS K F 0) hs abs -> arun_h K F abs ops = Some obs ->
  run_ops p pn m K F (mkState hs rs vs) (map hop_op ops) [] = (obs, Ok tt).
Proof. exact history_refines. Qed.

Theorem C02_new_is_empty : forall p, PlatformOK p -> forall K F, length K = 8%nat ->
  InvS K F 0 (new_internal K F) [].
Proof. exact new_internal_Inv. Qed.

(* non-vacuity: a concrete history on a concrete platform *)
Example C02_nonvacuous :
  let p := sim_platform 4 16 in
  let pieces := [map N.of_nat (seq 0 100); repeat 7 3000; []; repeat 9 1025] in
  exists h, updates p (new_internal IV 0) pieces = Ok h /\ hasher_count h = Ok 4125 /\
            length (h_stack h) = 1%nat.
Proof. cbv zeta. eexists. split; [vm_compute; reflexivity|]. split; vm_compute; reflexivity. Qed.

(* the functions of the modelled source are exactly the functions the model was written against
   (gen/GenApi.v is regenerated from /repo on every run; see Model/ApiSurface.v) *)
From V Require gen.GenApi Model.ApiSurface.
Theorem C02_api_lib_core : GenApi.api_lib_core = ApiSurface.expected_lib_core.
Proof. reflexivity. Qed.

Print Assumptions C02_api_lib_core.
Print Assumptions C02_root_output_of_mode.
(* END TO END, over the whole case language: whenever the specification-only machine (Model/SpecMachine.v: one byte
   list + input offset per hasher, (root output, position) per reader, nothing but Spec/) accepts a history of
   new / update / write / finalize / finalize_xof / count / clone / reset / set_input_offset / finalize_non_root /
   one-shot functions / merge_subtrees_* / hash_derive_key_context / OutputReader fill, read, position, set_position,
   seek, clone / RustCrypto trait operations, over any number of hasher and reader instances, the implementation
   machine produces exactly the same observations and does not panic, on every PlatformOK platform *)
Theorem C02_machine_refines_spec : forall p, PlatformOK p -> forall pname m ops obs,
  mode_ok m -> spec_run_case m ops = Some obs -> Machine.run_case p pname m ops = (obs, Ok tt).
Proof. exact machine_refines_spec. Qed.

Print Assumptions C02_hasher_refines.
Print Assumptions C02_machine_refines_spec.
Print Assumptions C02_update_step.
Print Assumptions C02_history_refines.
Print Assumptions C02_new_is_empty.
Print Assumptions C02_nonvacuous.

(* ---- the model against the source text: the small functions of src/lib.rs -----------------------------
   gen/GenLibSmall.v is the text of struct Output / ChunkState, Output::chaining_value / root_hash /
   root_output_block, ChunkState::new / start_flag, parent_node_output, Hasher::new_internal (src/lib.rs) and
   platform::le_bytes_from_words_32 (src/platform.rs), translated statement by statement (tools/gen_coq.py
   gen_lib_small): which platform function is called with which arguments (cv, block, block_len, counter,
   flags | ROOT), block = left ++ right, BLOCK_LEN, counter 0, flags | PARENT are the source's.  Each equals the
   definition of Model/RsChunk.v (or the specification's parent_output the models use), for all arguments; the
   source's records carry the platform, which the models pass separately. *)
From V Require Import Base.Arr gen.GenLibSmall Proofs.GenLibSmallP.

Theorem C02_lib_src_records : forall cv block bl ctr fl p buf buf_len blocks,
  out_of_lib (lib_Output_mk cv block bl ctr fl p) = mkOutput cv block bl ctr fl /\
  cs_of_lib (lib_ChunkState_mk cv ctr buf buf_len blocks fl p) = mkCS cv ctr buf buf_len blocks fl.
Proof. intros. split; reflexivity. Qed.
Print Assumptions C02_lib_src_records.

Theorem C02_lib_src_le_bytes_from_words_32 : forall words, length words = 8%nat ->
  lib_le_bytes_from_words_32 words = bytes_of_words words.
Proof. exact lib_le_bytes_from_words_32_eq. Qed.
Print Assumptions C02_lib_src_le_bytes_from_words_32.

Theorem C02_lib_src_output_chaining_value : forall o,
  PlatformOK (lib_Output_platform o) -> length (lib_Output_input_chaining_value o) = 8%nat ->
  lib_Output_chaining_value o = out_chaining_value (lib_Output_platform o) (out_of_lib o).
Proof. exact lib_Output_chaining_value_eq. Qed.
Print Assumptions C02_lib_src_output_chaining_value.

(* the model's assert 1300 is the source's debug_assert_eq!(self.counter, 0) *)
Theorem C02_lib_src_output_root_hash : forall o,
  PlatformOK (lib_Output_platform o) -> length (lib_Output_input_chaining_value o) = 8%nat ->
  out_root_hash (lib_Output_platform o) (out_of_lib o) =
  if lib_Output_root_hash_debug_assert o then Ok (lib_Output_root_hash o) else Panic 1300.
Proof. exact lib_Output_root_hash_eq. Qed.
Print Assumptions C02_lib_src_output_root_hash.

Theorem C02_lib_src_output_root_output_block : forall o,
  lib_Output_root_output_block o = out_root_output_block (lib_Output_platform o) (out_of_lib o).
Proof. exact lib_Output_root_output_block_eq. Qed.
Print Assumptions C02_lib_src_output_root_output_block.

Theorem C02_lib_src_chunk_state_new : forall key chunk_counter flags p,
  cs_of_lib (lib_ChunkState_new key chunk_counter flags p) = cs_new key chunk_counter flags /\
  lib_ChunkState_platform (lib_ChunkState_new key chunk_counter flags p) = p.
Proof. exact lib_ChunkState_new_eq. Qed.
Print Assumptions C02_lib_src_chunk_state_new.

Theorem C02_lib_src_chunk_state_start_flag : forall c,
  lib_ChunkState_start_flag c = Ok (cs_start_flag (cs_of_lib c)).
Proof. exact lib_ChunkState_start_flag_eq. Qed.
Print Assumptions C02_lib_src_chunk_state_start_flag.

Theorem C02_lib_src_parent_node_output : forall left_child right_child key flags p,
  length left_child = 32%nat -> length right_child = 32%nat ->
  out_of_lib (lib_parent_node_output left_child right_child key flags p) = parent_output key flags left_child right_child /\
  lib_Output_platform (lib_parent_node_output left_child right_child key flags p) = p.
Proof. exact lib_parent_node_output_eq. Qed.
Print Assumptions C02_lib_src_parent_node_output.

(* Hasher::new_internal; the platform Platform::detect() returns is a parameter of the translation (the models take
   the platform as an argument of every operation); cv_stack: ArrayVec::new() is the empty stack *)
Theorem C02_lib_src_hasher_new_internal : forall key flags p,
  hasher_of_lib (lib_Hasher_new_internal key flags p) = new_internal key flags /\
  lib_ChunkState_platform (lib_Hasher_chunk_state (lib_Hasher_new_internal key flags p)) = p.
Proof. exact lib_Hasher_new_internal_eq. Qed.
Print Assumptions C02_lib_src_hasher_new_internal.

(* ---- the model against the source text: the loop-carrying core of the incremental hasher -----------------
   gen/GenLibLoops.v is the text of ChunkState::count / fill_buf / output / update and Hasher::merge_cv_stack /
   push_cv / reset / final_output / finalize / finalize_xof / count (src/lib.rs), translated statement by statement
   (tools/gen_coq.py gen_lib_loops): every `while c { body }` is a Fixpoint on explicit fuel (condition first,
   OutOfFuel when the condition holds and the fuel is exhausted, then the body's statements in source order), slices
   are firstn / skipn with their bounds checks, ArrayVec push / pop().unwrap() / index / clear are the list operations
   of Base/ArrayVec.v (the vector in index order) with the Panic codes the models use, the debug_assert! / assert_eq!
   macros carry the models' codes, and the functions that are called but not translated there (parent_node_output,
   Output::chaining_value, Output::root_hash, OutputReader::new) are explicit parameters, instantiated below with the
   models' (m_parent_node_output = the specification's parent_output, m_Output_chaining_value = out_chaining_value,
   m_Output_root_hash = out_root_hash; parent_node_output / chaining_value / root_hash themselves are tied to these
   by the C02_lib_src_* theorems above).  Each translated function EQUALS the hand-written model function
   (Model/RsChunk.v, Model/RsHasher.v) on every argument and every fuel value, including the Panic and OutOfFuel
   results.  Hypotheses are type invariants of the source only (a u8 field is below 2^8 / 2^64, an ArrayVec never
   holds more than its capacity).  A translated record carries the platform, the models take it as an argument:
   lib_of_cs / lib_of_out / lib_of_hasher build the translated record from the model's and the platform; the
   ArrayVec is the model's stack (top first) reversed.  Proofs in Proofs/GenLibLoopsP.v. *)
From V Require Import Base.MachInt Base.ArrayVec gen.GenConsts gen.GenFormulas gen.GenLibLoops Proofs.GenLibLoopsP.

Theorem C02_lib_src_loops_repr_def :
  (forall p o, lib_of_out p o = lib_Output_mk (o_cv o) (o_block o) (o_blen o) (o_ctr o) (o_flags o) p) /\
  (forall p c, lib_of_cs p c = lib_ChunkState_mk (cs_cv c) (cs_ctr c) (cs_buf c) (cs_buf_len c) (cs_blocks c) (cs_flags c) p) /\
  (forall p h, lib_of_hasher p h = lib_Hasher_mk (h_key h) (lib_of_cs p (h_cs h)) (h_init h) (rev (h_stack h))) /\
  (forall h, hasher_of_lib h = mkHasher (lib_Hasher_key h) (cs_of_lib (lib_Hasher_chunk_state h))
                                        (lib_Hasher_initial_chunk_counter h) (rev (lib_Hasher_cv_stack h))) /\
  (forall c, lib_of_cs (lib_ChunkState_platform c) (cs_of_lib c) = c) /\ (forall p c, cs_of_lib (lib_of_cs p c) = c) /\
  (forall o, lib_of_out (lib_Output_platform o) (out_of_lib o) = o) /\ (forall p o, out_of_lib (lib_of_out p o) = o) /\
  (forall h, lib_of_hasher (lib_ChunkState_platform (lib_Hasher_chunk_state h)) (hasher_of_lib h) = h) /\
  (forall p h, hasher_of_lib (lib_of_hasher p h) = h) /\
  (forall l r key flags p, m_parent_node_output l r key flags p = lib_of_out p (parent_output key flags l r)) /\
  (forall o, m_Output_chaining_value o = out_chaining_value (lib_Output_platform o) (out_of_lib o)) /\
  (forall o, m_Output_root_hash o = out_root_hash (lib_Output_platform o) (out_of_lib o)) /\
  (forall (A B : Type) (f : A -> B) r,
     GenLibLoopsP.res_map f r = match r with Ok a => Ok (f a) | Panic c => Panic c | OutOfFuel => OutOfFuel end).
Proof.
  split; [reflexivity|]. split; [reflexivity|]. split; [reflexivity|]. split; [reflexivity|].
  split; [exact lib_of_cs_of_lib|]. split; [exact cs_of_lib_of_cs|].
  split; [exact lib_of_out_of_lib|]. split; [exact out_of_lib_of_out|].
  split; [exact lib_of_hasher_of_lib|]. split; [exact hasher_of_lib_of_hasher|].
  split; [reflexivity|]. split; [reflexivity|]. split; reflexivity.
Qed.
Print Assumptions C02_lib_src_loops_repr_def.

(* the ArrayVec operations the translation uses *)
Theorem C02_lib_src_arrayvec_def : forall (A : Type) (cap : N) (v : list A) (x : A) (i : N),
  av_len v = N.of_nat (length v) /\
  av_push cap v x = (if av_len v <? cap then Ok (v ++ [x]) else Panic 51) /\
  av_pop_unwrap (v ++ [x]) = Ok (v, x) /\ av_pop_unwrap (@nil A) = Panic 50 /\
  av_index v i = match nth_error v (N.to_nat i) with Some y => Ok y | None => Panic 53 end.
Proof.
  intros. split; [reflexivity|]. split; [unfold av_push; destruct (av_len v <? cap); reflexivity|].
  split; [apply av_pop_unwrap_snoc|]. split; reflexivity.
Qed.
Print Assumptions C02_lib_src_arrayvec_def.

(* ChunkState *)
Theorem C02_lib_src_chunk_state_count : forall p c, lib_ChunkState_count (lib_of_cs p c) = cs_count c.
Proof. exact lib_ChunkState_count_eq. Qed.
Print Assumptions C02_lib_src_chunk_state_count.

Theorem C02_lib_src_chunk_state_fill_buf : forall p c input, cs_buf_len c < 2 ^ 64 ->
  lib_ChunkState_fill_buf (lib_of_cs p c) input
  = GenLibLoopsP.res_map (fun r => (lib_of_cs p (fst r), snd r)) (cs_fill_buf c input).
Proof. exact fill_buf_eq. Qed.
Print Assumptions C02_lib_src_chunk_state_fill_buf.

Theorem C02_lib_src_chunk_state_output : forall p c,
  lib_ChunkState_output (lib_of_cs p c) = Ok (lib_of_out p (cs_output c)).
Proof. exact output_eq. Qed.
Print Assumptions C02_lib_src_chunk_state_output.

(* the `while input.len() > BLOCK_LEN` loop, every fuel *)
Theorem C02_lib_src_chunk_state_update_loop : forall p fuel c input,
  lib_ChunkState_update_loop1 fuel (lib_of_cs p c) input
  = GenLibLoopsP.res_map (fun r => (lib_of_cs p (fst r), snd r)) (cs_update_loop fuel p c input).
Proof. exact update_loop_eq. Qed.
Print Assumptions C02_lib_src_chunk_state_update_loop.

(* ChunkState::update.  The model computes the fuel of its block loop (S (length input / 64), after the buffered
   flush); cs_update_with is cs_update with that fuel as a parameter, and equals cs_update as soon as the fuel covers
   the input.  The translated function equals cs_update_with at every fuel. *)
Theorem C02_lib_src_cs_update_with_def : forall fuel p cs input,
  cs_update_with fuel p cs input =
  ('(cs, input) <-
    (if 0 <? cs_buf_len cs then
       '(cs, input) <- cs_fill_buf cs input ;;
       if negb (nlen input =? 0) then
         assert! (cs_buf_len cs =? rs_BLOCK_LEN) code 1302 ;;
         let block_flags := N.lor (cs_flags cs) (cs_start_flag cs) in
         let cv := p_compress_in_place p (cs_cv cs) (cs_buf cs) rs_BLOCK_LEN (cs_ctr cs) block_flags in
         blocks <- mi_add 8 (cs_blocks cs) 1 ;;
         Ok (mkCS cv (cs_ctr cs) zero_block 0 blocks (cs_flags cs), input)
       else Ok (cs, input)
     else Ok (cs, input)) ;;
   '(cs, input) <- cs_update_loop fuel p cs input ;;
   '(cs, input) <- cs_fill_buf cs input ;;
   assert! (nlen input =? 0) code 1303 ;;
   c <- cs_count cs ;;
   assert! (c <=? rs_CHUNK_LEN) code 1304 ;;
   Ok cs).
Proof. reflexivity. Qed.
Print Assumptions C02_lib_src_cs_update_with_def.

Theorem C02_lib_src_cs_update_with_enough : forall p fuel c input, (length input < 64 * fuel)%nat ->
  cs_update_with fuel p c input = cs_update p c input.
Proof. exact cs_update_with_enough. Qed.
Print Assumptions C02_lib_src_cs_update_with_enough.

Theorem C02_lib_src_chunk_state_update_fuel : forall p fuel c input, cs_buf_len c < 2 ^ 64 ->
  lib_ChunkState_update fuel (lib_of_cs p c) input = GenLibLoopsP.res_map (lib_of_cs p) (cs_update_with fuel p c input).
Proof. exact lib_ChunkState_update_eq. Qed.
Print Assumptions C02_lib_src_chunk_state_update_fuel.

Theorem C02_lib_src_chunk_state_update : forall p fuel c input, cs_buf_len c < 2 ^ 64 -> (length input < 64 * fuel)%nat ->
  lib_ChunkState_update fuel (lib_of_cs p c) input = GenLibLoopsP.res_map (lib_of_cs p) (cs_update p c input).
Proof. exact lib_ChunkState_update_model. Qed.
Print Assumptions C02_lib_src_chunk_state_update.

(* Hasher::merge_cv_stack: the `while self.cv_stack.len() > post_merge_stack_len` loop at every fuel (the model's
   merge_loop works on the stack alone: set_stack puts it back into the hasher), then the function (the model runs
   the loop with fuel 64) *)
Theorem C02_lib_src_merge_loop : forall p cc fuel h st target, N.of_nat (length st) <= rs_cv_stack_cap ->
  lib_Hasher_merge_cv_stack_loop1 m_parent_node_output m_Output_chaining_value fuel
    (lib_of_hasher p (mkHasher (h_key h) (h_cs h) (h_init h) st)) cc target
  = GenLibLoopsP.res_map (fun st' => lib_of_hasher p (mkHasher (h_key h) (h_cs h) (h_init h) st'))
      (merge_loop fuel p h st target).
Proof. exact merge_loop_eq. Qed.
Print Assumptions C02_lib_src_merge_loop.

Theorem C02_lib_src_merge_cv_stack_fuel : forall p fuel h cc, N.of_nat (length (h_stack h)) <= rs_cv_stack_cap ->
  lib_Hasher_merge_cv_stack m_parent_node_output m_Output_chaining_value fuel (lib_of_hasher p h) cc
  = GenLibLoopsP.res_map (lib_of_hasher p)
      (target <- rs_post_merge_len cc (h_init h) ;;
       st <- merge_loop fuel p h (h_stack h) target ;;
       Ok (mkHasher (h_key h) (h_cs h) (h_init h) st)).
Proof. exact lib_Hasher_merge_cv_stack_eq. Qed.
Print Assumptions C02_lib_src_merge_cv_stack_fuel.

Theorem C02_lib_src_merge_cv_stack : forall p h cc, N.of_nat (length (h_stack h)) <= rs_cv_stack_cap ->
  lib_Hasher_merge_cv_stack m_parent_node_output m_Output_chaining_value 64 (lib_of_hasher p h) cc
  = GenLibLoopsP.res_map (lib_of_hasher p) (merge_cv_stack p h cc).
Proof. intros p h cc H. exact (lib_Hasher_merge_cv_stack_eq p 64 h cc H). Qed.
Print Assumptions C02_lib_src_merge_cv_stack.

Theorem C02_lib_src_push_cv_fuel : forall p fuel h new_cv cc, N.of_nat (length (h_stack h)) <= rs_cv_stack_cap ->
  lib_Hasher_push_cv m_parent_node_output m_Output_chaining_value fuel (lib_of_hasher p h) new_cv cc
  = GenLibLoopsP.res_map (lib_of_hasher p)
      (h <- (target <- rs_post_merge_len cc (h_init h) ;;
             st <- merge_loop fuel p h (h_stack h) target ;;
             Ok (mkHasher (h_key h) (h_cs h) (h_init h) st)) ;;
       assert! (N.of_nat (length (h_stack h)) <? rs_cv_stack_cap) code 51 ;;
       Ok (mkHasher (h_key h) (h_cs h) (h_init h) (new_cv :: h_stack h))).
Proof. exact lib_Hasher_push_cv_eq. Qed.
Print Assumptions C02_lib_src_push_cv_fuel.

Theorem C02_lib_src_push_cv : forall p h new_cv cc, N.of_nat (length (h_stack h)) <= rs_cv_stack_cap ->
  lib_Hasher_push_cv m_parent_node_output m_Output_chaining_value 64 (lib_of_hasher p h) new_cv cc
  = GenLibLoopsP.res_map (lib_of_hasher p) (push_cv p h new_cv cc).
Proof. intros p h new_cv cc H. exact (lib_Hasher_push_cv_eq p 64 h new_cv cc H). Qed.
Print Assumptions C02_lib_src_push_cv.

Theorem C02_lib_src_hasher_reset : forall p h, lib_Hasher_reset (lib_of_hasher p h) = lib_of_hasher p (hasher_reset h).
Proof. exact lib_Hasher_reset_eq. Qed.
Print Assumptions C02_lib_src_hasher_reset.

(* Hasher::count: the source evaluates (chunk_counter - initial_chunk_counter) * CHUNK_LEN before chunk_state.count(),
   the model the other way round; for u8 fields chunk_state.count() cannot fail, so the order does not show *)
Theorem C02_lib_src_hasher_count : forall p h, cs_blocks (h_cs h) < 2 ^ 8 -> cs_buf_len (h_cs h) < 2 ^ 8 ->
  lib_Hasher_count (lib_of_hasher p h) = hasher_count h.
Proof. exact lib_Hasher_count_eq. Qed.
Print Assumptions C02_lib_src_hasher_count.

(* Hasher::final_output.  The `while num_cvs_remaining > 0` loop at every fuel: with l the remaining entries (top
   first; the ArrayVec is rev l ++ w) it is the model's final_fold over l when the fuel covers l, OutOfFuel otherwise *)
Theorem C02_lib_src_final_output_loop : forall p h l fuel w o,
  lib_Hasher_final_output_loop1 m_parent_node_output m_Output_chaining_value fuel
    (lib_Hasher_mk (h_key h) (lib_of_cs p (h_cs h)) (h_init h) (rev l ++ w)) (lib_of_out p o) (N.of_nat (length l))
  = if Nat.leb (length l) fuel then Ok (lib_of_out p (final_fold p h o l), 0) else OutOfFuel.
Proof. exact final_loop_eq. Qed.
Print Assumptions C02_lib_src_final_output_loop.

(* the function.  One place where the model is shaped differently from the source: with exactly one entry on the
   stack and an empty chunk state the source's debug_assert!(self.cv_stack.len() >= 2) fires first (code 1406 in the
   translation), the model goes straight to the index panic that follows in every build (Panic 53); everywhere else
   the two are equal *)
Theorem C02_lib_src_final_output : forall p fuel h, (length (h_stack h) <= fuel)%nat ->
  (forall a, h_stack h = [a] -> cs_count (h_cs h) <> Ok 0) ->
  lib_Hasher_final_output m_parent_node_output m_Output_chaining_value fuel (lib_of_hasher p h)
  = GenLibLoopsP.res_map (lib_of_out p) (final_output p h).
Proof. exact lib_Hasher_final_output_eq. Qed.
Print Assumptions C02_lib_src_final_output.

Theorem C02_lib_src_final_output_one : forall p fuel h a, h_stack h = [a] -> cs_count (h_cs h) = Ok 0 ->
  lib_Hasher_final_output m_parent_node_output m_Output_chaining_value fuel (lib_of_hasher p h) = Panic 1406 /\
  final_output p h = Panic 53.
Proof. exact lib_Hasher_final_output_one. Qed.
Print Assumptions C02_lib_src_final_output_one.

Theorem C02_lib_src_finalize : forall p fuel h, (length (h_stack h) <= fuel)%nat ->
  (forall a, h_stack h = [a] -> cs_count (h_cs h) <> Ok 0) ->
  lib_Hasher_finalize m_parent_node_output m_Output_chaining_value m_Output_root_hash fuel (lib_of_hasher p h)
  = hasher_finalize p h.
Proof. exact lib_Hasher_finalize_eq. Qed.
Print Assumptions C02_lib_src_finalize.

(* finalize_xof: OutputReader::new is a parameter of the translation; the model's hasher_finalize_output returns the
   root Output the reader is built from *)
Theorem C02_lib_src_finalize_xof : forall p fuel h, (length (h_stack h) <= fuel)%nat ->
  (forall a, h_stack h = [a] -> cs_count (h_cs h) <> Ok 0) ->
  lib_Hasher_finalize_xof m_parent_node_output m_Output_chaining_value out_of_lib fuel (lib_of_hasher p h)
  = hasher_finalize_output p h.
Proof. exact lib_Hasher_finalize_xof_eq. Qed.
Print Assumptions C02_lib_src_finalize_xof.

(* the same functions with the parameters instantiated by the TRANSLATED parent_node_output / Output::chaining_value of
   gen/GenLibSmall.v instead of the models' stand-ins: every line is then the source's.  These hold on a PlatformOK
   platform for hashers of the declared shapes (8-word key and chunk-state cv, 32-byte stack entries). *)
Theorem C02_lib_src_merge_cv_stack_closed : forall p, PlatformOK p -> forall fuel h cc,
  N.of_nat (length (h_stack h)) <= rs_cv_stack_cap ->
  Forall (fun cv => length cv = 32%nat) (h_stack h) -> length (h_key h) = 8%nat ->
  lib_Hasher_merge_cv_stack lib_parent_node_output lib_Output_chaining_value fuel (lib_of_hasher p h) cc
  = GenLibLoopsP.res_map (lib_of_hasher p)
      (target <- rs_post_merge_len cc (h_init h) ;;
       st <- merge_loop fuel p h (h_stack h) target ;;
       Ok (mkHasher (h_key h) (h_cs h) (h_init h) st)).
Proof. exact merge_cv_stack_src. Qed.
Print Assumptions C02_lib_src_merge_cv_stack_closed.

Theorem C02_lib_src_push_cv_closed : forall p, PlatformOK p -> forall h new_cv cc,
  N.of_nat (length (h_stack h)) <= rs_cv_stack_cap ->
  Forall (fun cv => length cv = 32%nat) (h_stack h) -> length (h_key h) = 8%nat ->
  lib_Hasher_push_cv lib_parent_node_output lib_Output_chaining_value 64 (lib_of_hasher p h) new_cv cc
  = GenLibLoopsP.res_map (lib_of_hasher p) (push_cv p h new_cv cc).
Proof. intros p OK h new_cv cc. exact (push_cv_src p OK 64 h new_cv cc). Qed.
Print Assumptions C02_lib_src_push_cv_closed.

Theorem C02_lib_src_final_output_closed : forall p, PlatformOK p -> forall fuel h, (length (h_stack h) <= fuel)%nat ->
  (forall a, h_stack h = [a] -> cs_count (h_cs h) <> Ok 0) ->
  Forall (fun cv => length cv = 32%nat) (h_stack h) -> length (h_key h) = 8%nat -> length (cs_cv (h_cs h)) = 8%nat ->
  lib_Hasher_final_output lib_parent_node_output lib_Output_chaining_value fuel (lib_of_hasher p h)
  = GenLibLoopsP.res_map (lib_of_out p) (final_output p h).
Proof. exact final_output_src. Qed.
Print Assumptions C02_lib_src_final_output_closed.

(* ---- the model against the source text: Hasher::update_with_join / Hasher::update ------------------------------
   gen/GenLibWide.v also holds the text of Hasher::update_with_join and Hasher::update (= update_with_join::<SerialJoin>),
   translated statement by statement (tools/gen_coq.py gen_lib_wide): the offset check against hazmat::max_subtree_len
   (`if let Some(max) = ..` is a match on the formula rs_max_subtree_len), the "finish the partial chunk" prefix with
   its nested `return self` (an `early : option Hasher` component of the two `if`s, then `match early`), the
   `while input.len() > CHUNK_LEN` subtree loop (lib_Hasher_update_with_join_loop2) with the shrink loop
   `while (subtree_len - 1) as u64 & count_so_far != 0 { subtree_len /= 2 }` INSIDE it (.._loop1), the single-chunk /
   parent-node arms with their push_cv calls, the counter update, and the trailing chunk_state.update + merge_cv_stack.
   Each slice index has its bounds assert; the Panic codes are the ones of Model/RsHasher.v (1407 is the source's
   debug_assert_eq!(CHUNK_LEN.count_ones(), 1), which is the constant true).  The translated functions EQUAL the models
   with the translation's single fuel (update_loop_with / hasher_update_with, defining equations below) on every
   hasher of the declared shape, every input below 2^64 bytes and every fuel; those refine Model/RsHasher.v's
   update_loop / hasher_update as soon as the fuel covers the input.  Proofs in Proofs/GenLibWideP.v. *)
From V Require Import Base.Slice gen.GenLibWide Model.RsWide Proofs.GenLibWideP.

Theorem C02_lib_src_update_loop_with_def : forall fuel p h input,
  update_loop_with fuel p h input =
  if nlen input <=? rs_CHUNK_LEN then Ok (h, input)
  else match fuel with
  | O => OutOfFuel
  | S fuel' =>
      let cs := h_cs h in
      c <- cs_count cs ;;
      assert! (c =? 0) code 1401 ;;
      subtree_len <- rs_largest_power_of_two_leq (nlen input) ;;
      count_so_far <- rs_count_so_far (cs_ctr cs) ;;
      subtree_len <- shrink_loop fuel' subtree_len count_so_far ;;
      subtree_chunks <- rs_subtree_chunks subtree_len ;;
      assert! (subtree_len <=? nlen input) code 52 ;;
      h <- (if subtree_len <=? rs_CHUNK_LEN then
              assert! (subtree_len =? rs_CHUNK_LEN) code 1402 ;;
              cs1 <- cs_update_with fuel' p (cs_new (h_key h) (cs_ctr cs) (cs_flags cs)) (firstn (N.to_nat subtree_len) input) ;;
              push_cv_with fuel' p h (out_chaining_value p (cs_output cs1)) (cs_ctr cs)
            else
              cv_pair <- compress_subtree_to_parent_node_with fuel' p (firstn (N.to_nat subtree_len) input) (h_key h)
                           (cs_ctr cs) (cs_flags cs) ;;
              assert! (64 <=? nlen cv_pair) code 54 ;;
              h <- push_cv_with fuel' p h (firstn 32 cv_pair) (cs_ctr cs) ;;
              rc <- rs_right_cv_counter (cs_ctr cs) subtree_chunks ;;
              push_cv_with fuel' p h (firstn 32 (skipn 32 cv_pair)) rc) ;;
      ctr' <- mi_add 64 (cs_ctr cs) subtree_chunks ;;
      let cs' := mkCS (cs_cv cs) ctr' (cs_buf cs) (cs_buf_len cs) (cs_blocks cs) (cs_flags cs) in
      update_loop_with fuel' p (with_cs h cs') (skipn (N.to_nat subtree_len) input)
  end.
Proof. intros [|fuel]; reflexivity. Qed.
Print Assumptions C02_lib_src_update_loop_with_def.

Theorem C02_lib_src_hasher_update_with_def : forall fuel p h input,
  hasher_update_with fuel p h input =
  (input_offset <- rs_input_offset (h_init h) ;;
   msl <- rs_max_subtree_len input_offset ;;
   _ <- (match msl with
         | Some max =>
             cnt <- hasher_count h ;;
             remaining <- mi_sub 64 max cnt ;;
             assert! (nlen input <=? remaining) code 21 ;;
             Ok tt
         | None => Ok tt
         end) ;;
   c <- cs_count (h_cs h) ;;
   r <- (if 0 <? c then
           want <- mi_sub 64 rs_CHUNK_LEN c ;;
           let take := N.min want (nlen input) in
           cs <- cs_update_with fuel p (h_cs h) (firstn (N.to_nat take) input) ;;
           let input := skipn (N.to_nat take) input in
           if negb (nlen input =? 0) then
             c' <- cs_count cs ;;
             assert! (c' =? rs_CHUNK_LEN) code 1400 ;;
             let chunk_cv := out_chaining_value p (cs_output cs) in
             h <- push_cv_with fuel p (with_cs h cs) chunk_cv (cs_ctr cs) ;;
             ctr' <- mi_add 64 (cs_ctr cs) 1 ;;
             Ok (with_cs h (cs_new (h_key h) ctr' (cs_flags cs)), input, false)
           else Ok (with_cs h cs, input, true)
         else Ok (h, input, false)) ;;
   let '(h, input, done) := r in
   if done then Ok h else
   ('(h, input) <- update_loop_with fuel p h input ;;
    assert! (nlen input <=? rs_CHUNK_LEN) code 1403 ;;
    if negb (nlen input =? 0) then
      cs <- cs_update_with fuel p (h_cs h) input ;;
      merge_cv_stack_with fuel p (with_cs h cs) (cs_ctr cs)
    else Ok h)).
Proof. reflexivity. Qed.
Print Assumptions C02_lib_src_hasher_update_with_def.

(* the shrink loop IS the model's shrink_loop, at every fuel *)
Theorem C02_lib_src_shrink_loop : forall pno cvf mx mo hm self input input_offset fuel subtree_len count_so_far,
  lib_Hasher_update_with_join_loop1 pno cvf mx mo hm fuel self input input_offset subtree_len count_so_far
  = shrink_loop fuel subtree_len count_so_far.
Proof. intros. apply shrink_loop_eq. Qed.
Print Assumptions C02_lib_src_shrink_loop.

(* the subtree loop, at every fuel *)
Theorem C02_lib_src_update_loop : forall p, plat_wf p -> forall input_offset fuel h input,
  length (h_key h) = 8%nat -> nlen input < 2 ^ 64 -> N.of_nat (length (h_stack h)) <= rs_cv_stack_cap ->
  lib_Hasher_update_with_join_loop2 m_parent_node_output m_Output_chaining_value (p_max_degree p) (max_degree_or_2 p)
    m_hash_many fuel (lib_of_hasher p h) input input_offset
  = GenLibLoopsP.res_map (fun r => (lib_of_hasher p (fst r), snd r)) (update_loop_with fuel p h input).
Proof. exact update_loop_eq2. Qed.
Print Assumptions C02_lib_src_update_loop.

Theorem C02_lib_src_update_with_join : forall p, plat_wf p -> forall fuel h input,
  length (h_key h) = 8%nat -> nlen input < 2 ^ 64 -> N.of_nat (length (h_stack h)) <= rs_cv_stack_cap ->
  cs_blocks (h_cs h) < 2 ^ 8 -> cs_buf_len (h_cs h) < 2 ^ 8 ->
  lib_Hasher_update_with_join m_parent_node_output m_Output_chaining_value (p_max_degree p) (max_degree_or_2 p)
    m_hash_many fuel (lib_of_hasher p h) input
  = GenLibLoopsP.res_map (lib_of_hasher p) (hasher_update_with fuel p h input).
Proof. exact lib_Hasher_update_with_join_eq. Qed.
Print Assumptions C02_lib_src_update_with_join.

Theorem C02_lib_src_update : forall p, plat_wf p -> forall fuel h input,
  length (h_key h) = 8%nat -> nlen input < 2 ^ 64 -> N.of_nat (length (h_stack h)) <= rs_cv_stack_cap ->
  cs_blocks (h_cs h) < 2 ^ 8 -> cs_buf_len (h_cs h) < 2 ^ 8 ->
  lib_Hasher_update m_parent_node_output m_Output_chaining_value (p_max_degree p) (max_degree_or_2 p)
    m_hash_many fuel (lib_of_hasher p h) input
  = GenLibLoopsP.res_map (lib_of_hasher p) (hasher_update_with fuel p h input).
Proof. exact lib_Hasher_update_eq. Qed.
Print Assumptions C02_lib_src_update.

(* enough fuel: one unit per iteration of the subtree loop plus 81 for what an iteration calls (64 levels of
   compress_subtree_wide / 64 merges / 64 halvings, 17 blocks of a chunk) *)
Theorem C02_lib_src_update_loop_enough : forall p f fuel h input, (f + 81 <= fuel)%nat ->
  refines (update_loop f p h input) (update_loop_with fuel p h input).
Proof. exact update_loop_with_refines. Qed.
Print Assumptions C02_lib_src_update_loop_enough.

Theorem C02_lib_src_hasher_update_enough : forall p fuel h input, (S (Nat.div (length input) 1024) + 81 <= fuel)%nat ->
  refines (hasher_update p h input) (hasher_update_with fuel p h input).
Proof. exact hasher_update_with_refines. Qed.
Print Assumptions C02_lib_src_hasher_update_enough.

(* hence: whenever the model's update does not run out of its own fuel, the translated Hasher::update IS the model's *)
Theorem C02_lib_src_update_model : forall p, plat_wf p -> forall fuel h input,
  length (h_key h) = 8%nat -> nlen input < 2 ^ 64 -> N.of_nat (length (h_stack h)) <= rs_cv_stack_cap ->
  cs_blocks (h_cs h) < 2 ^ 8 -> cs_buf_len (h_cs h) < 2 ^ 8 ->
  (S (Nat.div (length input) 1024) + 81 <= fuel)%nat -> hasher_update p h input <> OutOfFuel ->
  lib_Hasher_update m_parent_node_output m_Output_chaining_value (p_max_degree p) (max_degree_or_2 p)
    m_hash_many fuel (lib_of_hasher p h) input
  = GenLibLoopsP.res_map (lib_of_hasher p) (hasher_update p h input).
Proof.
  intros p WF fuel h input Hk Hin Hst Hb Hbl HF HN.
  rewrite (lib_Hasher_update_eq p WF fuel h input Hk Hin Hst Hb Hbl).
  rewrite (refines_ok _ _ (hasher_update_with_refines p fuel h input HF) HN). reflexivity.
Qed.
Print Assumptions C02_lib_src_update_model.

(* non-vacuity: the translated update on a concrete history against the model *)
Example C02_lib_src_update_nonvacuous :
  let p := sim_platform 4 16 in
  let h1 := match hasher_update p (new_internal IV 0) (map N.of_nat (seq 0 100)) with Ok h => h | _ => new_internal IV 0 end in
  let b := repeat 7 5000 in
  is_ok (hasher_update p h1 b) = true /\ cs_buf_len (h_cs h1) = 36 /\
  GenLibLoopsP.res_map hasher_of_lib
    (lib_Hasher_update m_parent_node_output m_Output_chaining_value (p_max_degree p) (max_degree_or_2 p) m_hash_many 100
       (lib_of_hasher p h1) b) = hasher_update p h1 b.
Proof. vm_compute. repeat split. Qed.
Print Assumptions C02_lib_src_update_nonvacuous.
