(* C18: the C library's one writable global, g_cpu_features (c/blake3_dispatch.c).
   tools/gen_coq.py linearises get_cpu_features' x86 branch into the event list
   gen/GenDispatch.v c_dispatch_prog (textual order; the translator anchors that the control flow is
   nested `if`s only, so textual order over-approximates every path).  One first call executes the
   events; which conditional `features |= BIT` run is decided by the CPU (oracle `taken`, the same for
   every thread of the process). *)
From Coq Require Import NArith List Bool.
Import ListNotations.
Open Scope N_scope.

Inductive dstmt := DAssign0 | DOr (bit : N) | DStore | DStoreOther | DRet.

(* values stored to the global by this call (None: a store of something other than `features`), and the value returned *)
Fixpoint exec (prog : list dstmt) (taken : list bool) (f : N) : list (option N) * N :=
  match prog with
  | [] => ([], f)
  | DAssign0 :: tl => exec tl taken 0
  | DOr b :: tl => match taken with
                   | true :: o => exec tl o (N.lor f b)
                   | false :: o => exec tl o f
                   | [] => exec tl [] f
                   end
  | DStore :: tl => let '(st, r) := exec tl taken f in (Some f :: st, r)
  | DStoreOther :: tl => let '(st, r) := exec tl taken f in (None :: st, r)
  | DRet :: _ => ([], f)
  end.

(* the decidable shape check run on the generated program *)
Fixpoint quiet (prog : list dstmt) : bool :=
  match prog with
  | [] => true
  | DAssign0 :: _ | DOr _ :: _ | DStoreOther :: _ => false
  | _ :: tl => quiet tl
  end.

Fixpoint stores_final (prog : list dstmt) : bool :=
  match prog with
  | [] => true
  | DStore :: tl => quiet tl
  | DStoreOther :: _ => false
  | _ :: tl => stores_final tl
  end.

Definition starts_assigned (prog : list dstmt) : bool :=
  match prog with DAssign0 :: _ => true | _ => false end.
