(* C13: the b3sum checkfile format.  Statements only; proofs live in Proofs/B3sumP.v
   (all inputs) and Proofs/B3sumRefuted.v (witnesses on the unchanged code).

   Strings are lists of Unicode scalar values, OS paths and digests are lists of bytes.
   `asis_cfg` is b3sum/src/main.rs as it is, `fixed_cfg` is main.rs with the two repairs of
   b3sum_fixes.diff (tagged layout tried first; the two unwraps turned into "Invalid hex").
   The correspondence check (tools/props/C13.py) probes which of the two the code under test is. *)
From Coq Require Import NArith List Bool.
From V Require Import Base.Res Model.B3sum Proofs.B3sumP Proofs.B3sumRefuted.
Import ListNotations.
Open Scope N_scope.

(* --- every printed line parses back ----------------------------------------------------- *)
(* plain form `<hex>  <path>` (with the leading backslash when the path needed escaping): for every
   valid-Unicode, non-empty path without NUL and U+FFFD, every 32-byte digest, no terminator / LF /
   CRLF.  True of the unchanged code as well (any configuration). *)
Theorem C13_roundtrip_plain : forall cfg p h term,
  good_path p -> bytes_ok h -> length h = 32%nat -> In term terminators ->
  exists esc fstr,
    parse_check_line cfg (print_body false (utf8_encode p) (hex_of_bytes h) ++ term) = Ok (POk p h esc fstr).
Proof. exact roundtrip_plain. Qed.

(* --tag form `BLAKE3 (<path>) = <hex>`: for the repaired code *)
Theorem C13_roundtrip_tag : forall p h term,
  good_path p -> bytes_ok h -> length h = 32%nat -> In term terminators ->
  exists esc fstr,
    parse_check_line fixed_cfg (print_body true (utf8_encode p) (hex_of_bytes h) ++ term) = Ok (POk p h esc fstr).
Proof. exact roundtrip_tag. Qed.

(* ... and FALSE for the unchanged code: `BLAKE3 (a  b) = <hex>` is rejected *)
Theorem C13_roundtrip_tag_refuted_on_unchanged_code :
  exists p h, good_path p /\ bytes_ok h /\ length h = 32%nat /\
    parse_check_line asis_cfg (print_line true (utf8_encode p) (hex_of_bytes h)) = Ok (PErr EHashLength).
Proof. exact roundtrip_tag_refuted. Qed.

(* the exact result for ANY OS path (byte string), both forms, any run of CR/LF as terminator:
   the lossy decoding of the path and the digest, or the error for an empty / NUL / U+FFFD path *)
Theorem C13_parse_printed : forall cfg tag b h term,
  (tag = true -> tagged_first cfg = true) -> bytes_ok h -> length h = 32%nat -> crlf_term term ->
  parse_check_line cfg (print_body tag b (hex_of_bytes h) ++ term) = Ok (expected b h).
Proof. exact parse_printed. Qed.

(* paths that cannot be represented (invalid UTF-8, U+FFFD, NUL, empty) are rejected at check time *)
Theorem C13_unrepresentable_path_rejected : forall tag b h term,
  bytes_ok h -> length h = 32%nat -> In term terminators ->
  (utf8_lossy b = [] \/ existsb (N.eqb NUL) (utf8_lossy b) = true \/ existsb (N.eqb REPL) (utf8_lossy b) = true) ->
  exists e, parse_check_line fixed_cfg (print_body tag b (hex_of_bytes h) ++ term) = Ok (PErr e).
Proof. exact unrepresentable_path_rejected. Qed.

Theorem C13_lossy_valid : forall s, forallb valid_scalar s = true -> utf8_lossy (utf8_encode s) = s.
Proof. exact lossy_encode. Qed.

Theorem C13_lossy_invalid_has_fffd : forall b,
  utf8_encode (utf8_lossy b) <> b -> existsb (N.eqb REPL) (utf8_lossy b) = true.
Proof. exact lossy_invalid_has_fffd. Qed.

(* no two different OS paths ever yield lines that parse to the same path, and a printed line never
   parses to a different hash: true of the unchanged code as well (any configuration) *)
Theorem C13_print_injective_on_parse : forall cfg tag1 tag2 b1 b2 h1 h2 t1 t2 p x1 x2 e1 e2 f1 f2,
  bytes_ok h1 -> length h1 = 32%nat -> In t1 terminators ->
  bytes_ok h2 -> length h2 = 32%nat -> In t2 terminators ->
  parse_check_line cfg (print_body tag1 b1 (hex_of_bytes h1) ++ t1) = Ok (POk p x1 e1 f1) ->
  parse_check_line cfg (print_body tag2 b2 (hex_of_bytes h2) ++ t2) = Ok (POk p x2 e2 f2) ->
  b1 = b2 /\ x1 = h1 /\ x2 = h2.
Proof. exact print_injective_on_parse. Qed.

(* the unchanged code on any printed line: the right answer or an error, never a panic, never another path *)
Theorem C13_parse_printed_any_cfg : forall cfg tag b h term,
  bytes_ok h -> length h = 32%nat -> crlf_term term ->
  parse_check_line cfg (print_body tag b (hex_of_bytes h) ++ term) = Ok (expected b h) \/
  exists er, parse_check_line cfg (print_body tag b (hex_of_bytes h) ++ term) = Ok (PErr er).
Proof. exact parse_printed_any_cfg. Qed.

(* --- arbitrary text --------------------------------------------------------------------- *)
(* never a panic: for the repaired code *)
Theorem C13_parse_total : forall line, exists r, parse_check_line fixed_cfg line = Ok r.
Proof. exact parse_total. Qed.

(* ... and FALSE for the unchanged code: 62 hex digits + U+00E9 (64 bytes) panics at main.rs:391 *)
Theorem C13_parse_total_refuted_on_unchanged_code :
  exists line, parse_check_line asis_cfg line = Panic PANIC_HEX_LOW.
Proof. exact parse_total_refuted. Qed.

(* success: the hash is the 64 lowercase hex digits present in the line, the path is the
   documented unescaping of the path field, non-empty, without NUL and U+FFFD (any configuration) *)
Theorem C13_parse_ok_shape : forall cfg line p h e f,
  parse_check_line cfg line = Ok (POk p h e f) ->
  length h = 32%nat /\ bytes_ok h /\ Forall is_lower_hex (hex_of_bytes h) /\
  (trim_end line = esc_prefix e ++ hex_of_bytes h ++ PLAIN_SEP ++ f \/
   trim_end line = esc_prefix e ++ TAG_PREFIX ++ f ++ TAG_SEP ++ hex_of_bytes h) /\
  (if e then unescape f = Some p else f = p) /\
  p <> [] /\ existsb (N.eqb NUL) p = false /\ existsb (N.eqb REPL) p = false.
Proof. exact parse_ok_shape. Qed.

(* the error classes: empty line; neither layout; wrong-length, non-hex, non-ASCII hash field;
   invalid escape; empty path; NUL; U+FFFD *)
Theorem C13_parse_errors : forall cfg, hex_unwrap_is_error cfg = true ->
  (forall line, trim_end line = [] -> parse_check_line cfg line = Ok (PErr EEmptyLine)) /\
  (forall line, trim_end line <> [] -> split_check_line cfg (snd (las_of line)) = None ->
                parse_check_line cfg line = Ok (PErr EFormat)) /\
  (forall line hh f, trim_end line <> [] -> split_check_line cfg (snd (las_of line)) = Some (hh, f) ->
     let e := fst (las_of line) in
     (str_len hh <> 64 -> parse_check_line cfg line = Ok (PErr EHashLength)) /\
     (str_len hh = 64 -> ~ Forall is_lower_hex hh -> parse_check_line cfg line = Ok (PErr EHex)) /\
     (forall c, str_len hh = 64 -> In c hh -> 128 <= c -> parse_check_line cfg line = Ok (PErr EHex)) /\
     (forall h, hh = hex_of_bytes h -> bytes_ok h -> length h = 32%nat ->
        (e = true -> unescape f = None -> parse_check_line cfg line = Ok (PErr EEscape)) /\
        (forall p, (if e then unescape f else Some f) = Some p ->
           (p = [] -> parse_check_line cfg line = Ok (PErr EEmptyPath)) /\
           (existsb (N.eqb NUL) p = true -> parse_check_line cfg line = Ok (PErr ENul)) /\
           (existsb (N.eqb NUL) p = false -> existsb (N.eqb REPL) p = true ->
              parse_check_line cfg line = Ok (PErr EReplacement))))).
Proof. exact parse_errors. Qed.

(* a dangling backslash and an unknown escape are invalid escapes; escaping then unescaping is the identity *)
Theorem C13_unescape_dangling : forall s p, unescape s = Some p -> unescape (s ++ [BSL]) = None.
Proof. exact unescape_dangling. Qed.

Theorem C13_unescape_invalid : forall s p c t,
  unescape s = Some p -> c <> 110 -> c <> 114 -> c <> BSL -> unescape (s ++ BSL :: c :: t) = None.
Proof. exact unescape_invalid. Qed.

Theorem C13_unescape_escape : forall s, unescape (escape_path s) = Some s.
Proof. intros s. rewrite escape_path_eq. apply unescape_escape. Qed.

(* non-vacuity: an escaped --tag line with a double space, a ") = " and a 4-byte scalar, CRLF terminated *)
Example C13_nonvacuous :
  let p := [66;76;65;75;69;51;32;40; 97;32;32;98; 41;32;61;32; 10; 92; 128512] in
  good_path p /\ bytes_ok h_lo /\ length h_lo = 32%nat /\
  parse_check_line fixed_cfg (print_body true (utf8_encode p) (hex_of_bytes h_lo) ++ [CR; LF]) =
  Ok (POk p h_lo true (escape_path p)) /\
  parse_check_line fixed_cfg (print_body false (utf8_encode p) (hex_of_bytes h_lo) ++ [LF]) =
  Ok (POk p h_lo true (escape_path p)).
Proof.
  cbv zeta. split; [unfold good_path; repeat split; try reflexivity; discriminate|].
  split; [unfold bytes_ok, h_lo; repeat constructor|]. split; [reflexivity|].
  split; vm_compute; reflexivity.
Qed.

(* the format-defining literals of the model are the ones in the source (gen/GenB3sum.v is regenerated from
   b3sum/src/main.rs on every run; the anchors also pin the statement order of hash_one_input: marker, then form) *)
From V Require gen.GenB3sum Proofs.B3sumLitP.
Theorem C13_escape_guard_is_source : forall c, needs_escape c = existsb (N.eqb c) GenB3sum.b3_escape_guard.
Proof. exact B3sumLitP.needs_escape_is_guard. Qed.
Theorem C13_escape_chain_is_source : forall s,
  escape_path s = fold_left (fun acc p => replace_char (fst p) (snd p) acc) GenB3sum.b3_escape_chain s.
Proof. exact B3sumLitP.escape_path_is_chain. Qed.
Theorem C13_unescape_arms_are_source : forall s, unescape s = B3sumLitP.unescape_g GenB3sum.b3_unescape_arms s.
Proof. exact B3sumLitP.unescape_is_arms. Qed.
Theorem C13_separators_are_source :
  PLAIN_SEP = GenB3sum.b3_plain_sep /\ TAG_PREFIX = GenB3sum.b3_tag_prefix /\ TAG_SEP = GenB3sum.b3_tag_sep /\
  [BSL] = GenB3sum.b3_print_marker /\ TAG_PREFIX = GenB3sum.b3_print_tag_prefix /\ TAG_SEP = GenB3sum.b3_print_tag_sep /\
  PLAIN_SEP = GenB3sum.b3_print_plain_sep.
Proof. exact B3sumLitP.separators_are_source. Qed.

Print Assumptions C13_escape_guard_is_source.
Print Assumptions C13_escape_chain_is_source.
Print Assumptions C13_unescape_arms_are_source.
Print Assumptions C13_separators_are_source.
Print Assumptions C13_roundtrip_plain.
Print Assumptions C13_roundtrip_tag.
Print Assumptions C13_roundtrip_tag_refuted_on_unchanged_code.
Print Assumptions C13_parse_printed.
Print Assumptions C13_unrepresentable_path_rejected.
Print Assumptions C13_lossy_valid.
Print Assumptions C13_lossy_invalid_has_fffd.
Print Assumptions C13_print_injective_on_parse.
Print Assumptions C13_parse_printed_any_cfg.
Print Assumptions C13_parse_total.
Print Assumptions C13_parse_total_refuted_on_unchanged_code.
Print Assumptions C13_parse_ok_shape.
Print Assumptions C13_parse_errors.
Print Assumptions C13_unescape_dangling.
Print Assumptions C13_unescape_invalid.
Print Assumptions C13_unescape_escape.
(* --- the checkfile functions of b3sum/src/main.rs, translated statement by statement ----- *)
(* gen/GenB3sumFns.v is regenerated from the current source text by tools/gen_coq_b3sumfns.py; each translated
   function equals the function of Model/B3sum.v in the repaired configuration, for all inputs, result by result.
   anyhow errors are the source's message strings (err_msg gives the message of each error class of the model);
   cfg!(windows) = false; Path::to_string_lossy = utf8_lossy; strings are shorter than 2^64 bytes. *)
From V Require Import Base.Str gen.GenB3sumFns Proofs.GenB3sumFnsP.

Theorem C13_src_err_msg_injective : forall a b, err_msg a = err_msg b -> a = b.
Proof. exact err_msg_injective. Qed.

Theorem C13_src_hex_half_byte : forall c,
  gen_hex_half_byte c = Ok (match hex_half_byte c with Some v => inr v | None => inl (err_msg EHex) end).
Proof. exact gen_hex_half_byte_spec. Qed.

Theorem C13_src_filepath_to_string : forall path_bytes,
  gen_filepath_to_string utf8_lossy false path_bytes = Ok (filepath_to_string path_bytes).
Proof. exact gen_filepath_to_string_spec. Qed.

Theorem C13_src_filepath_to_string_any_lossy : forall lossy path,
  gen_filepath_to_string lossy false path =
  Ok (let s := lossy path in if existsb needs_escape s then (escape_path s, true) else (s, false)).
Proof. exact gen_filepath_to_string_any_lossy. Qed.

Theorem C13_src_check_for_invalid_characters : forall p,
  gen_check_for_invalid_characters false p =
  Ok (match check_for_invalid_characters p with Some e => inl (err_msg e) | None => inr tt end).
Proof. exact gen_check_for_invalid_characters_spec. Qed.

Theorem C13_src_unescape : forall fuel s, (length s <= fuel)%nat -> str_len s < 18446744073709551616 ->
  gen_unescape fuel s = Ok (match unescape s with Some u => inr u | None => inl (err_msg EEscape) end).
Proof. exact gen_unescape_spec. Qed.

Theorem C13_src_split_untagged_check_line : forall las,
  gen_split_untagged_check_line las = Ok (split_untagged_check_line las).
Proof. exact gen_split_untagged_spec. Qed.

(* the source returns (file, hash) for the tagged layout, the model (hash, file) *)
Theorem C13_src_split_tagged_check_line : forall las,
  gen_split_tagged_check_line las =
  Ok (option_map (fun x : list N * list N => (snd x, fst x)) (split_tagged_check_line las)).
Proof. exact gen_split_tagged_spec. Qed.

(* the hex-digit loop `for byte in &mut hash_bytes` (place of one repaired defect) *)
Theorem C13_src_parse_check_line_hex_loop : forall arr chars,
  gen_parse_check_line_for1 arr chars =
  match hex_loop fixed_cfg (length arr) chars with
  | Ok (inr bs) => Ok (inr (bs, skip2 (length arr) chars))
  | Ok (inl _) => Ok (inl (inl (err_msg EHex)))
  | Panic c => Panic c
  | OutOfFuel => OutOfFuel
  end.
Proof. exact for1_spec. Qed.

(* ParsedCheckLine { file_string, is_escaped, file_path, expected_hash } = POk file_path expected_hash is_escaped file_string;
   Err(message) = PErr of the class with that message; Panic = Panic *)
Theorem C13_src_parse_check_line : forall fuel line, (length line <= fuel)%nat -> str_len line < 18446744073709551616 ->
  gen_parse_check_line false fuel line =
  match parse_check_line fixed_cfg line with
  | Ok (PErr e) => Ok (inl (err_msg e))
  | Ok (POk p h esc fstr) => Ok (inr (fstr, esc, p, h))
  | Panic c => Panic c
  | OutOfFuel => OutOfFuel
  end.
Proof.
  intros fuel line L B. rewrite (gen_parse_check_line_spec fuel line L B).
  destruct (parse_check_line fixed_cfg line) as [[e|p h esc fstr]|c|]; reflexivity.
Qed.

(* the translated parser never panics and never runs out of fuel on any line *)
Theorem C13_src_parse_check_line_total : forall fuel line, (length line <= fuel)%nat -> str_len line < 18446744073709551616 ->
  exists r, gen_parse_check_line false fuel line = Ok (parsed_of_model r) /\ parse_check_line fixed_cfg line = Ok r.
Proof. exact gen_parse_check_line_total. Qed.

Print Assumptions C13_src_err_msg_injective.
Print Assumptions C13_src_hex_half_byte.
Print Assumptions C13_src_filepath_to_string.
Print Assumptions C13_src_filepath_to_string_any_lossy.
Print Assumptions C13_src_check_for_invalid_characters.
Print Assumptions C13_src_unescape.
Print Assumptions C13_src_split_untagged_check_line.
Print Assumptions C13_src_split_tagged_check_line.
Print Assumptions C13_src_parse_check_line_hex_loop.
Print Assumptions C13_src_parse_check_line.
Print Assumptions C13_src_parse_check_line_total.
