(* C09: subtree hashing composes to the whole-input hash for every valid decomposition.
   Statements only; proofs in Proofs/{FormulasP,HasherP,C02P,C09P}.v. *)
From Coq Require Import NArith List Bool.
From V Require Import Base.Res Base.Word Base.MachInt gen.GenFormulas Spec.Compress Spec.Tree Spec.Blake3
  Model.Platform Model.RsChunk Model.RsHasher Proofs.FormulasP Proofs.IoP Proofs.HasherP Proofs.C02P Proofs.C09P.
Import ListNotations.
Open Scope N_scope.

(* the two length helpers, as written in the source, on all of u64 *)
Theorem C09_left_subtree_len : forall n, 1024 < n -> n < 2 ^ 64 -> rs_left_subtree_len n = Ok (left_len n).
Proof. exact rs_left_subtree_len_spec. Qed.

Theorem C09_left_len_is_largest_pow2_below : forall n, 1024 < n ->
  exists a, left_len n = 1024 * 2 ^ a /\ 1024 * 2 ^ a < n <= 1024 * 2 ^ (a + 1).
Proof. exact Proofs.TreeP.left_len_spec. Qed.

Theorem C09_max_subtree_len : forall c, 0 < c -> c < 2 ^ 54 ->
  rs_max_subtree_len (c * 1024) = Ok (Some (1024 * 2 ^ tz 64 c)).
Proof. exact rs_max_subtree_len_spec. Qed.

Theorem C09_max_subtree_len_zero : rs_max_subtree_len 0 = Ok None.
Proof. exact rs_max_subtree_len_zero. Qed.

(* a subtree hasher: set_input_offset at any chunk-aligned offset, any update split of at most
   max_subtree_len bytes, finalize_non_root = the specification's subtree chaining value, which
   depends only on the bytes, the offset and the mode key *)
Theorem C09_set_input_offset : forall K F, length K = 8%nat -> forall c0, c0 < 2 ^ 54 ->
  set_input_offset (new_internal K F) (1024 * c0) = Ok (fresh K F c0).
Proof. exact set_input_offset_fresh. Qed.

Theorem C09_subtree_cv_spec : forall p, PlatformOK p -> forall K F, length K = 8%nat -> forall c0 pieces,
  c0 < 2 ^ 54 -> 0 < len (concat pieces) -> len (concat pieces) <= 1024 * lim_of c0 -> len (concat pieces) < 2 ^ 64 ->
  exists h, updates p (fresh K F c0) pieces = Ok h /\
    finalize_non_root p h = Ok (chaining_value spec_c8 (subtree_output spec_c8 tree_height K F c0 (concat pieces))).
Proof. exact subtree_cv_spec. Qed.

(* every decomposition that respects left_subtree_len (joins) and max_subtree_len (leaves), with any
   nesting, yields the specification's subtree chaining value ... *)
Theorem C09_decomp_cv : forall p, PlatformOK p -> forall K F, length K = 8%nat -> forall c0 bs cv,
  Decomp p K F c0 bs cv -> len bs <= 1024 * 2 ^ 64 ->
  cv = chaining_value spec_c8 (subtree_output spec_c8 tree_height K F c0 bs).
Proof. exact decomp_cv. Qed.

(* ... and merging the two top-level subtrees gives the hash and the root output (extended output) *)
Theorem C09_decomp_root : forall p, PlatformOK p -> forall K F, length K = 8%nat -> forall l r cvl cvr,
  1024 < len (l ++ r) -> len (l ++ r) < 2 ^ 64 -> len l = left_len (len (l ++ r)) ->
  Decomp p K F 0 l cvl -> Decomp p K F (len l / 1024) r cvr ->
  merge_subtrees_root p K F cvl cvr = Ok (stream spec_c64 (subtree_output spec_c8 tree_height K F 0 (l ++ r)) 0 32) /\
  merge_subtrees_inner K F cvl cvr = subtree_output spec_c8 tree_height K F 0 (l ++ r).
Proof. exact decomp_root. Qed.

(* documented misuse panics *)
Theorem C09_misuse_unaligned_offset : forall K F, length K = 8%nat -> forall off, off mod 1024 <> 0 ->
  set_input_offset (new_internal K F) off = Panic 24.
Proof. exact misuse_unaligned_offset. Qed.

Theorem C09_misuse_too_much_input : forall p, PlatformOK p -> forall K F, length K = 8%nat -> forall c0 h bs input,
  c0 < 2 ^ 54 -> c0 <> 0 -> InvS K F c0 h bs -> 1024 * lim_of c0 < len bs + len input ->
  hasher_update p h input = Panic 21.
Proof. exact misuse_too_much_input. Qed.

Theorem C09_misuse_finalize_with_offset : forall p K F, length K = 8%nat -> forall c0 h bs,
  c0 < 2 ^ 54 -> c0 <> 0 -> InvS K F c0 h bs ->
  hasher_finalize p h = Panic 22 /\ hasher_finalize_output p h = Panic 22.
Proof. exact misuse_finalize_with_offset. Qed.

Theorem C09_misuse_empty_subtree : forall p, PlatformOK p -> forall K F, length K = 8%nat -> forall c0,
  c0 < 2 ^ 54 -> finalize_non_root p (fresh K F c0) = Panic 25.
Proof. exact misuse_empty_subtree. Qed.

Example C09_nonvacuous :
  let p := sim_platform 4 16 in
  let a := repeat 1 2048 in let b := repeat 2 1000 in
  (ha <- updates p (fresh IV 0 0) [a] ;; cva <- finalize_non_root p ha ;;
   hb <- updates p (fresh IV 0 2) [b] ;; cvb <- finalize_non_root p hb ;;
   merge_subtrees_root p IV 0 cva cvb) = Ok (b3_hash (a ++ b)).
Proof. vm_compute. reflexivity. Qed.

(* the functions of the modelled source are exactly the functions the model was written against
   (gen/GenApi.v is regenerated from /repo on every run; see Model/ApiSurface.v) *)
From V Require gen.GenApi Model.ApiSurface.
Theorem C09_api_hazmat : GenApi.api_hazmat = ApiSurface.expected_hazmat.
Proof. reflexivity. Qed.

Print Assumptions C09_api_hazmat.
Print Assumptions C09_left_subtree_len.
Print Assumptions C09_left_len_is_largest_pow2_below.
Print Assumptions C09_max_subtree_len.
Print Assumptions C09_max_subtree_len_zero.
Print Assumptions C09_set_input_offset.
Print Assumptions C09_subtree_cv_spec.
Print Assumptions C09_decomp_cv.
Print Assumptions C09_decomp_root.
Print Assumptions C09_misuse_unaligned_offset.
Print Assumptions C09_misuse_too_much_input.
Print Assumptions C09_misuse_finalize_with_offset.
Print Assumptions C09_misuse_empty_subtree.
