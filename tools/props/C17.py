"""C17: secret state is neither printed by Debug nor left behind by zeroize."""
from props.common import Rng, bspec, modes, number, CHUNK
from props.hist import PLATFORMS, upd_size

RULE = ("states reached by updates / finalize_xof / seeks in all modes with varied keys, contexts and input bytes: the "
        "real {:?} strings of Hasher, OutputReader and guts::ChunkState must equal the model's string built from the "
        "public fields only (so two states with equal public fields print equal strings whatever the secrets); after "
        "zeroize() every byte inside any field of Hasher/OutputReader other than `platform` (byte ranges from the "
        "hook) must be zero, and the object's subsequent behaviour must equal the all-zero state's. "
        "Non-trivial = distinct case with a non-empty CV stack or a non-zero reader position before zeroize.")
MODELLED = ["object layout / padding / moved-from temporaries: outside the model (padding bytes are not scanned)",
            "Hash::zeroize: harness-only check"]
ASSUMPTIONS = ["field byte ranges come from the cfg-guarded hook verif_secret_field_ranges_*"]


def gen_cases(seed, tier):
    rng = Rng(seed)
    lines = []
    ms = modes(rng)
    n = 40 if tier == "thorough" else 8
    for plat in PLATFORMS:
        for _ in range(n):
            m = rng.choice(ms)
            ops = []
            for _ in range(rng.range(1, 6)):
                ops.append(f"u:0:{bspec(rng, upd_size(rng, plat, 20))}")
            ops += ["dbg:0", "xo:0", f"rf:0:{rng.range(0, 300)}", "rdbg:0"]
            if rng.chance(0.5):
                ops += [f"rs:0:{rng.choice([0, 63, 64, (1 << 38) + 5, (1 << 63) + 77])}", "rdbg:0"]
            ops += ["cl:0", "zh:0", "dbg:0", "c:0", f"u:0:{bspec(rng, rng.range(0, 3000))}", "c:0", "f:0",
                    "zr:0", "rdbg:0", "rf:0:70", "f:1", "dbg:1"]
            lines.append(f"H {m} {plat} " + " ".join(ops))
        # same public shape, different secrets: identical strings expected (checked via the model)
        for k in range(2):
            ln = rng.choice([100, 5000])
            for m in ("hash", f"keyed=prng/{rng.below(999)}/32", f"keyed=prng/{rng.below(999)}/32"):
                lines.append(f"H {m} {plat} u:0:{bspec(rng, ln)} dbg:0 xo:0 rf:0:33 rdbg:0")
    return number(lines)


def nontrivial(rest, model_line):
    import re
    sizes = [int(x) for x in re.findall(r"\bu:\d+:\w+/\d+/(\d+)", rest.split("zh:")[0])]
    return sum(sizes) > 2048


def correspondence(ctx):
    drv = ctx.need_model()
    cases = gen_cases(ctx.seed, ctx.tier)
    builds = [("default", "debug")]
    if ctx.tier == "thorough":
        builds += [("default", "release")]
    for flavour, profile in builds:
        b = ctx.need_harness(flavour, profile)
        ctx.correspond("debug-zeroize", cases, drv, b, profile=profile, build=flavour, nontrivial=nontrivial)


def classify(f):
    return None
