"""C07: memory and ABI safety of the kernels and of the C library (guard pages, canaries, register checks, sanitizers)."""
import re

from props import kern
from props.common import Rng, bspec, hexspec, TEST_KEY
from props.hist import upd_size

RULE = ("the C05 kernel argument lattice (block_len 0..64, flags 0..255, boundary counters, hash_many 0..33 inputs x "
        "{1,16} blocks x alignment offsets 0..15,63, xof_many 1..35 blocks) and random C-hasher histories (CH grammar: "
        "n, update with boundary-mixture sizes, update(NULL,0), finalize(n), finalize_seek(pos,n) with positions around "
        "0 / 2^32 / 2^38 / 2^63 / 2^64-5000, finalize(NULL,0), reset, memcpy clone) with EVERY buffer (inputs read-only, "
        "outputs, key, pointer array, hasher struct) flush against a PROT_NONE page, on the high side and on the low "
        "side, hash_many inputs both separately allocated and contiguous, canaries around every buffer, every kernel "
        "called through a trampoline that checks callee-saved registers / DF / MXCSR / stack (sysv and ms_abi), on the "
        "assembly build (Unix + Windows-GNU assembly) and the C intrinsics build; thorough: the same under ASan+UBSan. "
        "Rust side: Platform::hash_many on separately mmap'ed inputs flush against guard pages (khmg) for the three "
        "build flavours.  Values are also compared with the model.  Any FAULT / ABORT / oob / abi:* / PANIC token or "
        "sanitizer report is a failure.  Non-trivial = distinct kernel call with >= 2 inputs / >= 2 blocks / partial "
        "block / boundary counter, or distinct history with more than one chunk absorbed.")
MODELLED = ["memory safety is checked dynamically on the executable code (guard pages, canaries, sanitizers), not proved "
            "for the assembly; the model-level statement is Ok-ness (no panic) of the modelled Rust code"]
ASSUMPTIONS = ["page-granular detection: an out-of-bounds READ is seen only when it crosses into the guard page "
               "(buffers are placed flush against it; alignment offsets leave up to 63 bytes of slack on one side)",
               "host supports SSE2..AVX-512"]
TRUSTED_EXTRA = ["tools/gen_coq.py gen_asm_frames: the reading of the .S files (function boundaries, push/pop, sub/and rsp, rsp-based operands with their size keyword, destination = first operand) behind gen/GenAsmFrames.v", "harness/c/driver.c guard allocator + trampoline.S (validated by its own selfchk cases: deliberately "
                 "broken kernels must be reported)"]

KNOWN_KEY = "asm_hash_many_overread"
SEEKS = [0, 1, 31, 63, 64, 65, 127, 128, 1000, (1 << 32) - 1, 1 << 32, (1 << 38) - 64, (1 << 38) - 1, (1 << 38) + 5,
         (1 << 63) - 7, (1 << 64) - 5000]
OUTS = [0, 1, 31, 32, 33, 63, 64, 65, 127, 128, 129, 191, 192, 1000]
MASKS = ["portable", "sse2", "sse41", "avx2", "avx512", "detect"]
ASCII_CTX = ["BLAKE3 2019-12-27 16:29:52 test vectors context", "a", "x" * 64, "ctx " * 300]


def ch_modes(rng):
    """(C mode, model/Rust mode)"""
    ms = [("hash", "hash"), ("keyed=" + hexspec(TEST_KEY), "keyed=" + hexspec(TEST_KEY))]
    k = "prng/%d/32" % rng.below(1 << 20)
    ms.append(("keyed=" + k, "keyed=" + k))
    for c in ASCII_CTX:
        h = hexspec(c.encode())
        ms.append(("derive=" + h, "derive=" + h))
        ms.append(("deriveraw=" + h, "derive=" + h))
    ms.append(("deriveraw=hex/", "derive=hex/"))
    return ms


def ch_history(rng, mask, nops, budget=40 * 1024):
    """-> (C ops, model ops): the same history in the CH grammar and in the H grammar"""
    cops, mops = [], []
    ninst, nreaders, spent = 1, 0, 0
    for _ in range(nops):
        i = rng.below(ninst)
        r = rng.below(100)
        if r < 45:
            n = upd_size(rng, mask if mask != "detect" else "avx512", 24)
            if spent + n > budget:
                n = rng.range(0, 200)
            spent += n
            b = bspec(rng, n)
            cops.append("u:%d:%s" % (i, b))
            mops.append("u:%d:%s" % (i, b))
        elif r < 50:
            cops.append("u0:%d" % i)
        elif r < 65:
            o = rng.choice(OUTS)
            cops.append("f:%d:%d" % (i, o))
            mops.append("x:%d:%d" % (i, o))
        elif r < 80:
            s, o = rng.choice(SEEKS), rng.choice(OUTS)
            if rng.chance(0.3):
                s = max(0, min((1 << 64) - 1 - o, s + rng.range(-70, 70)))
            cops.append("fs:%d:%d:%d" % (i, s, o))
            mops += ["xo:%d" % i, "rs:%d:%d" % (nreaders, s), "rf:%d:%d" % (nreaders, o)]
            nreaders += 1
        elif r < 84:
            cops.append("f0:%d" % i)
        elif r < 89:
            cops.append("r:%d" % i)
            mops.append("r:%d" % i)
        elif r < 94 and ninst < 4:
            cops.append("n")
            mops.append("n")
            ninst += 1
        elif ninst < 4:
            cops.append("cl:%d" % i)
            mops.append("cl:%d" % i)
            ninst += 1
    for i in range(ninst):
        cops.append("f:%d:32" % i)
        mops.append("x:%d:32" % i)
    return cops, mops


def gen_ch(seed, tier):
    """-> list of (C line rest, model line rest)"""
    rng = Rng(seed * 104729 + 7)
    ms = ch_modes(rng)
    out = []
    nh = 40 if tier == "thorough" else 6
    for mask in MASKS:
        for k in range(nh):
            cm, mm = ms[0] if k % 3 == 0 else rng.choice(ms)
            cops, mops = ch_history(rng, mask, rng.range(3, 22))
            out.append(("CH %s %s %s" % (cm, mask, " ".join(cops)), "H %s %s %s" % (mm, mask, " ".join(mops))))
        # every seek position once, on chunk and parent roots
        for s in SEEKS[:: (1 if tier == "thorough" else 3)]:
            cm, mm = rng.choice(ms)
            b = bspec(rng, rng.choice([0, 1, 64, 1024, 1025, 4096, 9000]))
            o = rng.choice(OUTS)
            out.append(("CH %s %s u:0:%s fs:0:%d:%d" % (cm, mask, b, s, o),
                        "H %s %s u:0:%s xo:0 rs:0:%d rf:0:%d" % (mm, mask, b, s, o)))
    return out


def ch_nontrivial(rest):
    return sum(int(x) for x in re.findall(r"\bu:\d+:\w+/\d+/(\d+)", rest)) > 1024


def run_ch(ctx, label, chcases, mres, binary, env, errs):
    lines = ["h%d %s" % (i, c) for i, (c, _) in enumerate(chcases)]
    res = kern.charness.run(binary, lines, env=env, stderr=errs)
    nfail = nskip = 0
    for i, (c, m) in enumerate(chcases):
        r = res.get("h%d" % i, "MISSING")
        ctx.evaluations += 1
        if r.startswith("SKIP"):
            nskip += 1
            continue
        if ch_nontrivial(c):
            ctx.nontrivial.add(c)
        want = mres.get("h%d" % i, "MISSING")
        got = [t for t in r.split() if t not in ("ok", "same")]
        if kern.BADTOK.search(r) or "diff" in r.split() or got != want.split():
            nfail += 1
            ctx.failures.append({"correspondence": "C hasher histories", "case": c, "model": want[:400], "impl": r[:400],
                                 "build": label, "env": dict(env)})
    if len(ctx.samples) < 12 and chcases:
        ctx.samples.append({"case": chcases[0][0][:300], "build": label, "model": mres.get("h0", "")[:160],
                            "impl": res.get("h0", "")[:160]})
    ctx.stats["ch/" + label] = {"cases": len(lines), "skipped": nskip, "disagreements": nfail}
    ctx.log("C hasher histories [%s]: %d cases, %d skipped, %d failures" % (label, len(lines), nskip, nfail))


def correspondence(ctx):
    drv = ctx.need_model()
    if drv is None:
        return
    thorough = ctx.tier == "thorough"
    args = kern.gen_args(ctx.seed, ctx.tier, scale=0.3)
    if not thorough:
        # quick: every hash_many / xof_many tuple, a third of the single-compression tuples
        args = [(k, a) for j, (k, a) in enumerate(args) if k in ("khm", "kxm") or j % 3 == 0]
    mres = kern.model_results(ctx, drv, args)
    chcases = gen_ch(ctx.seed, ctx.tier)
    chm = kern.verif.run_model(drv, ["h%d %s" % (i, m) for i, (_, m) in enumerate(chcases)])
    ctx.log("kernel tuples: %d, C hasher histories: %d" % (len(args), len(chcases)))
    envs = []
    for side in ("hi", "lo"):
        for layout in ("separate", "contig"):
            envs.append(("guard-%s-%s" % (side, layout), {"C_GUARD": "1", "C_GUARD_SIDE": side, "C_HM_LAYOUT": layout}))
    builds = [("asm", None, kern.C_ASM_COMBOS), ("intr", None, kern.C_INTR_COMBOS)]
    if thorough:
        builds += [("asm", "asan", kern.C_ASM_COMBOS), ("intr", "asan", kern.C_INTR_COMBOS)]
    reports = 0
    for variant, san, combos in builds:
        b = kern.need_c(ctx, variant, san)
        if b is None:
            continue
        for ename, env in envs:
            label = "c-%s%s/%s" % (variant, "-" + san if san else "", ename)
            errs = []
            # the layout only matters to hash_many: the other kinds run once per guard side
            kinds = None if env["C_HM_LAYOUT"] == "separate" else ("khm",)
            kern.run_flavour(ctx, "kernels-guarded", label, args, mres, kern.c_runner(b, env, errs), combos,
                             kinds=kinds, allow=env)
            if env["C_HM_LAYOUT"] == "separate":
                run_ch(ctx, label, chcases, chm, b, env, errs)
            for ids, text in errs:
                reports += 1
                ctx.failures.append({"correspondence": "sanitizer/stderr report", "case": "shard with ids %s" % ",".join(ids[:5]),
                                     "model": "", "impl": text[:1500], "build": label, "env": dict(env)})
            ctx.stats["stderr/" + label] = {"cases": 1, "disagreements": len(errs)}
        # the instrumentation is live: deliberately broken kernels must be reported
        selfchk(ctx, b, "c-%s%s" % (variant, "-" + san if san else ""))
    # Rust crate: Platform::hash_many on separately allocated, guarded inputs
    idx = [j for j, (k, _) in enumerate(args) if k == "khm"]
    if not thorough:
        idx = idx[::3]      # mmap/mprotect per input and a fork per call: ~20 ms per call on this host
    khm = [("khmg", args[j][1]) for j in idx]
    khm_m = [mres[j] for j in idx]
    plan = [("default", "hi", "separate"), ("default", "lo", "separate"), ("default", "hi", "contig"),
            ("prefer_intrinsics", "hi", "separate"), ("prefer_intrinsics", "lo", "separate"), ("pure", "hi", "separate")]
    if thorough:
        plan += [("prefer_intrinsics", "hi", "contig"), ("pure", "lo", "separate"), ("pure", "hi", "contig"),
                 ("default", "lo", "contig")]
    for fl, side, layout in plan:
        b = ctx.need_harness(fl, "debug")
        if b is None:
            continue
        env = {"C_GUARD": "1", "C_GUARD_SIDE": side, "C_HM_LAYOUT": layout}
        kern.run_flavour(ctx, "kernels-guarded", "rs-%s/guard-%s-%s" % (fl, side, layout), khm, khm_m,
                         kern.rs_runner(b, env), kern.RS_COMBOS, allow=env)
    known = [f for f in ctx.failures if classify(f) == KNOWN_KEY]
    by = {}
    for f in known:
        by[f["build"]] = by.get(f["build"], 0) + 1
    ctx.extra_cov = {"known_finding_hits": {KNOWN_KEY: by}, "stderr_reports": reports}
    if known:
        ctx.log("known finding %s: %d hits, first: %s [%s]" % (KNOWN_KEY, len(known), known[0]["case"], known[0]["build"]))


SELFCHK = {"none": "done", "rbx": "abi:rbx done", "rbp": "abi:rbp done", "r12": "abi:r12 done", "r15": "abi:r15 done",
           "df": "abi:df done", "rsp": "abi:rsp done", "mxcsr": "abi:mxcsr done", "stack": "abi:stack done",
           "ms_none": "done", "ms_xmm6": "abi:xmm6 done", "ms_xmm15": "abi:xmm15 done", "ms_rsi": "abi:rsi done",
           "ms_rdi": "abi:rdi done", "ms_stack": "abi:stack done", "write_past": "FAULT", "write_before": "done oob",
           "read_past": "FAULT", "read_before": "done", "write_input": "FAULT"}


def selfchk(ctx, binary, label):
    env = {"C_GUARD": "1", "C_GUARD_SIDE": "hi"}
    res = kern.charness.run(binary, ["%s selfchk %s" % (k, k) for k in SELFCHK], env=env, shards=1)
    bad = [(k, res.get(k)) for k, w in sorted(SELFCHK.items()) if res.get(k) != w]
    ctx.evaluations += len(SELFCHK)
    ctx.stats["selfchk/" + label] = {"cases": len(SELFCHK), "disagreements": len(bad)}
    if bad:
        ctx.broken.append("instrumentation self-check failed on %s: %s" % (label, bad[:4]))


def overread_extent(impl, n):
    """bytes the assembly reads past inputs[i] + 64*blocks (measured): avx2 4-/2-input remainder 16; avx512 4-input
    remainder up to 48, 2-input remainder 16"""
    m = n % 8
    if m < 2:
        return 0
    if impl == "avx512" and m >= 4:
        return 48
    return 16


def classify(f):
    """asm_hash_many_overread: hash_many of the AVX2 / AVX-512 assembly (Unix and Windows-GNU; through the C symbol or
    through the Rust crate's FFI in the default build) faults when the inputs are separately allocated, flush against a
    guard page on the high side, num_inputs % 8 in 2..7, and the slack left by the alignment offset is smaller than the
    over-read (16 bytes; 48 for the AVX-512 4-input remainder).  Anything else: None."""
    try:
        t = f.get("case", "").split()
        env = f.get("env", {})
        if len(t) != 13 or t[0] not in ("khm", "khmg") or t[1] not in ("avx2", "avx512"):
            return None
        kind, impl, fl = t[0], t[1], t[2]
        if kind == "khm" and fl not in ("asm", "winasm"):
            return None
        if kind == "khmg" and not (fl == "rs" and str(f.get("build", "")).startswith("rs-default/")):
            return None
        if f.get("impl", "").split() != ["FAULT"]:
            return None
        if env.get("C_GUARD") != "1" or env.get("C_GUARD_SIDE", "hi") != "hi" or env.get("C_HM_LAYOUT", "separate") != "separate":
            return None
        n, align_off = int(t[3]), int(t[11])
        slack = (64 - align_off % 64) % 64
        if slack < overread_extent(impl, n):
            return KNOWN_KEY
    except Exception:
        return None
    return None


def replay(path):
    import json
    f = json.load(open(path))
    print("case:", f.get("case"), "| build:", f.get("build"), "| env:", f.get("env"))
    print("recorded model:", f.get("model"))
    print("recorded impl :", f.get("impl"))
    case = f.get("case", "")
    drv, _ = kern.verif.build_model()
    if drv and case.split()[:1] and case.split()[0] in ("kcip", "kxof", "khm", "khmg", "kxm"):
        print("model now     :", kern.verif.run_model(drv, ["r " + case]).get("r"))
    b = str(f.get("build", ""))
    if b.startswith("c-"):
        variant = "asm" if b.startswith("c-asm") else "intr"
        binp, _ = kern.charness.build(variant, "asan" if "-asan" in b.split("/")[0] else None)
        if binp:
            print("impl now      :", kern.charness.run(binp, ["r " + case], env=f.get("env")).get("r"))
    return 0
