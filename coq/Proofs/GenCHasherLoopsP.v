(* The loop-carrying core of c/blake3.c as TRANSLATED statement by statement from the source text
   (gen/GenCHasherLoops.v: chunk_state_update, hasher_merge_cv_stack, hasher_push_cv,
   blake3_hasher_finalize_seek; every `while` a Fixpoint on explicit fuel with the condition and the
   body statements of the source in order) equals the hand-written model of Model/CHasher.v, for
   all arguments and all results (Ok, every Panic code, OutOfFuel).

   Representation.  chunk states / outputs are read field by field as in GenCHasherSmallP.v.  The
   translation INTERPRETS blake3_hasher.cv_stack as the flat `uint8_t cv_stack[1760]` of
   c/blake3.h (records at S := list N); the model keeps it as c_cv_stack_slots = 55 slots of 32
   bytes, bottom first.  slots_of_flat cuts the flat array into its 55 consecutive 32-byte pieces
   (the inverse of `concat` on 55 slots of 32 bytes: slots_of_flat_concat / concat_slots_of_flat),
   hasher_of_flat reads a translated hasher into the model's record through it.

   Hypotheses: the array lengths the C declarations promise (flat_shape: key[8], cv[8], buf[64],
   cv_stack[1760]; new_cv[32]), `input_len = nlen input` (stated by passing nlen input), and
   compress_len8 p: the compression kernel selected by the platform record leaves 8 words in an
   8-word cv (what `uint32_t cv[8]` promises of blake3_compress_in_place, and what every
   PlatformOK p does; otherwise the 32 bytes a CV occupies in the flat array and the model's slot
   would differ in length).

   Fuel.  The loop lemmas hold for EVERY fuel (the two definitions unfold in lock step, OutOfFuel
   included).  The model hard-codes its fuel; the enclosing functions are instantiated accordingly:
     hasher_merge_cv_stack / hasher_push_cv   fuel := c_merge_fuel (what the model uses)
     chunk_state_update                        every fuel with length input <= 64 * fuel (the model
                                               computes S (length input' / 64) from the input that is
                                               left after the first flush; both are enough, and the
                                               model's loop does not depend on fuel once it is enough)
     blake3_hasher_finalize_seek               every fuel >= cv_stack_len (the model's loop is a
                                               structural recursion on cvs_remaining, without fuel)

   Where the source and the model are shaped differently (all proved not to matter):
     - chunk_state_update: `input_len -= take` / `input_len -= BLAKE3_BLOCK_LEN` are checked
       subtractions in the translation; the model has no input_len (it is the length of the list).
       They cannot wrap: take <= input_len, and the loop condition is input_len > 64.
     - hasher_merge_cv_stack: the model checks `i + 2 <= 55` in slots (Panic 321); the translation
       multiplies (cv_stack_len - 2) * 32 in `int` (overflow: Panic 321), asserts the 64 bytes read
       for parent_output and again the 32 bytes written by output_chaining_value (both Panic 321; the
       second can never fire after the first).
     - hasher_push_cv: the model checks cv_stack_len < 55 (Panic 322); the translation checks the
       multiplication and `32 * cv_stack_len + 32 <= 1760` (both Panic 322).  The source copies
       BLAKE3_OUT_LEN bytes of new_cv, the model stores new_cv: equal for length new_cv = 32.
     - blake3_hasher_finalize_seek: the model's loop recurses on the natural number cvs_remaining
       (no fuel, and `cvs_remaining -= 1` cannot wrap under `cvs_remaining > 0`); the model returns
       the bytes written, the translation the buffer `out` after the write (arr_store out 0 bytes,
       as m_finalize_seek of GenCHasherSmallP.v); output_root_bytes is the stand-in
       m_output_root_bytes built from c_output_root_bytes in the same way. *)
From Coq Require Import NArith List Bool Lia Arith.
From V Require Import Base.Res Base.Word Base.MachInt Base.Arr gen.GenConsts gen.GenFormulas
  gen.GenCHasherSmall gen.GenCHasherLoops Spec.Tree Model.Platform Model.RsChunk Model.CHasher
  Proofs.GenCHasherSmallP.
Import ListNotations.
Open Scope N_scope.

(* ---------- small facts ---------- *)
Lemma res_map_map {A B C} (f : A -> B) (g : B -> C) (r : res A) :
  res_map g (res_map f r) = res_map (fun a => g (f a)) r.
Proof. destruct r; reflexivity. Qed.

Lemma res_map_ext {A B} (f g : A -> B) (r : res A) : (forall a, f a = g a) -> res_map f r = res_map g r.
Proof. intros H. destruct r; cbn; [rewrite H|..]; reflexivity. Qed.

Lemma res_map_id {A} (f : A -> A) (r : res A) : (forall a, f a = a) -> res_map f r = r.
Proof. intros H. destruct r; cbn; [rewrite H|..]; reflexivity. Qed.

Lemma res_map_bind {A B C} (f : B -> C) (m : res A) (k : A -> res B) :
  res_map f (bind m k) = bind m (fun a => res_map f (k a)).
Proof. destruct m; reflexivity. Qed.

Lemma bind_res_map {A B C} (f : A -> B) (m : res A) (k : B -> res C) :
  bind (res_map f m) k = bind m (fun a => k (f a)).
Proof. destruct m; reflexivity. Qed.

Lemma ltb_not_leb a b : (a <? b) = negb (b <=? a).
Proof. apply N.ltb_antisym. Qed.

Lemma skipn_plus {A} (a b : nat) (l : list A) : skipn (a + b) l = skipn b (skipn a l).
Proof.
  revert l. induction a as [|a IH]; intros l; [reflexivity|].
  destruct l as [|x l]; [destruct b; reflexivity|]. cbn [Nat.add skipn]. apply IH.
Qed.

Lemma firstn_plus {A} (a b : nat) (l : list A) : firstn (a + b) l = firstn a l ++ firstn b (skipn a l).
Proof.
  revert l. induction a as [|a IH]; intros l; [reflexivity|].
  destruct l as [|x l]; [destruct b; reflexivity|]. cbn [Nat.add firstn skipn app]. rewrite IH. reflexivity.
Qed.

Lemma firstn_app_exact {A} (a b : list A) n : length a = n -> firstn n (a ++ b) = a.
Proof. intros <-. rewrite firstn_app, firstn_all, Nat.sub_diag. cbn [firstn]. apply app_nil_r. Qed.

Lemma skipn_app_exact {A} (a b : list A) n : length a = n -> skipn n (a ++ b) = b.
Proof. intros <-. rewrite skipn_app, skipn_all, Nat.sub_diag. reflexivity. Qed.

Lemma arr_store_length (l v : list N) off : (off + length v <= length l)%nat -> length (arr_store l off v) = length l.
Proof. intros H. unfold arr_store. rewrite !app_length, firstn_length, skipn_length. lia. Qed.

Lemma nlen_skipn (l : list N) k : k <= nlen l -> nlen (skipn (N.to_nat k) l) = nlen l - k.
Proof. unfold nlen. intros H. rewrite skipn_length. lia. Qed.

(* ====================================================================================== *)
(*  chunk_state_update                                                                    *)
(* ====================================================================================== *)

(* chunk_state_fill_buf, the translation expressed through the model (GenCHasherSmallP, turned around) *)
Lemma src_fill_buf_as_model self input : length (blake3_chunk_state_buf self) = 64%nat ->
  src_chunk_state_fill_buf self input (nlen input)
  = res_map (fun r => (src_of_cs (fst r), snd r)) (c_cs_fill_buf (cs_of_src self) input).
Proof.
  intros H. rewrite <- (src_chunk_state_fill_buf_eq self input (nlen input) H eq_refl), res_map_map.
  symmetry. apply res_map_id. intros [s t]. cbn [fst snd]. rewrite src_of_cs_of_src. reflexivity.
Qed.

Lemma c_cs_fill_buf_Ok cs input cs' take : c_cs_fill_buf cs input = Ok (cs', take) ->
  take <= nlen input /\ length (cs_buf cs') = length (cs_buf cs) /\ cs_cv cs' = cs_cv cs.
Proof.
  unfold c_cs_fill_buf. intros H. inv_bind H w Ew. cbv zeta in H. inv_check H Ec. inv_bind H bl Eb.
  inversion H; subst; clear H. cbn [cs_buf cs_cv]. apply N.leb_le in Ec.
  assert (Ht : N.min w (nlen input) <= nlen input) by apply N.le_min_r.
  split; [exact Ht|]. split; [|reflexivity].
  set (take := N.min w (nlen input)) in *. clearbody take. unfold nlen in *.
  rewrite !app_length, !firstn_length, skipn_length. lia.
Qed.

(* the loop: for every fuel; the third component the translation carries is the length of the second *)
Lemma src_chunk_state_update_loop1_as_model p fuel : forall self input,
  src_chunk_state_update_loop1 (p_compress_in_place p) fuel self input (nlen input)
  = res_map (fun r => (src_of_cs (fst r), snd r, nlen (snd r))) (c_cs_update_loop fuel p (cs_of_src self) input).
Proof.
  induction fuel as [|fuel IH]; intros self input; cbn [src_chunk_state_update_loop1 c_cs_update_loop];
    rewrite ltb_not_leb; destruct (nlen input <=? c_BLOCK_LEN) eqn:E; cbn [negb res_map fst snd];
    try (rewrite src_of_cs_of_src; reflexivity); try reflexivity.
  apply N.leb_gt in E. destruct self as [cv ctr buf bl blocks fl].
  cbn [cs_of_src cs_cv cs_ctr cs_buf cs_buf_len cs_blocks cs_flags blake3_chunk_state_cv
       blake3_chunk_state_chunk_counter blake3_chunk_state_buf blake3_chunk_state_buf_len
       blake3_chunk_state_blocks_compressed blake3_chunk_state_flags set_blake3_chunk_state_cv
       set_blake3_chunk_state_blocks_compressed].
  change (N.to_nat c_BLOCK_LEN) with 64%nat.
  destruct (mi_add 8 blocks 1) as [b'| |]; cbn [bind res_map]; try reflexivity.
  unfold mi_sub. replace (c_BLOCK_LEN <=? nlen input) with true by (symmetry; apply N.leb_le; lia).
  cbn [bind]. rewrite <- (nlen_skipn input c_BLOCK_LEN) by lia. change (N.to_nat c_BLOCK_LEN) with 64%nat.
  rewrite IH. reflexivity.
Qed.

Lemma src_chunk_state_update_loop1_eq p fuel self input :
  res_map (fun r => (cs_of_src (fst (fst r)), snd (fst r)))
          (src_chunk_state_update_loop1 (p_compress_in_place p) fuel self input (nlen input))
  = c_cs_update_loop fuel p (cs_of_src self) input.
Proof.
  rewrite src_chunk_state_update_loop1_as_model, res_map_map. apply res_map_id.
  intros [cs rest]. cbn [fst snd]. rewrite cs_of_src_of_cs. reflexivity.
Qed.

(* the input_len the translated loop hands on is the length of the input it hands on *)
Lemma src_chunk_state_update_loop1_len p fuel self input s i l :
  src_chunk_state_update_loop1 (p_compress_in_place p) fuel self input (nlen input) = Ok (s, i, l) -> l = nlen i.
Proof.
  rewrite src_chunk_state_update_loop1_as_model.
  destruct (c_cs_update_loop fuel p (cs_of_src self) input) as [[cs r]| |]; cbn; intros H; inversion H. reflexivity.
Qed.

(* the model's loop does not depend on the fuel once 64 * fuel covers the input *)
Lemma c_cs_update_loop_enough p : forall fuel cs input fuel', (length input <= 64 * fuel)%nat -> (fuel <= fuel')%nat ->
  c_cs_update_loop fuel' p cs input = c_cs_update_loop fuel p cs input.
Proof.
  induction fuel as [|fuel IH]; intros cs input fuel' Hl Hf; destruct fuel' as [|fuel']; try lia;
    cbn [c_cs_update_loop]; destruct (nlen input <=? c_BLOCK_LEN) eqn:E; try reflexivity.
  - apply N.leb_gt in E. unfold nlen in E. change c_BLOCK_LEN with 64 in E. lia.
  - destruct (mi_add 8 (cs_blocks cs) 1); cbn [bind]; try reflexivity.
    apply IH; [|lia]. rewrite skipn_length. change (N.to_nat c_BLOCK_LEN) with 64%nat. lia.
Qed.

Lemma c_cs_update_loop_fuel p fuel cs input : (length input <= 64 * fuel)%nat ->
  c_cs_update_loop fuel p cs input = c_cs_update_loop (S (Nat.div (length input) 64)) p cs input.
Proof.
  intros H. set (m := S (Nat.div (length input) 64)).
  assert (Hm : (length input <= 64 * m)%nat).
  { unfold m. pose proof (Nat.div_mod (length input) 64 ltac:(discriminate)).
    pose proof (Nat.mod_upper_bound (length input) 64 ltac:(discriminate)). lia. }
  rewrite <- (c_cs_update_loop_enough p fuel cs input (Nat.max fuel m) H (Nat.le_max_l _ _)).
  apply (c_cs_update_loop_enough p m cs input (Nat.max fuel m) Hm (Nat.le_max_r _ _)).
Qed.

Lemma c_cs_update_loop_buf p : forall fuel cs input cs' rest, c_cs_update_loop fuel p cs input = Ok (cs', rest) ->
  cs_buf cs' = cs_buf cs /\ (length rest <= length input)%nat.
Proof.
  induction fuel as [|fuel IH]; intros cs input cs' rest; cbn [c_cs_update_loop];
    destruct (nlen input <=? c_BLOCK_LEN); intros H; try discriminate;
    try (inversion H; subst; split; [reflexivity|lia]).
  inv_bind H b Eb. apply IH in H. cbn [cs_buf] in H. rewrite skipn_length in H. split; [apply H|lia].
Qed.

Lemma src_chunk_state_update_eq p fuel self input : cs_shape self -> (length input <= 64 * fuel)%nat ->
  res_map cs_of_src (src_chunk_state_update (p_compress_in_place p) fuel self input (nlen input))
  = c_cs_update p (cs_of_src self) input.
Proof.
  intros [Hcv Hbuf] Hfuel. unfold src_chunk_state_update, c_cs_update.
  (* the tail: loop + final fill_buf, for a state with a 64-byte buf and enough fuel *)
  assert (Tail : forall s i, length (blake3_chunk_state_buf s) = 64%nat -> (length i <= 64 * fuel)%nat ->
    res_map cs_of_src
      ('(self0, input0, input_len0) <- src_chunk_state_update_loop1 (p_compress_in_place p) fuel s i (nlen i) ;;
       '(self1, _) <- src_chunk_state_fill_buf self0 input0 input_len0 ;; Ok self1)
    = ('(cs, input0) <- c_cs_update_loop (S (Nat.div (length i) 64)) p (cs_of_src s) i ;;
       '(cs, _) <- c_cs_fill_buf cs input0 ;; Ok cs)).
  { intros s i Hs Hi. rewrite src_chunk_state_update_loop1_as_model, <- (c_cs_update_loop_fuel p fuel _ i Hi).
    destruct (c_cs_update_loop fuel p (cs_of_src s) i) as [[cs r]| |] eqn:EL; cbn [res_map bind fst snd]; try reflexivity.
    apply c_cs_update_loop_buf in EL. destruct EL as [EB _].
    rewrite src_fill_buf_as_model by (destruct cs; cbn in *; congruence).
    rewrite cs_of_src_of_cs.
    destruct (c_cs_fill_buf cs r) as [[cs2 t]| |]; cbn [res_map bind fst snd]; try reflexivity.
    rewrite cs_of_src_of_cs. reflexivity. }
  change (cs_buf_len (cs_of_src self)) with (blake3_chunk_state_buf_len self).
  destruct (0 <? blake3_chunk_state_buf_len self) eqn:Ebl.
  2:{ cbn [bind]. apply (Tail self input Hbuf Hfuel). }
  rewrite (src_fill_buf_as_model self input Hbuf).
  destruct (c_cs_fill_buf (cs_of_src self) input) as [[cs1 take]| |] eqn:EF;
    cbn [res_map bind fst snd]; try reflexivity.
  apply c_cs_fill_buf_Ok in EF. destruct EF as [Ht [Hb1 _]].
  change (cs_buf (cs_of_src self)) with (blake3_chunk_state_buf self) in Hb1.
  unfold mi_sub. replace (take <=? nlen input) with true by (symmetry; apply N.leb_le; exact Ht).
  cbn [bind]. rewrite <- (nlen_skipn input take Ht).
  set (input1 := skipn (N.to_nat take) input).
  assert (Hi1 : (length input1 <= 64 * fuel)%nat) by (unfold input1; rewrite skipn_length; lia).
  destruct cs1 as [cv1 ctr1 buf1 bl1 blocks1 fl1]. cbn [cs_buf] in Hb1.
  unfold src_of_cs. cbn [cs_cv cs_ctr cs_buf cs_buf_len cs_blocks cs_flags].
  destruct (0 <? nlen input1) eqn:E1.
  2:{ cbn [bind]. apply (Tail (mk_blake3_chunk_state cv1 ctr1 buf1 bl1 blocks1 fl1) input1); [cbn; congruence|exact Hi1]. }
  cbn [blake3_chunk_state_cv blake3_chunk_state_chunk_counter blake3_chunk_state_buf
       blake3_chunk_state_buf_len blake3_chunk_state_blocks_compressed blake3_chunk_state_flags
       set_blake3_chunk_state_cv set_blake3_chunk_state_blocks_compressed set_blake3_chunk_state_buf_len
       set_blake3_chunk_state_buf].
  change (src_chunk_state_maybe_start_flag (mk_blake3_chunk_state cv1 ctr1 buf1 bl1 blocks1 fl1))
    with (c_cs_start_flag (mkCS cv1 ctr1 buf1 bl1 blocks1 fl1)).
  destruct (mi_add 8 blocks1 1) as [b'| |]; cbn [bind]; try reflexivity.
  rewrite (memset_whole buf1 0 64) by congruence.
  apply (Tail (mk_blake3_chunk_state _ ctr1 (repeat 0 64%nat) 0 b' fl1) input1); [reflexivity|exact Hi1].
Qed.

(* the fuel the model computes, on the whole input, is one of the admissible values *)
Lemma src_chunk_state_update_model_fuel p self input : cs_shape self ->
  res_map cs_of_src (src_chunk_state_update (p_compress_in_place p) (S (Nat.div (length input) 64)) self input (nlen input))
  = c_cs_update p (cs_of_src self) input.
Proof.
  intros H. apply src_chunk_state_update_eq; [exact H|].
  pose proof (Nat.div_mod (length input) 64 ltac:(discriminate)).
  pose proof (Nat.mod_upper_bound (length input) 64 ltac:(discriminate)). lia.
Qed.

(* ====================================================================================== *)
(*  the flat cv_stack and the model's slots                                               *)
(* ====================================================================================== *)

(* the n consecutive 32-byte pieces of a flat array *)
Fixpoint chunks32 (n : nat) (l : list N) : list (list N) :=
  match n with
  | O => []
  | S n' => firstn 32 l :: chunks32 n' (skipn 32 l)
  end.

Definition slots_of_flat (l : list N) : list (list N) := chunks32 (N.to_nat c_cv_stack_slots) l.

Definition src_flat_hasher : Type := src_blake3_hasher (list N).

Definition hasher_of_flat (h : src_flat_hasher) : c_hasher :=
  mkCH (blake3_hasher_key h) (cs_of_src (blake3_hasher_chunk h)) (blake3_hasher_cv_stack_len h)
       (slots_of_flat (blake3_hasher_cv_stack h)).

(* uint32_t key[8], the chunk state's arrays, uint8_t cv_stack[(BLAKE3_MAX_DEPTH + 1) * BLAKE3_OUT_LEN] *)
Definition flat_shape (h : src_flat_hasher) : Prop :=
  hasher_shape h /\ length (blake3_hasher_cv_stack h) = N.to_nat c_cv_stack_bytes.

(* blake3_compress_in_place(uint32_t cv[8], ..): the selected kernel leaves 8 words in an 8-word cv
   (every PlatformOK p has this: GenLibSmallP.p_cip_length) *)
Definition compress_len8 (p : platform) : Prop :=
  forall cv block bl ctr fl, length cv = 8%nat -> length (p_compress_in_place p cv block bl ctr fl) = 8%nat.

Lemma chunks32_length n l : length (chunks32 n l) = n.
Proof. revert l. induction n as [|n IH]; intros l; cbn [chunks32 length]; [reflexivity|]. rewrite IH. reflexivity. Qed.

Lemma chunks32_nth : forall n l i, (i < n)%nat -> nth i (chunks32 n l) [] = firstn 32 (skipn (32 * i) l).
Proof.
  induction n as [|n IH]; intros l i Hi; [lia|]. destruct i as [|i]; cbn [chunks32 nth]; [reflexivity|].
  rewrite IH by lia. replace (32 * S i)%nat with (32 + 32 * i)%nat by lia. rewrite skipn_plus. reflexivity.
Qed.

Lemma chunks32_concat : forall sl, Forall (fun s => length s = 32%nat) sl -> chunks32 (length sl) (concat sl) = sl.
Proof.
  induction sl as [|s sl IH]; intros H; [reflexivity|]. inversion H; subst. cbn [length chunks32 concat].
  rewrite firstn_app_exact, skipn_app_exact by assumption. rewrite IH by assumption. reflexivity.
Qed.

Lemma concat_chunks32 : forall n l, length l = (32 * n)%nat -> concat (chunks32 n l) = l.
Proof.
  induction n as [|n IH]; intros l H; cbn [chunks32 concat].
  - destruct l; [reflexivity|discriminate].
  - rewrite IH by (rewrite skipn_length; lia). apply firstn_skipn.
Qed.

Lemma slots_of_flat_concat sl : length sl = N.to_nat c_cv_stack_slots -> Forall (fun s => length s = 32%nat) sl ->
  slots_of_flat (concat sl) = sl.
Proof. intros H1 H2. unfold slots_of_flat. rewrite <- H1. apply chunks32_concat. exact H2. Qed.

Lemma concat_slots_of_flat l : length l = N.to_nat c_cv_stack_bytes -> concat (slots_of_flat l) = l.
Proof. intros H. apply concat_chunks32. rewrite H. reflexivity. Qed.

Lemma arr_store_shift (l v : list N) a k : (a <= length l)%nat ->
  arr_store l (a + k) v = firstn a l ++ arr_store (skipn a l) k v.
Proof.
  intros H. unfold arr_store. rewrite firstn_plus, <- app_assoc. do 3 f_equal.
  replace (a + k + length v)%nat with (a + (k + length v))%nat by lia. apply skipn_plus.
Qed.

(* storing 32 bytes at 32 * i replaces slot i *)
Lemma chunks32_store : forall n l i v, length v = 32%nat -> (32 * i + 32 <= length l)%nat ->
  chunks32 n (arr_store l (32 * i) v) = upd_nth i v (chunks32 n l).
Proof.
  induction n as [|n IH]; intros l i v Hv Hl; [destruct i; reflexivity|].
  destruct i as [|i]; cbn [chunks32 upd_nth].
  - replace (32 * 0)%nat with 0%nat by lia. unfold arr_store. change (firstn 0 l) with (@nil N).
    cbn [app Nat.add]. rewrite Hv, firstn_app_exact, skipn_app_exact by exact Hv. reflexivity.
  - replace (32 * S i)%nat with (32 + 32 * i)%nat by lia. rewrite arr_store_shift by lia.
    assert (H32 : length (firstn 32 l) = 32%nat) by (rewrite firstn_length; lia).
    rewrite firstn_app_exact, skipn_app_exact by exact H32. f_equal.
    apply IH; [exact Hv|]. rewrite skipn_length. lia.
Qed.

Lemma slot_flat l i : i < c_cv_stack_slots -> slot (slots_of_flat l) i = firstn 32 (skipn (32 * N.to_nat i) l).
Proof. intros H. unfold slot, slots_of_flat. apply chunks32_nth. lia. Qed.

(* the 64 bytes at 32 * i are slots i and i + 1 *)
Lemma slot_pair_flat l i : i + 2 <= c_cv_stack_slots ->
  firstn 64 (skipn (32 * N.to_nat i) l) = slot (slots_of_flat l) i ++ slot (slots_of_flat l) (i + 1).
Proof.
  intros H. rewrite !slot_flat by lia. change 64%nat with (32 + 32)%nat. rewrite firstn_plus, <- skipn_plus.
  do 3 f_equal. lia.
Qed.

Lemma slots_store l i v : length v = 32%nat -> (32 * N.to_nat i + 32 <= length l)%nat ->
  slots_of_flat (arr_store l (32 * N.to_nat i) v) = upd_nth (N.to_nat i) v (slots_of_flat l).
Proof. intros Hv Hl. unfold slots_of_flat. apply chunks32_store; assumption. Qed.

Lemma c_output_chaining_value_length p o : compress_len8 p -> length (o_cv o) = 8%nat ->
  length (c_output_chaining_value p o) = 32%nat.
Proof. intros H Ho. unfold c_output_chaining_value. rewrite bytes_of_words_length, H by exact Ho. reflexivity. Qed.

Lemma output_t_input_cv_of_src o : output_t_input_cv o = o_cv (output_of_src o).
Proof. reflexivity. Qed.

Lemma stack_bytes : N.to_nat c_cv_stack_bytes = 1760%nat.
Proof. reflexivity. Qed.
Lemma stack_slots : c_cv_stack_slots = 55.
Proof. reflexivity. Qed.

(* ====================================================================================== *)
(*  hasher_merge_cv_stack                                                                 *)
(* ====================================================================================== *)
Lemma src_hasher_merge_cv_stack_loop1_eq p : compress_len8 p -> forall fuel (self : src_flat_hasher) post,
  flat_shape self ->
  res_map hasher_of_flat (src_hasher_merge_cv_stack_loop1 (p_compress_in_place p) fuel self post)
  = c_merge_loop fuel p (hasher_of_flat self) post.
Proof.
  intros HP. induction fuel as [|fuel IH]; intros self post HS;
    cbn [src_hasher_merge_cv_stack_loop1 c_merge_loop];
    change (ch_stack_len (hasher_of_flat self)) with (blake3_hasher_cv_stack_len self);
    rewrite ltb_not_leb; destruct (blake3_hasher_cv_stack_len self <=? post) eqn:E; cbn [negb res_map];
    try reflexivity.
  destruct HS as [[Hk Hcs] Hst]. destruct self as [key chunk len st].
  cbn [blake3_hasher_key blake3_hasher_chunk blake3_hasher_cv_stack_len blake3_hasher_cv_stack] in *.
  unfold hasher_of_flat at 1 2 3 4 5 6.
  cbn [blake3_hasher_key blake3_hasher_chunk blake3_hasher_cv_stack_len blake3_hasher_cv_stack
       ch_key ch_chunk ch_stack_len ch_stack ch_flags].
  rewrite stack_bytes in Hst.
  unfold mi_sub at 1. unfold at_site at 1. destruct (2 <=? len) eqn:E2; cbn [check bind res_map]; [|reflexivity].
  apply N.leb_le in E2. rewrite stack_slots.
  unfold mi_mul, MachInt.fits, at_site. change c_OUT_LEN with 32. rewrite Hst. change (N.of_nat 1760) with 1760.
  destruct (len - 2 + 2 <=? 55) eqn:E3.
  2:{ apply N.leb_gt in E3. cbn [check bind].
      destruct ((len - 2) * 32 <? 2 ^ 31); cbn [bind res_map]; [|reflexivity].
      replace ((len - 2) * 32 + 64 <=? 1760) with false by (symmetry; apply N.leb_gt; lia). reflexivity. }
  apply N.leb_le in E3.
  replace ((len - 2) * 32 <? 2 ^ 31) with true by (symmetry; apply N.ltb_lt; change (2 ^ 31) with 2147483648; lia).
  cbn [bind check].
  replace ((len - 2) * 32 + 64 <=? 1760) with true by (symmetry; apply N.leb_le; lia).
  replace ((len - 2) * 32 + 32 <=? 1760) with true by (symmetry; apply N.leb_le; lia).
  cbn [bind check]. cbv zeta.
  cbn [blake3_hasher_key blake3_hasher_chunk blake3_hasher_cv_stack_len blake3_hasher_cv_stack
       set_blake3_hasher_cv_stack set_blake3_hasher_cv_stack_len].
  replace (N.to_nat ((len - 2) * 32)) with (32 * N.to_nat (len - 2))%nat by lia.
  set (i := len - 2) in *.
  assert (Hblock : firstn 64 (skipn (32 * N.to_nat i) st) = slot (slots_of_flat st) i ++ slot (slots_of_flat st) (i + 1))
    by (apply slot_pair_flat; rewrite stack_slots; exact E3).
  assert (Hb64 : length (firstn 64 (skipn (32 * N.to_nat i) st)) = 64%nat) by (rewrite firstn_length, skipn_length; lia).
  assert (Hb32 : length (firstn 32 (skipn (32 * N.to_nat i) st)) = 32%nat) by (rewrite firstn_length, skipn_length; lia).
  set (o := src_parent_output (firstn 64 (skipn (32 * N.to_nat i) st)) key (blake3_chunk_state_flags chunk)).
  assert (Ho : output_of_src o = c_parent_output (slot (slots_of_flat st) i ++ slot (slots_of_flat st) (i + 1)) key
                                   (cs_flags (cs_of_src chunk))).
  { unfold o. rewrite src_parent_output_eq by assumption. rewrite Hblock. reflexivity. }
  rewrite (src_output_chaining_value_eq p o _) by (rewrite ?output_t_input_cv_of_src, ?Ho; auto).
  rewrite Ho.
  set (cv := c_output_chaining_value p _).
  assert (Hcv : length cv = 32%nat) by (apply c_output_chaining_value_length; [exact HP|exact Hk]).
  destruct (mi_sub 8 len 1) as [len'| |]; cbn [bind res_map]; try reflexivity.
  rewrite IH.
  - unfold hasher_of_flat, set_blake3_hasher_cv_stack_len, set_blake3_hasher_cv_stack.
    cbn [blake3_hasher_key blake3_hasher_chunk blake3_hasher_cv_stack_len blake3_hasher_cv_stack
         ch_key ch_chunk ch_stack_len ch_stack].
    rewrite slots_store by (rewrite ?Hcv; lia). reflexivity.
  - unfold set_blake3_hasher_cv_stack_len, set_blake3_hasher_cv_stack.
    cbn [blake3_hasher_key blake3_hasher_chunk blake3_hasher_cv_stack_len blake3_hasher_cv_stack].
    split; [split; assumption|]. cbn [blake3_hasher_cv_stack]. rewrite arr_store_length by (rewrite Hcv; lia).
    rewrite stack_bytes. exact Hst.
Qed.

Lemma src_hasher_merge_cv_stack_eq p (self : src_flat_hasher) total_len : compress_len8 p -> flat_shape self ->
  res_map hasher_of_flat (src_hasher_merge_cv_stack (p_compress_in_place p) c_merge_fuel self total_len)
  = c_merge_cv_stack p (hasher_of_flat self) total_len.
Proof.
  intros HP HS. unfold src_hasher_merge_cv_stack, c_merge_cv_stack.
  destruct (c_popcnt total_len) as [post| |]; cbn [bind res_map]; try reflexivity. cbv zeta.
  rewrite <- (src_hasher_merge_cv_stack_loop1_eq p HP c_merge_fuel self post HS).
  destruct (src_hasher_merge_cv_stack_loop1 _ _ self post); reflexivity.
Qed.

(* the shape is kept (needed by the callers) *)
Lemma src_hasher_merge_cv_stack_loop1_shape p : compress_len8 p -> forall fuel (self : src_flat_hasher) post h',
  flat_shape self -> src_hasher_merge_cv_stack_loop1 (p_compress_in_place p) fuel self post = Ok h' -> flat_shape h'.
Proof.
  intros HP. induction fuel as [|fuel IH]; intros self post h' HS; cbn [src_hasher_merge_cv_stack_loop1];
    destruct (post <? blake3_hasher_cv_stack_len self); intros H; try discriminate;
    try (inversion H; subst; exact HS).
  inv_bind H t2 E2. inv_bind H t3 E3. cbv zeta in H. inv_check H Ec1. inv_check H Ec2. inv_bind H t5 E5.
  apply IH in H; [exact H|]. destruct HS as [[Hk Hcs] Hst]. destruct self as [key chunk len st].
  unfold set_blake3_hasher_cv_stack_len, set_blake3_hasher_cv_stack.
  cbn [blake3_hasher_key blake3_hasher_chunk blake3_hasher_cv_stack_len blake3_hasher_cv_stack] in *.
  split; [split; assumption|]. cbn [blake3_hasher_cv_stack].
  apply N.leb_le in Ec1, Ec2.
  set (o := src_parent_output _ key _) in *.
  assert (Hb64 : length (firstn 64 (skipn (N.to_nat t3) st)) = 64%nat) by (rewrite firstn_length, skipn_length; lia).
  assert (Hb32 : length (firstn 32 (skipn (N.to_nat t3) st)) = 32%nat) by (rewrite firstn_length, skipn_length; lia).
  assert (Ho : output_of_src o = c_parent_output (firstn 64 (skipn (N.to_nat t3) st)) key (blake3_chunk_state_flags chunk))
    by (unfold o; apply src_parent_output_eq; assumption).
  rewrite (src_output_chaining_value_eq p o _) by (rewrite ?output_t_input_cv_of_src, ?Ho; auto).
  rewrite arr_store_length; [exact Hst|]. rewrite Ho, c_output_chaining_value_length by (exact HP || exact Hk). lia.
Qed.

(* ====================================================================================== *)
(*  hasher_push_cv                                                                        *)
(* ====================================================================================== *)
Lemma src_hasher_merge_cv_stack_shape p fuel (self h' : src_flat_hasher) total_len : compress_len8 p -> flat_shape self ->
  src_hasher_merge_cv_stack (p_compress_in_place p) fuel self total_len = Ok h' -> flat_shape h'.
Proof.
  intros HP HS EM. unfold src_hasher_merge_cv_stack in EM. inv_bind EM t1 E1. cbv zeta in EM. inv_bind EM h1 EL.
  inversion EM; subst. exact (src_hasher_merge_cv_stack_loop1_shape p HP _ _ _ _ HS EL).
Qed.

(* the statements after the call of hasher_merge_cv_stack *)
Lemma src_hasher_push_cv_tail (h : src_flat_hasher) new_cv : flat_shape h -> length new_cv = 32%nat ->
  res_map hasher_of_flat
    (t1 <- at_site 322 (mi_mul 31 (blake3_hasher_cv_stack_len h) c_OUT_LEN) ;;
     assert! (t1 + 32 <=? N.of_nat (length (blake3_hasher_cv_stack h))) code 322 ;;
     let self := set_blake3_hasher_cv_stack h (arr_store (blake3_hasher_cv_stack h) (N.to_nat t1) (firstn 32%nat new_cv)) in
     t2 <- mi_add 8 (blake3_hasher_cv_stack_len self) 1 ;;
     let self := set_blake3_hasher_cv_stack_len self t2 in
     Ok self)
  = (assert! (ch_stack_len (hasher_of_flat h) <? c_cv_stack_slots) code 322 ;;
     len' <- mi_add 8 (ch_stack_len (hasher_of_flat h)) 1 ;;
     Ok (mkCH (ch_key (hasher_of_flat h)) (ch_chunk (hasher_of_flat h)) len'
              (upd_nth (N.to_nat (ch_stack_len (hasher_of_flat h))) new_cv (ch_stack (hasher_of_flat h))))).
Proof.
  intros [[Hk Hcs] Hst] Hn. destruct h as [key chunk len st].
  unfold hasher_of_flat, set_blake3_hasher_cv_stack_len, set_blake3_hasher_cv_stack.
  cbn [blake3_hasher_key blake3_hasher_chunk blake3_hasher_cv_stack_len blake3_hasher_cv_stack
       ch_key ch_chunk ch_stack_len ch_stack] in *.
  rewrite stack_bytes in Hst. rewrite stack_slots, Hst.
  unfold mi_mul, MachInt.fits, at_site. change c_OUT_LEN with 32. change (N.of_nat 1760) with 1760.
  destruct (len <? 55) eqn:E.
  2:{ apply N.ltb_ge in E. cbn [check bind].
      destruct (len * 32 <? 2 ^ 31); cbn [bind res_map]; [|reflexivity].
      replace (len * 32 + 32 <=? 1760) with false by (symmetry; apply N.leb_gt; lia). reflexivity. }
  apply N.ltb_lt in E.
  replace (len * 32 <? 2 ^ 31) with true by (symmetry; apply N.ltb_lt; change (2 ^ 31) with 2147483648; lia).
  cbn [bind check].
  replace (len * 32 + 32 <=? 1760) with true by (symmetry; apply N.leb_le; lia).
  cbn [bind check]. cbv zeta.
  destruct (mi_add 8 len 1) as [len'| |]; cbn [bind res_map]; try reflexivity.
  cbn [blake3_hasher_key blake3_hasher_chunk blake3_hasher_cv_stack_len blake3_hasher_cv_stack].
  replace (N.to_nat (len * 32)) with (32 * N.to_nat len)%nat by lia.
  rewrite (firstn_all2 (n := 32) new_cv) by lia.
  rewrite slots_store by (rewrite ?Hn; lia). reflexivity.
Qed.

Lemma src_hasher_push_cv_eq p (self : src_flat_hasher) new_cv chunk_counter :
  compress_len8 p -> flat_shape self -> length new_cv = 32%nat ->
  res_map hasher_of_flat (src_hasher_push_cv (p_compress_in_place p) c_merge_fuel self new_cv chunk_counter)
  = c_push_cv p (hasher_of_flat self) new_cv chunk_counter.
Proof.
  intros HP HS Hn. unfold src_hasher_push_cv, c_push_cv.
  rewrite <- (src_hasher_merge_cv_stack_eq p self chunk_counter HP HS).
  destruct (src_hasher_merge_cv_stack (p_compress_in_place p) c_merge_fuel self chunk_counter) as [h| |] eqn:EM;
    cbn [res_map bind]; try reflexivity.
  apply src_hasher_push_cv_tail; [|exact Hn]. exact (src_hasher_merge_cv_stack_shape p _ _ _ _ HP HS EM).
Qed.

(* ====================================================================================== *)
(*  blake3_hasher_finalize_seek                                                           *)
(* ====================================================================================== *)

(* output_root_bytes(self, seek, out, out_len): the bytes the model returns are stored at out[0 ..) *)
Definition m_output_root_bytes (p : platform) (self : src_output_t) (seek : N) (out : list N) (out_len : N)
  : res (list N) :=
  res_map (fun bs => arr_store out 0 bs) (c_output_root_bytes p (output_of_src self) seek out_len).

(* uint8_t parent_block[64]; memcpy(parent_block, a, 32); <32 bytes b written at &parent_block[32]> *)
Lemma parent_block_two (a b : list N) : length a = 32%nat -> length b = 32%nat ->
  arr_store (arr_store (repeat 0 64%nat) 0 a) 32 b = a ++ b.
Proof.
  intros Ha Hb. unfold arr_store at 2. rewrite Ha. change (firstn 0 (repeat 0 64%nat)) with (@nil N).
  change (skipn (0 + 32) (repeat 0 64%nat)) with (repeat 0 32%nat). cbn [app].
  unfold arr_store. rewrite firstn_app_exact by exact Ha. rewrite Hb.
  rewrite skipn_all2 by (rewrite app_length, Ha, repeat_length; lia). rewrite app_nil_r. reflexivity.
Qed.

Lemma parent_block_cv_length (a : list N) : length a = 32%nat ->
  length (firstn 32 (skipn 32 (arr_store (repeat 0 64%nat) 0 a))) = 32%nat.
Proof.
  intros Ha. unfold arr_store. rewrite Ha. change (firstn 0 (repeat 0 64%nat)) with (@nil N).
  change (skipn (0 + 32) (repeat 0 64%nat)) with (repeat 0 32%nat). cbn [app].
  rewrite skipn_app_exact by exact Ha. reflexivity.
Qed.

(* the loop: for every fuel that covers cvs_remaining (the model recurses on cvs_remaining itself) *)
Lemma src_blake3_hasher_finalize_seek_loop1_eq p : compress_len8 p -> forall fuel (self : src_flat_hasher) output r,
  flat_shape self -> length (output_t_input_cv output) = 8%nat -> (N.to_nat r <= fuel)%nat ->
  res_map (fun x => output_of_src (fst x))
          (src_blake3_hasher_finalize_seek_loop1 (p_compress_in_place p) fuel self output r)
  = c_finalize_loop (N.to_nat r) p (hasher_of_flat self) (output_of_src output).
Proof.
  intros HP. induction fuel as [|fuel IH]; intros self output r HS Ho Hf;
    cbn [src_blake3_hasher_finalize_seek_loop1]; destruct (0 <? r) eqn:E.
  - apply N.ltb_lt in E. lia.
  - apply N.ltb_ge in E. replace r with 0 by lia. reflexivity.
  - apply N.ltb_lt in E. unfold mi_sub at 1. replace (1 <=? r) with true by (symmetry; apply N.leb_le; lia).
    cbn [bind]. cbv zeta. set (r' := r - 1). replace (N.to_nat r) with (S (N.to_nat r')) by lia.
    cbn [c_finalize_loop]. rewrite N2Nat.id, stack_slots.
    pose proof HS as HS0. destruct HS as [[Hk Hcs] Hst]. rewrite stack_bytes in Hst.
    unfold mi_mul, MachInt.fits, at_site. rewrite Hst. change (N.of_nat 1760) with 1760.
    destruct (r' <? 55) eqn:E3.
    2:{ apply N.ltb_ge in E3. cbn [check bind].
        destruct (r' * 32 <? 2 ^ 64); cbn [bind res_map]; [|reflexivity].
        replace (r' * 32 + 32 <=? 1760) with false by (symmetry; apply N.leb_gt; lia). reflexivity. }
    apply N.ltb_lt in E3.
    replace (r' * 32 <? 2 ^ 64) with true
      by (symmetry; apply N.ltb_lt; change (2 ^ 64) with 18446744073709551616; lia).
    cbn [bind check].
    replace (r' * 32 + 32 <=? 1760) with true by (symmetry; apply N.leb_le; lia).
    cbn [bind check].
    replace (N.to_nat (r' * 32)) with (32 * N.to_nat r')%nat by lia.
    rewrite <- (slot_flat (blake3_hasher_cv_stack self) r') by (rewrite stack_slots; exact E3).
    change (slots_of_flat (blake3_hasher_cv_stack self)) with (ch_stack (hasher_of_flat self)).
    set (a := slot (ch_stack (hasher_of_flat self)) r').
    assert (Ha : length a = 32%nat).
    { unfold a. change (ch_stack (hasher_of_flat self)) with (slots_of_flat (blake3_hasher_cv_stack self)).
      rewrite slot_flat by (rewrite stack_slots; exact E3). rewrite firstn_length, skipn_length. lia. }
    rewrite (src_output_chaining_value_eq p output _ Ho (parent_block_cv_length a Ha) (HP _ _ _ _ _ Ho)).
    rewrite (parent_block_two a _ Ha (c_output_chaining_value_length p (output_of_src output) HP Ho)).
    set (blk := a ++ c_output_chaining_value p (output_of_src output)).
    assert (Hblk : length blk = 64%nat)
      by (unfold blk; rewrite app_length, Ha, (c_output_chaining_value_length p (output_of_src output) HP Ho); reflexivity).
    set (o' := src_parent_output blk (blake3_hasher_key self) (blake3_chunk_state_flags (blake3_hasher_chunk self))).
    assert (Ho' : output_of_src o' = c_parent_output blk (ch_key (hasher_of_flat self)) (ch_flags (hasher_of_flat self)))
      by (unfold o'; rewrite src_parent_output_eq by assumption; reflexivity).
    rewrite <- Ho'. apply IH; [exact HS0| |lia].
    rewrite output_t_input_cv_of_src, Ho'. exact Hk.
  - apply N.ltb_ge in E. replace r with 0 by lia. reflexivity.
Qed.

Lemma arr_store_nil (out : list N) : arr_store out 0 [] = out.
Proof. reflexivity. Qed.

(* loop + output_root_bytes *)
Lemma src_finalize_tail p fuel (self : src_flat_hasher) output r seek out out_len :
  compress_len8 p -> flat_shape self -> length (output_t_input_cv output) = 8%nat -> (N.to_nat r <= fuel)%nat ->
  ('(output0, cvs_remaining) <- src_blake3_hasher_finalize_seek_loop1 (p_compress_in_place p) fuel self output r ;;
   out0 <- m_output_root_bytes p output0 seek out out_len ;; Ok out0)
  = res_map (fun bs => arr_store out 0 bs)
      (o <- c_finalize_loop (N.to_nat r) p (hasher_of_flat self) (output_of_src output) ;;
       c_output_root_bytes p o seek out_len).
Proof.
  intros HP HS Ho Hf. rewrite <- (src_blake3_hasher_finalize_seek_loop1_eq p HP fuel self output r HS Ho Hf).
  destruct (src_blake3_hasher_finalize_seek_loop1 (p_compress_in_place p) fuel self output r) as [[o1 r1]| |];
    cbn [res_map bind fst]; try reflexivity.
  unfold m_output_root_bytes. destruct (c_output_root_bytes p (output_of_src o1) seek out_len); reflexivity.
Qed.

Lemma src_blake3_hasher_finalize_seek_eq p fuel (self : src_flat_hasher) seek out out_len :
  compress_len8 p -> flat_shape self -> (N.to_nat (blake3_hasher_cv_stack_len self) <= fuel)%nat ->
  src_blake3_hasher_finalize_seek (m_output_root_bytes p) (p_compress_in_place p) fuel self seek out out_len
  = res_map (fun bs => arr_store out 0 bs) (c_hasher_finalize_seek p (hasher_of_flat self) seek out_len).
Proof.
  intros HP HS Hf. unfold src_blake3_hasher_finalize_seek, c_hasher_finalize_seek.
  destruct (out_len =? 0); [reflexivity|].
  unfold c_final_output. change (ch_stack_len (hasher_of_flat self)) with (blake3_hasher_cv_stack_len self).
  pose proof HS as HS0. destruct HS as [[Hk [Hcv Hbuf]] Hst]. rewrite stack_bytes in Hst.
  assert (Hco : output_of_src (src_chunk_state_output (blake3_hasher_chunk self))
                = c_cs_output (ch_chunk (hasher_of_flat self)))
    by (apply src_chunk_state_output_eq; split; assumption).
  destruct (blake3_hasher_cv_stack_len self =? 0) eqn:E0.
  - cbv zeta. cbn [bind]. unfold m_output_root_bytes. rewrite Hco.
    destruct (c_output_root_bytes p (c_cs_output (ch_chunk (hasher_of_flat self))) seek out_len); reflexivity.
  - cbv zeta. unfold c_cs_len.
    change (cs_blocks (ch_chunk (hasher_of_flat self)))
      with (blake3_chunk_state_blocks_compressed (blake3_hasher_chunk self)).
    change (cs_buf_len (ch_chunk (hasher_of_flat self))) with (blake3_chunk_state_buf_len (blake3_hasher_chunk self)).
    destruct (c_chunk_state_len _ _) as [clen| |]; cbn [bind res_map]; try reflexivity.
    destruct (0 <? clen).
    + cbn [bind]. rewrite <- Hco. apply src_finalize_tail; try assumption.
      rewrite output_t_input_cv_of_src, Hco. exact Hcv.
    + unfold mi_sub at 1. unfold at_site at 1.
      destruct (2 <=? blake3_hasher_cv_stack_len self) eqn:E2; cbn [check bind res_map]; [|reflexivity].
      apply N.leb_le in E2. set (r := blake3_hasher_cv_stack_len self - 2) in *. rewrite stack_slots.
      unfold mi_mul, MachInt.fits, at_site. rewrite Hst. change (N.of_nat 1760) with 1760.
      destruct (r + 2 <=? 55) eqn:E3.
      2:{ apply N.leb_gt in E3. cbn [check bind].
          destruct (r * 32 <? 2 ^ 64); cbn [bind res_map]; [|reflexivity].
          replace (r * 32 + 64 <=? 1760) with false by (symmetry; apply N.leb_gt; lia). reflexivity. }
      apply N.leb_le in E3.
      replace (r * 32 <? 2 ^ 64) with true
        by (symmetry; apply N.ltb_lt; change (2 ^ 64) with 18446744073709551616; lia).
      cbn [bind check].
      replace (r * 32 + 64 <=? 1760) with true by (symmetry; apply N.leb_le; lia).
      cbn [bind check].
      replace (N.to_nat (r * 32)) with (32 * N.to_nat r)%nat by lia.
      rewrite (slot_pair_flat (blake3_hasher_cv_stack self) r) by (rewrite stack_slots; exact E3).
      change (slots_of_flat (blake3_hasher_cv_stack self)) with (ch_stack (hasher_of_flat self)).
      set (blk := slot (ch_stack (hasher_of_flat self)) r ++ slot (ch_stack (hasher_of_flat self)) (r + 1)).
      assert (Hblk : length blk = 64%nat).
      { unfold blk. change (ch_stack (hasher_of_flat self)) with (slots_of_flat (blake3_hasher_cv_stack self)).
        rewrite <- (slot_pair_flat (blake3_hasher_cv_stack self) r) by (rewrite stack_slots; exact E3).
        rewrite firstn_length, skipn_length. lia. }
      set (o' := src_parent_output blk (blake3_hasher_key self) (blake3_chunk_state_flags (blake3_hasher_chunk self))).
      assert (Ho' : output_of_src o' = c_parent_output blk (ch_key (hasher_of_flat self)) (ch_flags (hasher_of_flat self)))
        by (unfold o'; rewrite src_parent_output_eq by assumption; reflexivity).
      rewrite <- Ho'. apply src_finalize_tail; try assumption; [|unfold r; lia].
      rewrite output_t_input_cv_of_src, Ho'. exact Hk.
Qed.

(* with the fuel of the merge loop, under the range of `uint8_t cv_stack_len` *)
Lemma src_blake3_hasher_finalize_seek_eq_256 p (self : src_flat_hasher) seek out out_len :
  compress_len8 p -> flat_shape self -> blake3_hasher_cv_stack_len self < 256 ->
  src_blake3_hasher_finalize_seek (m_output_root_bytes p) (p_compress_in_place p) c_merge_fuel self seek out out_len
  = res_map (fun bs => arr_store out 0 bs) (c_hasher_finalize_seek p (hasher_of_flat self) seek out_len).
Proof. intros HP HS H. apply src_blake3_hasher_finalize_seek_eq; try assumption. unfold c_merge_fuel. lia. Qed.
