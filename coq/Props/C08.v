(* C08 (PLACEHOLDER, to be replaced by the real theorems): concatenating the CVs of the
   left and right halves is order independent in the sense used by the join seam: the
   lengths (number of CVs written) add up the same whichever half is computed first. *)
From Coq Require Import NArith List Bool Lia.
Import ListNotations.

Theorem C08_join_lengths_commute : forall (l r : list (list N)),
  length (l ++ r) = length (r ++ l).
Proof. intros l r. rewrite !app_length. lia. Qed.

Print Assumptions C08_join_lengths_commute.
