(* The check / output functions of b3sum/src/main.rs, TRANSLATED statement by statement (gen/GenB3sumFns2.v, produced by
   tools/gen_coq_b3sumfns.py gen_b3sum_fns2 from the current source text), against the hand-written model Model/B3sum.v in
   the configuration `fixed_cfg`, for all inputs and result by result (property C12).

   Instantiation of the oracles: a stream is the model's `N -> N` (byte at an absolute position), `ext_fill` is SFILL
   (= srange), `ext_hash_file` is the model's `fsys`, cfg_windows = false.  stdout / stderr are threaded: the theorems
   hold for every initial content `o` / `e`; the model has no stderr, `parse_err_line` is what the source prints there. *)
From Coq Require Import String Ascii.
From V Require Import Base.Res Base.MachInt Base.Str Spec.Tree Model.B3sum gen.GenConsts gen.GenB3sumFns gen.GenB3sumFns2
  Proofs.ListP Proofs.B3sumP Proofs.B3sumC12P Proofs.GenB3sumFnsP.
Import ListNotations.
Open Scope N_scope.

Definition SFILL (St : N -> N) (pos n : N) : list N := srange St pos (N.to_nat n).

(* eprintln!("{}: {}", NAME, e) of check_one_line *)
Definition parse_err_line (r : res presult) : list N :=
  match r with Ok (PErr e) => sc "b3sum: "%string ++ err_msg e ++ [10] | _ => [] end.

Lemma s_eqb_eq a : forall b, s_eqb a b = list_eqb a b.
Proof. induction a as [|x a IH]; intros [|y b]; cbn [s_eqb list_eqb]; try reflexivity; rewrite IH; reflexivity. Qed.

Lemma rd_fill_SFILL St pos buf :
  rd_fill SFILL (St, pos) buf = (srange St pos (length buf), (St, pos + N.of_nat (length buf))).
Proof. unfold rd_fill, SFILL. cbn [fst snd]. rewrite Nnat.Nat2N.id. reflexivity. Qed.

(* ------------------------------------------------------------------------- *)
(* check_one_line                                                            *)
(* ------------------------------------------------------------------------- *)
Theorem gen_check_one_line_spec : forall (fs : fsys) seek quiet fuel line o e,
  (length line <= fuel)%nat -> str_len line < USIZE_LIMIT ->
  gen_check_one_line false (N -> N) fs SFILL quiet seek fuel line o e =
  match check_one_line fixed_cfg fs seek quiet line with
  | Ok (b, out) => Ok (b, o ++ out, e ++ parse_err_line (parse_check_line fixed_cfg line))
  | Panic c => Panic c
  | OutOfFuel => OutOfFuel
  end.
Proof.
  intros fs seek quiet fuel line o e L B. unfold gen_check_one_line, check_one_line.
  rewrite (gen_parse_check_line_spec fuel line L B).
  destruct (parse_check_line fixed_cfg line) as [[er|p h esc f]|c|]; cbn [res_map parsed_of_model clift cbind cret creturn crun bind parse_err_line];
    try reflexivity.
  - rewrite app_nil_r. reflexivity.
  - unfold gen_hash_path. rewrite !app_nil_r.
    destruct (fs p) as [msg|St]; cbn [cbind cret creturn crun].
    + destruct esc; cbn [cbind cret creturn crun]; unfold io_write_all, FAILED_OPEN, BSL; cbn [app]; rewrite <- ?app_assoc; reflexivity.
    + rewrite rd_fill_SFILL. change (length (repeat 0 (N.to_nat rs_OUT_LEN))) with 32%nat.
      change s_eqb with list_eqb.
      destruct esc; cbn [cbind cret creturn crun];
      (destruct (list_eqb h (srange St seek 32)); cbn [cbind cret creturn crun];
       [destruct quiet; cbn [negb cbind cret creturn crun]; unfold io_write_all, OK_SUFFIX, BSL; cbn [app]; rewrite <- ?app_assoc, ?app_nil_r; reflexivity
       |unfold io_write_all, FAILED_SUFFIX, BSL; cbn [app]; rewrite <- ?app_assoc; reflexivity]).
Qed.

(* ------------------------------------------------------------------------- *)
(* check_one_checkfile                                                       *)
(* ------------------------------------------------------------------------- *)
(* the pending read_line results as the model's lines (the model does not keep the text of an io::Error) *)
Definition cl_of (rd : list (list N + list N)) : list cline :=
  map (fun x => match x with inr s => LText s | inl _ => LBadUtf8 end) rd.

(* what check_one_line wrote to stderr for the lines before the first read error *)
Fixpoint err_log (rd : list (list N + list N)) : list N :=
  match rd with
  | [] => []
  | inl _ :: _ => []
  | inr s :: t => parse_err_line (parse_check_line fixed_cfg s) ++ err_log t
  end.

Lemma sat_add_eq ff : s_sat_add64 ff 1 = sat_add1 ff.
Proof. unfold s_sat_add64, sat_add1, U64_MAX. destruct (N.ltb_spec ff 18446744073709551615); lia. Qed.

(* read_line never delivers an empty line before the end of the file; `fuel` bounds the number of lines plus the
   length of each line (one budget is shared by the loop and the parser's `while let`) *)
Definition lines_ok (fuel : nat) (rd : list (list N + list N)) : Prop :=
  (length rd < fuel)%nat /\
  forall s, In (inr s) rd -> s <> [] /\ (length s + length rd <= fuel)%nat /\ str_len s < USIZE_LIMIT.

Definition ckfile_res : Type := (list N + unit) * N * list N * list N.

(* result of the translated loop against (stdout, how it ended) of the model's check_lines *)
Definition loop_rel (g : res ckfile_res) (m : list N * (b3exit + N)) (o e errs : list N) : Prop :=
  match m with
  | (out, inr ff') => g = Ok (inr tt, ff', o ++ out, e ++ errs)
  | (out, inl ExitError) => exists msg ff', g = Ok (inl msg, ff', o ++ out, e ++ errs)
  | (_, inl (ExitPanic c)) => g = Panic c \/ g = OutOfFuel
  | (_, inl (ExitCode _)) => False
  end.

Lemma loop1_spec (fs : fsys) seek quiet : forall rd fuel line0 o e ff, lines_ok fuel rd ->
  loop_rel (crun (gen_check_one_checkfile_loop1 false (N -> N) fs SFILL quiet seek fuel line0 rd o e ff))
           (check_lines fixed_cfg fs seek quiet (cl_of rd) ff) o e (err_log rd).
Proof.
  induction rd as [|x t IH]; intros fuel line0 o e ff [LF LS].
  - destruct fuel as [|f]; [cbn [length] in LF; lia|].
    cbn [gen_check_one_checkfile_loop1 s_read_line ctryw cbind cl_of map check_lines loop_rel err_log].
    change (0 =? 0) with true. cbn [creturn crun]. rewrite !app_nil_r. reflexivity.
  - destruct fuel as [|f]; [cbn [length] in LF; lia|].
    destruct x as [msg|s].
    + cbn [gen_check_one_checkfile_loop1 s_read_line ctryw cbind cl_of map check_lines loop_rel err_log crun].
      exists msg, ff. rewrite !app_nil_r. reflexivity.
    + destruct (LS s (or_introl eq_refl)) as (NE & LL & BB). cbn [length] in LL, LF.
      assert (OKT : lines_ok f t).
      { split; [lia|]. intros s' I'. destruct (LS s' (or_intror I')) as (A & B' & C). cbn [length] in B'. repeat split; [exact A|lia|exact C]. }
      cbn [gen_check_one_checkfile_loop1 s_read_line ctryw cbind cl_of map check_lines err_log].
      assert (Z : (s_len s =? 0) = false).
      { destruct s as [|c s']; [congruence|]. cbn [s_len]. pose proof (s_utf8_len_pos c). lia. }
      rewrite Z. cbn [app].
      rewrite (gen_check_one_line_spec fs seek quiet f s o e) by (assumption || lia).
      destruct (check_one_line fixed_cfg fs seek quiet s) as [[b out]|c|]; cbn [clift cbind crun loop_rel]; [|left; reflexivity|right; reflexivity].
      specialize (IH f s (o ++ out) (e ++ parse_err_line (parse_check_line fixed_cfg s)) (if b then ff else sat_add1 ff) OKT).
      fold (cl_of t).
      assert (E : forall ffn, ffn = (if b then ff else sat_add1 ff) ->
        loop_rel (crun (gen_check_one_checkfile_loop1 false (N -> N) fs SFILL quiet seek f s t (o ++ out)
                          (e ++ parse_err_line (parse_check_line fixed_cfg s)) ffn))
                 (let '(out2, r) := check_lines fixed_cfg fs seek quiet (cl_of t) (if b then ff else sat_add1 ff) in (out ++ out2, r))
                 o e (parse_err_line (parse_check_line fixed_cfg s) ++ err_log t)).
      { intros ffn ->. destruct (check_lines fixed_cfg fs seek quiet (cl_of t) (if b then ff else sat_add1 ff)) as [out2 [[k| |pc]|ff2]];
          cbn [loop_rel] in IH |- *; rewrite ?app_assoc in *; exact IH. }
      destruct b; cbn [negb cbind cret].
      * apply E. reflexivity.
      * apply E. apply sat_add_eq.
Qed.

(* the whole function: an unopenable checkfile is Err with the counter and the streams untouched *)
Theorem gen_check_one_checkfile_spec : forall (fs : fsys) opener seek quiet fuel path ff o e,
  match opener path with
  | inl msg => gen_check_one_checkfile false (N -> N) fs SFILL opener quiet seek fuel path ff o e = Ok (inl msg, ff, o, e)
  | inr rd => lines_ok fuel rd ->
      loop_rel (gen_check_one_checkfile false (N -> N) fs SFILL opener quiet seek fuel path ff o e)
               (check_lines fixed_cfg fs seek quiet (cl_of rd) ff) o e (err_log rd)
  end.
Proof.
  intros fs opener seek quiet fuel path ff o e. unfold gen_check_one_checkfile.
  destruct (opener path) as [msg|rd]; cbn [ctryw cbind crun]; [reflexivity|].
  intros LK. apply (loop1_spec fs seek quiet rd fuel [] o e ff LK).
Qed.

(* ------------------------------------------------------------------------- *)
(* write_hex_output                                                          *)
(* ------------------------------------------------------------------------- *)
Lemma ascii_to : forall s i, Forall (fun c => c < 128) s -> i <= N.of_nat (length s) ->
  s_to_opt s i = Some (firstn (N.to_nat i) s).
Proof.
  induction s as [|c t IH]; intros i F L; cbn [s_to_opt].
  - cbn [length] in L. replace i with 0 by lia. reflexivity.
  - destruct (N.eqb_spec i 0) as [->|NZ]; [reflexivity|].
    inversion F as [|c' t' C T]; subst. unfold s_utf8_len. replace (c <? 128) with true by lia.
    replace (i <? 1) with false by lia. cbn [length] in L. rewrite IH by (assumption || lia).
    replace (N.to_nat i) with (S (N.to_nat (i - 1))) by lia. reflexivity.
Qed.

Lemma hex_digit_ascii d : d < 16 -> hex_digit d < 128.
Proof. intros H. unfold hex_digit. destruct (d <? 10); lia. Qed.

Lemma hex_ascii l : Forall (fun b => b < 256) l -> Forall (fun c => c < 128) (hex_of_bytes l).
Proof.
  induction 1 as [|b t B T IH]; cbn [hex_of_bytes]; [constructor|].
  constructor; [apply hex_digit_ascii; apply N.div_lt_upper_bound; lia|].
  constructor; [apply hex_digit_ascii; apply N.mod_lt; lia|exact IH].
Qed.

Lemma srange_bytes St p n : (forall i, St i < 256) -> Forall (fun b => b < 256) (srange St p n).
Proof. intros H. unfold srange. apply Forall_forall. intros x I. apply in_map_iff in I as (i & <- & _). apply H. Qed.

Definition out_res : Type := (list N + unit) * list N * list N.

Lemma hex_while_spec St (BY : forall i, St i < 256) (e : list N) : forall fuel pos len o block, length block = 64%nat ->
  cbind (gen_write_hex_output_while1 (N -> N) SFILL fuel (St, pos) block o len)
        (fun x => let '(output, block, w_out, len) := x in (cret (inr tt, w_out, e) : ctl out_res out_res))
  = match write_hex_output fuel St pos len with
    | Ok h => Ok (inr (inr tt, o ++ h, e))
    | Panic c => Panic c
    | OutOfFuel => OutOfFuel
    end.
Proof.
  induction fuel as [|f IH]; intros pos len o block LB; cbn [gen_write_hex_output_while1 write_hex_output].
  - destruct (N.eqb_spec len 0) as [->|NZ]; [rewrite app_nil_r; reflexivity|]. replace (0 <? len) with true by lia. reflexivity.
  - destruct (N.eqb_spec len 0) as [->|NZ]; [rewrite app_nil_r; reflexivity|]. replace (0 <? len) with true by lia.
    rewrite rd_fill_SFILL, LB. change (N.of_nat 64) with 64. unfold a_len. rewrite srange_length. change (N.of_nat 64) with 64.
    change s_hex_encode with hex_of_bytes.
    unfold mi_mul, fits. replace (2 * N.min len 64 <? 2 ^ 64) with true by (change (2 ^ 64) with 18446744073709551616; lia).
    cbn [clift cbind]. unfold s_slice_to.
    rewrite ascii_to by (try (apply hex_ascii, srange_bytes, BY); rewrite hex_of_bytes_length, srange_length; lia).
    cbn [clift cbind]. unfold mi_sub. replace (N.min len 64 <=? len) with true by lia. cbn [clift cbind].
    rewrite IH by apply srange_length.
    destruct (write_hex_output f St (pos + 64) (len - N.min len 64)) as [h|c|]; cbn [bind]; try reflexivity.
    unfold io_write_all. rewrite <- app_assoc. reflexivity.
Qed.

Theorem gen_write_hex_output_spec : forall St, (forall i, St i < 256) -> forall len fuel pos o e,
  gen_write_hex_output (N -> N) SFILL len fuel (St, pos) o e =
  match write_hex_output fuel St pos len with
  | Ok h => Ok (inr tt, o ++ h, e)
  | Panic c => Panic c
  | OutOfFuel => OutOfFuel
  end.
Proof.
  intros St BY len fuel pos o e. unfold gen_write_hex_output. cbv zeta.
  pose proof (hex_while_spec St BY e fuel pos len o (repeat 0 (N.to_nat rs_BLOCK_LEN)) eq_refl) as W.
  change (crun (cbind (gen_write_hex_output_while1 (N -> N) SFILL fuel (St, pos) (repeat 0 (N.to_nat rs_BLOCK_LEN)) o len)
                (fun x => let '(output, block, w_out, len) := x in (cret (inr tt, w_out, e) : ctl out_res out_res))) =
          match write_hex_output fuel St pos len with
          | Ok h => Ok (inr tt, o ++ h, e) | Panic c => Panic c | OutOfFuel => OutOfFuel end).
  rewrite W. destruct (write_hex_output fuel St pos len); reflexivity.
Qed.

(* ------------------------------------------------------------------------- *)
(* write_raw_output                                                          *)
(* ------------------------------------------------------------------------- *)
Lemma copy_spec St chunk : forall fuel pos limit w total,
  io_copy_take SFILL chunk fuel (St, pos) limit w total =
  match write_raw_output fuel chunk St pos limit with
  | Ok d => Ok (total + limit, ((St, pos + limit), 0), w ++ d)
  | Panic c => Panic c
  | OutOfFuel => OutOfFuel
  end.
Proof.
  induction fuel as [|f IH]; intros pos limit w total; cbn [io_copy_take write_raw_output].
  - destruct (N.eqb_spec limit 0) as [->|NZ]; [rewrite !N.add_0_r, app_nil_r; reflexivity|reflexivity].
  - destruct (N.eqb_spec limit 0) as [->|NZ]; [rewrite !N.add_0_r, app_nil_r; reflexivity|].
    cbn [fst snd]. rewrite IH. set (n := N.min limit (N.max 1 chunk)).
    destruct (write_raw_output f chunk St (pos + n) (limit - n)) as [d|c|]; cbn [bind]; try reflexivity.
    unfold io_write_all, SFILL. rewrite <- app_assoc.
    replace (total + n + (limit - n)) with (total + limit) by lia.
    replace (pos + n + (limit - n)) with (pos + limit) by lia. reflexivity.
Qed.

Theorem gen_write_raw_output_spec : forall St chunk len fuel pos o e,
  gen_write_raw_output (N -> N) SFILL chunk len fuel (St, pos) o e =
  match write_raw_output fuel chunk St pos len with
  | Ok d => Ok (inr tt, o ++ d, e)
  | Panic c => Panic c
  | OutOfFuel => OutOfFuel
  end.
Proof.
  intros St chunk len fuel pos o e. unfold gen_write_raw_output. cbv zeta. cbn [fst snd].
  rewrite copy_spec. destruct (write_raw_output fuel chunk St pos len); reflexivity.
Qed.

(* ------------------------------------------------------------------------- *)
(* main, --check mode: the loop over the checkfiles and the exit status      *)
(* ------------------------------------------------------------------------- *)
Section MainCheck.
Variable lossy : list N -> list N.
Variable fs : fsys.
Variable opener : list N -> list N + list (list N + list N).
Variables (chunk len seek : N) (quiet raw nn tag : bool).

(* a checkfile of the model: None = cannot be opened *)
Definition cf_of (p : list N) : option (list cline) :=
  match opener p with inl _ => None | inr rd => Some (cl_of rd) end.

Definition main_res : Type := (list N + N) * list N * list N.

Let FOR1 := gen_main_for1 lossy false (N -> N) fs SFILL opener chunk quiet len seek raw nn tag true.
Let CKF := gen_check_one_checkfile false (N -> N) fs SFILL opener quiet seek.

Definition for_rel (g : ctl main_res (list N * list N * N)) (m : list N * b3exit) (o : list N) : Prop :=
  match m with
  | (out, ExitCode ff') => exists e', g = Ok (inr (o ++ out, e', ff'))
  | (out, ExitError) => exists msg e', g = Ok (inl (inl msg, o ++ out, e'))
  | (_, ExitPanic c) => g = Panic c \/ g = OutOfFuel
  end.

Lemma for1_check_spec : forall paths fuel o e ff,
  (forall p rd, In p paths -> opener p = inr rd -> lines_ok fuel rd) ->
  for_rel (FOR1 fuel paths o e ff) (run_check fixed_cfg fs seek quiet (map cf_of paths) ff) o.
Proof.
  induction paths as [|p t IH]; intros fuel o e ff OKS.
  - cbn [map run_check for_rel]. exists e. unfold FOR1. cbn [gen_main_for1]. rewrite app_nil_r. reflexivity.
  - cbn [map run_check]. unfold FOR1. cbn [gen_main_for1]. fold FOR1.
    pose proof (gen_check_one_checkfile_spec fs opener seek quiet fuel p ff o e) as H.
    unfold cf_of at 1. destruct (opener p) as [msg|rd] eqn:OP.
    + rewrite H. cbn [clift cbind ctryw for_rel]. exists msg, e. rewrite app_nil_r. reflexivity.
    + specialize (H (OKS p rd (or_introl eq_refl) OP)).
      destruct (check_lines fixed_cfg fs seek quiet (cl_of rd) ff) as [out [[k| |pc]|ff2]]; cbn [loop_rel] in H.
      * destruct H.
      * destruct H as (msg & ff3 & ->). cbn [clift cbind ctryw for_rel]. exists msg, (e ++ err_log rd). reflexivity.
      * destruct H as [-> | ->]; cbn [clift cbind for_rel]; [left|right]; reflexivity.
      * rewrite H. cbn [clift cbind ctryw cret].
        specialize (IH fuel (o ++ out) (e ++ err_log rd) ff2 (fun q r I => OKS q r (or_intror I))).
        destruct (run_check fixed_cfg fs seek quiet (map cf_of t) ff2) as [out2 [k| |pc]]; cbn [for_rel] in IH |- *;
          rewrite ?app_assoc; exact IH.
Qed.

(* the closure of main with --check: stdout is the model's, the status passed to process::exit is the model's
   exit_status of ExitCode; an Err leaving main is the model's ExitError *)
Theorem gen_main_check_spec : forall paths fuel o e,
  (forall p rd, In p paths -> opener p = inr rd -> lines_ok fuel rd) ->
  let g := gen_main lossy false (N -> N) fs SFILL opener chunk quiet len seek raw nn tag true paths fuel o e in
  match b3sum_check fixed_cfg fs seek quiet (map cf_of paths) with
  | (out, ExitCode ff) => exists e', g = Ok (inr (exit_status (ExitCode ff)), o ++ out, e')
  | (out, ExitError) => exists msg e', g = Ok (inl msg, o ++ out, e')
  | (_, ExitPanic c) => g = Panic c \/ g = OutOfFuel
  end.
Proof.
  intros paths fuel o e OKS g. subst g. unfold gen_main, b3sum_check. cbv zeta. fold FOR1.
  pose proof (for1_check_spec paths fuel o e 0 OKS) as H.
  destruct (run_check fixed_cfg fs seek quiet (map cf_of paths) 0) as [out [ff| |pc]]; cbn [for_rel] in H.
  - destruct H as (e' & ->). cbn [cbind andb exit_status].
    destruct (0 <? ff); cbn [cbind cret creturn crun]; [destruct (ff =? 1); cbn [cbind cret creturn crun]|]; eexists; reflexivity.
  - destruct H as (msg & e' & ->). cbn [cbind crun]. exists msg, e'. reflexivity.
  - destruct H as [-> | ->]; [left|right]; reflexivity.
Qed.
End MainCheck.

(* ------------------------------------------------------------------------- *)
(* hash_one_input and main in hashing mode                                   *)
(* ------------------------------------------------------------------------- *)
Theorem gen_hash_one_input_spec : forall (fs : fsys) chunk fl fuel path o e,
  (N.to_nat (f_length fl / 64) < fuel)%nat -> (N.to_nat (f_length fl / N.max 1 chunk) < fuel)%nat ->
  let g := gen_hash_one_input utf8_lossy false (N -> N) fs SFILL chunk (f_length fl) (f_seek fl)
             (f_raw fl) (f_no_names fl) (f_tag fl) fuel path o e in
  match fs path with
  | inl msg => g = Ok (inl msg, o, e)
  | inr St => (forall i, St i < 256) -> exists out, hash_one_input fl St path = Ok out /\ g = Ok (inr tt, o ++ out, e)
  end.
Proof.
  intros fs chunk fl fuel path o e F1 F2 g. subst g. unfold gen_hash_one_input, gen_hash_path.
  destruct (fs path) as [msg|St]; cbn [ctryw cbind crun]; [reflexivity|]. intros BY.
  eexists. split; [apply hash_one_input_spec|]. cbv zeta.
  destruct (f_raw fl).
  - rewrite gen_write_raw_output_spec, (raw_output_spec_gen fuel chunk St _ _ F2). cbn [clift cbind ctryw creturn crun]. reflexivity.
  - destruct (f_no_names fl).
    + rewrite (gen_write_hex_output_spec St BY), (hex_output_spec_gen fuel St _ _ F1). cbn [clift cbind ctryw creturn crun].
      unfold io_write_all, LF. rewrite <- app_assoc. reflexivity.
    + rewrite gen_filepath_to_string_spec. cbn [clift cbind]. unfold print_line, print_body.
      destruct (filepath_to_string path) as [fstr esc].
      destruct esc; cbn [cbind cret]; destruct (f_tag fl);
        rewrite (gen_write_hex_output_spec St BY), (hex_output_spec_gen fuel St _ _ F1); cbn [clift cbind ctryw creturn cret crun];
        unfold io_write_all, TAG_PREFIX, TAG_SEP, PLAIN_SEP, LF, BSL; cbn [app]; rewrite <- ?app_assoc; cbn [app]; rewrite <- ?app_assoc; cbn [app]; rewrite <- ?app_assoc; reflexivity.
Qed.

Section MainHash.
Variable fs : fsys.
Variable opener : list N -> list N + list (list N + list N).
Variables (chunk : N) (fl : out_flags) (quiet : bool).

(* an input of the model's run_hash: None = hash_path failed *)
Definition in_of (p : list N) : list N * option (N -> N) :=
  (p, match fs p with inl _ => None | inr St => Some St end).

Let FOR1H := gen_main_for1 utf8_lossy false (N -> N) fs SFILL opener chunk quiet (f_length fl) (f_seek fl)
               (f_raw fl) (f_no_names fl) (f_tag fl) false.

Lemma for1_hash_spec : forall paths fuel o e ff,
  (N.to_nat (f_length fl / 64) < fuel)%nat -> (N.to_nat (f_length fl / N.max 1 chunk) < fuel)%nat ->
  (forall p St, In p paths -> fs p = inr St -> forall i, St i < 256) ->
  exists out ff' e', run_hash fl (map in_of paths) ff = Ok (out, ff') /\
                     FOR1H fuel paths o e ff = Ok (inr (o ++ out, e', ff')).
Proof.
  induction paths as [|p t IH]; intros fuel o e ff F1 F2 BYS.
  - exists [], ff, e. split; [reflexivity|]. unfold FOR1H. cbn [gen_main_for1]. rewrite app_nil_r. reflexivity.
  - cbn [map]. unfold in_of at 1. unfold FOR1H. cbn [gen_main_for1]. fold FOR1H.
    pose proof (gen_hash_one_input_spec fs chunk fl fuel p o e F1 F2) as H. cbv zeta in H.
    destruct (fs p) as [msg|St] eqn:FP.
    + rewrite H. cbn [clift cbind cret run_hash]. rewrite sat_add_eq.
      match goal with |- context [FOR1H ?f ?t' ?o' ?e' ?ff'] =>
        destruct (IH f o' e' ff' F1 F2 (fun q S I => BYS q S (or_intror I))) as (out & ff2 & e2 & R & G) end.
      exists out, ff2, e2. split; [exact R|exact G].
    + destruct (H (BYS p St (or_introl eq_refl) FP)) as (out1 & HO & ->). cbn [clift cbind cret run_hash]. rewrite HO. cbn [bind].
      destruct (IH fuel (o ++ out1) e ff F1 F2 (fun q S I => BYS q S (or_intror I))) as (out & ff2 & e2 & R & G).
      rewrite R. cbn [bind]. exists (out1 ++ out), ff2, e2. split; [reflexivity|]. rewrite app_assoc. exact G.
Qed.

(* the closure of main without --check: stdout and the failure count are the model's run_hash, the status passed to
   process::exit is `if files_failed > 0 { 1 } else { 0 }` of that count *)
Theorem gen_main_hash_spec : forall paths fuel o e,
  (N.to_nat (f_length fl / 64) < fuel)%nat -> (N.to_nat (f_length fl / N.max 1 chunk) < fuel)%nat ->
  (forall p St, In p paths -> fs p = inr St -> forall i, St i < 256) ->
  exists out ff e', run_hash fl (map in_of paths) 0 = Ok (out, ff) /\
    gen_main utf8_lossy false (N -> N) fs SFILL opener chunk quiet (f_length fl) (f_seek fl)
      (f_raw fl) (f_no_names fl) (f_tag fl) false paths fuel o e = Ok (inr (exit_status (ExitCode ff)), o ++ out, e').
Proof.
  intros paths fuel o e F1 F2 BYS. destruct (for1_hash_spec paths fuel o e 0 F1 F2 BYS) as (out & ff & e' & R & G).
  exists out, ff, e'. split; [exact R|]. unfold gen_main. cbv zeta. fold FOR1H. rewrite G. cbn [cbind andb cret exit_status].
  destruct (0 <? ff); reflexivity.
Qed.
End MainHash.
