(* The `Platform` abstraction of src/platform.rs: a SIMD degree and four kernels.
   Every implementation model takes a platform; every main theorem assumes only
   PlatformOK p (kernels agree with the portable ones on their domain, degree is
   a power of two not above the build's MAX_SIMD_DEGREE).  C05 establishes
   PlatformOK for the modelled kernels; C04 is then a corollary. *)
From Coq Require Import NArith List Bool.
From V Require Import Base.Res Base.Word Base.MachInt gen.GenConsts Model.Portable.
Import ListNotations.
Open Scope N_scope.

Record platform := mkPlatform {
  p_degree : N;
  p_max_degree : N;   (* MAX_SIMD_DEGREE of the build *)
  p_compress_in_place : list N -> list N -> N -> N -> N -> list N;
  p_compress_xof : list N -> list N -> N -> N -> N -> list N;
  p_hash_many : list (list N) -> list N -> N -> bool -> N -> N -> N -> N -> res (list (list N));
  (* xof_many cv block block_len counter flags nblocks : bytes *)
  p_xof_many : list N -> list N -> N -> N -> N -> N -> res (list N) }.

Definition max_degree_or_2 (p : platform) : N := N.max (p_max_degree p) 2.

(* generic xof_many: loop over compress_xof with counter + i (Platform::xof_many's
   fallback arm, blake3_xof_many in blake3_dispatch.c) *)
Fixpoint xof_many_loop (cx : list N -> list N -> N -> N -> N -> list N)
         (cv block : list N) (block_len counter flags : N) (n : nat) : res (list N) :=
  match n with
  | O => Ok []
  | S n' =>
      let b := cx cv block block_len counter flags in
      counter' <- mi_add 64 counter 1 ;;
      rest <- xof_many_loop cx cv block block_len counter' flags n' ;;
      Ok (b ++ rest)
  end.

Definition portable_xof_many cv block block_len counter flags (nblocks : N) : res (list N) :=
  xof_many_loop compress_xof cv block block_len counter flags (N.to_nat nblocks).

Definition portable_platform (max_degree : N) : platform :=
  mkPlatform rs_degree_Portable max_degree compress_in_place compress_xof hash_many portable_xof_many.

Definition is_pow2 (d : N) : bool := (0 <? d) && (N.land d (d - 1) =? 0).

Record PlatformOK (p : platform) : Prop := {
  ok_degree_pow2 : is_pow2 (p_degree p) = true;
  ok_degree_le : p_degree p <= p_max_degree p;
  ok_max_le : p_max_degree p <= 16;
  ok_max_pow2 : is_pow2 (p_max_degree p) = true;
  ok_cip : forall cv block bl ctr fl, p_compress_in_place p cv block bl ctr fl = compress_in_place cv block bl ctr fl;
  ok_cx : forall cv block bl ctr fl, p_compress_xof p cv block bl ctr fl = compress_xof cv block bl ctr fl;
  ok_hm : forall inputs key ctr incr fl fs fe cap,
      ctr + N.of_nat (length inputs) < 2 ^ 64 ->
      p_hash_many p inputs key ctr incr fl fs fe cap = hash_many inputs key ctr incr fl fs fe cap;
  ok_xm : forall cv block bl ctr fl n,
      ctr + n < 2 ^ 64 ->
      p_xof_many p cv block bl ctr fl n = portable_xof_many cv block bl ctr fl n }.

(* a platform with the portable kernels but a given SIMD degree / MAX_SIMD_DEGREE:
   what the crate's control flow sees at each SIMD level, with the kernels replaced
   by their common specification (Model/Kernels.v relates the vector kernels to it) *)
Definition sim_platform (degree max_degree : N) : platform :=
  mkPlatform degree max_degree compress_in_place compress_xof hash_many portable_xof_many.

Lemma sim_platform_ok d m :
  is_pow2 d = true -> d <= m -> m <= 16 -> is_pow2 m = true -> PlatformOK (sim_platform d m).
Proof. intros. constructor; cbn; auto. Qed.
