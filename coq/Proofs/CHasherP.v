(* C06: the model of the C library (Model/CHasher.v) computes the specification.
   Part A  the C chunk / wide functions succeed with the same value whenever the Rust
           crate's counterparts (Model/RsChunk.v, Model/RsWide.v) do, so ChunkP / WideP
           carry over;
   Part B  output_root_bytes writes exactly S[seek .. seek + out_len);
   Part C  reset, derive-key agreement, zero-length calls, finalize is pure;
   Part D  the lazily merged, in-place CV stack: any sequence of updates refines the
           absorbed message, and finalize_seek produces the specification stream. *)
From V Require Import Proofs.ListP.
From V Require Import Base.Res Base.Word Base.MachInt gen.GenConsts gen.GenFormulas
  Spec.Compress Spec.Tree Spec.Blake3 Model.Portable Model.Platform Model.RsChunk Model.RsWide Model.RsXof Model.CHasher
  Proofs.PortableP Proofs.ChunkP Proofs.TreeP Proofs.FormulasP Proofs.WideP Proofs.C01P Proofs.XofP
  Proofs.StackArithP Proofs.CFormulasP.
Open Scope N_scope.

Ltac inv_bind H x E :=
  match type of H with
  | bind ?m _ = Ok _ => destruct m as [x| |] eqn:E; cbn [bind] in H; [|discriminate H|discriminate H]
  end.
Ltac inv_check H E :=
  match type of H with
  | bind (check ?b _) _ = Ok _ => destruct b eqn:E; cbn [check bind] in H; [|discriminate H]
  end.

(* ================================ Part A ================================================ *)
Section Sim.
  Variable p : platform.

  Lemma c_fill_buf_sim cs input cs' rest :
    cs_fill_buf cs input = Ok (cs', rest) ->
    exists take, c_cs_fill_buf cs input = Ok (cs', take) /\ rest = skipn (N.to_nat take) input.
  Proof.
    intros H. unfold cs_fill_buf in H. unfold c_cs_fill_buf. change c_BLOCK_LEN with rs_BLOCK_LEN.
    inv_bind H want Ew. inv_check H E1. inv_check H E2. cbn [bind]. cbn zeta.
    replace (cs_buf_len cs + N.min want (nlen input) <=? nlen (cs_buf cs)) with true by lia. cbn [check bind].
    inv_bind H bl Eb. cbn [bind]. inversion H; subst. eexists. split; reflexivity.
  Qed.

  Lemma c_cs_update_loop_sim : forall fuel cs input r,
    cs_update_loop fuel p cs input = Ok r -> c_cs_update_loop fuel p cs input = Ok r.
  Proof.
    induction fuel as [|fuel IH]; intros cs input r H; cbn [cs_update_loop c_cs_update_loop] in *;
      change c_BLOCK_LEN with rs_BLOCK_LEN.
    - destruct (nlen input <=? rs_BLOCK_LEN); [exact H|discriminate].
    - destruct (nlen input <=? rs_BLOCK_LEN); [exact H|].
      inv_check H E1. inv_bind H bl Eb. apply IH. exact H.
  Qed.

  Lemma c_cs_update_sim cs input cs' :
    cs_update p cs input = Ok cs' -> c_cs_update p cs input = Ok cs'.
  Proof.
    intros H. unfold cs_update in H. unfold c_cs_update.
    inv_bind H r1 E1. destruct r1 as [cs1 in1].
    assert (H1 : (if 0 <? cs_buf_len cs
                  then '(cs0, take) <- c_cs_fill_buf cs input;;
                       (let input0 := skipn (N.to_nat take) input in
                        if 0 <? nlen input0
                        then let cv := p_compress_in_place p (cs_cv cs0) (cs_buf cs0) c_BLOCK_LEN (cs_ctr cs0)
                                         (N.lor (cs_flags cs0) (c_cs_start_flag cs0)) in
                             blocks <- mi_add 8 (cs_blocks cs0) 1;;
                             Ok (mkCS cv (cs_ctr cs0) c_zero_block 0 blocks (cs_flags cs0), input0)
                        else Ok (cs0, input0))
                  else Ok (cs, input)) = Ok (cs1, in1)).
    { destruct (0 <? cs_buf_len cs); [|exact E1].
      inv_bind E1 r0 E0. destruct r0 as [cs0 rest].
      destruct (c_fill_buf_sim cs input cs0 rest E0) as (take & Hc & ->). rewrite Hc. cbn [bind]. cbn zeta.
      destruct (nlen (skipn (N.to_nat take) input) =? 0) eqn:Ez; cbn [negb] in E1.
      - replace (0 <? nlen (skipn (N.to_nat take) input)) with false by lia. exact E1.
      - replace (0 <? nlen (skipn (N.to_nat take) input)) with true by lia.
        inv_check E1 Ea. exact E1. }
    match goal with |- bind ?m _ = _ => replace m with (@Ok (chunk_state * list N) (cs1, in1)) by (symmetry; exact H1) end.
    cbn [bind]. clear H1 E1.
    unfold cs_update_tail in H.
    inv_bind H r2 E2. destruct r2 as [cs2 in2]. rewrite (c_cs_update_loop_sim _ _ _ _ E2). cbn [bind].
    inv_bind H r3 E3. destruct r3 as [cs3 in3].
    destruct (c_fill_buf_sim cs2 in2 cs3 in3 E3) as (take & Hc & _). rewrite Hc. cbn [bind].
    inv_check H Ea. inv_bind H c Ec. inv_check H Eb. exact H.
  Qed.

  Lemma c_ccp_sim input key ctr flags cap v :
    compress_chunks_parallel p input key ctr flags cap = Ok v ->
    c_compress_chunks_parallel p input key ctr flags cap = Ok v.
  Proof.
    intros H. unfold compress_chunks_parallel in H. unfold c_compress_chunks_parallel.
    change c_CHUNK_LEN with rs_CHUNK_LEN.
    inv_check H E1. replace (0 <? nlen input) with true by (destruct (nlen input =? 0) eqn:E; [discriminate|lia]).
    cbn [check bind]. inv_check H E2.
    destruct (chunks_exact_of rs_CHUNK_LEN input) as [chunks rem].
    inv_check H E3. inv_bind H cvs Eh.
    change c_flag_CHUNK_START with rs_flag_CHUNK_START. change c_flag_CHUNK_END with rs_flag_CHUNK_END.
    rewrite Eh. cbn [bind].
    destruct (nlen rem =? 0) eqn:Ez; cbn [negb] in H.
    - replace (0 <? nlen rem) with false by lia. exact H.
    - replace (0 <? nlen rem) with true by lia.
      inv_bind H counter Ec. inv_bind H cs Eu. cbn zeta.
      apply c_cs_update_sim in Eu. cbn [check bind].
      match goal with |- bind ?m _ = _ => replace m with (@Ok chunk_state cs) by (symmetry; exact Eu) end. cbn [check bind].
      inv_check H E4. exact H.
  Qed.

  Lemma c_cpp_sim cvs key flags cap v :
    compress_parents_parallel p cvs key flags cap = Ok v ->
    c_compress_parents_parallel p cvs key flags cap = Ok v.
  Proof.
    intros H. unfold compress_parents_parallel in H. unfold c_compress_parents_parallel. unfold nlen_l.
    inv_check H E1. inv_check H E2. destruct (pair_blocks cvs) as [parents odd].
    inv_check H E3. change c_flag_PARENT with rs_flag_PARENT. inv_bind H outs Eh.
    destruct odd as [cv|]; [|exact H]. inv_check H E4. exact H.
  Qed.

  Lemma c_condense_sim : forall fuel cvs key flags v,
    condense_loop fuel p cvs key flags = Ok v -> c_condense_loop fuel p cvs key flags = Ok v.
  Proof.
    induction fuel as [|fuel IH]; intros cvs key flags v H; cbn [condense_loop c_condense_loop] in *; unfold nlen_l.
    - destruct (N.of_nat (length cvs) <=? 2); [exact H|discriminate].
    - destruct (N.of_nat (length cvs) <=? 2); [exact H|].
      inv_bind H outs E. rewrite (c_cpp_sim _ _ _ _ _ E). cbn [bind]. apply IH. exact H.
  Qed.

  Hypothesis Hdeg : 1 <= p_degree p.

  Lemma c_wide_sim : forall fuel input key ctr flags cap v,
    nlen input < 2 ^ 64 ->
    compress_subtree_wide fuel p input key ctr flags cap = Ok v ->
    c_compress_subtree_wide fuel p input key ctr flags cap = Ok v.
  Proof.
    induction fuel as [|fuel IH]; intros input key ctr flags cap v H64 H;
      cbn [compress_subtree_wide c_compress_subtree_wide] in *; change c_CHUNK_LEN with rs_CHUNK_LEN.
    - destruct (nlen input <=? p_degree p * rs_CHUNK_LEN); [apply c_ccp_sim; exact H|discriminate].
    - destruct (nlen input <=? p_degree p * rs_CHUNK_LEN) eqn:Ed; [apply c_ccp_sim; exact H|].
      inv_check H E1. inv_check H E2. change rs_CHUNK_LEN with 1024 in *.
      rewrite rs_left_subtree_len_spec in H by lia. cbn [bind] in H.
      rewrite c_left_subtree_len_spec by lia. cbn [bind].
      destruct (left_len_spec (nlen input) ltac:(lia)) as (a & Ha & Ha1 & Ha2).
      set (L := left_len (nlen input)) in *.
      inv_check H E3. unfold mi_sub. replace (L <=? nlen input) with true by lia. cbn [bind].
      unfold rs_right_chunk_counter, mb, mu, mi_cast, mi_div in H. cbn [bind] in H.
      change rs_CHUNK_LEN with 1024 in H. change (1024 =? 0) with false in H. cbn iota in H. cbn [bind] in H.
      rewrite N.land_ones in H. rewrite (N.mod_small (L / 1024)) in H by lia.
      inv_bind H rc Erc. cbn [bind].
      (* the degree *)
      assert (Hdg : exists degree,
                 (if L =? 1024 then assert! (p_degree p =? 1) code 1206 ;; Ok 1 else Ok (N.max (p_degree p) 2)) = Ok degree /\
                 (if (1024 <? L) && (p_degree p =? 1) then 2 else p_degree p) = degree).
      { pose proof (pow2_pos a). destruct (L =? 1024) eqn:EL.
        - destruct (p_degree p =? 1) eqn:E1d; cbn [check bind]; [|exfalso; destruct (p_degree p =? 1); cbn in H; discriminate].
          exists 1. split; [reflexivity|]. replace (1024 <? L) with false by lia. cbn [andb]. lia.
        - exists (N.max (p_degree p) 2). split; [reflexivity|].
          replace (1024 <? L) with true by lia. cbn [andb]. destruct (p_degree p =? 1) eqn:E1d; lia. }
      destruct Hdg as (degree & Hd1 & Hd2). rewrite Hd1 in H. cbn [bind] in H. rewrite Hd2.
      inv_check H E4. inv_bind H lcvs El. inv_bind H rcvs Er.
      assert (HlL : nlen (firstn (N.to_nat L) input) < 2 ^ 64) by (unfold nlen in *; rewrite firstn_length; lia).
      assert (HlR : nlen (skipn (N.to_nat L) input) < 2 ^ 64) by (unfold nlen in *; rewrite skipn_length; lia).
      rewrite (IH _ _ _ _ _ _ HlL El). cbn [bind].
      rewrite (IH _ _ _ _ _ _ HlR Er). cbn [bind].
      unfold nlen_l. inv_check H E5. inv_check H E6.
      destruct (N.of_nat (length lcvs) =? 1) eqn:E7.
      + replace (1 <=? N.of_nat (length rcvs)) with true by lia. cbn [check bind]. inv_check H E8. exact H.
      + apply c_cpp_sim. exact H.
  Qed.
End Sim.

Lemma pok_degree_pos p : PlatformOK p -> 1 <= p_degree p.
Proof.
  intros POK. pose proof (ok_degree_pow2 p POK) as H. unfold is_pow2 in H.
  apply andb_true_iff in H. destruct H as [H _]. lia.
Qed.

Section CWide.
  Variable p : platform.
  Hypothesis POK : PlatformOK p.
  Variables (K : list N) (F : N).
  Hypothesis HK : length K = 8%nat.

  Notation tcv := (tree_cv spec_c8 K F).

  Lemma c_cs_update_spec T cs bs input :
    Tight spec_c8 K F T cs bs -> len (bs ++ input) <= 1024 ->
    exists cs', c_cs_update p cs input = Ok cs' /\ Tight spec_c8 K F T cs' (bs ++ input).
  Proof.
    intros HT Hl.
    destruct (cs_update_spec spec_c8 p (Hcip spec_c8 p POK spec_c8_cip) spec_c8_len K F T HK cs bs input HT Hl)
      as (cs' & Hu & HT').
    exists cs'. split; [apply c_cs_update_sim; exact Hu|exact HT'].
  Qed.

  Lemma c_to_parent_node_spec input ctr :
    1024 < len input -> len input < 2 ^ 64 -> ctr + chunks (len input) < 2 ^ 64 ->
    exists ta tb, c_compress_subtree_to_parent_node p input K ctr F = Ok (tcv ta ++ tcv tb) /\
                  spec_tree wide_fuel ctr input = Node ta tb /\ wf_tree ta /\ wf_tree tb.
  Proof.
    intros Hlo H64 Hctr.
    destruct (degree_facts spec_c8 p POK spec_c8_cip spec_c8_len K F HK) as (j & Hdj & Hpc & Hd1 & j2 & HD & Hj2 & HDmax & j3 & Hm2 & Hj3 & Hdle).
    unfold c_compress_subtree_to_parent_node. unfold nlen. fold (len input). change c_CHUNK_LEN with 1024.
    replace (1024 <? len input) with true by lia. cbn [check bind].
    destruct (wide_spec spec_c8 p POK spec_c8_cip spec_c8_len K F HK wide_fuel input ctr (max_degree_or_2 p))
      as (ts & Hrun & Hwf & HC & Hn & Hn2 & _); try lia.
    { change (N.of_nat wide_fuel) with 64. rewrite two64 in H64.
      change (1024 * 2 ^ 64) with 18889465931478580854784. lia. }
    rewrite (c_wide_sim p (pok_degree_pos p POK) _ _ _ _ _ _ _ H64 Hrun). cbn [bind].
    unfold nlen_l. rewrite map_length.
    replace (N.of_nat (length ts) <=? max_degree_or_2 p) with true by lia. cbn [check bind].
    assert (Hc2 : 2 <= chunks (len input)) by (unfold chunks; lia).
    specialize (Hn2 Hc2).
    destruct (condense_loop_spec spec_c8 p POK spec_c8_cip spec_c8_len K F HK 8 ts _ Hwf HC)
      as (ta & tb & Hloop & Ht & Hwa & Hwb); try lia.
    { change (2 * 2 ^ N.of_nat 8) with 512. pose proof (ok_max_le p POK). unfold max_degree_or_2 in *. lia. }
    exists ta, tb.
    destruct (2 <? max_degree_or_2 p) eqn:E2.
    - rewrite (c_condense_sim p _ _ _ _ _ Hloop). cbn [bind]. auto.
    - assert (Hl2 : length ts = 2%nat) by lia.
      destruct ts as [|x [|y [|? ?]]]; cbn [length] in Hl2; try lia.
      cbn [condense_loop map length] in Hloop. change (N.of_nat 2 <=? 2) with true in Hloop. cbn iota in Hloop.
      inversion Hloop as [[Hx Hy]]. cbn [bind map]. rewrite Hx, Hy. auto.
  Qed.
End CWide.

(* ================================ Part B ================================================ *)
Section RootBytes.
  Variable p : platform.
  Hypothesis POK : PlatformOK p.

  Lemma c_xof_block o k : wf_out o ->
    p_compress_xof p (o_cv o) (o_block o) (o_blen o) k (N.lor (o_flags o) c_flag_ROOT) = rblock o k.
  Proof.
    intros [H1 H2]. rewrite (ok_cx p POK). rewrite compress_xof_is_spec by assumption.
    unfold rblock, root_block, spec_c64. reflexivity.
  Qed.

  (* output_root_bytes writes exactly the bytes seek .. seek + out_len - 1 of the stream of o *)
  Theorem c_output_root_bytes_spec o seek out_len :
    wf_out o -> seek + out_len <= 2 ^ 64 - 1 ->
    c_output_root_bytes p o seek out_len = Ok (stream spec_c64 o seek (N.to_nat out_len)).
  Proof.
    intros Hwf Hmax. rewrite two64 in Hmax. unfold c_output_root_bytes.
    destruct (out_len =? 0) eqn:En.
    { replace out_len with 0 by lia. reflexivity. }
    rewrite c_orb_counter_spec, c_orb_offset_spec. cbn [bind].
    set (k := seek / 64). set (q := seek mod 64).
    (* head *)
    assert (Hhead : exists a c1,
      (if negb (q =? 0) then
         let wide_buf := p_compress_xof p (o_cv o) (o_block o) (o_blen o) k (N.lor (o_flags o) c_flag_ROOT) in
         available <- c_orb_available q ;;
         let bytes := if available <? out_len then available else out_len in
         assert! (q + bytes <=? nlen wide_buf) code 310 ;;
         out_len' <- mi_sub 64 out_len bytes ;;
         counter' <- mi_add 64 k 1 ;;
         Ok (firstn (N.to_nat bytes) (skipn (N.to_nat q) wide_buf), out_len', counter')
       else Ok ([], out_len, k)) = Ok (stream spec_c64 o seek (N.to_nat a), out_len - a, c1) /\
      a <= out_len /\ c1 <= 2 ^ 58 /\ (a < out_len -> 64 * c1 = seek + a)).
    { change (2 ^ 58) with 288230376151711744.
      destruct (q =? 0) eqn:Eq; cbn [negb].
      - exists 0, k. replace (out_len - 0) with out_len by lia. split; [reflexivity|]. unfold k, q in *. lia.
      - cbn zeta. rewrite c_orb_available_spec by (unfold q; lia). cbn [bind].
        set (bytes := if 64 - q <? out_len then 64 - q else out_len).
        assert (Hb : bytes = N.min (64 - q) out_len) by (unfold bytes; destruct (64 - q <? out_len) eqn:E; lia).
        rewrite c_xof_block by exact Hwf. unfold nlen. rewrite rblock_length by exact Hwf.
        replace (q + bytes <=? N.of_nat 64) with true by (unfold q in *; lia). cbn [check bind].
        unfold mi_sub. replace (bytes <=? out_len) with true by lia. cbn [bind].
        unfold mi_add, fits. replace (k + 1 <? 2 ^ 64) with true by (rewrite two64; unfold k; lia). cbn [bind].
        exists bytes, (k + 1). split.
        + rewrite <- stream_in_block by (try exact Hwf; unfold q in *; lia).
          replace (64 * k + q) with seek by (unfold k, q; lia). reflexivity.
        + unfold k, q in *. lia. }
    destruct Hhead as (a & c1 & Hh & Ha & Hc1 & Hal).
    match goal with |- bind ?m _ = _ => replace m with (@Ok (list N * N * N) (stream spec_c64 o seek (N.to_nat a), out_len - a, c1))
      by (symmetry; exact Hh) end.
    cbn [bind]. clear Hh. change (2 ^ 58) with 288230376151711744 in Hc1.
    set (n1 := out_len - a). rewrite c_orb_blocks_spec. cbn [bind].
    (* whole blocks *)
    assert (Hmid : (if negb (n1 / 64 =? 0)
                    then p_xof_many p (o_cv o) (o_block o) (o_blen o) c1 (N.lor (o_flags o) c_flag_ROOT) (n1 / 64)
                    else Ok []) = Ok (stream spec_c64 o (seek + a) (N.to_nat (n1 / 64 * 64)))).
    { destruct (n1 / 64 =? 0) eqn:Eb; cbn [negb].
      - replace (n1 / 64 * 64) with 0 by lia. reflexivity.
      - assert (Han : a < out_len) by (unfold n1 in Eb; lia). specialize (Hal Han).
        rewrite (ok_xm p POK) by (rewrite two64; unfold n1; lia).
        unfold portable_xof_many. change c_flag_ROOT with ROOT.
        rewrite (xof_loop_spec o Hwf) by (try reflexivity; change (2 ^ 58) with 288230376151711744; unfold n1; lia).
        f_equal. f_equal; lia. }
    rewrite Hmid. cbn [bind]. clear Hmid.
    unfold mi_add at 1. unfold fits. replace (c1 + n1 / 64 <? 2 ^ 64) with true by (rewrite two64; unfold n1; lia).
    cbn [bind]. rewrite c_orb_whole_spec by (rewrite two64; unfold n1; lia). cbn [bind].
    unfold nlen. rewrite stream_length.
    replace (N.of_nat (N.to_nat (n1 / 64 * 64)) =? n1 / 64 * 64) with true by lia. cbn [check bind].
    unfold mi_sub. replace (n1 / 64 * 64 <=? n1) with true by lia. cbn [bind].
    set (b := n1 / 64 * 64). set (n2 := n1 - b).
    assert (Hsplit : stream spec_c64 o seek (N.to_nat out_len) =
                     stream spec_c64 o seek (N.to_nat a) ++ stream spec_c64 o (seek + a) (N.to_nat b)
                     ++ stream spec_c64 o (seek + a + b) (N.to_nat n2)).
    { replace (N.to_nat out_len) with (N.to_nat a + (N.to_nat b + N.to_nat n2))%nat by (unfold n2, b, n1 in *; lia).
      rewrite stream_app, stream_app. repeat f_equal; lia. }
    rewrite Hsplit. destruct (n2 =? 0) eqn:E2; cbn [negb].
    - replace n2 with 0 by lia. change (N.to_nat 0) with 0%nat. cbn [stream nrange map]. rewrite app_nil_r. reflexivity.
    - assert (Han : a < out_len) by (unfold n2, b, n1 in *; lia). specialize (Hal Han).
      rewrite c_xof_block by exact Hwf. rewrite rblock_length by exact Hwf.
      replace (n2 <=? N.of_nat 64) with true by (unfold n2, b; lia). cbn [check bind].
      replace (seek + a + b) with (64 * (c1 + n1 / 64) + 0) by (unfold b; lia).
      rewrite stream_in_block by (try exact Hwf; unfold n2, b; lia).
      change (N.to_nat 0) with 0%nat. cbn [skipn]. reflexivity.
  Qed.
End RootBytes.

