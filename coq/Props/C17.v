(* C17: secret state is neither printed by Debug nor left behind by zeroize.
   Statements only; proofs in Proofs/MiscP.v. *)
From Coq Require Import NArith List Bool.
From V Require Import Base.Res Base.Word Spec.Tree Model.Platform Model.RsChunk Model.RsHasher Model.RsXof
  Model.RsDebug Model.Machine Proofs.MiscP.
Import ListNotations.
Open Scope N_scope.

(* Debug output depends on the public fields only *)
Theorem C17_debug_hasher_public : forall h1 h2 pname,
  h_flags h1 = h_flags h2 -> debug_hasher h1 pname = debug_hasher h2 pname.
Proof. exact debug_hasher_public. Qed.

Theorem C17_debug_hasher_ignores_secrets :
  forall key1 key2 cv1 cv2 buf1 buf2 bl1 bl2 blk1 blk2 ctr1 ctr2 init1 init2 st1 st2 fl pname,
  debug_hasher (mkHasher key1 (mkCS cv1 ctr1 buf1 bl1 blk1 fl) init1 st1) pname =
  debug_hasher (mkHasher key2 (mkCS cv2 ctr2 buf2 bl2 blk2 fl) init2 st2) pname.
Proof. exact debug_hasher_ignores_secrets. Qed.

Theorem C17_debug_reader_public : forall r1 r2,
  reader_position r1 = reader_position r2 -> debug_reader r1 = debug_reader r2.
Proof. exact debug_reader_public. Qed.

Theorem C17_debug_chunk_state_public : forall c1 c2 pname,
  cs_count c1 = cs_count c2 -> cs_ctr c1 = cs_ctr c2 -> cs_flags c1 = cs_flags c2 ->
  debug_chunk_state c1 pname = debug_chunk_state c2 pname.
Proof. exact debug_chunk_state_public. Qed.

(* after zeroize every field except `platform` is zero (all 55 stack slots: the stack is empty
   and the model has no backing array; the harness scans the real backing array) *)
Theorem C17_zeroize_hasher : forall h, hasher_is_zero (zero_hasher h) = true.
Proof. exact zero_hasher_is_zero. Qed.
Theorem C17_zeroize_reader : forall r, reader_is_zero (zero_reader r) = true.
Proof. exact zero_reader_is_zero. Qed.

Example C17_nonvacuous :
  debug_hasher (new_internal [1;2;3;4;5;6;7;8] 16) [65;86;88;50] =
  [72;97;115;104;101;114;32;123;32;102;108;97;103;115;58;32;49;54;44;32;112;108;97;116;102;111;114;109;58;32;65;86;88;50;32;125].
Proof. vm_compute. reflexivity. Qed.

(* the functions of the modelled source are exactly the functions the model was written against
   (gen/GenApi.v is regenerated from /repo on every run; see Model/ApiSurface.v) *)
From V Require gen.GenApi Model.ApiSurface.
Theorem C17_api_lib_secret : GenApi.api_lib_secret = ApiSurface.expected_lib_secret.
Proof. reflexivity. Qed.

Print Assumptions C17_api_lib_secret.
Print Assumptions C17_debug_hasher_public.
Print Assumptions C17_debug_hasher_ignores_secrets.
Print Assumptions C17_debug_reader_public.
Print Assumptions C17_debug_chunk_state_public.
Print Assumptions C17_zeroize_hasher.
Print Assumptions C17_zeroize_reader.

(* --- the Zeroize / Debug impls of src/lib.rs as translated into data (gen/GenSecret.v, tools/gen_coq_secret.py) ----- *)
From Coq Require Import String.
From V Require Import gen.GenSecret Proofs.GenSecretP.
Open Scope string_scope.

(* every Zeroize impl destructures ALL declared fields (no `..`), skips at most `platform`, and calls .zeroize() on every
   other field exactly once (the translator rejects any other statement in the body) *)
Theorem C17_src_zeroize_bodies :
  zeroize_complete fields_Hash zeroize_pattern_Hash zeroize_calls_Hash /\
  zeroize_complete fields_Output zeroize_pattern_Output zeroize_calls_Output /\
  zeroize_complete fields_ChunkState zeroize_pattern_ChunkState zeroize_calls_ChunkState /\
  zeroize_complete fields_Hasher zeroize_pattern_Hasher zeroize_calls_Hasher /\
  zeroize_complete fields_OutputReader zeroize_pattern_OutputReader zeroize_calls_OutputReader.
Proof. exact (conj zeroize_Hash (conj zeroize_Output (conj zeroize_ChunkState (conj zeroize_Hasher zeroize_OutputReader)))). Qed.
Theorem C17_src_zeroize_wipes_every_field : forall fields pat calls, zeroize_complete fields pat calls ->
  forall f, In f fields -> f = "platform" \/ In f calls.
Proof. exact zeroize_complete_wipes. Qed.
Theorem C17_src_zeroize_all_fields :
  zeroize_calls_Hash = fields_Hash /\ zeroize_calls_Hasher = fields_Hasher /\ zeroize_calls_OutputReader = fields_OutputReader.
Proof. exact zeroize_all_fields. Qed.
Theorem C17_src_no_derived_debug :
  ~ In "Debug" derives_Hash /\ ~ In "Debug" derives_Output /\ ~ In "Debug" derives_ChunkState /\
  ~ In "Debug" derives_Hasher /\ ~ In "Debug" derives_OutputReader.
Proof. exact no_derived_debug. Qed.
Theorem C17_src_debug_impls : debug_impls = ["Hash"; "ChunkState"; "Hasher"; "OutputReader"].
Proof. exact debug_impls_are. Qed.
Theorem C17_src_debug_fields :
  debug_builder_Hasher = ("debug_struct", "Hasher") /\
  debug_fields_Hasher = [("flags", "&self.chunk_state.flags"); ("platform", "&self.chunk_state.platform")] /\
  debug_builder_ChunkState = ("debug_struct", "ChunkState") /\
  debug_fields_ChunkState = [("count", "&self.count()"); ("chunk_counter", "&self.chunk_counter"); ("flags", "&self.flags");
                             ("platform", "&self.platform")] /\
  debug_builder_OutputReader = ("debug_struct", "OutputReader") /\
  debug_fields_OutputReader = [("position", "&self.position()")] /\
  debug_builder_Hash = ("debug_tuple", "Hash") /\ debug_fields_Hash = [("", "&hex")].
Proof. exact debug_fields_are. Qed.
Print Assumptions C17_src_zeroize_bodies.
Print Assumptions C17_src_zeroize_wipes_every_field.
Print Assumptions C17_src_zeroize_all_fields.
Print Assumptions C17_src_no_derived_debug.
Print Assumptions C17_src_debug_impls.
Print Assumptions C17_src_debug_fields.
