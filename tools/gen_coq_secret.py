#!/usr/bin/env python3
"""Side module of tools/gen_coq.py: gen/GenSecret.v (property C17), from the CURRENT text of src/lib.rs:

  * the field lists of the structs that hold secret state (Hash, Output, ChunkState, Hasher, OutputReader), in
    declaration order, and which of them derive Debug (none may);
  * every `impl Zeroize for S`: the destructuring pattern `let Self { f, g, platform: _ } = self;` (or `Self(bytes)`)
    and the sequence of `<field>.zeroize();` statements that follows - nothing else may occur in the body;
  * every hand-written `impl fmt::Debug for S`: the builder chain `f.debug_struct("S").field("label", &expr)...finish()`
    (or debug_tuple) as the list of (label, expression text), preceded only by the two `let hex` lines of Hash.

Anything else in one of these bodies (an `if`, a loop, a partial wipe, another builder method) raises AnchorError.
Strings are emitted as Coq `string`s; the theorems about them are in Proofs/GenSecretP.v."""
import os
import re
import sys

sys.path.insert(0, os.path.dirname(os.path.abspath(__file__)))
import gen_coq as G  # noqa: E402

AnchorError = G.AnchorError
READ = G.READ

STRUCTS = ["Hash", "Output", "ChunkState", "Hasher", "OutputReader"]
DEBUG_IMPLS = ["Hash", "ChunkState", "Hasher", "OutputReader"]


def ws(s):
    return " ".join(s.split())


def coq_str(s):
    return '"' + s.replace('"', '""') + '"'


def coq_strs(xs):
    return "[" + "; ".join(coq_str(x) for x in xs) + "]"


def struct_fields(lib, name):
    """(fields in order, derive list).  Tuple struct Hash([u8; OUT_LEN]) has the single field "0"."""
    m = re.search(r"((?:#\[[^\]]*\]\s*)*)(?:pub\s+)?struct\s+" + name + r"\s*(\(|\{)", lib)
    if not m:
        raise AnchorError(f"struct {name} not found")
    derives = []
    for d in re.findall(r"derive\(([^)]*)\)", m.group(1)):
        derives += [ws(x) for x in d.split(",") if x.strip()]
    if m.group(2) == "(":
        end = lib.index(")", m.end())
        inner = lib[m.end():end]
        if "," in inner.strip().rstrip(","):
            raise AnchorError(f"struct {name}: more than one tuple field")
        return ["0"], derives
    body = G.fn_body(lib, r"(?:pub\s+)?struct\s+" + name + r"\s*\{", "struct " + name)
    fields = []
    for part in split_top(body):
        part = ws(part)
        if not part:
            continue
        fm = re.fullmatch(r"(?:pub(?:\([a-z]+\))?\s+)?([A-Za-z_][A-Za-z0-9_]*)\s*:\s*(.+)", part)
        if not fm:
            raise AnchorError(f"struct {name}: field {part!r}")
        fields.append(fm.group(1))
    return fields, derives


def split_top(s, sep=","):
    out, depth, cur = [], 0, ""
    for c in s:
        if c in "([{<":
            depth += 1
        elif c in ")]}>":
            depth -= 1
        if c == sep and depth == 0:
            out.append(cur)
            cur = ""
        else:
            cur += c
    out.append(cur)
    return out


def zeroize_impl(lib, name):
    """(destructured [(field, ignored)], zeroized fields in statement order)"""
    impl = G.fn_body(lib, r"\bimpl\s+Zeroize\s+for\s+" + name + r"\s*\{", "Zeroize for " + name)
    if len(re.findall(r"\bfn\b", impl)) != 1:
        raise AnchorError(f"Zeroize for {name}: expected exactly one fn")
    body = ws(G.fn_body(impl, r"\bfn\s+zeroize\s*\(\s*&mut\s+self\s*\)", f"Zeroize for {name}::zeroize"))
    m = re.fullmatch(r"let Self ?(\{.*?\}|\(.*?\)) = self ; ?(.*)", body.replace(";", " ; ").replace("  ", " "))
    if not m:
        raise AnchorError(f"Zeroize for {name}: body does not start with `let Self .. = self;`: {body[:80]}")
    pat, rest = m.group(1), m.group(2)
    destructured, bind = [], {}
    if pat[0] == "(":
        v = ws(pat[1:-1]).rstrip(",").strip()
        if not re.fullmatch(r"[A-Za-z_]\w*", v):
            raise AnchorError(f"Zeroize for {name}: tuple pattern {pat}")
        destructured.append(("0", False))
        bind[v] = "0"
    else:
        for part in split_top(pat[1:-1]):
            part = ws(part)
            if not part:
                continue
            if part == "..":
                raise AnchorError(f"Zeroize for {name}: `..` in the pattern hides fields")
            fm = re.fullmatch(r"([A-Za-z_]\w*)(?: ?: ?(_|[A-Za-z_]\w*))?", part)
            if not fm:
                raise AnchorError(f"Zeroize for {name}: pattern element {part!r}")
            f, b = fm.group(1), fm.group(2)
            destructured.append((f, b == "_"))
            if b != "_":
                bind[b or f] = f
    calls = []
    for st in [ws(x) for x in rest.split(";") if x.strip()]:
        cm = re.fullmatch(r"([A-Za-z_]\w*) ?\. ?zeroize ?\( ?\)", st)
        if not cm or cm.group(1) not in bind:
            raise AnchorError(f"Zeroize for {name}: statement {st!r} is not `<destructured field>.zeroize()`")
        calls.append(bind[cm.group(1)])
    return destructured, calls


def debug_impl(lib, name):
    """(builder kind, struct label, [(field label, expression)])"""
    impl = G.fn_body(lib, r"\bimpl\s+fmt::Debug\s+for\s+" + name + r"\s*\{", "fmt::Debug for " + name)
    body = ws(G.fn_body(impl, r"\bfn\s+fmt\s*\(", f"fmt::Debug for {name}::fmt"))
    pre = ""
    if name == "Hash":
        pm = re.match(r"(let hex = self\.to_hex\(\); let hex: &str = hex\.as_str\(\); )", body)
        if not pm:
            raise AnchorError("fmt::Debug for Hash: expected the two `let hex` lines")
        pre, body = pm.group(1), body[pm.end():]
    m = re.fullmatch(r'f ?\. ?(debug_struct|debug_tuple)\("(\w+)"\) ?(.*?) ?\. ?finish\(\)', body)
    if not m:
        raise AnchorError(f"fmt::Debug for {name}: body is not one builder chain: {body[:100]}")
    kind, label, chain = m.groups()
    fields = []
    pos = 0
    chain = chain.strip()
    while pos < len(chain):
        fm = re.match(r'\. ?field\(', chain[pos:])
        if not fm:
            raise AnchorError(f"fmt::Debug for {name}: builder method at {chain[pos:pos + 30]!r} is not .field(..)")
        i = pos + fm.end()
        depth, j = 1, i
        while j < len(chain) and depth:
            depth += chain[j] == "("
            depth -= chain[j] == ")"
            j += 1
        args = [ws(a) for a in split_top(chain[i:j - 1])]
        if kind == "debug_struct":
            if len(args) != 2 or not re.fullmatch(r'"\w+"', args[0]):
                raise AnchorError(f"fmt::Debug for {name}: field arguments {args!r}")
            fields.append((args[0][1:-1], args[1]))
        else:
            if len(args) != 1:
                raise AnchorError(f"fmt::Debug for {name}: tuple field arguments {args!r}")
            fields.append(("", args[0]))
        pos = j
        while pos < len(chain) and chain[pos] == " ":
            pos += 1
    return kind, label, fields, pre


def gen_secret():
    lib = G.strip_comments(G.src("src/lib.rs"))
    out = ["(* GENERATED by tools/gen_coq_secret.py (side module of tools/gen_coq.py) from src/lib.rs of the /repo working tree.\n"
           "   Do not edit.  Field lists of the structs that hold secret state, the bodies of their Zeroize impls (the\n"
           "   destructuring pattern and the sequence of `<field>.zeroize()` statements: the translator rejects anything else)\n"
           "   and of their hand-written Debug impls (the builder chain). *)\n"
           "From Coq Require Import String List.\nImport ListNotations.\nOpen Scope string_scope.\n\n"]
    for s in STRUCTS:
        fields, derives = struct_fields(lib, s)
        out.append(f"Definition fields_{s} : list string := {coq_strs(fields)}.\n")
        out.append(f"Definition derives_{s} : list string := {coq_strs(derives)}.\n")
        d, calls = zeroize_impl(lib, s)
        out.append(f"(* impl Zeroize for {s}: `let Self .. = self;` (field, bound to `_`?) then the .zeroize() calls in order *)\n")
        out.append(f"Definition zeroize_pattern_{s} : list (string * bool) := ["
                   + "; ".join(f"({coq_str(f)}, {'true' if ig else 'false'})" for f, ig in d) + "].\n")
        out.append(f"Definition zeroize_calls_{s} : list string := {coq_strs(calls)}.\n\n")
    for s in DEBUG_IMPLS:
        kind, label, fields, pre = debug_impl(lib, s)
        out.append(f"(* impl fmt::Debug for {s}: {pre}f.{kind}(\"{label}\")...finish() *)\n")
        out.append(f"Definition debug_builder_{s} : string * string := ({coq_str(kind)}, {coq_str(label)}).\n")
        out.append(f"Definition debug_fields_{s} : list (string * string) := ["
                   + "; ".join(f"({coq_str(a)}, {coq_str(b)})" for a, b in fields) + "].\n\n")
    # no other Debug impl for a secret-holding type may exist (Output has none at all)
    others = re.findall(r"\bimpl\s+fmt::Debug\s+for\s+(\w+)", lib)
    out.append(f"(* every hand-written `impl fmt::Debug for` of src/lib.rs, in source order *)\n"
               f"Definition debug_impls : list string := {coq_strs(others)}.\n")
    return "".join(out)


if __name__ == "__main__":
    sys.stdout.write(gen_secret())
