(* C14: Hash values convert losslessly and compare by content.
   Statements only; proofs live in Proofs/RsHashP.v. *)
From Coq Require Import NArith List Bool.
From V Require Import Base.Res Base.Word gen.GenConsts Model.RsHash Proofs.RsHashP.
Import ListNotations.
Open Scope N_scope.

(* to_hex / Display: 64 lowercase hex digits, never panics *)
Theorem C14_to_hex_lowercase_64 : forall h,
  length h = 32%nat -> all_bytes h = true ->
  exists s, to_hex h = Ok s /\ length s = 64%nat /\ forallb is_lower_hex s = true.
Proof. exact to_hex_lowercase_64. Qed.

(* from_hex (and FromStr) maps to_hex's output back to the same Hash *)
Theorem C14_from_hex_to_hex : forall h s,
  length h = 32%nat -> all_bytes h = true -> to_hex h = Ok s -> from_hex s = Ok (HexOk h).
Proof. exact from_hex_to_hex. Qed.

(* for every byte string: a result, never a panic *)
Theorem C14_from_hex_total : forall s, all_bytes s = true -> exists r, from_hex s = Ok r.
Proof. exact from_hex_total. Qed.

(* accepts exactly the 64-character strings over 0-9 a-f A-F *)
Theorem C14_from_hex_accepts_iff : forall s, all_bytes s = true ->
  ((exists h, from_hex s = Ok (HexOk h)) <-> (length s = 64%nat /\ forallb is_hex_digit s = true)).
Proof. exact from_hex_accepts_iff. Qed.

Theorem C14_from_hex_value : forall s h,
  all_bytes s = true -> from_hex s = Ok (HexOk h) -> h = decode_pairs s.
Proof. exact from_hex_value. Qed.

Theorem C14_from_hex_case_insensitive : forall s h,
  all_bytes s = true -> from_hex s = Ok (HexOk h) -> from_hex (map to_lower s) = Ok (HexOk h).
Proof. exact from_hex_case_insensitive. Qed.

Theorem C14_from_slice_ok_iff_32 : forall bs, (exists h, from_slice bs = Some h) <-> length bs = 32%nat.
Proof. exact from_slice_ok_iff_32. Qed.

Theorem C14_from_slice_lossless : forall bs h, from_slice bs = Some h -> as_slice h = bs.
Proof. exact from_slice_lossless. Qed.

(* ==: true exactly when the byte sequences are identical (Hash/Hash, Hash/[u8;32], Hash/[u8]) *)
Theorem C14_eq_iff_bytes_equal : forall a b, constant_time_eq a b = true <-> a = b.
Proof. exact eq_iff_bytes_equal. Qed.

(* non-vacuity: a concrete hash meets the hypotheses and round-trips *)
Example C14_nonvacuous :
  let h := map N.of_nat (seq 100 32) in
  length h = 32%nat /\ all_bytes h = true /\
  exists s, to_hex h = Ok s /\ from_hex s = Ok (HexOk h) /\ from_hex (map (fun c => if c =? 97 then 65 else c) s) = Ok (HexOk h).
Proof.
  cbv zeta. split; [reflexivity|]. split; [vm_compute; reflexivity|].
  eexists. split; [vm_compute; reflexivity|]. split; vm_compute; reflexivity.
Qed.

(* the functions of the modelled source are exactly the functions the model was written against
   (gen/GenApi.v is regenerated from /repo on every run; see Model/ApiSurface.v) *)
From V Require gen.GenApi Model.ApiSurface.
Theorem C14_api_lib_hash : GenApi.api_lib_hash = ApiSurface.expected_lib_hash.
Proof. reflexivity. Qed.

Print Assumptions C14_api_lib_hash.
Print Assumptions C14_to_hex_lowercase_64.
Print Assumptions C14_from_hex_to_hex.
Print Assumptions C14_from_hex_total.
Print Assumptions C14_from_hex_accepts_iff.
Print Assumptions C14_from_hex_value.
Print Assumptions C14_from_hex_case_insensitive.
Print Assumptions C14_from_slice_ok_iff_32.
Print Assumptions C14_from_slice_lossless.
Print Assumptions C14_eq_iff_bytes_equal.

(* --- the `Hash` value type of src/lib.rs, translated function by function (gen/GenHashFns.v, regenerated from the
   current source text by tools/gen_coq_hash.py): each translated function equals the function of Model/RsHash.v
   the theorems above are about.  constant_time_eq_32 / constant_time_eq of the constant_time_eq crate enter as the
   model's constant_time_eq (by contract). ----- *)
From V Require Import gen.GenHashFns Proofs.GenHashFnsP.

Theorem C14_src_to_hex : forall h, all_bytes h = true -> src_Hash_to_hex h = to_hex h.
Proof. exact gen_to_hex. Qed.
Theorem C14_src_display : forall h, all_bytes h = true -> src_Display_for_Hash_fmt h = display h.
Proof. exact gen_display. Qed.
(* for EVERY input string, result by result (value, which error, panic) *)
Theorem C14_src_from_hex : forall s, src_Hash_from_hex s = from_hex s.
Proof. exact gen_from_hex. Qed.
Theorem C14_src_from_str : forall s, src_FromStr_for_Hash_from_str s = from_str s.
Proof. exact gen_from_str. Qed.
Theorem C14_src_from_slice : forall bs, src_Hash_from_slice bs = from_slice bs.
Proof. exact gen_from_slice. Qed.
Theorem C14_src_views : forall h,
  src_Hash_as_bytes h = as_bytes h /\ src_Hash_from_bytes h = from_bytes h /\ src_Hash_as_slice h = as_slice h /\
  src_From_array_for_Hash_from h = from_bytes h /\ src_From_Hash_for_array_from h = as_bytes h.
Proof. exact gen_views. Qed.
Theorem C14_src_eq : forall a b,
  src_PartialEq_for_Hash_eq constant_time_eq a b = hash_eq a b /\
  src_PartialEq_array_for_Hash_eq constant_time_eq a b = hash_eq a b /\
  src_PartialEq_slice_for_Hash_eq constant_time_eq a b = hash_eq_slice a b.
Proof. exact gen_eq. Qed.
(* composed with the theorems above: the translated text itself round-trips *)
Theorem C14_src_round_trip : forall h s,
  length h = 32%nat -> all_bytes h = true -> src_Hash_to_hex h = Ok s -> src_FromStr_for_Hash_from_str s = Ok (HexOk h).
Proof. exact gen_round_trip. Qed.
Print Assumptions C14_src_to_hex.
Print Assumptions C14_src_display.
Print Assumptions C14_src_from_hex.
Print Assumptions C14_src_from_str.
Print Assumptions C14_src_from_slice.
Print Assumptions C14_src_views.
Print Assumptions C14_src_eq.
Print Assumptions C14_src_round_trip.
