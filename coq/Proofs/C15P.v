(* C15: the two halves joined -- the reference implementation reproduces every
   published test vector, for every splitting of the painted input into update calls. *)
From V Require Import Proofs.ListP.
From V Require Import Base.Res Base.Word gen.GenConsts gen.GenTestVectors
  Spec.Compress Spec.Tree Spec.Blake3 Model.RefImpl
  Proofs.RefCompressP Proofs.RefImplP Proofs.TVCommon Proofs.TestVectorsP.
Open Scope N_scope.

Lemma tv_key_ok : ref_mode_ok (RKeyed tv_key).
Proof. split; [reflexivity|]. unfold tv_key. repeat (constructor; [lia|]). constructor. Qed.

Lemma tv_context_ok : ref_mode_ok (RDerive tv_context).
Proof. cbn [ref_mode_ok]. unfold len. vm_compute. reflexivity. Qed.

Lemma tv_input_lengths n h k d : In (n, h, k, d) tv_cases -> n <= 102400.
Proof.
  intros Hin.
  assert (H : forallb (fun c => fst (fst (fst c)) <=? 102400) tv_cases = true) by (vm_compute; reflexivity).
  rewrite forallb_forall in H. specialize (H _ Hin). cbn [fst] in H. lia.
Qed.

Theorem ref_reproduces_test_vectors n h k d pieces :
  In (n, h, k, d) tv_cases -> concat pieces = paint n ->
  ref_run RHash pieces 131 = Ok h /\
  ref_run (RKeyed tv_key) pieces 131 = Ok k /\
  ref_run (RDerive tv_context) pieces 131 = Ok d.
Proof.
  intros Hin Hcat.
  destruct (test_vectors_spec n h k d Hin) as (H1 & H2 & H3).
  pose proof (tv_input_lengths n h k d Hin) as Hn.
  assert (Hlen : len (concat pieces) < 2 ^ 64).
  { rewrite Hcat. unfold len. rewrite paint_length, N2Nat.id. lia. }
  assert (Hout : 131 < 2 ^ 64) by lia.
  rewrite (ref_refines RHash pieces 131 I Hlen Hout).
  rewrite (ref_refines (RKeyed tv_key) pieces 131 tv_key_ok Hlen Hout).
  rewrite (ref_refines (RDerive tv_context) pieces 131 tv_context_ok Hlen Hout).
  rewrite Hcat. change (N.to_nat 131) with 131%nat. cbn [ref_spec_mode].
  rewrite H1, H2. unfold b3_xof_mode, xof_mode. rewrite H3. repeat split.
Qed.

(* ---- all agree: reference implementation = specification = model of the optimized Rust crate
        (C01: every SIMD degree), one-shot functions, for every splitting of the input ------------- *)
From V Require Import Model.Platform Model.RsWide Proofs.C01P.

Theorem ref_agrees_with_rust_hash p pieces : PlatformOK p -> len (concat pieces) < 2 ^ 64 ->
  ref_run RHash pieces 32 = rs_hash p (concat pieces).
Proof.
  intros POK H. rewrite (ref_hash_spec pieces H), (rs_hash_spec p POK _ H). reflexivity.
Qed.

Theorem ref_agrees_with_rust_keyed_hash p key pieces : PlatformOK p ->
  length key = 32%nat -> Forall (fun b => b < 256) key -> len (concat pieces) < 2 ^ 64 ->
  ref_run (RKeyed key) pieces 32 = rs_keyed_hash p key (concat pieces).
Proof.
  intros POK H1 H2 H. rewrite (ref_keyed_hash_spec key pieces H1 H2 H), (rs_keyed_hash_spec p POK key _ H1 H).
  reflexivity.
Qed.

Theorem ref_agrees_with_rust_derive_key p context pieces : PlatformOK p ->
  len context < 2 ^ 64 -> len (concat pieces) < 2 ^ 64 ->
  ref_run (RDerive context) pieces 32 = rs_derive_key p context (concat pieces).
Proof.
  intros POK H1 H. rewrite (ref_derive_key_spec context pieces H1 H), (rs_derive_key_spec p POK context _ H1 H).
  reflexivity.
Qed.
