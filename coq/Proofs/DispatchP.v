(* every value a first call of get_cpu_features stores to the cache is the value it returns, and that
   value does not depend on what the local held before (so on nothing but the CPU's answers) *)
From Coq Require Import NArith List Bool.
From V Require Import Model.Dispatch.
Import ListNotations.
Open Scope N_scope.

Lemma quiet_exec : forall prog, quiet prog = true -> forall taken f,
  snd (exec prog taken f) = f /\ Forall (eq (Some f)) (fst (exec prog taken f)).
Proof.
  induction prog as [|s tl IH]; intros Hq taken f; [split; [reflexivity|constructor]|].
  destruct s; cbn [quiet] in Hq; try discriminate; cbn [exec].
  - destruct (IH Hq taken f) as [H1 H2]. destruct (exec tl taken f) as [st r]. cbn [fst snd] in *.
    split; [exact H1|constructor; [reflexivity|exact H2]].
  - split; [reflexivity|constructor].
Qed.

Theorem stores_are_final : forall prog, stores_final prog = true -> forall taken f,
  Forall (eq (Some (snd (exec prog taken f)))) (fst (exec prog taken f)).
Proof.
  induction prog as [|s tl IH]; intros Hs taken f; [constructor|].
  destruct s; cbn [stores_final] in Hs; try discriminate; cbn [exec].
  - apply IH; exact Hs.
  - destruct taken as [|[|] o]; apply IH; exact Hs.
  - destruct (quiet_exec tl Hs taken f) as [H1 H2]. destruct (exec tl taken f) as [st r]. cbn [fst snd] in *.
    subst r. constructor; [reflexivity|exact H2].
  - constructor.
Qed.

Theorem result_is_cpu_only : forall prog, starts_assigned prog = true -> forall taken f1 f2,
  exec prog taken f1 = exec prog taken f2.
Proof. intros [|[] tl] H taken f1 f2; try discriminate. reflexivity. Qed.
