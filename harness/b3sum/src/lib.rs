// The same source compiled as a library so that the probe can call its private functions.
#![allow(dead_code)]
include!(env!("B3SUM_MAIN_RS"));

pub mod probe {
    use super::*;
    use std::ffi::OsStr;
    use std::os::unix::ffi::OsStrExt;
    use std::panic::{catch_unwind, AssertUnwindSafe};

    pub fn hexs(b: &[u8]) -> String {
        if b.is_empty() {
            "-".to_string()
        } else {
            hex::encode(b)
        }
    }

    fn err_kind(msg: &str) -> &'static str {
        match msg {
            "Empty line" => "empty_line",
            "Invalid check line format" => "format",
            "Invalid hash length" => "hash_length",
            "Invalid hex" => "hex",
            "Invalid backslash escape" => "escape",
            "empty file path" => "empty_path",
            "Null character in path" => "nul",
            "Unicode replacement character in path" => "replacement",
            "Backslash in path" => "backslash",
            _ => "other",
        }
    }

    /// parse_check_line: `ok <path hex> <hash hex> <is_escaped> <file_string hex>` | `err <kind>` | `PANIC`
    pub fn parse(line: &str) -> String {
        let r = catch_unwind(AssertUnwindSafe(|| parse_check_line(line)));
        match r {
            Err(_) => "PANIC".to_string(),
            Ok(Err(e)) => format!("err {}", err_kind(&e.to_string())),
            Ok(Ok(p)) => format!(
                "ok {} {} {} {}",
                hexs(p.file_path.as_os_str().as_bytes()),
                p.expected_hash.to_hex(),
                p.is_escaped as u8,
                hexs(p.file_string.as_bytes())
            ),
        }
    }

    /// filepath_to_string on a Unix path made of arbitrary bytes
    pub fn fts(bytes: &[u8]) -> String {
        let p = Path::new(OsStr::from_bytes(bytes));
        let FilepathString { filepath_string, is_escaped } = filepath_to_string(p);
        format!(
            "{} {} {}",
            hexs(filepath_string.as_bytes()),
            is_escaped as u8,
            filepath_string.contains('\u{FFFD}') as u8
        )
    }

    pub fn unesc(s: &str) -> String {
        let r = catch_unwind(AssertUnwindSafe(|| unescape(s)));
        match r {
            Err(_) => "PANIC".to_string(),
            Ok(Err(e)) => format!("err {}", err_kind(&e.to_string())),
            Ok(Ok(p)) => format!("ok {}", hexs(p.as_bytes())),
        }
    }

    pub fn invalid_chars(s: &str) -> String {
        match check_for_invalid_characters(s) {
            Ok(()) => "ok".to_string(),
            Err(e) => format!("err {}", err_kind(&e.to_string())),
        }
    }

    pub fn half(c: char) -> String {
        match hex_half_byte(c) {
            Ok(v) => format!("ok {}", v),
            Err(e) => format!("err {}", err_kind(&e.to_string())),
        }
    }

    /// The output line of hash_one_input for a path and 32 digest bytes (the same statements as
    /// hash_one_input, with the digest given instead of computed): plain or --tag form.
    pub fn print_line(path: &[u8], hash_hex: &str, tag: bool) -> String {
        let p = Path::new(OsStr::from_bytes(path));
        let FilepathString { filepath_string, is_escaped } = filepath_to_string(p);
        let mut out = String::new();
        if is_escaped {
            out.push_str("\\");
        }
        if tag {
            out.push_str(&format!("BLAKE3 ({}) = ", filepath_string));
            out.push_str(hash_hex);
            out.push('\n');
        } else {
            out.push_str(hash_hex);
            out.push_str(&format!("  {}\n", filepath_string));
        }
        out
    }
}
