(* Published test vectors (test_vectors/test_vectors.json, read into
   gen/GenTestVectors.v by the translator) against the SPECIFICATION: shared
   definitions for the in-kernel evaluation.  The slices TV1..TV4 evaluate
   disjoint index ranges of tv_cases by vm_compute; TestVectorsP.v joins them. *)
From Coq Require Import NArith List Bool Lia.
From V Require Import Base.Word Spec.Compress Spec.Tree Spec.Blake3 gen.GenTestVectors.
Import ListNotations.
Open Scope N_scope.

(* the input pattern of test_vectors/src/lib.rs::paint_test_input: byte i = i mod 251.
   Built by iteration over N (no unary numerals). *)
Definition paint_step (st : N * list N) : N * list N := (fst st + 1, (fst st mod 251) :: snd st).
Definition paint (n : N) : list N := rev_append (snd (N.iter n paint_step (0, []))) [].

Lemma paint_iter n :
  N.iter n paint_step (0, []) = (n, rev (map (fun i => N.of_nat i mod 251) (seq 0 (N.to_nat n)))).
Proof.
  induction n as [|n IH] using N.peano_ind; [reflexivity|].
  rewrite N.iter_succ, IH. unfold paint_step. cbn [fst snd].
  rewrite N2Nat.inj_succ, seq_S, map_app, rev_app_distr. cbn [map rev app Nat.add].
  rewrite N2Nat.id. f_equal. lia.
Qed.

Theorem paint_spec n : paint n = map (fun i => N.of_nat i mod 251) (seq 0 (N.to_nat n)).
Proof. unfold paint. rewrite paint_iter. cbn [snd]. rewrite rev_append_rev, app_nil_r. apply rev_involutive. Qed.

Lemma paint_length n : length (paint n) = N.to_nat n.
Proof. rewrite paint_spec, map_length, seq_length. reflexivity. Qed.

Fixpoint leqb (a b : list N) : bool :=
  match a, b with
  | [], [] => true
  | x :: a', y :: b' => (x =? y) && leqb a' b'
  | _, _ => false
  end.

Lemma leqb_eq a : forall b, leqb a b = true -> a = b.
Proof.
  induction a as [|x a IH]; intros [|y b] H; cbn in H; try discriminate; [reflexivity|].
  apply andb_true_iff in H. destruct H as [H1 H2]. apply N.eqb_eq in H1. subst y.
  f_equal. apply IH. exact H2.
Qed.

(* the context key of the derive_key vectors: first stage of the KDF *)
Definition tv_context_key : list N := b3_hash_mode DeriveKeyContext tv_context.

Definition tv_out_len : nat := 131.

Definition check_case (c : N * list N * list N * list N) : bool :=
  let '(n, h, k, d) := c in
  let input := paint n in
  leqb (b3_xof_mode Hash input 0 tv_out_len) h
  && leqb (b3_xof_mode (KeyedHash tv_key) input 0 tv_out_len) k
  && leqb (b3_xof_mode (DeriveKeyMaterial tv_context_key) input 0 tv_out_len) d.

Lemma check_case_sound n h k d : check_case (n, h, k, d) = true ->
  b3_xof_mode Hash (paint n) 0 131 = h /\
  b3_xof_mode (KeyedHash tv_key) (paint n) 0 131 = k /\
  stream spec_c64 (root_output spec_c8 (DeriveKeyMaterial (b3_hash_mode DeriveKeyContext tv_context)) (paint n)) 0 131 = d.
Proof.
  unfold check_case. rewrite !andb_true_iff. intros [[H1 H2] H3].
  repeat split; apply leqb_eq; assumption.
Qed.

(* index slices of the case list *)
Definition tv_slice (a b : nat) : list (N * list N * list N * list N) :=
  firstn (b - a) (skipn a tv_cases).

Lemma tv_slices_cover :
  tv_cases = tv_slice 0 15 ++ tv_slice 15 26 ++ tv_slice 26 33 ++ tv_slice 33 35.
Proof. vm_compute. reflexivity. Qed.
