"""C12: b3sum prints the library's extended output; b3sum --check exits 0 iff every entry checks."""
import concurrent.futures
import json
import os
import re
import shutil
import subprocess
import tempfile
import verif
from props.common import Rng, number, TEST_KEY
from props import C13

RULE = ("the real b3sum binary (b3sum/src/main.rs compiled unmodified, harness/b3sum) on generated directory trees: "
        "file sizes from {0,1,1023,1024,1025,16383,16384,16385,65537}, names from the C13 alphabet (spaces, double "
        "spaces, ') = ', 'BLAKE3 (', backslash, CR, LF, TAB, 2/3/4-byte scalars, U+FFFD, invalid UTF-8); flag "
        "combinations of --keyed (key on stdin, lengths 0/31/32/33), --derive-key, --length, --seek, --no-mmap, "
        "--num-threads 1/3, --raw, --no-names, --tag; --raw outputs of 1.2 to 14 KiB whose last 0x0a byte lies more than "
        "1024 bytes before the end (short-write layout of a line-buffered stdout); missing inputs; --check over checkfiles made by the binary itself "
        "and then mixed with stale (file rewritten), missing, directory, malformed, empty and non-UTF-8 lines, LF / CRLF / "
        "no final terminator, several checkfiles, a missing checkfile, --quiet, --seek. stdout, exit status and the "
        "files_failed count of the WARNING line are compared with Model/B3sum.v, whose digest bytes come from the "
        "specification's XOF (Spec.Blake3.b3_xof_mode). Non-trivial = distinct case with at least one file.")
MODELLED = ["clap argument parsing / conflict matrix, rayon pool set-up, process exit, anyhow's error printing on stderr: "
            "not modelled (stderr is only read for the files_failed number)",
            "OutputReader as an abstract stream St : N -> N (its own content is C03); hash_path's reader / mmap path is C11",
            "OS error texts ('No such file or directory (os error 2)', 'Is a directory (os error 21)') are oracle strings",
            "Args::parse's two bail! conditions (--raw with several files, key length) are evaluated in ocaml/b3sum_driver.ml"]
ASSUMPTIONS = ["seek + length <= 2^64 - 1", "Unix"]
TRUSTED_EXTRA = C13.TRUSTED_EXTRA
EXTRA_COQ_TARGETS = ["Proofs/B3sumRefuted.vo"]

SIZES = [0, 1, 1023, 1024, 1025, 16383, 16384, 16385, 65537]
NAMES = [b"a", b"a b", b"a  b", b") = ", b"BLAKE3 (x", b"BLAKE3 (x) = y", b"x\\y", b"x\ny", b"x\ry", b" lead", b"trail ",
         "é".encode(), "€".encode(), "\U0001F600".encode(), b"t\tb", b"a) = b  c", b"\\", b"  ", b"\\n",
         b"a\r\nb", b"BLAKE3 (", "�".encode(), b"y\xffy", b"\xe2\x82", b"\xf0\x9f\x98x", b"\xed\xa0\x80", b"n",
         b"0123456789abcdef0123456789abcdef0123456789abcdef0123456789abcdef", b"caf\xc3\xa9  \xe2\x82\xac) = z",
         b"ck", b"B", b"(", b"=", b"x y z", b"q\\\\q"]


def hx(b):
    return bytes(b).hex() if len(b) else "-"


def realize(spec):
    kind, a, b = (spec.split("/") + ["", ""])[:3]
    if kind == "hex":
        return bytes.fromhex(a)
    n = int(b)
    if kind == "paint":
        return bytes((i + int(a)) % 251 for i in range(n))
    if kind == "zero":
        return bytes(n)
    if kind == "ff":
        return b"\xff" * n
    raise ValueError(spec)


def content(rng, size=None):
    n = rng.choice(SIZES) if size is None else size
    return rng.choice([f"paint/{rng.below(251)}/{n}", f"paint/0/{n}", f"zero/0/{n}", f"ff/0/{n}"])


def pick_names(rng, k):
    names = []
    while len(names) < k:
        c = rng.choice(NAMES)
        if c not in names:
            names.append(c)
    return names


def long_raw_cases(ctx, tier):
    """--raw output longer than stdout's 1024-byte line buffer whose LAST newline byte lies more than 1024 bytes before
    the end (the one layout in which a single `write` to Rust's line-buffered stdout returns a short count): the
    lengths are chosen by looking at the library's output stream (input selection only; the expected bytes come from
    the model).  Plus the same streams in hex."""
    b = ctx.need_harness("default", "debug")
    if b is None:
        return []
    want = 14000
    probes, metas = [], []
    for i in range(60 if tier == "thorough" else 24):
        spec = "paint/%d/%d" % (7 * i + 1, [100, 0, 1025, 3000, 70000][i % 5])
        probes.append("p%d H hash detect u:0:%s x:0:%d" % (i, spec, want))
        metas.append(spec)
    res = verif.run_lines(b, probes)
    out, found = [], 0
    for i, spec in enumerate(metas):
        r = res.get("p%d" % i, "")
        if not r.startswith("x"):
            continue
        stream = bytes.fromhex(r.split()[0][1:])
        nl = [k for k, c in enumerate(stream) if c == 10]
        gaps = [(a, b2) for a, b2 in zip(nl, nl[1:] + [len(stream)]) if b2 - a > 1200]
        for a, b2 in gaps[:2] if found < (40 if tier == "thorough" else 6) else []:
            length = a + 1 + 1100 + (found % 3) * 30           # last newline at a, 1100.. bytes after it
            out.append("b3hash hash - len=%d,raw%s %s:%s" % (length, ",nommap" if found % 2 else "", hx(b"lr%d" % found), spec))
            found += 1
        if i < 2:
            out.append("b3hash hash - len=%d,raw %s:%s" % (5000 + 37 * i, hx(b"lq%d" % i), spec))
            out.append("b3hash hash - len=%d %s:%s" % (3000 + i, hx(b"lh%d" % i), spec))
    ctx.log("long --raw outputs: %d cases with the last newline more than 1024 bytes before the end" % found)
    return out


def gen_cases(seed, tier, cfg, extra=()):
    rng = Rng(seed)
    out = list(extra)
    n1 = 500 if tier == "thorough" else 90
    # --- hashing mode ---------------------------------------------------------------------------
    for k in range(n1):
        mode, keyin = "hash", "-"
        r = rng.below(10)
        if r < 3:
            mode = "keyed"
            kl = rng.choice([32, 32, 32, 32, 0, 31, 33, 64])
            keyin = hx((TEST_KEY * 3)[:kl] if rng.chance(0.5) else bytes(rng.below(256) for _ in range(kl)))
        elif r < 5:
            mode = "derive=" + hx(rng.choice([b"", b"ctx", "naïve ☃ ctx".encode(), b"BLAKE3 2019-12-27 16:29:52 test vectors context"]))
        flags = []
        if rng.chance(0.5):
            flags.append("len=%d" % rng.choice([0, 1, 31, 32, 33, 63, 64, 65, 127, 128, 129, 200, 1000]))
        if rng.chance(0.4):
            flags.append("seek=%d" % rng.choice([0, 1, 31, 63, 64, 65, 1000, 1 << 20, (1 << 32) + 5, (1 << 60) - 3,
                                                 (1 << 64) - 1 - 1000]))
        raw = rng.chance(0.15)
        if raw:
            flags.append("raw")
        if rng.chance(0.15):
            flags.append("nonames")
        if rng.chance(0.4):
            flags.append("tag")
        if rng.chance(0.3):
            flags.append("nommap")
        if rng.chance(0.3):
            flags.append("threads=%d" % rng.choice([1, 3]))
        nf = 1 if (raw and rng.chance(0.8)) else rng.range(1, 4)
        ents = []
        for nm in pick_names(rng, nf):
            ents.append(hx(nm) + ":" + ("!" if rng.chance(0.12) else content(rng)))
        out.append("b3hash %s %s %s %s" % (mode, keyin, ",".join(flags) or "none", " ".join(ents)))
    # every size once, plain
    for n in SIZES:
        out.append("b3hash hash - none %s:paint/0/%d" % (hx(b"f%d" % n), n))
        out.append("b3hash keyed %s len=100,seek=7,nommap %s:paint/3/%d" % (hx(TEST_KEY), hx(b"f%d" % n), n))
    # --- --check -----------------------------------------------------------------------------------
    garbage = ["", "x", "  ", "BLAKE3 (", "BLAKE3 (a) = ", "\\", "deadbeef  a", "é", C13.H1[:62] + "é  a",
               C13.H1 + "  ", C13.H1 + " a", C13.H1.upper() + "  a", "\\" + C13.H1 + "  a\\", "\\" + C13.H1 + "  a\\q",
               C13.H1 + "  a\x00b", C13.H1 + "  �", "BLAKE3 (nosuch) = " + C13.H2, C13.H2 + "  nosuch  file",
               "BLAKE3 (nosuch  file) = " + C13.H2, C13.H1[:60] + "\U0001F600  a"]
    n2 = 500 if tier == "thorough" else 90
    for k in range(n2):
        tag = rng.below(2)
        seek = rng.choice([0, 0, 0, 1, 64, 1000, (1 << 40) + 3])
        quiet = 1 if rng.chance(0.2) else 0
        nommap = 1 if rng.chance(0.3) else 0
        term = rng.choice(["lf", "lf", "crlf", "nolast"])
        items = []
        nf = rng.range(1, 6)
        allgood = rng.chance(0.25)
        for nm in pick_names(rng, nf):
            if allgood:
                after = "keep"
            else:
                after = rng.choice(["keep", "keep", "keep", "stale=" + content(rng, rng.choice([0, 1, 5, 1024])), "missing", "dir"])
            items.append("f:%s:%s:%s" % (hx(nm), content(rng, rng.choice(SIZES[:7])), after))
            if not allgood and rng.chance(0.3):
                g = rng.choice(garbage)
                # the unwrap-panic lines end the run of the unchanged code: keep them rarer
                items.append("l:" + hx(g.encode()))
            if not allgood and rng.chance(0.04):
                items.append("u:" + hx(b"\xff\xfe  a"))
            if rng.chance(0.15):
                items.append("|")
            if not allgood and rng.chance(0.03):
                items.append("X")
        out.append("b3check %s %d %d %d %d %s %s" % (cfg, tag, seek, quiet, nommap, term, " ".join(items)))
    # regression corpus: the two defects at the binary level
    out.append("b3check %s 1 0 0 0 lf f:%s:paint/0/2:keep f:%s:paint/0/3:keep" % (cfg, hx(b"a  b"), hx(b"c")))
    out.append("b3check %s 0 0 0 0 lf l:%s f:%s:paint/0/3:keep" % (cfg, hx((C13.H1[:62] + "é  c").encode()), hx(b"c")))
    return number(list(dict.fromkeys(out)))


def nontrivial(rest, model_line):
    return ":paint" in rest or ":zero" in rest or ":ff" in rest


# ---------------------------------------------------------------------------
# the implementation side: run the real binary
# ---------------------------------------------------------------------------
def run_proc(cmd, cwd, stdin=b""):
    p = subprocess.run(cmd, cwd=cwd, input=stdin, stdout=subprocess.PIPE, stderr=subprocess.PIPE, timeout=120)
    return p.returncode, p.stdout, p.stderr


def unhex(h):
    return b"" if h == "-" else bytes.fromhex(h)


def one_hash(binary, toks, d):
    mode, keyin, flags = toks[0], toks[1], toks[2]
    args = [binary]
    stdin = b""
    if mode == "keyed":
        args.append("--keyed")
        stdin = unhex(keyin)
    elif mode.startswith("derive="):
        args += ["--derive-key", unhex(mode[7:]).decode()]
    for f in ([] if flags == "none" else flags.split(",")):
        k, _, v = f.partition("=")
        args += {"len": ["--length", v], "seek": ["--seek", v], "raw": ["--raw"], "nonames": ["--no-names"],
                 "tag": ["--tag"], "nommap": ["--no-mmap"], "threads": ["--num-threads", v]}[k]
    args.append("--")
    for e in toks[3:]:
        name, _, c = e.partition(":")
        nm = unhex(name)
        if c != "!":
            with open(os.path.join(d.encode(), nm), "wb") as f:
                f.write(realize(c))
        args.append(nm)
    rc, so, se = run_proc(args, d, stdin)
    return "%d %s" % (rc, hx(so))


def one_check(binary, toks, d):
    _cfg, tag, seek, quiet, nommap, term = toks[:6]
    groups, cur = [], []
    for it in toks[6:]:
        if it == "|":
            groups.append(cur)
            cur = []
        elif it == "X":
            groups.append(None)
        else:
            cur.append(it)
    groups.append(cur)
    # 1. create the files, let the binary itself write the checkfile entries
    common = (["--seek", seek] if seek != "0" else []) + (["--no-mmap"] if nommap == "1" else [])
    cknames, posts = [], []
    for gi, g in enumerate(groups):
        ck = "checkfile%d" % gi
        cknames.append(ck)
        if g is None:
            continue
        names = []
        for it in g:
            if it.startswith("f:"):
                _, name, c, after = it.split(":")
                nm = unhex(name)
                with open(os.path.join(d.encode(), nm), "wb") as f:
                    f.write(realize(c))
                names.append(nm)
                posts.append((nm, after))
        printed = []
        if names:
            rc, so, se = run_proc([binary] + (["--tag"] if tag == "1" else []) + common + ["--"] + names, d)
            if rc != 0:
                return "HASHFAIL rc=%d %s" % (rc, se[-100:])
            printed = so.split(b"\n")[:-1]
            if len(printed) != len(names):
                return "HASHFAIL lines=%d names=%d" % (len(printed), len(names))
        lines = []
        for it in g:
            if it.startswith("f:"):
                lines.append(printed.pop(0))
            else:
                lines.append(unhex(it.split(":")[1]))
        nl = b"\r\n" if term == "crlf" else b"\n"
        data = nl.join(lines) + (b"" if (term == "nolast" or not lines) else nl)
        with open(os.path.join(d, ck), "wb") as f:
            f.write(data)
    # 2. what happened to the files afterwards
    for nm, after in posts:
        p = os.path.join(d.encode(), nm)
        if after.startswith("stale="):
            with open(p, "wb") as f:
                f.write(realize(after[6:]))
        elif after == "missing":
            os.unlink(p)
        elif after == "dir":
            os.unlink(p)
            os.mkdir(p)
    # 3. check
    rc, so, se = run_proc([binary, "--check"] + (["--quiet"] if quiet == "1" else []) + common + ["--"] + cknames, d)
    m = re.search(rb"WARNING: (\d+) computed checksum", se)
    return "%d %s %s" % (rc, m.group(1).decode() if m else "-", hx(so))


def run_b3sum(binary, cases):
    def one(line):
        cid, kind, *toks = line.split()
        d = tempfile.mkdtemp(prefix="c12_", dir=os.path.join(verif.BUILD, "c12tmp"))
        try:
            r = one_hash(binary, toks, d) if kind == "b3hash" else one_check(binary, toks, d)
        except Exception as e:  # noqa: BLE001
            r = "RUNNER-ERROR %s %s" % (type(e).__name__, str(e)[:120].replace("\n", " "))
        finally:
            shutil.rmtree(d, ignore_errors=True)
        return cid, r
    os.makedirs(os.path.join(verif.BUILD, "c12tmp"), exist_ok=True)
    with concurrent.futures.ThreadPoolExecutor(max_workers=verif.NPROC) as ex:
        return dict(ex.map(one, cases))


def correspondence(ctx):
    drv = ctx.need_model()
    builds = [("default", "debug")]
    if ctx.tier == "thorough":
        builds.append(("default", "release"))
    for flavour, profile in builds:
        b = ctx.need_harness(flavour, profile, crate="b3sum", hooks=False)
        if b is None or drv is None:
            continue
        cfg = C13.probe_cfg(C13.probe_bin(b))
        ctx.log("code under test matches model configuration tagged_first=%s hex_unwrap_is_error=%s" % (cfg[0], cfg[1]))
        ctx.extra_cov = {"probed_configuration": {"tagged_first": cfg[0] == "1", "hex_unwrap_is_error": cfg[1] == "1"}}
        ctx.correspond("binary(cfg=%s)" % cfg, gen_cases(ctx.seed, ctx.tier, cfg, long_raw_cases(ctx, ctx.tier)), drv, b,
                       profile=profile, build=flavour,
                       nontrivial=nontrivial, impl_runner=run_b3sum)
        if cfg != "11":
            # the configuration C12_check_all_lines_processed is proved for
            cases = [c for c in gen_cases(ctx.seed, ctx.tier, "11") if " b3check " in c]
            ctx.correspond("specification(cfg=11)", cases, drv, b, profile=profile, build=flavour,
                           nontrivial=nontrivial, impl_runner=run_b3sum)


def classify(f):
    """keys for known_findings.txt: only deviations from the repaired configuration are classified"""
    if not f.get("correspondence", "").startswith("specification"):
        return None
    if f["impl"].startswith("101 "):
        return "hex_unwrap_panic"
    if "2020" in f["case"]:
        return "tag_double_space"
    return None


def replay(path):
    obj = json.load(open(path))
    case = obj.get("case")
    if not case:
        print("no failing input recorded:", obj.get("broken"))
        return 1
    drv, _ = verif.build_model()
    b, _ = verif.cargo_build("default", "debug", crate="b3sum", hooks=False)
    m = verif.run_model(drv, ["r " + case]).get("r")
    i = run_b3sum(b, ["r " + case]).get("r")
    print("case :", case)
    print("model:", m)
    print("impl :", i)
    ok = verif.compare_line(m, i, "debug")
    print("AGREE" if ok else "VIOLATION property=C12 (replayed)")
    return 0 if ok else 1
