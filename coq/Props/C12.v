(* C12: b3sum prints the library's extended output S[seek..seek+length]; b3sum --check exits 0
   exactly when every entry of every checkfile parses and matches.
   Statements only; proofs live in Proofs/B3sumC12P.v and Proofs/B3sumRefuted.v.

   St : N -> N is the extended output stream of the library for the mode and file (byte at
   absolute position): `lib_stream m input` of the specification, by C03/C11 what hash_path's
   OutputReader delivers.  digest St seek len = St[seek .. seek+len). *)
From Coq Require Import NArith List Bool.
From V Require Import Base.Res Spec.Tree Spec.Blake3 Model.B3sum Proofs.B3sumP Proofs.B3sumRefuted Proofs.B3sumC12P.
Import ListNotations.
Open Scope N_scope.

(* write_hex_output (64-byte fills, min(len,64) per round) prints the lower-case hex of the digest *)
Theorem C12_hex_output_spec : forall St seek len, seek + len <= U64_MAX ->
  write_hex_output (hex_fuel len) St seek len = Ok (hex_of_bytes (digest St seek len)).
Proof. exact hex_output_spec. Qed.

(* write_raw_output (io::copy through a buffer of any size) writes the digest bytes themselves *)
Theorem C12_raw_output_spec : forall chunk St seek len, seek + len <= U64_MAX ->
  write_raw_output (S (N.to_nat (len / N.max 1 chunk))) chunk St seek len = Ok (digest St seek len).
Proof. exact raw_output_spec. Qed.

(* stdout of hash_one_input for every combination of --raw, --no-names, --tag, --length, --seek
   (--keyed / --derive-key / --no-mmap / --num-threads only select St) *)
Theorem C12_hash_one_input_spec : forall fl St path,
  hash_one_input fl St path =
  Ok (let d := digest St (f_seek fl) (f_length fl) in
      if f_raw fl then d
      else if f_no_names fl then hex_of_bytes d ++ [LF]
      else print_line (f_tag fl) path (hex_of_bytes d)).
Proof. exact hash_one_input_spec. Qed.

Theorem C12_digest_is_library_xof : forall m input seek len,
  digest (lib_stream m input) seek len = b3_xof_mode m input seek (N.to_nat len).
Proof. exact digest_is_xof. Qed.

(* --keyed: exactly 32 bytes on stdin are a key *)
Theorem C12_read_key_spec : forall stdin k,
  read_key_from_stdin stdin = KeyOk k <-> (stdin = k /\ length k = 32%nat).
Proof. exact read_key_spec. Qed.

(* a line checks exactly when it parses, the named file is readable and its digest at --seek matches *)
Theorem C12_line_ok_iff : forall cfg fs seek quiet line,
  (exists out, check_one_line cfg fs seek quiet line = Ok (true, out)) <->
  (exists p h e f St, parse_check_line cfg line = Ok (POk p h e f) /\ fs p = inr St /\ digest St seek 32 = h).
Proof. exact line_ok_iff. Qed.

(* exit status 0 iff every checkfile is readable and every line of every checkfile checks
   (any number of lines; the saturating counter cannot return to 0; any configuration) *)
Theorem C12_exit_status_spec : forall cfg fs seek quiet cfs,
  exit_status (snd (b3sum_check cfg fs seek quiet cfs)) = 0 <->
  Forall (checkfile_ok cfg fs seek quiet) cfs.
Proof. exact exit_status_spec. Qed.

(* every failing line has a diagnostic: FAILED on stdout, or (malformed line) `b3sum: <error>` on stderr *)
Theorem C12_failing_line_diagnosed : forall cfg fs seek quiet line out,
  check_one_line cfg fs seek quiet line = Ok (false, out) ->
  (exists e, parse_check_line cfg line = Ok (PErr e) /\ out = []) \/
  (exists p h e f, parse_check_line cfg line = Ok (POk p h e f) /\
     exists shown, shown = esc_prefix e ++ f /\
       ((exists msg, fs p = inl msg /\ out = shown ++ FAILED_OPEN ++ msg ++ [41; 10]) \/
        (exists St, fs p = inr St /\ digest St seek 32 <> h /\ out = shown ++ FAILED_SUFFIX))).
Proof. exact failing_line_diagnosed. Qed.

(* every entry is checked and counted, whatever happened before it: repaired code *)
Theorem C12_check_all_lines_processed : forall fs seek quiet (cfs : list (list (list N))),
  b3sum_check fixed_cfg fs seek quiet (map (fun ls => Some (map LText ls)) cfs) =
  (flat_map (fun s => snd (line_result fixed_cfg fs seek quiet s)) (concat cfs),
   ExitCode (N.min (nfail fixed_cfg fs seek quiet (concat cfs)) U64_MAX)).
Proof. intros. apply check_all_lines_processed. reflexivity. Qed.

(* ... and FALSE for the unchanged code: a 64-byte hash field ending in a two-byte character
   aborts the run with status 101 and the correct entry after it is never checked *)
Theorem C12_check_continues_refuted_on_unchanged_code :
  exists lines, b3sum_check asis_cfg fs_c 0 false [Some lines] = ([], ExitPanic PANIC_HEX_LOW) /\
                exit_status (ExitPanic PANIC_HEX_LOW) = 101 /\
                In (LText good_line_c) lines /\
                check_one_line asis_cfg fs_c 0 false good_line_c = Ok (true, [99] ++ OK_SUFFIX).
Proof. exact check_continues_refuted. Qed.

(* non-vacuity: one good, one stale, one missing, one malformed line, then another good one *)
Example C12_nonvacuous :
  let fs : fsys := fun p => if list_eqb p [99] then inr (fun i => nth (N.to_nat i) h_lo 0)
                            else if list_eqb p [100] then inr (fun _ => 7)
                            else inl [78; 111] in
  let good := print_line false [99] (hex_of_bytes h_lo) in
  let stale := print_line true [100] (hex_of_bytes h_lo) in
  let missing := print_line false [101] (hex_of_bytes h_lo) in
  b3sum_check fixed_cfg fs 0 false [Some [LText good; LText stale; LText missing; LText [120; 10]; LText good]] =
  ([99] ++ OK_SUFFIX ++ [100] ++ FAILED_SUFFIX ++ [101] ++ FAILED_OPEN ++ [78; 111; 41; 10] ++ [99] ++ OK_SUFFIX,
   ExitCode 3).
Proof. vm_compute. reflexivity. Qed.

(* the exit status expression of main() is translated (gen/GenB3sum.v b3_exit_status; the anchors also pin that one counter
   is initialised to 0, passed by reference to every checkfile and incremented once per failing line / input) *)
From V Require gen.GenB3sum.
Theorem C12_exit_status_is_source : forall f, exit_status (ExitCode f) = GenB3sum.b3_exit_status f.
Proof. intros f. reflexivity. Qed.

Print Assumptions C12_exit_status_is_source.
Print Assumptions C12_hex_output_spec.
Print Assumptions C12_raw_output_spec.
Print Assumptions C12_hash_one_input_spec.
Print Assumptions C12_digest_is_library_xof.
Print Assumptions C12_read_key_spec.
Print Assumptions C12_line_ok_iff.
Print Assumptions C12_exit_status_spec.
Print Assumptions C12_failing_line_diagnosed.
Print Assumptions C12_check_all_lines_processed.
Print Assumptions C12_check_continues_refuted_on_unchanged_code.
