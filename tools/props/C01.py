"""C01: one-shot hash / keyed_hash / derive_key compute the specification."""
from props.common import Rng, lattice, bspec, modes, number, hexspec, TEST_KEY, CONTEXTS

RULE = ("length lattice L (0,1,2,63..65,127..129,1023..1025 and 1024k+{-1,0,1} for k in "
        "2,3,4,5,7,8,9,15,16,17,31,32,33,63,64,65,100,127,128,129) x content patterns x three modes (several keys, "
        "contexts incl. empty / non-ASCII / longer than a chunk) x every SIMD level forced through the hook; plus "
        "random lengths; derive_key / new_derive_key called repeatedly through one reused context buffer (results must depend "
        "on the context value only). Non-trivial = distinct case whose input is longer than one chunk (tree code path).")
MODELLED = ["SIMD kernels (assembly / intrinsics): replaced in the model by a platform record with PlatformOK; "
            "tied at kernel level by C05 and here end-to-end at every forced platform",
            "CV arrays are lists of 32-byte CVs (byte offsets are multiples of OUT_LEN in the source)"]
ASSUMPTIONS = ["input lengths below 2^64 bytes", "context strings: the Rust &str restriction to UTF-8 is irrelevant to the function computed"]
PLATFORMS = ["portable", "sse2", "sse41", "avx2", "avx512"]


def gen_cases(seed, tier):
    rng = Rng(seed)
    lines = []
    L = lattice(129)
    ms = modes(rng)
    for plat in PLATFORMS:
        # hash mode: the whole lattice, paint pattern, in groups of a few ops per case
        group = []
        for n in L:
            group.append("oh:" + bspec(rng, n, "paint"))
            if len(group) == 3:
                lines.append(f"H hash {plat} " + " ".join(group))
                group = []
        if group:
            lines.append(f"H hash {plat} " + " ".join(group))
        # other patterns / modes on a rotating subset of the lattice
        sub = [n for i, n in enumerate(L) if n <= 1025 or (i + rng.below(3)) % 3 == 0]
        for n in sub:
            m = rng.choice(ms[1:])
            lines.append(f"H {m} {plat} oh:{bspec(rng, n)}")
        for m in ms:
            lines.append(f"H {m} {plat} oh:{bspec(rng, rng.choice([0, 1, 64, 1024, 1025, 2049, 4097]))}")
        nrand = 60 if tier == "thorough" else 12
        for _ in range(nrand):
            hi = (1 << 20) if tier == "thorough" else (1 << 16)
            n = rng.below(hi) if rng.chance(0.5) else (1 << rng.range(0, hi.bit_length() - 1)) + rng.range(-2, 2)
            lines.append(f"H {rng.choice(ms)} {plat} oh:{bspec(rng, max(0, n))}")
    # the functions are functions of their argument VALUES: one reused buffer holding successive context strings of
    # the same length (same address, different bytes), of different lengths, longer than a chunk, and repeated values
    from props.common import hexspec as _hx
    ctxs = [b"tenant-0001", b"tenant-0002", b"tenant-0003", b"tenant-0002", b"x", b"y", b"", b"tenant-0001",
            b"app v1 2024-01-01 session keys", b"app v2 2024-01-01 session keys", b"A" * 1100, b"A" * 1099 + b"B", b"A" * 1100]
    for mat in ("hex/", "paint/0/3", "paint/7/1025", "prng/5/5000"):
        lines.append("dkre %s %s" % (mat, " ".join(_hx(c) for c in ctxs)))
    if tier == "thorough":
        lines.append("H hash avx512 oh:paint/0/4194305")
        lines.append("H hash portable oh:prng/5/1048577")
    return number(lines)


def nontrivial(rest, model_line):
    import re
    return any(int(x) > 1024 for x in re.findall(r"oh:\w+/\d+/(\d+)", rest))


def correspondence(ctx):
    drv = ctx.need_model()
    cases = gen_cases(ctx.seed, ctx.tier)
    builds = [("default", "debug")]
    if ctx.tier == "thorough":
        builds += [("default", "release"), ("prefer_intrinsics", "debug"), ("pure", "debug")]
    for flavour, profile in builds:
        b = ctx.need_harness(flavour, profile)
        ctx.correspond("one-shot", cases, drv, b, profile=profile, build=flavour, nontrivial=nontrivial)


def classify(f):
    return None
