(* C11: copy_wide over any finite reader script absorbs exactly the bytes yielded
   before the first hard error or end of file; Interrupted is retried without
   losing or duplicating data; Write::write consumes the whole buffer. *)
From V Require Import Proofs.ListP.
From V Require Import Base.Res Base.Word Base.MachInt gen.GenConsts gen.GenFormulas
  Spec.Tree Model.Platform Model.RsChunk Model.RsHasher Model.RsIo Proofs.FormulasP.
Open Scope N_scope.

Fixpoint updates (p : platform) (h : hasher) (pieces : list (list N)) : res hasher :=
  match pieces with
  | [] => Ok h
  | x :: tl => h' <- hasher_update p h x ;; updates p h' tl
  end.

Lemma delivered_prefix : forall fuel data script,
  exists rest, data = concat (fst (delivered fuel data script)) ++ rest.
Proof.
  induction fuel as [|fuel IH]; intros data script; [exists data; reflexivity|].
  cbn [delivered].
  destruct (match script with [] => (RDeliver rs_COPY_BUF, []) | it :: tl => (it, tl) end) as [item script'].
  destruct item as [n| |k|].
  - destruct (N.min (N.min n rs_COPY_BUF) (nlen data) =? 0); [exists data; reflexivity|].
    destruct (IH (skipn (N.to_nat (N.min (N.min n rs_COPY_BUF) (nlen data))) data) script') as [rest Hr].
    destruct (delivered fuel _ script') as [ps e]. cbn [fst concat] in *. exists rest.
    rewrite <- app_assoc, <- Hr. symmetry. apply firstn_skipn.
  - apply IH.
  - exists data. reflexivity.
  - exists data. reflexivity.
Qed.

Lemma delivered_pieces : forall fuel data script,
  Forall (fun x => 0 < nlen x <= rs_COPY_BUF) (fst (delivered fuel data script)).
Proof.
  induction fuel as [|fuel IH]; intros data script; [constructor|].
  cbn [delivered].
  destruct (match script with [] => (RDeliver rs_COPY_BUF, []) | it :: tl => (it, tl) end) as [item script'].
  destruct item as [n| |k|]; try (constructor; fail); [|apply IH].
  destruct (N.min (N.min n rs_COPY_BUF) (nlen data) =? 0) eqn:E; [constructor|].
  specialize (IH (skipn (N.to_nat (N.min (N.min n rs_COPY_BUF) (nlen data))) data) script').
  destruct (delivered fuel _ script') as [ps e]. cbn [fst] in *. constructor; [|exact IH].
  unfold nlen in *. rewrite firstn_length. lia.
Qed.

(* the model of copy_wide = feeding exactly the delivered pieces to update *)
Theorem copy_wide_spec p : forall fuel h data script total h',
  total + nlen data < 2 ^ 64 ->
  updates p h (fst (delivered fuel data script)) = Ok h' ->
  copy_wide fuel p h data script total =
  match snd (delivered fuel data script) with
  | EndEof => Ok (h', CopyOk (total + nlen (concat (fst (delivered fuel data script)))))
  | EndErr k => Ok (h', CopyErr k)
  | EndFuel => OutOfFuel
  end.
Proof.
  induction fuel as [|fuel IH]; intros h data script total h' Htot Hu; [reflexivity|].
  cbn [delivered copy_wide] in *.
  destruct (match script with [] => (RDeliver rs_COPY_BUF, []) | it :: tl => (it, tl) end) as [item script'].
  destruct item as [n| |k|].
  - set (k := N.min (N.min n rs_COPY_BUF) (nlen data)) in *.
    destruct (k =? 0) eqn:E.
    + cbn [fst snd updates concat] in *. inversion Hu; subst. change (nlen []) with 0. rewrite N.add_0_r. reflexivity.
    + destruct (delivered fuel (skipn (N.to_nat k) data) script') as [ps e] eqn:Ed.
      cbn [fst snd updates concat] in *.
      destruct (hasher_update p h (firstn (N.to_nat k) data)) as [h1| |]; cbn [bind] in *; try discriminate.
      unfold mi_add, fits. replace (total + k <? 2 ^ 64) with true by (unfold k; lia). cbn [bind].
      specialize (IH h1 (skipn (N.to_nat k) data) script' (total + k) h').
      rewrite Ed in IH. cbn [fst snd] in IH. rewrite IH.
      * destruct e; try reflexivity. f_equal. f_equal. f_equal.
        unfold nlen. rewrite app_length, firstn_length. unfold k, nlen in *. lia.
      * unfold nlen in *. rewrite skipn_length. lia.
      * exact Hu.
  - apply IH; assumption.
  - cbn [fst snd updates] in *. inversion Hu; subst. reflexivity.
  - cbn [fst snd updates concat] in *. inversion Hu; subst. change (nlen []) with 0. rewrite N.add_0_r. reflexivity.
Qed.

(* enough fuel: the loop never runs out *)
Lemma delivered_fuel : forall fuel data script,
  (length script + N.to_nat ((nlen data + 65535) / rs_COPY_BUF) + 1 <= fuel)%nat ->
  snd (delivered fuel data script) <> EndFuel.
Proof.
  induction fuel as [|fuel IH]; intros data script Hf; change rs_COPY_BUF with 65536 in Hf; [lia|].
  cbn [delivered]. change rs_COPY_BUF with 65536 in *.
  destruct script as [|it tl].
  - (* script exhausted: deliver min(65536, remaining) each time *)
    set (k := N.min (N.min 65536 65536) (nlen data)).
    destruct (k =? 0) eqn:E; [discriminate|].
    specialize (IH (skipn (N.to_nat k) data) []).
    destruct (delivered fuel (skipn (N.to_nat k) data) []) as [ps e]. cbn [snd] in *.
    apply IH. cbn [length] in *. unfold nlen in *. rewrite skipn_length. unfold k in *. lia.
  - destruct it as [n| |k|]; try discriminate.
    + set (k := N.min (N.min n 65536) (nlen data)).
      destruct (k =? 0) eqn:E; [discriminate|].
      specialize (IH (skipn (N.to_nat k) data) tl).
      destruct (delivered fuel (skipn (N.to_nat k) data) tl) as [ps e]. cbn [snd] in *.
      apply IH. cbn [length] in *. unfold nlen in *. rewrite skipn_length. unfold k in *. lia.
    + apply IH. cbn [length] in *. lia.
Qed.

(* Write::write consumes every buffer completely *)
Lemma hasher_write_consumes_all p h input h' n :
  hasher_write p h input = Ok (h', n) -> n = nlen input /\ hasher_update p h input = Ok h'.
Proof.
  unfold hasher_write. destruct (hasher_update p h input) as [h1| |]; cbn [bind]; intros H; inversion H; auto.
Qed.

(* maybe_mmap_file's decision for a regular file of length n (seek End(-16383) succeeds iff
   n >= 16383 and returns n - 16383; mapping succeeds): map exactly n bytes iff n >= 16 KiB *)
Lemma mmap_decision_regular n : n < 2 ^ 62 ->
  mmap_decision (if rs_seek_offset <=? n then Some (n - rs_seek_offset) else None) true =
  if rs_MIN_MMAP <=? n then Some n else None.
Proof.
  intros Hn. change (2 ^ 62) with 4611686018427387904 in Hn.
  unfold mmap_decision, isize_max. change rs_seek_offset with 16383. change rs_MIN_MMAP with 16384.
  change (2 ^ 63 - 1) with 9223372036854775807.
  destruct (16383 <=? n) eqn:E1.
  - destruct (n - 16383 =? 0) eqn:E2.
    + replace (16384 <=? n) with false by lia. reflexivity.
    + replace (n - 16383 <=? 9223372036854775807 - 16383) with true by lia.
      replace (16384 <=? n) with true by lia. f_equal. lia.
  - replace (16384 <=? n) with false by lia. reflexivity.
Qed.

Lemma copy_fuel_enough data script : snd (delivered (copy_fuel data script) data script) <> EndFuel.
Proof.
  apply delivered_fuel. unfold copy_fuel. change rs_COPY_BUF with 65536. lia.
Qed.
