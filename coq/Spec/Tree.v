(* The BLAKE3 tree mode (paper sections 2.1, 2.4, 2.5, 2.6), parametric in the
   two ways the compression function is used, so that the structural proofs never
   look inside it:
     c8  cv block blen counter flags = the first 8 output words (a chaining value)
     c64 cv block blen counter flags = all 16 output words as 64 little-endian bytes
   Spec/Blake3.v instantiates them with Spec.Compress.compress. *)
From Coq Require Import NArith List.
From V Require Import Base.Word Spec.Compress.
Import ListNotations.
Open Scope N_scope.

Definition len (l : list N) : N := N.of_nat (length l).
Definition take (n : N) (l : list N) : list N := firstn (N.to_nat n) l.
Definition drop (n : N) (l : list N) : list N := skipn (N.to_nat n) l.
Definition pad64 (l : list N) : list N := l ++ repeat 0 (64 - length l).

Section Tree.
  Variable c8 : list N -> list N -> N -> N -> N -> list N.
  Variable c64 : list N -> list N -> N -> N -> N -> list N.

  (* An Output: everything needed to produce either a chaining value or root bytes *)
  Record output := mkOutput {
    o_cv : list N;      (* input chaining value, 8 words *)
    o_block : list N;   (* 64 bytes *)
    o_blen : N;
    o_ctr : N;
    o_flags : N }.

  (* non-root chaining value: first 8 output words as 32 little-endian bytes *)
  Definition chaining_value (o : output) : list N :=
    bytes_of_words (c8 (o_cv o) (o_block o) (o_blen o) (o_ctr o) (o_flags o)).

  (* k-th 64-byte block of root output: counter k, ROOT flag set *)
  Definition root_block (o : output) (k : N) : list N :=
    c64 (o_cv o) (o_block o) (o_blen o) k (N.lor (o_flags o) ROOT).

  (* ---- chunks: up to 1024 bytes, blocks of 64, the last one zero-padded ----- *)
  Definition start_flag (first : bool) : N := if first then CHUNK_START else 0.

  Fixpoint chunk_go (fuel : nat) (key_flags ctr : N) (cv : list N) (first : bool) (bytes : list N) : output :=
    match fuel with
    | S fuel' =>
        if len bytes <=? 64 then
          mkOutput cv (pad64 bytes) (len bytes) ctr (N.lor (N.lor key_flags (start_flag first)) CHUNK_END)
        else
          let cv' := c8 cv (take 64 bytes) 64 ctr (N.lor key_flags (start_flag first)) in
          chunk_go fuel' key_flags ctr cv' false (drop 64 bytes)
    | O => mkOutput cv (pad64 bytes) (len bytes) ctr (N.lor (N.lor key_flags (start_flag first)) CHUNK_END)
    end.

  (* |bytes| <= 1024; the empty chunk (only as the whole empty input) is one empty block *)
  Definition chunk_output (key : list N) (key_flags ctr : N) (bytes : list N) : output :=
    chunk_go 16 key_flags ctr key true bytes.

  Definition parent_output (key : list N) (key_flags : N) (left_cv right_cv : list N) : output :=
    mkOutput key (left_cv ++ right_cv) 64 0 (N.lor key_flags PARENT).

  (* ---- tree shape: the left subtree is the largest power-of-two number of
          chunks that still leaves at least one byte for the right ------------ *)
  Definition left_len (n : N) : N := 1024 * 2 ^ N.log2 ((n - 1) / 1024).

  (* h bounds the height; 54 levels cover every input below 2^64 bytes *)
  Fixpoint subtree_output (h : nat) (key : list N) (key_flags ctr : N) (bytes : list N) : output :=
    match h with
    | O => chunk_output key key_flags ctr bytes
    | S h' =>
        if len bytes <=? 1024 then chunk_output key key_flags ctr bytes
        else
          let l := left_len (len bytes) in
          parent_output key key_flags
            (chaining_value (subtree_output h' key key_flags ctr (take l bytes)))
            (chaining_value (subtree_output h' key key_flags (ctr + l / 1024) (drop l bytes)))
    end.

  Definition tree_height : nat := 64.

  (* ---- modes ---------------------------------------------------------------- *)
  Inductive mode :=
  | Hash
  | KeyedHash (key : list N)          (* 32 bytes *)
  | DeriveKeyContext                  (* internal: hashing the context string *)
  | DeriveKeyMaterial (context_key : list N).  (* 32 bytes *)

  Definition mode_key (m : mode) : list N :=
    match m with
    | Hash | DeriveKeyContext => IV
    | KeyedHash k => words_of_bytes k
    | DeriveKeyMaterial ck => words_of_bytes ck
    end.
  Definition mode_flags (m : mode) : N :=
    match m with
    | Hash => 0
    | KeyedHash _ => KEYED_HASH
    | DeriveKeyContext => DERIVE_KEY_CONTEXT
    | DeriveKeyMaterial _ => DERIVE_KEY_MATERIAL
    end.

  Definition root_output (m : mode) (input : list N) : output :=
    subtree_output tree_height (mode_key m) (mode_flags m) 0 input.

  (* ---- the output stream S: byte i is byte (i mod 64) of root block (i / 64) -- *)
  Definition stream_byte (o : output) (i : N) : N :=
    nth (N.to_nat (i mod 64)) (root_block o (i / 64)) 0.

  Fixpoint nrange (start : N) (n : nat) : list N :=
    match n with O => [] | S n' => start :: nrange (start + 1) n' end.

  Definition stream (o : output) (p : N) (n : nat) : list N := map (stream_byte o) (nrange p n).

  Definition hash_mode (m : mode) (input : list N) : list N := stream (root_output m input) 0 32.
  Definition xof_mode (m : mode) (input : list N) (p : N) (n : nat) : list N := stream (root_output m input) p n.

  Definition hash (input : list N) : list N := hash_mode Hash input.
  Definition keyed_hash (key input : list N) : list N := hash_mode (KeyedHash key) input.
  Definition derive_key (context material : list N) : list N :=
    hash_mode (DeriveKeyMaterial (hash_mode DeriveKeyContext context)) material.
End Tree.

Arguments mkOutput o_cv o_block o_blen o_ctr o_flags : assert.
