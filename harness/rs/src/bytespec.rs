// Byte-string specifications shared by the Rust harness, the C harness, the OCaml
// model driver and the Python generator:
//   paint/<seed>/<len>   byte i = (i + seed) % 251           (the test-vector pattern for seed 0)
//   prng/<seed>/<len>    xorshift64* stream, one byte per step
//   zero/<x>/<len>  ff/<x>/<len>
//   bit/<pos>/<len>      all zero except bit `pos` (bit pos%8 of byte pos/8)
//   hex/<digits>         literal
pub fn parse(spec: &str) -> Vec<u8> {
    let parts: Vec<&str> = spec.split('/').collect();
    match parts[0] {
        "hex" => unhex(parts.get(1).copied().unwrap_or("")),
        "paint" => {
            let seed: u64 = parts[1].parse().unwrap();
            let len: usize = parts[2].parse().unwrap();
            (0..len).map(|i| ((i as u64 + seed) % 251) as u8).collect()
        }
        "prng" => {
            let seed: u64 = parts[1].parse().unwrap();
            let len: usize = parts[2].parse().unwrap();
            let mut x: u64 = seed.wrapping_mul(0x9E3779B97F4A7C15).wrapping_add(1);
            if x == 0 {
                x = 1;
            }
            let mut v = Vec::with_capacity(len);
            for _ in 0..len {
                x ^= x >> 12;
                x ^= x << 25;
                x ^= x >> 27;
                v.push((x.wrapping_mul(0x2545F4914F6CDD1D) >> 56) as u8);
            }
            v
        }
        "zero" => vec![0u8; parts[2].parse().unwrap()],
        "ff" => vec![0xffu8; parts[2].parse().unwrap()],
        "bit" => {
            let pos: usize = parts[1].parse().unwrap();
            let len: usize = parts[2].parse().unwrap();
            let mut v = vec![0u8; len];
            if pos / 8 < len {
                v[pos / 8] = 1 << (pos % 8);
            }
            v
        }
        other => panic!("bad byte spec {other}"),
    }
}

pub fn unhex(s: &str) -> Vec<u8> {
    let b = s.as_bytes();
    assert!(b.len() % 2 == 0, "odd hex");
    (0..b.len() / 2)
        .map(|i| u8::from_str_radix(std::str::from_utf8(&b[2 * i..2 * i + 2]).unwrap(), 16).unwrap())
        .collect()
}

pub fn hex(b: &[u8]) -> String {
    const T: &[u8; 16] = b"0123456789abcdef";
    let mut s = String::with_capacity(b.len() * 2);
    for &x in b {
        s.push(T[(x >> 4) as usize] as char);
        s.push(T[(x & 15) as usize] as char);
    }
    s
}
