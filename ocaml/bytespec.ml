(* Byte-string specifications (same grammar as harness/rs/src/bytespec.rs) and
   conversions between OCaml ints and the extracted N / positive / nat. *)
module BigZ = Z
open Model

let rec pos_of_int (i : int) : positive =
  if i = 1 then XH
  else if i land 1 = 0 then XO (pos_of_int (i lsr 1))
  else XI (pos_of_int (i lsr 1))

let n_of_int (i : int) : n = if i = 0 then N0 else Npos (pos_of_int i)

let rec int_of_pos = function
  | XH -> 1
  | XO p -> 2 * int_of_pos p
  | XI p -> 2 * int_of_pos p + 1

let int_of_n = function N0 -> 0 | Npos p -> int_of_pos p

(* decimal strings <-> N for values beyond OCaml's 63-bit ints *)
let n_of_string (s : string) : n =
  let z = BigZ.of_string s in
  let rec go z = if BigZ.equal z BigZ.one then XH
    else if BigZ.is_even z then XO (go (BigZ.shift_right z 1)) else XI (go (BigZ.shift_right z 1)) in
  if BigZ.equal z BigZ.zero then N0 else Npos (go z)

let string_of_n (v : n) : string =
  let rec go = function
    | XH -> BigZ.one
    | XO p -> BigZ.shift_left (go p) 1
    | XI p -> BigZ.succ (BigZ.shift_left (go p) 1) in
  match v with N0 -> "0" | Npos p -> BigZ.to_string (go p)

let rec nat_of_int (i : int) : nat = if i = 0 then O else S (nat_of_int (i - 1))

let byte_table : n array = Array.init 256 n_of_int
let nlist_of_bytes (b : Bytes.t) : n list =
  let r = ref [] in
  for i = Bytes.length b - 1 downto 0 do r := byte_table.(Char.code (Bytes.get b i)) :: !r done;
  !r

let hexdigit c = match c with
  | '0'..'9' -> Char.code c - 48
  | 'a'..'f' -> Char.code c - 87
  | 'A'..'F' -> Char.code c - 55
  | _ -> failwith "bad hex"

let unhex (s : string) : Bytes.t =
  let n = String.length s / 2 in
  Bytes.init n (fun i -> Char.chr (16 * hexdigit s.[2*i] + hexdigit s.[2*i+1]))

let hex_of_nlist (l : n list) : string =
  let b = Buffer.create 64 in
  List.iter (fun v -> Buffer.add_string b (Printf.sprintf "%02x" (int_of_n v))) l;
  Buffer.contents b

let string_of_nlist (l : n list) : string =
  let b = Buffer.create 64 in
  List.iter (fun v -> Buffer.add_char b (Char.chr (int_of_n v))) l;
  Buffer.contents b

let parse_bytes (spec : string) : Bytes.t =
  match String.split_on_char '/' spec with
  | "hex" :: rest -> unhex (match rest with [] -> "" | h :: _ -> h)
  | ["paint"; seed; len] ->
    let seed = int_of_string seed and len = int_of_string len in
    Bytes.init len (fun i -> Char.chr ((i + seed) mod 251))
  | ["prng"; seed; len] ->
    let len = int_of_string len in
    let x = ref (Int64.add (Int64.mul (Int64.of_string ("0u" ^ seed)) 0x9E3779B97F4A7C15L) 1L) in
    if !x = 0L then x := 1L;
    Bytes.init len (fun _ ->
      x := Int64.logxor !x (Int64.shift_right_logical !x 12);
      x := Int64.logxor !x (Int64.shift_left !x 25);
      x := Int64.logxor !x (Int64.shift_right_logical !x 27);
      Char.chr (Int64.to_int (Int64.shift_right_logical (Int64.mul !x 0x2545F4914F6CDD1DL) 56) land 255))
  | ["zero"; _; len] -> Bytes.make (int_of_string len) '\000'
  | ["ff"; _; len] -> Bytes.make (int_of_string len) '\255'
  | ["bit"; pos; len] ->
    let pos = int_of_string pos and len = int_of_string len in
    let b = Bytes.make len '\000' in
    if pos / 8 < len then Bytes.set b (pos / 8) (Char.chr (1 lsl (pos mod 8)));
    b
  | _ -> failwith ("bad byte spec " ^ spec)

let parse (spec : string) : n list = nlist_of_bytes (parse_bytes spec)
