(* C09: subtree hashing composes to the whole-input hash for every valid decomposition.
   Statements only; proofs in Proofs/{FormulasP,HasherP,C02P,C09P}.v. *)
From Coq Require Import NArith List Bool.
From V Require Import Base.Res Base.Word Base.MachInt gen.GenFormulas Spec.Compress Spec.Tree Spec.Blake3
  Model.Platform Model.RsChunk Model.RsHasher Proofs.FormulasP Proofs.IoP Proofs.HasherP Proofs.C02P Proofs.C09P.
Import ListNotations.
Open Scope N_scope.

(* the two length helpers, as written in the source, on all of u64 *)
Theorem C09_left_subtree_len : forall n, 1024 < n -> n < 2 ^ 64 -> rs_left_subtree_len n = Ok (left_len n).
Proof. exact rs_left_subtree_len_spec. Qed.

Theorem C09_left_len_is_largest_pow2_below : forall n, 1024 < n ->
  exists a, left_len n = 1024 * 2 ^ a /\ 1024 * 2 ^ a < n <= 1024 * 2 ^ (a + 1).
Proof. exact Proofs.TreeP.left_len_spec. Qed.

Theorem C09_max_subtree_len : forall c, 0 < c -> c < 2 ^ 54 ->
  rs_max_subtree_len (c * 1024) = Ok (Some (1024 * 2 ^ tz 64 c)).
Proof. exact rs_max_subtree_len_spec. Qed.

Theorem C09_max_subtree_len_zero : rs_max_subtree_len 0 = Ok None.
Proof. exact rs_max_subtree_len_zero. Qed.

(* a subtree hasher: set_input_offset at any chunk-aligned offset, any update split of at most
   max_subtree_len bytes, finalize_non_root = the specification's subtree chaining value, which
   depends only on the bytes, the offset and the mode key *)
Theorem C09_set_input_offset : forall K F, length K = 8%nat -> forall c0, c0 < 2 ^ 54 ->
  set_input_offset (new_internal K F) (1024 * c0) = Ok (fresh K F c0).
Proof. exact set_input_offset_fresh. Qed.

Theorem C09_subtree_cv_spec : forall p, PlatformOK p -> forall K F, length K = 8%nat -> forall c0 pieces,
  c0 < 2 ^ 54 -> 0 < len (concat pieces) -> len (concat pieces) <= 1024 * lim_of c0 -> len (concat pieces) < 2 ^ 64 ->
  exists h, updates p (fresh K F c0) pieces = Ok h /\
    finalize_non_root p h = Ok (chaining_value spec_c8 (subtree_output spec_c8 tree_height K F c0 (concat pieces))).
Proof. exact subtree_cv_spec. Qed.

(* every decomposition that respects left_subtree_len (joins) and max_subtree_len (leaves), with any
   nesting, yields the specification's subtree chaining value ... *)
Theorem C09_decomp_cv : forall p, PlatformOK p -> forall K F, length K = 8%nat -> forall c0 bs cv,
  Decomp p K F c0 bs cv -> len bs <= 1024 * 2 ^ 64 ->
  cv = chaining_value spec_c8 (subtree_output spec_c8 tree_height K F c0 bs).
Proof. exact decomp_cv. Qed.

(* ... and merging the two top-level subtrees gives the hash and the root output (extended output) *)
Theorem C09_decomp_root : forall p, PlatformOK p -> forall K F, length K = 8%nat -> forall l r cvl cvr,
  1024 < len (l ++ r) -> len (l ++ r) < 2 ^ 64 -> len l = left_len (len (l ++ r)) ->
  Decomp p K F 0 l cvl -> Decomp p K F (len l / 1024) r cvr ->
  merge_subtrees_root p K F cvl cvr = Ok (stream spec_c64 (subtree_output spec_c8 tree_height K F 0 (l ++ r)) 0 32) /\
  merge_subtrees_inner K F cvl cvr = subtree_output spec_c8 tree_height K F 0 (l ++ r).
Proof. exact decomp_root. Qed.

(* documented misuse panics *)
Theorem C09_misuse_unaligned_offset : forall K F, length K = 8%nat -> forall off, off mod 1024 <> 0 ->
  set_input_offset (new_internal K F) off = Panic 24.
Proof. exact misuse_unaligned_offset. Qed.

Theorem C09_misuse_too_much_input : forall p, PlatformOK p -> forall K F, length K = 8%nat -> forall c0 h bs input,
  c0 < 2 ^ 54 -> c0 <> 0 -> InvS K F c0 h bs -> 1024 * lim_of c0 < len bs + len input ->
  hasher_update p h input = Panic 21.
Proof. exact misuse_too_much_input. Qed.

Theorem C09_misuse_finalize_with_offset : forall p K F, length K = 8%nat -> forall c0 h bs,
  c0 < 2 ^ 54 -> c0 <> 0 -> InvS K F c0 h bs ->
  hasher_finalize p h = Panic 22 /\ hasher_finalize_output p h = Panic 22.
Proof. exact misuse_finalize_with_offset. Qed.

Theorem C09_misuse_empty_subtree : forall p, PlatformOK p -> forall K F, length K = 8%nat -> forall c0,
  c0 < 2 ^ 54 -> finalize_non_root p (fresh K F c0) = Panic 25.
Proof. exact misuse_empty_subtree. Qed.

Example C09_nonvacuous :
  let p := sim_platform 4 16 in
  let a := repeat 1 2048 in let b := repeat 2 1000 in
  (ha <- updates p (fresh IV 0 0) [a] ;; cva <- finalize_non_root p ha ;;
   hb <- updates p (fresh IV 0 2) [b] ;; cvb <- finalize_non_root p hb ;;
   merge_subtrees_root p IV 0 cva cvb) = Ok (b3_hash (a ++ b)).
Proof. vm_compute. reflexivity. Qed.

(* the functions of the modelled source are exactly the functions the model was written against
   (gen/GenApi.v is regenerated from /repo on every run; see Model/ApiSurface.v) *)
From V Require gen.GenApi Model.ApiSurface.
Theorem C09_api_hazmat : GenApi.api_hazmat = ApiSurface.expected_hazmat.
Proof. reflexivity. Qed.

Print Assumptions C09_api_hazmat.
Print Assumptions C09_left_subtree_len.
Print Assumptions C09_left_len_is_largest_pow2_below.
Print Assumptions C09_max_subtree_len.
Print Assumptions C09_max_subtree_len_zero.
Print Assumptions C09_set_input_offset.
Print Assumptions C09_subtree_cv_spec.
Print Assumptions C09_decomp_cv.
Print Assumptions C09_decomp_root.
Print Assumptions C09_misuse_unaligned_offset.
Print Assumptions C09_misuse_too_much_input.
Print Assumptions C09_misuse_finalize_with_offset.
Print Assumptions C09_misuse_empty_subtree.

(* ---- the model against the source text: src/hazmat.rs -------------------------------------------------------
   gen/GenHazmat.v is the text of `impl HasherExt for Hasher` (new_from_context_key, set_input_offset,
   finalize_non_root), Mode::key_words / flags_byte, merge_subtrees_inner / non_root / root / root_xof and
   hash_derive_key_context (src/hazmat.rs), translated statement by statement (tools/gen_coq.py gen_hazmat, regenerated
   from /repo on every run), together with platform::words_from_le_bytes_32 and the constructors Hasher::new /
   new_keyed / Default::default of src/lib.rs.  The asserts carry the models' Panic codes and must carry the source's
   messages ("hasher has already accepted input" 23, "offset .. must be a chunk boundary .." 24, "empty subtrees are
   never valid" 25).  `Platform::detect()` is the last parameter of every function that calls it; the functions called
   but not translated there are parameters, instantiated with the models' (m_parent_node_output = the specification's
   parent_output, m_Output_chaining_value, m_Output_root_hash: Props/C02.v C02_lib_src_loops_repr_def;
   m_hash_all_at_once = Model/RsWide.v hash_all_at_once); OutputReader::new is gen/GenXof.v's translation.  The models
   take (key words, flags) where the source takes a Mode: the theorems are stated at the key words and the flags byte
   the translated Mode methods compute, and those are tied to the machine's mode_init.  Each translated function
   EQUALS the model function on every argument, every fuel value, including the Panic results; hypotheses are type
   invariants (u8 fields, 32-byte keys) and the side conditions of Hasher::final_output's tie (Props/C02.v
   C02_lib_src_final_output).  Proofs in Proofs/GenHazmatP.v. *)
From V Require Import gen.GenConsts gen.GenLibSmall gen.GenLibLoops gen.GenXof gen.GenHazmat Model.RsWide Model.RsXof
  Model.Machine Proofs.GenLibSmallP Proofs.GenLibLoopsP Proofs.GenXofP Proofs.GenHazmatP.

Theorem C09_hazmat_src_repr_def :
  mode_key hz_Mode_Hash = rs_IV /\
  (forall k, mode_key (hz_Mode_KeyedHash k) = words_of_bytes k) /\
  (forall k, mode_key (hz_Mode_DeriveKeyMaterial k) = words_of_bytes k) /\
  mode_flags hz_Mode_Hash = 0 /\
  (forall k, mode_flags (hz_Mode_KeyedHash k) = rs_flag_KEYED_HASH) /\
  (forall k, mode_flags (hz_Mode_DeriveKeyMaterial k) = rs_flag_DERIVE_KEY_MATERIAL) /\
  mode_ok hz_Mode_Hash /\
  (forall k, mode_ok (hz_Mode_KeyedHash k) = (length k = 32%nat)) /\
  (forall k, mode_ok (hz_Mode_DeriveKeyMaterial k) = (length k = 32%nat)) /\
  (forall ck, hz_mode_of MHash ck = hz_Mode_Hash) /\
  (forall k ck, hz_mode_of (MKeyed k) ck = hz_Mode_KeyedHash k) /\
  (forall c ck, hz_mode_of (MDerive c) ck = hz_Mode_DeriveKeyMaterial ck) /\
  (forall c ck, hz_mode_of (MDeriveK c) ck = hz_Mode_DeriveKeyMaterial ck) /\
  (forall p input key flags,
     m_hash_all_at_once p input key flags = GenLibLoopsP.res_map (lib_of_out p) (hash_all_at_once p input key flags)).
Proof. repeat split. Qed.
Print Assumptions C09_hazmat_src_repr_def.

Theorem C09_hazmat_src_words_from_le_bytes_32 : forall bytes, length bytes = 32%nat ->
  hz_words_from_le_bytes_32 bytes = words_of_bytes bytes.
Proof. exact hz_words_from_le_bytes_32_eq. Qed.
Print Assumptions C09_hazmat_src_words_from_le_bytes_32.

(* the constructors: Hasher::new, Default::default, Hasher::new_keyed, HasherExt::new_from_context_key *)
Theorem C09_hazmat_src_hasher_new : forall p,
  hz_Hasher_new p = lib_of_hasher p (new_internal rs_IV 0) /\
  hz_Hasher_Default_default p = lib_of_hasher p (new_internal rs_IV 0).
Proof. intros. split; reflexivity. Qed.
Print Assumptions C09_hazmat_src_hasher_new.

Theorem C09_hazmat_src_hasher_new_keyed : forall key p, length key = 32%nat ->
  hz_Hasher_new_keyed key p = lib_of_hasher p (new_internal (words_of_bytes key) rs_flag_KEYED_HASH).
Proof. exact hz_Hasher_new_keyed_eq. Qed.
Print Assumptions C09_hazmat_src_hasher_new_keyed.

Theorem C09_hazmat_src_new_from_context_key : forall ck p, length ck = 32%nat ->
  hz_Hasher_new_from_context_key ck p = lib_of_hasher p (new_internal (words_of_bytes ck) rs_flag_DERIVE_KEY_MATERIAL).
Proof. exact hz_Hasher_new_from_context_key_eq. Qed.
Print Assumptions C09_hazmat_src_new_from_context_key.

Theorem C09_hazmat_src_set_input_offset : forall p h off, cs_blocks (h_cs h) < 2 ^ 8 -> cs_buf_len (h_cs h) < 2 ^ 8 ->
  hz_Hasher_set_input_offset (lib_of_hasher p h) off = GenLibLoopsP.res_map (lib_of_hasher p) (set_input_offset h off).
Proof. exact hz_Hasher_set_input_offset_eq. Qed.
Print Assumptions C09_hazmat_src_set_input_offset.

Theorem C09_hazmat_src_finalize_non_root : forall p fuel h, cs_blocks (h_cs h) < 2 ^ 8 -> cs_buf_len (h_cs h) < 2 ^ 8 ->
  (length (h_stack h) <= fuel)%nat -> (forall a, h_stack h = [a] -> cs_count (h_cs h) <> Ok 0) ->
  hz_Hasher_finalize_non_root m_parent_node_output m_Output_chaining_value fuel (lib_of_hasher p h)
  = finalize_non_root p h.
Proof. exact hz_Hasher_finalize_non_root_eq. Qed.
Print Assumptions C09_hazmat_src_finalize_non_root.

(* Mode::key_words / flags_byte; every mode of the machine is one of these *)
Theorem C09_hazmat_src_mode_key_words : forall mode, mode_ok mode -> hz_Mode_key_words mode = mode_key mode.
Proof. exact hz_Mode_key_words_eq. Qed.
Print Assumptions C09_hazmat_src_mode_key_words.

Theorem C09_hazmat_src_mode_flags_byte : forall mode, hz_Mode_flags_byte mode = mode_flags mode.
Proof. exact hz_Mode_flags_byte_eq. Qed.
Print Assumptions C09_hazmat_src_mode_flags_byte.

Theorem C09_hazmat_src_mode_init : forall p m key flags, mode_init p m = Ok (key, flags) ->
  exists ck, match m with MDerive c | MDeriveK c => rs_hash_derive_key_context p c = Ok ck | _ => ck = [] end /\
             key = mode_key (hz_mode_of m ck) /\ flags = mode_flags (hz_mode_of m ck).
Proof. exact mode_init_hz. Qed.
Print Assumptions C09_hazmat_src_mode_init.

Theorem C09_hazmat_src_merge_subtrees_inner : forall l r mode p,
  hz_merge_subtrees_inner m_parent_node_output l r mode p
  = lib_of_out p (merge_subtrees_inner (hz_Mode_key_words mode) (hz_Mode_flags_byte mode) l r).
Proof. exact hz_merge_subtrees_inner_eq. Qed.
Print Assumptions C09_hazmat_src_merge_subtrees_inner.

(* the same with the TRANSLATED parent_node_output of gen/GenLibSmall.v, for 32-byte children *)
Theorem C09_hazmat_src_merge_subtrees_inner_src : forall l r mode p, length l = 32%nat -> length r = 32%nat ->
  hz_merge_subtrees_inner lib_parent_node_output l r mode p
  = lib_of_out p (merge_subtrees_inner (hz_Mode_key_words mode) (hz_Mode_flags_byte mode) l r).
Proof. exact hz_merge_subtrees_inner_src. Qed.
Print Assumptions C09_hazmat_src_merge_subtrees_inner_src.

Theorem C09_hazmat_src_merge_subtrees_non_root : forall l r mode p,
  hz_merge_subtrees_non_root m_parent_node_output m_Output_chaining_value l r mode p
  = merge_subtrees_non_root p (hz_Mode_key_words mode) (hz_Mode_flags_byte mode) l r.
Proof. exact hz_merge_subtrees_non_root_eq. Qed.
Print Assumptions C09_hazmat_src_merge_subtrees_non_root.

Theorem C09_hazmat_src_merge_subtrees_root : forall l r mode p,
  hz_merge_subtrees_root m_parent_node_output m_Output_root_hash l r mode p
  = merge_subtrees_root p (hz_Mode_key_words mode) (hz_Mode_flags_byte mode) l r.
Proof. exact hz_merge_subtrees_root_eq. Qed.
Print Assumptions C09_hazmat_src_merge_subtrees_root.

(* the machine's OpMergeXof adds reader_new (merge_subtrees_inner key flags l r) *)
Theorem C09_hazmat_src_merge_subtrees_root_xof : forall l r mode p,
  hz_merge_subtrees_root_xof m_parent_node_output l r mode p
  = lib_of_rd p (reader_new (merge_subtrees_inner (hz_Mode_key_words mode) (hz_Mode_flags_byte mode) l r)).
Proof. exact hz_merge_subtrees_root_xof_eq. Qed.
Print Assumptions C09_hazmat_src_merge_subtrees_root_xof.

(* hash_derive_key_context: hash_all_at_once::<SerialJoin>(context.as_bytes(), IV, DERIVE_KEY_CONTEXT).root_hash().0 *)
Theorem C09_hazmat_src_hash_derive_key_context : forall p ctx,
  hz_hash_derive_key_context m_Output_root_hash (m_hash_all_at_once p) ctx = rs_hash_derive_key_context p ctx.
Proof. exact hz_hash_derive_key_context_eq. Qed.
Print Assumptions C09_hazmat_src_hash_derive_key_context.

(* non-vacuity: the translated functions compute, and agree with the model *)
Example C09_hazmat_src_nonvacuous :
  let p := sim_platform 4 16 in
  let k := repeat 7 32%nat in
  let h := new_internal (words_of_bytes k) rs_flag_KEYED_HASH in
  hasher_of_lib (hz_Hasher_new_keyed k p) = h /\
  GenLibLoopsP.res_map hasher_of_lib (hz_Hasher_set_input_offset (lib_of_hasher p h) 3072) = set_input_offset h 3072 /\
  hz_Hasher_set_input_offset (lib_of_hasher p h) 3073 = Panic 24 /\
  hz_Hasher_finalize_non_root m_parent_node_output m_Output_chaining_value 64 (lib_of_hasher p h) = Panic 25 /\
  hz_merge_subtrees_non_root m_parent_node_output m_Output_chaining_value (repeat 1 32%nat) (repeat 2 32%nat) (hz_Mode_KeyedHash k) p
    = merge_subtrees_non_root p (words_of_bytes k) rs_flag_KEYED_HASH (repeat 1 32%nat) (repeat 2 32%nat).
Proof. vm_compute. repeat split. Qed.
Print Assumptions C09_hazmat_src_nonvacuous.
