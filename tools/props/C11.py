"""C11: reader, mmap and Write adapters hash exactly the bytes of their source."""
import os
import subprocess
from props.common import Rng, bspec, modes, number, CHUNK
from props.hist import PLATFORMS

RULE = ("scripted Read implementations replayed into the real update_reader: sequences of Ok(k) with 0<k<=buffer, "
        "Err(Interrupted), Err(other kinds) and Ok(0) in any order (short reads of every size class, Interrupted "
        "between data, hard errors at every position, early Ok(0)); state compared by continuation (count, finalize, "
        "further update). Real files of lengths around the 16 KiB threshold, /proc, /dev/null, a sysfs file that seeks but cannot be "
        "mapped, a 256 MiB file whose mapping fails under RLIMIT_AS (fallback must read the whole file), a directory and a "
        "missing path through update_reader / update_mmap / update_mmap_rayon (harness `file` cases). Non-trivial = "
        "distinct script containing an Interrupted or a hard error or a short read.")
MODELLED = ["the reader is an oracle (script); kernel/filesystem/mmap behaviour are oracle assumptions",
            "maybe_mmap_file: decision function over the oracle answers (Model/RsIo.v mmap_decision)"]
ASSUMPTIONS = ["a mapping shows the file's contents; sequential reads from offset 0 return the file's contents"]

KINDS = ["other", "wouldblock", "unexpectedeof", "invaliddata", "timedout"]


def script(rng, total):
    items = []
    left = total
    for _ in range(rng.range(0, 14)):
        k = rng.below(100)
        if k < 45:
            n = rng.choice([1, 2, 63, 64, 65, 1023, 1024, 1025, 4096, 65535, 65536, 65537, 100000]) if rng.chance(0.6) else rng.range(1, 70000)
            items.append(f"d{n}")
            left -= min(n, 65536, max(left, 0))
        elif k < 75:
            items.append("i")
        elif k < 85:
            items.append("e" + rng.choice(KINDS))
        elif k < 90:
            items.append("z")
        else:
            items.append(f"d{rng.range(1, 300)}")
    return ",".join(items)


def gen_cases(seed, tier):
    rng = Rng(seed)
    lines = []
    ms = modes(rng)
    ns = 60 if tier == "thorough" else 12
    for plat in PLATFORMS:
        for _ in range(ns):
            total = rng.choice([0, 1, 100, 1024, 5000, 65535, 65536, 65537, 131073, rng.range(0, 200000)])
            pre = rng.choice(["", f"u:0:{bspec(rng, rng.range(0, 3000))} "])
            sc = script(rng, total)
            lines.append(f"H {rng.choice(ms)} {plat} {pre}ur:0:{bspec(rng, total)}:{sc} c:0 f:0 u:0:{bspec(rng, rng.range(0, 2000))} c:0 f:0")
        # hard error at every position of a fixed script
        base = ["d1000", "i", "d65536", "d7", "i", "i", "d3000"]
        for pos in range(len(base) + 1):
            sc = ",".join(base[:pos] + ["eother"] + base[pos:])
            lines.append(f"H hash {plat} ur:0:paint/0/150000:{sc} c:0 f:0")
        # Write::write consumes every buffer completely
        lines.append(f"H hash {plat} w:0:paint/0/0 w:0:paint/0/1 w:0:paint/0/65537 c:0 f:0")
    return number(lines)


def nontrivial(rest, model_line):
    import re
    m = re.search(r"ur:0:[^:]+:(\S*)", rest)
    return bool(m and ("i" in m.group(1).split(",") or ",e" in "," + m.group(1) or "d1," in m.group(1) + ","))


FILE_LENS = [0, 1, 16382, 16383, 16384, 16385, 65535, 65536, 65537, 1 << 20]


def file_cases(ctx, harness):
    """real files through update_reader / update_mmap / update_mmap_rayon vs the model's hash of the same bytes"""
    d = os.path.join("/verif", "build", "c11files")
    os.makedirs(d, exist_ok=True)
    lines = []
    for n in FILE_LENS:
        p = os.path.join(d, f"f{n}")
        with open(p, "wb") as f:
            f.write(bytes((i % 251) for i in range(n)))
        lines.append(f"file paint/0/{n} {p}")
    lines += ["file - /proc/self/status", "file hex/ /dev/null", f"file ! {d}", f"file ! {d}/missing"]
    # seekable, >= 16 KiB, but mmap() itself fails (sysfs binary attribute): the fallback must re-read from offset 0
    for p in ("/sys/kernel/btf/vmlinux",):
        try:
            if os.path.getsize(p) >= 16384:
                lines.append(f"file - {p}")
        except OSError:
            pass
    return number(lines, "f")


def nomap_case(ctx, harness):
    """a regular file whose mapping fails because of the address-space limit of the process (RLIMIT_AS):
    update_mmap / update_mmap_rayon must fall back to reading the WHOLE file, i.e. agree with update_reader.
    256 MiB sparse file of zeros, harness run under `ulimit -v` 200 MB with 2 rayon threads."""
    d = os.path.join("/verif", "build", "c11files")
    p = os.path.join(d, "sparse256m")
    if not os.path.exists(p) or os.path.getsize(p) != (256 << 20):
        with open(p, "wb") as f:
            f.truncate(256 << 20)
    line = f"n0 file - {p}"
    cmd = "ulimit -v 200000; RAYON_NUM_THREADS=2 exec %s" % harness
    try:
        r = subprocess.run(["bash", "-c", cmd], input=line + "\n", stdout=subprocess.PIPE, stderr=subprocess.PIPE, text=True,
                           timeout=600)
        out = [l for l in r.stdout.split("\n") if l.startswith("n0 ")]
        got = out[0][3:] if out else "CRASH rc=%s %s" % (r.returncode, r.stderr.strip()[-200:])
    except subprocess.TimeoutExpired:
        got = "TIMEOUT"
    # control: the same file without the limit maps fine and must give the same digest
    r2 = subprocess.run([harness], input=line + "\n", stdout=subprocess.PIPE, stderr=subprocess.PIPE, text=True, timeout=600)
    out2 = [l for l in r2.stdout.split("\n") if l.startswith("n0 ")]
    got2 = out2[0][3:] if out2 else "CRASH rc=%s" % r2.returncode
    return line[3:], got, got2


def correspondence(ctx):
    drv = ctx.need_model()
    cases = gen_cases(ctx.seed, ctx.tier)
    builds = [("default", "debug")]
    if ctx.tier == "thorough":
        builds += [("default", "release")]
    for flavour, profile in builds:
        b = ctx.need_harness(flavour, profile)
        ctx.correspond("reader-scripts", cases, drv, b, profile=profile, build=flavour, nontrivial=nontrivial)
        if b and drv:
            from verif import run_lines, run_model
            fl = file_cases(ctx, b)
            ires = run_lines(b, fl, shards=1)
            # oracle: model hash of the same bytes (one-shot), via the machine
            mcases = [f"{l.split()[0]} H hash detect oh:{l.split()[2]}" for l in fl if l.split()[2] not in ("-", "!")]
            mres = run_model(drv, mcases)
            nfail = 0
            for l in fl:
                cid, _, spec, path = l.split()
                got = ires.get(cid, "MISSING")
                ctx.evaluations += 1
                if spec == "!":
                    ok = got.split() == ["ERR", "ERR", "ERR"]
                elif spec == "-":
                    t = got.split()
                    ok = len(t) == 3 and t[0] == t[1] == t[2] and not t[0].startswith("ERR")   # all three agree
                else:
                    want = mres.get(cid, "MISSING")
                    ok = got.split() == [want, want, want]
                    ctx.nontrivial.add(l)
                if not ok:
                    nfail += 1
                    ctx.failures.append({"correspondence": "files", "case": l, "model": mres.get(cid, ""), "impl": got,
                                         "build": f"{flavour}/{profile}"})
            case, got, got2 = nomap_case(ctx, b)
            t, t2 = got.split(), got2.split()
            ctx.evaluations += 2
            okn = len(t) == 3 and t[0] == t[1] == t[2] and not t[0].startswith("ERR") and t2 == t
            if not okn:
                nfail += 1
                ctx.failures.append({"correspondence": "files (mapping fails under RLIMIT_AS)", "case": case,
                                     "model": "update_reader = update_mmap = update_mmap_rayon, same as without the limit: " + got2,
                                     "impl": got, "build": f"{flavour}/{profile}"})
            ctx.nontrivial.add(case + " rlimit")
            ctx.stats[f"files/{flavour}/{profile}"] = {"cases": len(fl) + 2, "disagreements": nfail}
            ctx.log(f"correspondence files [{flavour}/{profile}]: {len(fl)} cases, {nfail} disagreements")


def classify(f):
    return None
