#!/usr/bin/env python3
"""Side module of tools/gen_coq.py: the platform DISPATCH layer (property C04).

gen_platform() returns the text of coq/gen/GenPlatform.v, regenerated from the current text of
  src/platform.rs   enum Platform, the MAX_SIMD_DEGREE / MAX_SIMD_DEGREE_OR_2 cfg_if ladders, Platform::detect(),
                    the *_detected() helpers, Platform::{simd_degree, compress_in_place, compress_xof, hash_many,
                    xof_many} (every match arm: patterns, cfg attributes, callee path, arguments as written)
  src/lib.rs        the `#[cfg(..)] #[path = ".."] mod X;` table (which file is `crate::sse41` in which build)
  c/blake3_dispatch.c  blake3_compress_in_place, blake3_compress_xof, blake3_xof_many, blake3_hash_many,
                    blake3_simd_degree (the ordered ladders: #if guards, feature test, callee, arguments)

Each function is emitted twice: as data (`list call_site`, Model/DispatchSyntax.v) and as an executable Gallina
function whose callees are `ext_` parameters named after the callee path (one per distinct callee), applied to the
arguments in the order written in the source.  Conventions (part of the trusted base of the translator):
  * a build is `cfgs : string -> bool`; an arm / statement under `#[cfg(c)]` exists iff `cfg_eval cfgs c`; the Rust
    functions return `option`: None = the matched variant has no arm in this build (it does not exist there);
  * parameters get the model's types by their SOURCE type (table RS_TYPES / C_TYPES): arrays and slices of words or
    bytes are `list N`, integers are `N`, `&[&[u8; N]]` / `const uint8_t *const *` is `list (list N)`;
    `out: &mut [u8]` is the capacity of `out` (hash_many: in CVs, xof_many: in blocks), as in Model/Platform.v;
    a C output pointer (`uint8_t out[64]`, `uint8_t *out`) is dropped from the Coq call (its position is still
    recorded in the argument order), the result is the function's value;
  * the one loop of the layer (the fallback of xof_many: `for .. { self.compress_xof(..); counter += 1 }` in Rust,
    `for (i..) blake3_compress_xof(.., counter + i, ..)` in C) is recognised as a whole and becomes `xof_many_loop`
    of Model/Platform.v over the callee with the arguments as written.
Anything else raises AnchorError (an extra statement, an arm that is not a single call, an argument that is not a
parameter, a repeated argument, an unknown type, an `#else` inside a ladder, ...).
"""
import os
import re
import sys

sys.path.insert(0, os.path.dirname(os.path.abspath(__file__)))
import gen_coq  # noqa: E402

AnchorError = gen_coq.AnchorError
READ = gen_coq.READ
src = gen_coq.src
strip_comments = gen_coq.strip_comments


def err(msg):
    raise AnchorError("platform dispatch: " + msg)


# ---------------------------------------------------------------------------------------------------------------
# small scanning helpers
# ---------------------------------------------------------------------------------------------------------------
def match_close(text, i, name, op="{", cl="}"):
    """index of the bracket closing the one at text[i]"""
    if i >= len(text) or text[i] != op:
        err("%s: expected %r" % (name, op))
    depth = 0
    for j in range(i, len(text)):
        c = text[j]
        if c == op:
            depth += 1
        elif c == cl:
            depth -= 1
            if depth == 0:
                return j
    err("%s: unbalanced %s" % (name, op))


def skip_ws(text, i):
    while i < len(text) and text[i].isspace():
        i += 1
    return i


def split_top(s, sep=","):
    """split at separators outside (), [], {}, <> and string literals"""
    parts, depth, cur, instr = [], 0, "", False
    for c in s:
        if instr:
            cur += c
            if c == '"':
                instr = False
            continue
        if c == '"':
            instr = True
            cur += c
        elif c in "([{<":
            depth += 1
            cur += c
        elif c in ")]}>":
            depth -= 1
            cur += c
        elif c == sep and depth == 0:
            parts.append(cur)
            cur = ""
        else:
            cur += c
    if cur.strip():
        parts.append(cur)
    return [p.strip() for p in parts]


def norm(s):
    return re.sub(r"\s+", " ", s).strip()


def coq_str(s):
    if '"' in s or "\n" in s:
        err("string literal not representable: %r" % s)
    return '"' + s + '"'


def coq_strs(l):
    return "[" + "; ".join(coq_str(x) for x in l) + "]"


# ---------------------------------------------------------------------------------------------------------------
# cfg expressions (Rust `#[cfg(..)]` predicates, C `#if` conditions) -> Model/DispatchSyntax.v `cfg`
# ---------------------------------------------------------------------------------------------------------------
def parse_rs_cfg(s, name):
    s = s.strip()
    m = re.fullmatch(r"(any|all|not)\s*\((.*)\)", s, re.S)
    if m:
        subs = [parse_rs_cfg(p, name) for p in split_top(m.group(2))]
        if m.group(1) == "not":
            if len(subs) != 1:
                err("%s: not() with %d arguments" % (name, len(subs)))
            return ("not", subs[0])
        return (m.group(1), subs)
    m = re.fullmatch(r"([A-Za-z_]\w*)\s*=\s*\"([^\"]*)\"", s)
    if m:
        return ("atom", m.group(1) + "=" + m.group(2))
    if re.fullmatch(r"[A-Za-z_]\w*", s):
        return ("atom", s)
    err("%s: cfg predicate not understood: %r" % (name, s))


def parse_c_cond(s, name):
    s = s.strip()
    parts = split_top(s.replace("&&", "\x00"), "\x00")
    if len(parts) > 1:
        return ("all", [parse_c_cond(p, name) for p in parts])
    if "||" in s:
        err("%s: || in a preprocessor guard: %r" % (name, s))
    m = re.fullmatch(r"!\s*defined\s*\(\s*(\w+)\s*\)", s)
    if m:
        return ("not", ("atom", m.group(1)))
    m = re.fullmatch(r"defined\s*\(\s*(\w+)\s*\)", s)
    if m:
        return ("atom", m.group(1))
    m = re.fullmatch(r"(\w+)\s*==\s*(\d+)", s)
    if m:
        return ("atom", m.group(1) + "==" + m.group(2))
    err("%s: preprocessor condition not understood: %r" % (name, s))


def coq_cfg(c):
    if c[0] == "atom":
        return "CAtom " + coq_str(c[1])
    if c[0] == "not":
        return "CNot (" + coq_cfg(c[1]) + ")"
    return ("CAny [" if c[0] == "any" else "CAll [") + "; ".join(coq_cfg(x) for x in c[1]) + "]"


def coq_cfgs(l):
    return "[" + "; ".join(coq_cfg(c) for c in l) + "]"


def cond(cfgs, extra=None):
    """boolean Coq expression for `all these cfgs hold [and extra]`"""
    parts = []
    if cfgs:
        parts.append("cfgs_eval cfgs " + coq_cfgs(cfgs))
    if extra:
        parts.append(extra)
    return " && ".join(parts) if parts else "true"


def read_attrs(text, i, name, allow=()):
    """sequence of #[..] attributes starting at i -> (list of cfg ASTs, index after them)"""
    cfgs = []
    while True:
        i = skip_ws(text, i)
        if not text.startswith("#[", i):
            return cfgs, i
        j = match_close(text, i + 1, name, "[", "]")
        body = text[i + 2:j].strip()
        m = re.fullmatch(r"cfg\s*\((.*)\)", body, re.S)
        if m:
            cfgs.append(parse_rs_cfg(m.group(1), name))
        elif not any(re.fullmatch(a, body) for a in allow):
            err("%s: attribute not understood: #[%s]" % (name, body))
        i = j + 1


# ---------------------------------------------------------------------------------------------------------------
# Rust: src/platform.rs
# ---------------------------------------------------------------------------------------------------------------
RS_TYPES = {
    "&mut CVWords": "list N", "&CVWords": "list N", "&[u8; BLOCK_LEN]": "list N",
    "u8": "N", "u64": "N", "IncrementCounter": "bool", "&[&[u8; N]]": "list (list N)",
    "&mut [u8]": "N",   # capacity of `out` (hash_many: CVs, xof_many: blocks)
}
# method -> (generics as written, return type as written, Coq result type)
RS_METHODS = {
    "compress_in_place": ("", "", "list N"),
    "compress_xof": ("", "[u8; 64]", "list N"),
    "hash_many": ("<const N: usize>", "", "res (list (list N))"),
    "xof_many": ("", "", "res (list N)"),
}


def rs_enum(text):
    i = gen_coq.find1(r"pub\s+enum\s+Platform\s*\{", text, "rs_enum_Platform").end() - 1
    j = match_close(text, i, "rs_enum_Platform")
    body = text[i + 1:j]
    variants, k = [], 0
    while True:
        cfgs, k = read_attrs(body, k, "rs_enum_Platform", allow=(r"allow\(non_camel_case_types\)",))
        k = skip_ws(body, k)
        if k >= len(body):
            if cfgs:
                err("rs_enum_Platform: dangling attributes")
            break
        m = re.compile(r"([A-Za-z_]\w*)\s*(,|$)").match(body, k)
        if not m:
            err("rs_enum_Platform: variant not understood near %r" % body[k:k + 40])
        variants.append((m.group(1), cfgs))
        k = m.end()
    if len(variants) < 2 or len(set(v for v, _ in variants)) != len(variants):
        err("rs_enum_Platform: variants")
    return variants


def rs_method(text, name):
    """-> (params [(name, rust type)], return type text, generics text, body text)"""
    m = gen_coq.find1(r"pub\s+fn\s+" + name + r"\s*(<[^>]*>)?\s*\(", text, "rs_Platform::" + name)
    generics = norm(m.group(1) or "")
    i = m.end() - 1
    j = match_close(text, i, name, "(", ")")
    params = split_top(text[i + 1:j])
    if not params or norm(params[0]) != "&self":
        err("%s: first parameter is not &self" % name)
    ps = []
    for p in params[1:]:
        mm = re.fullmatch(r"(mut\s+)?([a-z_]\w*)\s*:\s*(.*)", p, re.S)
        if not mm:
            err("%s: parameter not understood: %r" % (name, p))
        ps.append((mm.group(2), norm(mm.group(3))))
    k = skip_ws(text, j + 1)
    ret = ""
    if text.startswith("->", k):
        b = text.index("{", k)
        ret = norm(text[k + 2:b])
        k = b
    e = match_close(text, k, name)
    return ps, ret, generics, text[k + 1:e]


def rs_match_arms(body, name, variants):
    """the `match self { .. }` of a method body -> (text before, arms, text after).
    arm = dict(pats, cfgs, unsafe, kind ('expr'|'block'), text)"""
    m = re.search(r"\bmatch\s+self\s*\{", body)
    if not m or re.search(r"\bmatch\b", body[m.end():].split("=>")[0]):
        err("%s: no `match self {`" % name)
    i = m.end() - 1
    j = match_close(body, i, name)
    inner, k, arms = body[i + 1:j], 0, []
    vnames = [v for v, _ in variants]
    while True:
        cfgs, k = read_attrs(inner, k, name)
        k = skip_ws(inner, k)
        if k >= len(inner):
            if cfgs:
                err("%s: dangling attributes after the last arm" % name)
            break
        a = inner.find("=>", k)
        if a < 0:
            err("%s: arm without => near %r" % (name, inner[k:k + 40]))
        pats = []
        for p in inner[k:a].split("|"):
            p = p.strip()
            if p == "_":
                pats.append("_")
                continue
            mm = re.fullmatch(r"Platform::(\w+)", p)
            if not mm or mm.group(1) not in vnames:
                err("%s: pattern not understood: %r" % (name, p))
            pats.append(mm.group(1))
        k = skip_ws(inner, a + 2)
        unsafe = False
        mm = re.compile(r"unsafe\s*(?=\{)").match(inner, k)
        if mm:
            unsafe, k = True, mm.end()
        if inner.startswith("{", k):
            e = match_close(inner, k, name)
            text, kind, k = inner[k + 1:e].strip(), "block", e + 1
            k = skip_ws(inner, k)
            if inner.startswith(",", k):
                k += 1
        else:
            # expression up to the top-level comma
            depth, e = 0, k
            while e < len(inner) and not (inner[e] == "," and depth == 0):
                if inner[e] in "([{":
                    depth += 1
                elif inner[e] in ")]}":
                    depth -= 1
                e += 1
            text, kind, k = inner[k:e].strip(), "expr", e + 1
        arms.append({"pats": pats, "cfgs": cfgs, "unsafe": unsafe, "kind": kind, "text": text})
    if not arms:
        err("%s: match without arms" % name)
    return body[:m.start()], arms, body[j + 1:]


def parse_call(text, params, name, drop_ok=False):
    """`path(args)` with every argument a distinct parameter name, all parameters used -> (callee, args, order)"""
    m = re.fullmatch(r"([A-Za-z_][\w]*(?:::[A-Za-z_]\w*)*)\s*\((.*)\)", text.strip(), re.S)
    if not m:
        err("%s: body is not a single call: %r" % (name, norm(text)[:80]))
    args = split_top(m.group(2))
    pnames = [p for p, _ in params]
    order = []
    for a in args:
        if a not in pnames:
            err("%s: argument %r of %s is not a parameter of the enclosing function" % (name, a, m.group(1)))
        order.append(pnames.index(a))
    if len(set(order)) != len(order):
        err("%s: repeated argument in the call of %s" % (name, m.group(1)))
    if len(order) != len(pnames):
        err("%s: the call of %s passes %d of %d parameters" % (name, m.group(1), len(order), len(pnames)))
    return m.group(1), args, order


def ext_name(callee):
    return "ext_" + callee.replace("::", "_")


def check_arm_coverage(arms, variants, name, wildcard_ok):
    """every variant in exactly one arm (besides a final wildcard); the arm's cfgs are the variant's cfgs
    (plus extra ones only when a wildcard follows)"""
    seen = {}
    vc = dict(variants)
    has_wild = False
    for idx, a in enumerate(arms):
        if "_" in a["pats"]:
            if not wildcard_ok or idx != len(arms) - 1 or a["pats"] != ["_"] or a["cfgs"]:
                err("%s: wildcard arm not allowed here" % name)
            has_wild = True
            continue
        for p in a["pats"]:
            if p in seen:
                err("%s: variant %s matched by two arms" % (name, p))
            seen[p] = a
    for a in arms:
        for p in a["pats"]:
            if p == "_":
                continue
            need = vc[p]
            extra = [c for c in a["cfgs"] if c not in need]
            missing = [c for c in need if c not in a["cfgs"]]
            if len(a["pats"]) > 1:
                # an or-pattern: the arm's cfgs must imply every variant's cfgs; here: be equal to them
                pass
            if missing:
                err("%s: arm of %s lacks the variant's cfg %s" % (name, p, coq_cfg(missing[0])))
            if extra and not has_wild:
                err("%s: arm of %s has a cfg the variant does not have (%s) and there is no wildcard arm"
                    % (name, p, coq_cfg(extra[0])))
    if not has_wild:
        for v, _ in variants:
            if v not in seen:
                err("%s: no arm for variant %s" % (name, v))
    return has_wild


def rs_sig(params, name):
    tys = []
    for p, t in params:
        if t not in RS_TYPES:
            err("%s: parameter %s has a type the translator has no model type for: %r" % (name, p, t))
        tys.append(RS_TYPES[t])
    return tys


def emit_arm_data(defname, sites):
    rows = []
    for s in sites:
        rows.append("mkCall %s %s %s %s %s %s [%s]" % (
            coq_strs(s["pats"]), coq_cfgs(s["cfgs"]),
            ("(Some (%s))" % s["test"]) if s.get("test") else "None",
            "true" if s.get("unsafe") else "false",
            coq_str(s["callee"]), coq_strs(s["args"]), "; ".join(str(x) for x in s["order"])))
    return "Definition %s : list call_site :=\n  [" % defname + ";\n   ".join(rows) + "].\n"


def gen_rs_compress_like(text, variants, name, out):
    params, ret, generics, body = rs_method(text, name)
    exp_gen, exp_ret, coq_ret = RS_METHODS[name]
    if generics != exp_gen or ret != exp_ret:
        err("%s: signature changed (generics %r, return type %r)" % (name, generics, ret))
    tys = rs_sig(params, name)
    before, arms, after = rs_match_arms(body, name, variants)
    if before.strip() or after.strip():
        err("%s: statements besides the match: %r" % (name, norm(before + after)[:80]))
    check_arm_coverage(arms, variants, name, wildcard_ok=False)
    sites, callees = [], []
    for a in arms:
        callee, args, order = parse_call(a["text"], params, name)
        sites.append(dict(a, callee=callee, args=args, order=order))
        if callee not in callees:
            callees.append(callee)
    callees.sort()   # canonical order: a swapped callee must not reorder the ext_ parameters
    out.append("(* Platform::%s%s(&self, %s)%s *)\n" % (name, generics, ", ".join("%s: %s" % p for p in params),
                                                        (" -> " + ret) if ret else ""))
    out.append("Definition src_platform_%s_params : list (string * string) :=\n  [%s].\n"
               % (name, "; ".join("(%s, %s)" % (coq_str(p), coq_str(t)) for p, t in params)))
    out.append(emit_arm_data("src_platform_%s_arms" % name, sites))
    fty = " -> ".join(tys + [coq_ret])
    binders = " ".join("(%s : %s)" % (p, t) for (p, _), t in zip(params, tys))
    out.append("Definition src_platform_%s (cfgs : string -> bool)\n    %s\n    (self : variant) %s : option (%s) :=\n  match self with\n"
               % (name, "\n    ".join("(%s : %s)" % (ext_name(c), fty) for c in callees), binders, coq_ret))
    for v, _ in variants:
        s = [x for x in sites if v in x["pats"]][0]
        call = "%s %s" % (ext_name(s["callee"]), " ".join(s["args"]))
        if s["cfgs"]:
            out.append("  | %s => if %s then Some (%s) else None\n" % (v, cond(s["cfgs"]), call))
        else:
            out.append("  | %s => Some (%s)\n" % (v, call))
    out.append("  end.\n\n")
    return params, callees


def gen_rs_simd_degree(text, variants, out):
    name = "simd_degree"
    params, ret, generics, body = rs_method(text, name)
    if params or ret != "usize" or generics:
        err("simd_degree: signature changed")
    before, arms, after = rs_match_arms(body, name, variants)
    if norm(before) != "let degree =" or norm(after) != "; debug_assert!(degree <= MAX_SIMD_DEGREE); degree":
        err("simd_degree: statements around the match changed: %r ... %r" % (norm(before), norm(after)))
    check_arm_coverage(arms, variants, name, wildcard_ok=False)
    rows = []
    for a in arms:
        if a["unsafe"] or a["kind"] != "expr" or not re.fullmatch(r"\d+", a["text"]):
            err("simd_degree: arm body is not a number: %r" % a["text"])
        rows.append((a["pats"], a["cfgs"], int(a["text"])))
    out.append("(* Platform::simd_degree: the arms in source order, then as a function; the source then checks\n"
               "   debug_assert!(degree <= MAX_SIMD_DEGREE) *)\n")
    out.append("Definition src_platform_simd_degree_arms : list (list string * list cfg * N) :=\n  ["
               + ";\n   ".join("(%s, %s, %d)" % (coq_strs(p), coq_cfgs(c), d) for p, c, d in rows) + "].\n")
    out.append("Definition src_platform_simd_degree (cfgs : string -> bool) (self : variant) : option N :=\n  match self with\n")
    for v, _ in variants:
        p, c, d = [r for r in rows if v in r[0]][0]
        if c:
            out.append("  | %s => if %s then Some %d else None\n" % (v, cond(c), d))
        else:
            out.append("  | %s => Some %d\n" % (v, d))
    out.append("  end.\n\n")


def gen_rs_xof_many(text, variants, cx_params, out):
    name = "xof_many"
    params, ret, generics, body = rs_method(text, name)
    exp_gen, exp_ret, coq_ret = RS_METHODS[name]
    if generics != exp_gen or ret != exp_ret:
        err("xof_many: signature changed")
    tys = rs_sig(params, name)
    before, arms, after = rs_match_arms(body, name, variants)
    if norm(before) != 'debug_assert_eq!(0, out.len() % BLOCK_LEN, "whole blocks only"); if out.is_empty() { return; }':
        err("xof_many: statements before the match changed: %r" % norm(before))
    if after.strip():
        err("xof_many: statements after the match: %r" % norm(after)[:80])
    if not check_arm_coverage(arms, variants, name, wildcard_ok=True):
        err("xof_many: the wildcard (fallback) arm is missing")
    sites, callees = [], []
    for a in arms[:-1]:
        callee, args, order = parse_call(a["text"], params, name)
        sites.append(dict(a, callee=callee, args=args, order=order))
        if callee not in callees:
            callees.append(callee)
    fb = arms[-1]
    m = re.fullmatch(r"for out_block in out\.chunks_exact_mut\(BLOCK_LEN\) \{ "
                     r"let out_array: &mut \[u8; BLOCK_LEN\] = out_block\.try_into\(\)\.unwrap\(\); "
                     r"\*out_array = (self\.compress_xof\s*\(.*?\)); counter \+= 1; \}", norm(fb["text"]))
    if fb["kind"] != "block" or fb["unsafe"] or not m:
        err("xof_many: fallback arm is not the loop over self.compress_xof: %r" % norm(fb["text"])[:120])
    lcallee, largs, lorder = parse_call(m.group(1).replace("self.", "self__", 1), cx_params, "xof_many fallback")
    if [p for p, _ in cx_params] != [p for p, _ in params[:-1]] or params[-1][0] != "out":
        err("xof_many: parameters are not those of compress_xof followed by `out`")
    sites.append(dict(fb, callee="self.compress_xof", args=largs, order=lorder))
    out.append("(* Platform::xof_many(&self, %s): `if out.is_empty() { return; }`, then the match; the wildcard arm is the\n"
               "   loop `for out_block in out.chunks_exact_mut(BLOCK_LEN) { *out_array = self.compress_xof(..); counter += 1; }`\n"
               "   = xof_many_loop (Model/Platform.v) over ext_self_compress_xof self; `out` is the number of blocks *)\n"
               % ", ".join("%s: %s" % p for p in params))
    out.append("Definition src_platform_xof_many_params : list (string * string) :=\n  [%s].\n"
               % "; ".join("(%s, %s)" % (coq_str(p), coq_str(t)) for p, t in params))
    out.append(emit_arm_data("src_platform_xof_many_arms", sites))
    fty = " -> ".join(tys + [coq_ret])
    cxty = " -> ".join(tys[:-1] + ["list N"])
    binders = " ".join("(%s : %s)" % (p, t) for (p, _), t in zip(params, tys))
    cxb = " ".join(p for p, _ in cx_params)
    fallback = "xof_many_loop (fun %s => ext_self_compress_xof self %s) %s (N.to_nat out)" % (
        cxb, " ".join(largs), cxb)
    out.append("Definition src_platform_xof_many (cfgs : string -> bool)\n    %s\n    (ext_self_compress_xof : variant -> %s)\n"
               "    (self : variant) %s : %s :=\n  if out =? 0 then Ok [] else\n  match self with\n"
               % ("\n    ".join("(%s : %s)" % (ext_name(c), fty) for c in callees), cxty, binders, coq_ret))
    for s in sites[:-1]:
        for v in s["pats"]:
            call = "%s %s" % (ext_name(s["callee"]), " ".join(s["args"]))
            out.append("  | %s => if %s then %s else %s\n" % (v, cond(s["cfgs"]), call, fallback))
    out.append("  | _ => %s\n  end.\n\n" % fallback)


def parse_cfg_if(text, i, name):
    """`cfg_if::cfg_if! { if #[cfg(c)] { B } else if #[cfg(c)] { B } else { B } }` at i -> (tree, index after).
    tree = [(cfg or None, sub)], sub = nested tree or ('const', NAME, value)"""
    m = re.compile(r"cfg_if::cfg_if!\s*\{").match(text, i)
    if not m:
        err("%s: expected cfg_if::cfg_if!" % name)
    end = match_close(text, m.end() - 1, name)
    inner, k, tree = text[m.end():end], 0, []

    def body(b):
        b = b.strip()
        if b.startswith("cfg_if::cfg_if!"):
            t, e = parse_cfg_if(b, 0, name)
            if b[e:].strip():
                err("%s: text after nested cfg_if" % name)
            return t
        mm = re.fullmatch(r"pub\s+const\s+(\w+)\s*:\s*usize\s*=\s*(\d+)\s*;", b)
        if not mm:
            err("%s: cfg_if body not understood: %r" % (name, norm(b)[:60]))
        return ("const", mm.group(1), int(mm.group(2)))

    first = True
    while True:
        k = skip_ws(inner, k)
        if k >= len(inner):
            break
        mm = re.compile(r"(else\s+)?if\s*#\[cfg\(" if not first else r"()if\s*#\[cfg\(").match(inner, k)
        if mm:
            if not first and not mm.group(1):
                err("%s: `if` without else" % name)
            p = mm.end() - 1
            q = match_close(inner, p, name, "(", ")")
            c = parse_rs_cfg(inner[p + 1:q], name)
            r = skip_ws(inner, q + 1)
            if not inner.startswith("]", r):
                err("%s: malformed #[cfg()]" % name)
            r = skip_ws(inner, r + 1)
            e = match_close(inner, r, name)
            tree.append((c, body(inner[r + 1:e])))
            k, first = e + 1, False
            continue
        mm = re.compile(r"else\s*(?=\{)").match(inner, k)
        if mm and not first:
            e = match_close(inner, mm.end(), name)
            tree.append((None, body(inner[mm.end() + 1:e])))
            k = e + 1
            if inner[k:].strip():
                err("%s: text after the final else" % name)
            break
        err("%s: cfg_if chain not understood near %r" % (name, inner[k:k + 40]))
    if not tree or tree[-1][0] is not None:
        err("%s: cfg_if chain without a final else" % name)
    return tree, end + 1


def cfg_if_consts(tree):
    names = set()
    for _, sub in tree:
        if isinstance(sub, tuple):
            names.add(sub[1])
        else:
            names |= cfg_if_consts(sub)
    return names


def emit_cfg_if(tree, ind):
    s = ""
    for idx, (c, sub) in enumerate(tree):
        val = str(sub[2]) if isinstance(sub, tuple) else "(" + emit_cfg_if(sub, ind + "  ") + ")"
        if c is None:
            s += val
        else:
            s += "if cfg_eval cfgs (%s) then %s\n%selse " % (coq_cfg(c), val, ind)
    return s


def gen_rs_max_degree(text, out):
    pos = 0
    found = {}
    for m in re.finditer(r"cfg_if::cfg_if!\s*\{", text):
        if m.start() < pos:
            continue   # nested
        tree, pos = parse_cfg_if(text, m.start(), "rs_MAX_SIMD_DEGREE")
        names = cfg_if_consts(tree)
        if len(names) != 1:
            err("rs_MAX_SIMD_DEGREE: a cfg_if ladder defines %s" % sorted(names))
        n = names.pop()
        if n in found:
            err("rs_MAX_SIMD_DEGREE: %s defined by two ladders" % n)
        found[n] = tree
    if sorted(found) != ["MAX_SIMD_DEGREE", "MAX_SIMD_DEGREE_OR_2"]:
        err("rs_MAX_SIMD_DEGREE: ladders found: %s" % sorted(found))
    out.append("(* the cfg_if ladders of the two constants, arms in source order *)\n")
    for n in ("MAX_SIMD_DEGREE", "MAX_SIMD_DEGREE_OR_2"):
        out.append("Definition src_%s (cfgs : string -> bool) : N :=\n  %s.\n" % (n, emit_cfg_if(found[n], "  ")))
    out.append("\n")


def gen_rs_helpers(text, out):
    """pub fn X_detected() -> bool { if cfg!(c) { return false; }* cpufeatures::new!(id, "f", ..); id::get() }"""
    helpers = {}
    out.append("(* the feature-test helpers: short-circuits in source order, then the cpufeatures query (all listed\n"
               "   CPU features must be present); `cpu` answers for one cpufeatures name *)\n")
    for m in re.finditer(r"((?:#\[[^\]]*\]\s*)*)pub\s+fn\s+(\w+_detected)\s*\(\s*\)\s*->\s*bool\s*\{", text):
        hname = m.group(2)
        cfgs, _ = read_attrs(m.group(1), 0, hname, allow=(r"inline\(always\)",))
        e = match_close(text, m.end() - 1, hname)
        body, k, shorts = text[m.end():e], 0, []
        while True:
            k = skip_ws(body, k)
            mm = re.compile(r"if\s+cfg!\s*\(").match(body, k)
            if not mm:
                break
            q = match_close(body, mm.end() - 1, hname, "(", ")")
            c = parse_rs_cfg(body[mm.end():q], hname)
            mm2 = re.compile(r"\s*\{\s*return\s+false\s*;\s*\}").match(body, q + 1)
            if not mm2:
                err("%s: short-circuit is not `{ return false; }`" % hname)
            shorts.append(c)
            k = mm2.end()
        mm = re.fullmatch(r"cpufeatures::new!\s*\(\s*(\w+)\s*,\s*((?:\"[^\"]+\"\s*,?\s*)+)\)\s*;\s*(\w+)::get\s*\(\s*\)",
                          body[k:].strip(), re.S)
        if not mm or mm.group(1) != mm.group(3):
            err("%s: tail is not `cpufeatures::new!(id, ..); id::get()`: %r" % (hname, norm(body[k:])[:80]))
        feats = re.findall(r"\"([^\"]+)\"", mm.group(2))
        if hname in helpers:
            err("%s defined twice" % hname)
        helpers[hname] = (cfgs, shorts, feats)
        out.append("Definition src_%s_cfgs : list cfg := %s.\n" % (hname, coq_cfgs(cfgs)))
        out.append("Definition src_%s_features : list string := %s.\n" % (hname, coq_strs(feats)))
        s = "Definition src_%s (cfgs : string -> bool) (cpu : string -> bool) : bool :=\n  " % hname
        for c in shorts:
            s += "if cfg_eval cfgs (%s) then false else\n  " % coq_cfg(c)
        s += "forallb cpu src_%s_features.\n" % hname
        out.append(s)
    if not helpers:
        err("no *_detected helper found")
    out.append("\n")
    return helpers


def gen_rs_detect(text, variants, helpers, out):
    m = gen_coq.find1(r"pub\s+fn\s+detect\s*\(\s*\)\s*->\s*Self\s*\{", text, "rs_Platform::detect")
    e = match_close(text, m.end() - 1, "detect")
    vnames = [v for v, _ in variants]
    vc = dict(variants)
    steps = []
    done = [False]

    def variant(v, stack):
        if v not in vnames:
            err("detect: unknown variant %s" % v)
        for c in vc[v]:
            if c not in stack:
                err("detect: returns %s outside the variant's cfg %s" % (v, coq_cfg(c)))
        return v

    def block(b, stack, top):
        k = 0
        while True:
            cfgs, k = read_attrs(b, k, "detect")
            k = skip_ws(b, k)
            if k >= len(b):
                if cfgs:
                    err("detect: dangling attributes")
                return
            if done[0]:
                err("detect: code after the final expression: %r" % norm(b[k:])[:60])
            if b.startswith("{", k):
                q = match_close(b, k, "detect")
                block(b[k + 1:q], stack + cfgs, False)
                k = q + 1
                continue
            if cfgs:
                err("detect: cfg attribute on something that is not a block: %r" % norm(b[k:])[:60])
            mm = re.compile(r"if\s+let\s+Some\s*\(\s*forced\s*\)\s*=\s*VERIF_FORCED_PLATFORM\s*\.with\s*\(\s*\|cell\|\s*cell\.get\(\)\s*\)\s*"
                            r"\{\s*return\s+forced\s*;\s*\}").match(b, k)
            if mm:
                steps.append((stack, ("forced",), None))
                k = mm.end()
                continue
            mm = re.compile(r"if\s+(\w+)\s*\(\s*\)\s*\{\s*return\s+Platform::(\w+)\s*;\s*\}").match(b, k)
            if mm:
                h = mm.group(1)
                if h not in helpers:
                    err("detect: test %s() is not a translated helper" % h)
                for c in helpers[h][0]:
                    if c not in stack:
                        err("detect: %s() called outside the helper's cfg %s" % (h, coq_cfg(c)))
                steps.append((stack, ("helper", h), variant(mm.group(2), stack)))
                k = mm.end()
                continue
            mm = re.compile(r"return\s+Platform::(\w+)\s*;").match(b, k)
            if mm:
                steps.append((stack, ("always",), variant(mm.group(1), stack)))
                k = mm.end()
                if b[k:].strip():
                    err("detect: code after an unconditional return in the same block")
                return
            mm = re.compile(r"Platform::(\w+)\s*$").match(b, k)
            if mm and top:
                steps.append((stack, ("always",), variant(mm.group(1), stack)))
                done[0] = True
                return
            err("detect: statement not understood: %r" % norm(b[k:])[:80])

    block(text[m.end():e], [], True)
    if not done[0] or steps[-1][0]:
        err("detect: no unconditional final expression")
    out.append("(* Platform::detect(): the decision list in source order (cfgs around the statement, test, result; None =\n"
               "   the forced variant of the verification hook), then as a function.  `forced` is the thread-local of\n"
               "   the hook (consulted only under its cfg), `cpu` answers the cpufeatures queries *)\n")
    rows = []
    for stack, t, v in steps:
        tt = {"forced": "TForced", "always": "TAlways"}.get(t[0]) or "THelper " + coq_str(t[1])
        rows.append("(%s, %s, %s)" % (coq_cfgs(stack), tt, ("Some " + v) if v else "None"))
    out.append("Definition src_detect_steps : list (list cfg * dtest * option variant) :=\n  [" + ";\n   ".join(rows) + "].\n")
    s = "Definition src_detect (cfgs : string -> bool) (cpu : string -> bool) (forced : option variant) : variant :=\n"
    closers = ""
    for stack, t, v in steps[:-1]:
        if t[0] == "forced":
            s += "  match (if %s then forced else None) with Some v => v | None =>\n" % cond(stack)
            closers += " end"
        elif t[0] == "helper":
            s += "  if %s then %s else\n" % (cond(stack, "src_%s cfgs cpu" % t[1]), v)
        else:
            s += "  if %s then %s else\n" % (cond(stack), v)
    s += "  %s%s.\n\n" % (steps[-1][2], closers)
    out.append(s)


def gen_rs_mods(out):
    lib = strip_comments(src("src/lib.rs"))
    rows = []
    for m in re.finditer(r"((?:#\[[^\]]*\]\s*)*)(?:pub(?:\([a-z]+\))?\s+)?mod\s+(\w+)\s*;", lib):
        attrs = m.group(1)
        pm = re.search(r"#\[path\s*=\s*\"([^\"]+)\"\]", attrs)
        if not pm:
            continue
        cfgs, _ = read_attrs(re.sub(r"#\[path\s*=\s*\"[^\"]+\"\]", "", attrs), 0, "lib.rs mod " + m.group(2))
        rows.append((cfgs, m.group(2), pm.group(1)))
    if not re.search(r"^mod\s+portable\s*;", lib, re.M):
        err("lib.rs: `mod portable;` (unconditional) not found")
    if len(rows) < 7:
        err("lib.rs: #[path] module table has only %d rows" % len(rows))
    out.append("(* src/lib.rs: the `#[cfg(..)] #[path = \"..\"] mod X;` items in source order (cfgs, module, file);\n"
               "   `mod portable;` is unconditional *)\n")
    out.append("Definition src_mod_table : list (list cfg * string * string) :=\n  ["
               + ";\n   ".join("(%s, %s, %s)" % (coq_cfgs(c), coq_str(mn), coq_str(f)) for c, mn, f in rows) + "].\n")
    out.append("Definition src_mod_files (cfgs : string -> bool) (m : string) : list string :=\n"
               "  map snd (filter (fun e => cfgs_eval cfgs (fst (fst e)) && String.eqb (snd (fst e)) m) src_mod_table).\n\n")


# ---------------------------------------------------------------------------------------------------------------
# C: c/blake3_dispatch.c
# ---------------------------------------------------------------------------------------------------------------
C_TYPES = {
    "uint32_t cv[8]": ("cv", "list N"), "const uint32_t cv[8]": ("cv", "list N"),
    "const uint32_t key[8]": ("key", "list N"),
    "const uint8_t block[BLAKE3_BLOCK_LEN]": ("block", "list N"),
    "uint8_t block_len": ("block_len", "N"), "uint64_t counter": ("counter", "N"), "uint8_t flags": ("flags", "N"),
    "uint8_t flags_start": ("flags_start", "N"), "uint8_t flags_end": ("flags_end", "N"),
    "bool increment_counter": ("increment_counter", "bool"),
    "const uint8_t *const *inputs": ("inputs", "list (list N)"),
    "size_t num_inputs": ("num_inputs", "N"), "size_t blocks": ("blocks", "N"), "size_t outblocks": ("outblocks", "N"),
    "uint8_t out[64]": ("out", None), "uint8_t *out": ("out", None),   # output pointers: dropped
}
C_FUNCS = [("blake3_compress_in_place", "void", "list N"), ("blake3_compress_xof", "void", "list N"),
           ("blake3_xof_many", "void", "res (list N)"), ("blake3_hash_many", "void", "res (list (list N))"),
           ("blake3_simd_degree", "size_t", "N")]


def c_function(text, fname, ret):
    m = gen_coq.find1(r"(?m)^" + ret + r"\s+" + fname + r"\s*\(", text, "c_" + fname)
    j = match_close(text, m.end() - 1, fname, "(", ")")
    ptxt = norm(text[m.end():j])
    params = []
    if ptxt != "void":
        for p in split_top(ptxt):
            p = norm(p)
            if p not in C_TYPES:
                err("%s: parameter not understood: %r" % (fname, p))
            params.append(C_TYPES[p] + (p,))
    k = skip_ws(text, j + 1)
    e = match_close(text, k, fname)
    return params, text[k + 1:e]


def c_chunks(body, fname):
    """[(guard stack, statement text)] in source order; #else / #elif are rejected"""
    stack, chunks, cur = [], [], []

    def flush():
        t = " ".join(cur).strip()
        if t:
            chunks.append((list(stack), norm(t)))
        cur.clear()

    for line in body.split("\n"):
        t = line.strip()
        if t.startswith("#"):
            flush()
            mm = re.match(r"#\s*if\s+(.*)$", t)
            if mm:
                stack.append(parse_c_cond(mm.group(1), fname))
            elif re.match(r"#\s*endif\b", t):
                if not stack:
                    err("%s: #endif without #if" % fname)
                stack.pop()
            else:
                err("%s: preprocessor line not allowed inside a ladder: %r" % (fname, t))
        else:
            cur.append(t)
    flush()
    if stack:
        err("%s: unterminated #if" % fname)
    return chunks


def c_feature_bits(text):
    enum = gen_coq.fn_body(text, r"enum cpu_feature\s*\{", "c_cpu_feature_enum")
    bits = {}
    for name, sh in re.findall(r"(\w+)\s*=\s*1\s*<<\s*(\d+)", enum):
        bits[name] = 1 << int(sh)
    if len(bits) < 6:
        err("enum cpu_feature: bits")
    return bits


def c_test(texpr, bits, fname):
    t = texpr.replace(" ", "")
    m = re.fullmatch(r"features&(\w+)", t)
    if m:
        if m.group(1) not in bits or m.group(1) == "UNDEFINED":
            err("%s: unknown feature bit %s" % (fname, m.group(1)))
        return "FAny %d" % bits[m.group(1)], [m.group(1)]
    m = re.fullmatch(r"\(features&\((\w+(?:\|\w+)*)\)\)==\((\w+(?:\|\w+)*)\)", t)
    if m and m.group(1) == m.group(2):
        names = m.group(1).split("|")
        mask = 0
        for n in names:
            if n not in bits or n == "UNDEFINED":
                err("%s: unknown feature bit %s" % (fname, n))
            mask |= bits[n]
        return "FAll %d" % mask, names
    err("%s: feature test not understood: %r" % (fname, texpr))


def c_call(text, params, fname):
    """callee(args) with args = the parameters (each exactly once) -> (callee, coq args, all args, order)"""
    m = re.fullmatch(r"(\w+)\s*\((.*)\)", text.strip())
    if not m:
        err("%s: not a single call: %r" % (fname, text))
    args = split_top(m.group(2))
    pn = [p[0] for p in params]
    order = []
    for a in args:
        if a not in pn:
            err("%s: argument %r of %s is not a parameter" % (fname, a, m.group(1)))
        order.append(pn.index(a))
    if len(set(order)) != len(order) or len(order) != len(pn):
        err("%s: the call of %s does not pass every parameter exactly once" % (fname, m.group(1)))
    coq_args = [a for a in args if params[pn.index(a)][1] is not None]
    return m.group(1), coq_args, args, order


def gen_c_function(text, bits, fname, ret, coq_ret, out):
    params, body = c_function(text, fname, ret)
    chunks = c_chunks(body, fname)
    rungs = []      # (guards, test or None, action) action = ('call', callee, coq_args, args, order) | ('ret', n) | ('loop', ...)
    have_features = False
    early_zero = False
    final = None
    for stack, stmt in chunks:
        rest = stmt
        while rest:
            if final is not None:
                err("%s: code after the final statement: %r" % (fname, rest[:60]))
            m = re.match(r"const enum cpu_feature features = get_cpu_features\(\); ?", rest)
            if m:
                if have_features or rungs or ("atom", "IS_X86") not in stack:
                    err("%s: unexpected place for the get_cpu_features() call" % fname)
                have_features = True
                rest = rest[m.end():]
                continue
            m = re.match(r"MAYBE_UNUSED\(features\); ?", rest)
            if m:
                rest = rest[m.end():]
                continue
            m = re.match(r"if \(outblocks == 0\) \{ return; \} ?", rest)
            if m and fname == "blake3_xof_many" and not rungs and not have_features and not stack:
                early_zero = True
                rest = rest[m.end():]
                continue
            m = re.match(r"if \((.*?)\) \{ (.*?) \} ?", rest)
            if m:
                if not have_features or ("atom", "IS_X86") not in stack:
                    err("%s: feature test before get_cpu_features() / outside IS_X86" % fname)
                test, _ = c_test(m.group(1), bits, fname)
                inner = m.group(2)
                if ret == "size_t":
                    mm = re.fullmatch(r"return (\d+);", inner)
                    if not mm:
                        err("%s: rung body is not `return N;`: %r" % (fname, inner))
                    rungs.append((stack, test, ("ret", int(mm.group(1)))))
                else:
                    mm = re.fullmatch(r"(.*\)); return;", inner)
                    if not mm:
                        err("%s: rung body is not `call(..); return;`: %r" % (fname, inner))
                    rungs.append((stack, test, ("call",) + c_call(mm.group(1), params, fname)))
                rest = rest[m.end():]
                continue
            m = re.match(r"for ?\(size_t i = 0; i < outblocks; \+\+i\) \{ (\w+)\(cv, block, block_len, counter \+ i, flags, out \+ 64\*i\); \} ?$", rest)
            if m and fname == "blake3_xof_many" and not stack:
                final = ("loop", m.group(1))
                rest = ""
                continue
            if ret == "size_t":
                m = re.match(r"return (\d+); ?", rest)
                if m:
                    if stack:
                        rungs.append((stack, None, ("ret", int(m.group(1)))))
                    else:
                        final = ("ret", int(m.group(1)))
                    rest = rest[m.end():]
                    continue
            else:
                m = re.match(r"(\w+\([^;]*\)); return; ?", rest)
                if m and stack:
                    rungs.append((stack, None, ("call",) + c_call(m.group(1), params, fname)))
                    rest = rest[m.end():]
                    continue
                m = re.match(r"(\w+\([^;]*\)); ?$", rest)
                if m and not stack:
                    final = ("call",) + c_call(m.group(1), params, fname)
                    rest = ""
                    continue
            err("%s: statement not understood: %r" % (fname, rest[:80]))
    if final is None:
        err("%s: no final (portable) statement" % fname)
    if fname == "blake3_xof_many" and (not early_zero or final[0] != "loop"):
        err("blake3_xof_many: early return / fallback loop not found")
    short = fname.replace("blake3_", "")
    out.append("(* %s %s(%s) *)\n" % (ret, fname, ", ".join(p[2] for p in params) or "void"))
    # data
    if ret == "size_t":
        rows = ["(%s, %s, %d)" % (coq_cfgs(g), ("Some (%s)" % t) if t else "None", a[1]) for g, t, a in rungs]
        rows.append("([], None, %d)" % final[1])
        out.append("Definition src_c_%s_ladder : list (list cfg * option ftest * N) :=\n  [%s].\n" % (short, ";\n   ".join(rows)))
    else:
        sites = [dict(pats=[], cfgs=g, test=t, callee=a[1], args=a[3], order=a[4]) for g, t, a in rungs]
        if final[0] == "call":
            sites.append(dict(pats=[], cfgs=[], test=None, callee=final[1], args=final[3], order=final[4]))
        else:
            sites.append(dict(pats=[], cfgs=[], test=None, callee=final[1],
                              args=["cv", "block", "block_len", "counter + i", "flags", "out + 64*i"], order=[0, 1, 2, 3, 4, 5]))
        out.append(emit_arm_data("src_c_%s_ladder" % short, sites))
    # function
    cparams = [p for p in params if p[1] is not None]
    binders = " ".join("(%s : %s)" % (p[0], p[1]) for p in cparams)
    if ret == "size_t":
        s = "Definition src_c_%s (defs : string -> bool) (features : N) : N :=\n" % short
        for g, t, a in rungs:
            s += "  if %s then %d else\n" % (cond(g, ("ftest_eval features (%s)" % t) if t else None).replace("cfgs_eval cfgs", "cfgs_eval defs"), a[1])
        s += "  %d.\n\n" % final[1]
        out.append(s)
        return
    fty = " -> ".join([p[1] for p in cparams] + [coq_ret])
    callees = []
    for g, t, a in rungs:
        if a[1] not in callees:
            callees.append(a[1])
    if final[0] == "call":
        if final[1] not in callees:
            callees.append(final[1])
        fin = "%s %s" % (ext_name(final[1]), " ".join(final[2]))
        kinds = {c: fty for c in callees}
    else:
        kinds = {c: fty for c in callees}
        kinds[final[1]] = "list N -> list N -> N -> N -> N -> list N"
        fin = "xof_many_loop %s cv block block_len counter flags (N.to_nat outblocks)" % ext_name(final[1])
    # canonical (sorted) order: a swapped callee must not reorder the ext_ parameters
    exts = ["(%s : %s)" % (ext_name(c), kinds[c]) for c in sorted(kinds)]
    s = "Definition src_c_%s (defs : string -> bool)\n    %s\n    (features : N) %s : %s :=\n" % (
        short, "\n    ".join(exts), binders, coq_ret)
    if early_zero:
        s += "  if outblocks =? 0 then Ok [] else\n"
    for g, t, a in rungs:
        c = cond(g, ("ftest_eval features (%s)" % t) if t else None).replace("cfgs_eval cfgs", "cfgs_eval defs")
        s += "  if %s then %s %s else\n" % (c, ext_name(a[1]), " ".join(a[2]))
    s += "  %s.\n\n" % fin
    out.append(s)


# ---------------------------------------------------------------------------------------------------------------
def gen_platform():
    out = ["(* GENERATED by tools/gen_coq_platform.py (side module of tools/gen_coq.py) from the /repo working tree.\n"
           "   Do not edit.  The platform dispatch layer: src/platform.rs, the module table of src/lib.rs,\n"
           "   c/blake3_dispatch.c.  Conventions: see the docstring of the generator and Model/DispatchSyntax.v. *)\n"
           "From Coq Require Import NArith List Bool String.\n"
           "From V Require Import Base.Res Model.Platform Model.DispatchSyntax.\n"
           "Import ListNotations.\nOpen Scope string_scope.\nOpen Scope N_scope.\n\n"]
    text = strip_comments(src("src/platform.rs"))
    variants = rs_enum(text)
    out.append("(* enum Platform, variants in source order, and the cfg attributes of each *)\n")
    out.append("Inductive variant : Type := " + " | ".join(v for v, _ in variants) + ".\n")
    out.append("Definition variant_name (v : variant) : string :=\n  match v with "
               + " | ".join("%s => %s" % (v, coq_str(v)) for v, _ in variants) + " end.\n")
    out.append("Definition all_variants : list variant := [" + "; ".join(v for v, _ in variants) + "].\n")
    out.append("Definition variant_cfgs (v : variant) : list cfg :=\n  match v with\n"
               + "".join("  | %s => %s\n" % (v, coq_cfgs(c)) for v, c in variants) + "  end.\n")
    out.append("Definition variant_exists (cfgs : string -> bool) (v : variant) : bool := cfgs_eval cfgs (variant_cfgs v).\n\n")
    gen_rs_max_degree(text, out)
    helpers = gen_rs_helpers(text, out)
    gen_rs_detect(text, variants, helpers, out)
    gen_rs_simd_degree(text, variants, out)
    gen_rs_compress_like(text, variants, "compress_in_place", out)
    cx_params, _ = gen_rs_compress_like(text, variants, "compress_xof", out)
    gen_rs_compress_like(text, variants, "hash_many", out)
    gen_rs_xof_many(text, variants, cx_params, out)
    gen_rs_mods(out)
    ctext = strip_comments(src("c/blake3_dispatch.c"))
    bits = c_feature_bits(ctext)
    out.append("(* c/blake3_dispatch.c: enum cpu_feature *)\n")
    for n, b in bits.items():
        if n != "UNDEFINED":
            out.append("Definition src_c_feature_%s : N := %d.\n" % (n, b))
    out.append("\n")
    for fname, ret, coq_ret in C_FUNCS:
        gen_c_function(ctext, bits, fname, ret, coq_ret, out)
    return "".join(out)


if __name__ == "__main__":
    try:
        t = gen_platform()
    except AnchorError as e:
        print("AnchorError:", e)
        sys.exit(1)
    changed = gen_coq.write_if_changed(os.path.join(gen_coq.OUT, "GenPlatform.v"), t)
    print("GenPlatform.v", "changed" if changed else "unchanged")
