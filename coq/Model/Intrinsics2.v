(* Semantics of the intrinsics that only the code translated in gen/GenKern2.v uses (the stores at the end of
   blake3_hash16_avx512), as a reading of the Intel Intrinsics Guide, in the conventions of Model/Intrinsics.v:
   a register is the list of its 32-bit lanes (lane 0 = bits 31:0), a byte pointer is a pair (byte list, offset),
   an integer argument is a Z of which the semantics keeps the low bits. *)
From Coq Require Import NArith ZArith List.
From V Require Import Base.Word Model.Kernels Model.Intrinsics.
Import ListNotations.
Open Scope N_scope.

(* __m256i _mm512_castsi512_si256 (__m512i a): "Cast vector of type __m512i to type __m256i.  This intrinsic is only
   used for compilation and does not generate any instructions": dst[255:0] := a[255:0], the low eight lanes *)
Definition mm512_castsi512_si256 (a : vec) : vec := firstn 8 a.

(* one 32-bit store: MEM[addr+31:addr] := x, little endian *)
Definition store32 (buf : list N) (off : nat) (x : N) : list N :=
  firstn off buf ++ bytes_of_word x ++ skipn (off + 4) buf.

(* void _mm256_mask_storeu_epi32 (void* mem_addr, __mmask8 k, __m256i a): "Store packed 32-bit integers from a into
   memory using writemask k.  mem_addr does not need to be aligned on any particular boundary."
     FOR j := 0 to 7
       i := j*32
       IF k[j]  MEM[mem_addr+i+31:mem_addr+i] := a[i+31:i]  FI
     ENDFOR
   k is the __mmask8 argument as an integer: bit j is Z.testbit k j *)
Definition mm256_mask_storeu_epi32 (buf : list N) (off : nat) (k : Z) (a : vec) : list N :=
  fold_left (fun b j => if Z.testbit k (Z.of_nat j) then store32 b (off + 4 * j) (nth j a 0) else b) (seq 0 8) buf.
