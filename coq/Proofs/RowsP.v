(* The row-vectorised single-block compression as TRANSLATED from the sources (gen/GenRows.v, terms over
   Model/Intrinsics.v): g1, g2, diagonalize, undiagonalize, compress_pre, compress_in_place, compress_xof of
   src/rust_sse41.rs, src/rust_sse2.rs, c/blake3_sse2.c, c/blake3_sse41.c, c/blake3_avx512.c equal the hand-written
   models of Model/Kernels.v section 7 (g1r, g2r, diagonalize, undiagonalize, compress_pre_rows,
   compress_in_place_rows, compress_xof_rows), which Proofs/KernelsP.v proves equal to the portable compression.
   Everything is symbolic: cv, block, counter, block_len, flags and all registers are variables.
     A  words, bytes, memory images
     B  registers of four 32-bit lanes (`reg 4`): closure of the model operations
     C  the intrinsics with the immediates of the sources = the model shuffles / blends
     D  the statement sequence of the sources in model operations (`flat_pre`), equal to compress_pre_rows
     E  lockstep: a translated compress_pre, one statement at a time, against flat_pre
     F  the stores of compress_in_place / compress_xof and the transmute
     G  the five files
     H  corollaries: equal to Portable.compress_in_place / compress_xof
   Domain (`row_dom`): cv is 8 words below 2^32, block is 64 bytes below 256, block_len and flags are below 2^32
   (they are u8 / uint8_t in the sources).  g1 / g2 / diagonalize / undiagonalize of the Rust files and of
   blake3_avx512.c equal the models on all lists; those of blake3_sse2.c / blake3_sse41.c (byte / 16-bit shuffles,
   shift pairs joined by XOR) on registers of 32-bit lanes. *)
From Coq Require Import NArith ZArith List Bool Arith Lia.
From V Require Import Base.Res Base.Word Base.MachInt gen.GenConsts gen.GenFormulas Model.Portable Model.Kernels
  Model.Intrinsics gen.GenCounters gen.GenRounds gen.GenRows Proofs.KernelsP Proofs.CountersP Proofs.RoundsP Proofs.BlendP.
Import ListNotations.
Open Scope N_scope.

(* ------------------------------------------------------------------ *)
(* A. words, bytes, memory images                                      *)
(* ------------------------------------------------------------------ *)
Lemma word_roundtrip x : W x -> word_of_bytes4 (byte_n x 0) (byte_n x 1) (byte_n x 2) (byte_n x 3) = x.
Proof. intros Hx. bitblast [8; 16; 24; 32]. Qed.
(* the two 16-bit halves of a 32-bit lane, put together again *)
Lemma halves_id x : W x -> N.lor (N.land x 65535) (N.shiftl (N.land (N.shiftr x 16) 65535) 16) = x.
Proof. intros Hx. bitblast [16; 32]. Qed.

Lemma W_byte_n x i : W (byte_n x i).
Proof. pose proof (byte_n_lt x i). unfold W. lia. Qed.

Ltac explicit l n H := lanes_of l n H; forall_inv.

(* ------------------------------------------------------------------ *)
(* B. registers of four 32-bit lanes                                   *)
(* ------------------------------------------------------------------ *)
Lemma reg_vadd n a b : reg n a -> reg n b -> reg n (vadd a b).
Proof.
  intros [La Wa] [Lb Wb]. split; [unfold vadd, vmap2; rewrite map_length, combine_length, La, Lb; apply Nat.min_id|].
  apply vmap2_W. intros. apply W_w32.
Qed.
Lemma reg_vxor n a b : reg n a -> reg n b -> reg n (vxor a b).
Proof.
  intros [La Wa] [Lb Wb]. split; [unfold vxor, vmap2; rewrite map_length, combine_length, La, Lb; apply Nat.min_id|].
  apply vmap2_W. intros x y Hx Hy. rewrite Forall_forall in Wa, Wb. apply W_lxor; [apply Wa, Hx|apply Wb, Hy].
Qed.
Lemma reg_vrot n a k : reg n a -> reg n (vrot a k).
Proof.
  intros [La Wa]. split; [unfold vrot; rewrite map_length; exact La|].
  unfold vrot. apply Forall_forall. intros z Hz. apply in_map_iff in Hz. destruct Hz as (x & <- & Hx).
  rewrite Forall_forall in Wa. apply W_rotr32, Wa, Hx.
Qed.

Definition reg4x4 (r : rows) : Prop := let '(a, b, c, d) := r in reg 4 a /\ reg 4 b /\ reg 4 c /\ reg 4 d.
Definition reg4x3 (r : vec * vec * vec) : Prop := let '(a, b, c) := r in reg 4 a /\ reg 4 b /\ reg 4 c.

Lemma g1r_reg a b c d m : reg 4 a -> reg 4 b -> reg 4 c -> reg 4 d -> reg 4 m -> reg4x4 (g1r a b c d m).
Proof.
  intros Ha Hb Hc Hd Hm. unfold g1r, reg4x4. cbv zeta.
  refine (conj _ (conj _ (conj _ _))); repeat first [ assumption | apply reg_vadd | apply reg_vxor | apply reg_vrot ].
Qed.
Lemma g2r_reg a b c d m : reg 4 a -> reg 4 b -> reg 4 c -> reg 4 d -> reg 4 m -> reg4x4 (g2r a b c d m).
Proof.
  intros Ha Hb Hc Hd Hm. unfold g2r, reg4x4. cbv zeta.
  refine (conj _ (conj _ (conj _ _))); repeat first [ assumption | apply reg_vadd | apply reg_vxor | apply reg_vrot ].
Qed.

Ltac reg4_explicit :=
  repeat match goal with
  | H : reg 4 ?x |- _ => let L := fresh "L" in let F := fresh "F" in destruct H as [L F]; explicit x 4%nat L
  end.
Ltac reg4_done := split; [reflexivity | repeat constructor; assumption].

Lemma ln_W a k : Forall W a -> W (ln 0 a k).
Proof.
  intros H. unfold ln. destruct (nth_in_or_default k a 0) as [I|E]; [|rewrite E; reflexivity].
  rewrite Forall_forall in H. apply H, I.
Qed.
Lemma shuffle2_reg a b z y x w : reg 4 a -> reg 4 b -> reg 4 (shuffle2 0 a b z y x w).
Proof. intros [_ Ha] [_ Hb]. split; [reflexivity|]. unfold shuffle2. repeat constructor; apply ln_W; assumption. Qed.
Lemma shuffle_epi32_reg a z y x w : reg 4 a -> reg 4 (shuffle_epi32 0 a z y x w).
Proof. intros [_ Ha]. split; [reflexivity|]. unfold shuffle_epi32. repeat constructor; apply ln_W; assumption. Qed.
Lemma blend_cc_reg a b : reg 4 a -> reg 4 b -> reg 4 (blend_epi16 0 a b 0xCC).
Proof. intros Ha Hb. reg4_explicit. reg4_done. Qed.
Lemma blend_c0_reg a b : reg 4 a -> reg 4 b -> reg 4 (blend_epi16 0 a b 0xC0).
Proof. intros Ha Hb. reg4_explicit. reg4_done. Qed.
Lemma unpacklo64_reg a b : reg 4 a -> reg 4 b -> reg 4 (unpacklo64 0 a b).
Proof. intros Ha Hb. reg4_explicit. reg4_done. Qed.
Lemma unpackhi32_reg a b : reg 4 a -> reg 4 b -> reg 4 (unpackhi32 0 a b).
Proof. intros Ha Hb. reg4_explicit. reg4_done. Qed.
Lemma unpacklo32_reg a b : reg 4 a -> reg 4 b -> reg 4 (unpacklo32 0 a b).
Proof. intros Ha Hb. reg4_explicit. reg4_done. Qed.

Lemma diagonalize_reg a b c : reg 4 a -> reg 4 b -> reg 4 c -> reg4x3 (diagonalize a b c).
Proof. intros Ha Hb Hc. unfold diagonalize, reg4x3. refine (conj _ (conj _ _)); apply shuffle_epi32_reg; assumption. Qed.
Lemma undiagonalize_reg a b c : reg 4 a -> reg 4 b -> reg 4 c -> reg4x3 (undiagonalize a b c).
Proof. intros Ha Hb Hc. unfold undiagonalize, reg4x3. refine (conj _ (conj _ _)); apply shuffle_epi32_reg; assumption. Qed.

Ltac reg_closure :=
  solve [repeat first [ assumption
                      | apply shuffle2_reg | apply shuffle_epi32_reg
                      | apply blend_cc_reg | apply blend_c0_reg
                      | apply unpacklo64_reg | apply unpackhi32_reg | apply unpacklo32_reg
                      | apply reg_vadd | apply reg_vxor | apply reg_vrot ]].

(* ------------------------------------------------------------------ *)
(* C. the intrinsics with the immediates of the sources                *)
(* ------------------------------------------------------------------ *)
(* _mm_shuffle_epi32, shuffle2! / _mm_shuffle_ps2 (casts around _mm_shuffle_ps), the unpacks: with a literal
   immediate they compute to the model shuffle (`reflexivity` in the lockstep below).  For instance: *)
Lemma shuffle_epi32_c_ok a : mm_shuffle_epi32 a (MM_SHUFFLE 2 1 0 3)%Z = shuffle_epi32 0 a 2 1 0 3.
Proof. reflexivity. Qed.
Lemma shuffle_epi32_rs_ok a :
  mm_shuffle_epi32 a (Z.lor (Z.lor (Z.lor (Z.shiftl 2 6) (Z.shiftl 1 4)) (Z.shiftl 0 2)) 3)%Z = shuffle_epi32 0 a 2 1 0 3.
Proof. reflexivity. Qed.
Lemma shuffle_ps_c_ok a b :
  mm_castps_si128 (mm_shuffle_ps (mm_castsi128_ps a) (mm_castsi128_ps b) (MM_SHUFFLE 3 1 1 2)%Z) = shuffle2 0 a b 3 1 1 2.
Proof. reflexivity. Qed.

(* _mm_blend_epi16 works on 16-bit elements; 0xCC and 0xC0 select both halves of a 32-bit lane alike *)
Ltac blend_bits c :=
  let go j := (let b := eval vm_compute in (N.testbit c (N.of_nat j)) in change (N.testbit c (N.of_nat j)) with b) in
  go 0%nat; go 1%nat; go 2%nat; go 3%nat; go 4%nat; go 5%nat; go 6%nat; go 7%nat.
Lemma blend_cc_ok a b : reg 4 a -> reg 4 b -> mm_blend_epi16 a b 0xcc%Z = blend_epi16 0 a b 0xCC.
Proof.
  intros Ha Hb. reg4_explicit. unfold mm_blend_epi16. change (imm8 204) with 204.
  cbv zeta. cbn [to16 flat_map app seq map].
  blend_bits 204. cbv iota. cbn [nth of16]. rewrite !halves_id by assumption. reflexivity.
Qed.
Lemma blend_c0_ok a b : reg 4 a -> reg 4 b -> mm_blend_epi16 a b 0xc0%Z = blend_epi16 0 a b 0xC0.
Proof.
  intros Ha Hb. reg4_explicit. unfold mm_blend_epi16. change (imm8 192) with 192.
  cbv zeta. cbn [to16 flat_map app seq map].
  blend_bits 192. cbv iota. cbn [nth of16]. rewrite !halves_id by assumption. reflexivity.
Qed.

(* the SSE2 emulation: mask = cmpeq16(set1_16(imm) & bits, bits), (mask & b) | (andnot mask a) *)
Lemma sse2_blend_lanes (m0 m1 m2 m3 : N) a b : reg 4 a -> reg 4 b ->
  mm_or_si128 (mm_and_si128 [m0; m1; m2; m3] b) (mm_andnot_si128 [m0; m1; m2; m3] a) =
  map (fun k => N.lor (N.land (nth k [m0; m1; m2; m3] 0) (ln 0 b k))
                      (N.land (N.lxor (nth k [m0; m1; m2; m3] 0) mask32) (ln 0 a k))) [0; 1; 2; 3]%nat.
Proof. intros Ha Hb. reg4_explicit. reflexivity. Qed.
Lemma sse2_blend_select (m0 m1 m2 m3 : N) a b imm : reg 4 a -> reg 4 b ->
  (forall k, (k < 4)%nat -> nth k [m0; m1; m2; m3] 0 = if N.testbit imm (N.of_nat (2 * k)) then mask32 else 0) ->
  mm_or_si128 (mm_and_si128 [m0; m1; m2; m3] b) (mm_andnot_si128 [m0; m1; m2; m3] a) = blend_epi16 0 a b imm.
Proof.
  intros Ha Hb Hm. rewrite sse2_blend_lanes by assumption. destruct Ha as [_ Wa], Hb as [_ Wb]. unfold blend_epi16.
  apply map_ext_in. intros k Hk.
  apply blend_lane; [apply ln_W, Wa|apply ln_W, Wb|].
  apply Hm. cbn [In] in Hk. destruct Hk as [<-|[<-|[<-|[<-|[]]]]]; lia.
Qed.
Ltac four_cases k H := do 4 (destruct k as [|k]; [vm_compute; reflexivity|]); lia.

(* ------------------------------------------------------------------ *)
(* D. the statement sequence of the sources, in model operations       *)
(* ------------------------------------------------------------------ *)
(* Round 1 of compress_pre, in source order (continuation k: the rest of the function) *)
Definition flat_round1 {B} (row0 row1 row2 row3 m0 m1 m2 m3 : vec)
    (k : vec -> vec -> vec -> vec -> vec -> vec -> vec -> vec -> B) : B :=
  let t0 := shuffle2 0 m0 m1 2 0 2 0 in
  let '(row0, row1, row2, row3) := g1r row0 row1 row2 row3 t0 in
  let t1 := shuffle2 0 m0 m1 3 1 3 1 in
  let '(row0, row1, row2, row3) := g2r row0 row1 row2 row3 t1 in
  let '(row0, row2, row3) := diagonalize row0 row2 row3 in
  let t2 := shuffle2 0 m2 m3 2 0 2 0 in
  let t2 := shuffle_epi32 0 t2 2 1 0 3 in
  let '(row0, row1, row2, row3) := g1r row0 row1 row2 row3 t2 in
  let t3 := shuffle2 0 m2 m3 3 1 3 1 in
  let t3 := shuffle_epi32 0 t3 2 1 0 3 in
  let '(row0, row1, row2, row3) := g2r row0 row1 row2 row3 t3 in
  let '(row0, row2, row3) := undiagonalize row0 row2 row3 in
  let m0 := t0 in
  let m1 := t1 in
  let m2 := t2 in
  let m3 := t3 in
  k row0 row1 row2 row3 m0 m1 m2 m3.
(* Rounds 2 .. 7, up to undiagonalize *)
Definition flat_round_body {B} (row0 row1 row2 row3 m0 m1 m2 m3 : vec)
    (k : vec -> vec -> vec -> vec -> vec -> vec -> vec -> vec -> B) : B :=
  let t0 := shuffle2 0 m0 m1 3 1 1 2 in
  let t0 := shuffle_epi32 0 t0 0 3 2 1 in
  let '(row0, row1, row2, row3) := g1r row0 row1 row2 row3 t0 in
  let t1 := shuffle2 0 m2 m3 3 3 2 2 in
  let tt := shuffle_epi32 0 m0 0 0 3 3 in
  let t1 := blend_epi16 0 tt t1 0xCC in
  let '(row0, row1, row2, row3) := g2r row0 row1 row2 row3 t1 in
  let '(row0, row2, row3) := diagonalize row0 row2 row3 in
  let t2 := unpacklo64 0 m3 m1 in
  let tt := blend_epi16 0 t2 m2 0xC0 in
  let t2 := shuffle_epi32 0 tt 1 3 2 0 in
  let '(row0, row1, row2, row3) := g1r row0 row1 row2 row3 t2 in
  let t3 := unpackhi32 0 m1 m3 in
  let tt := unpacklo32 0 m2 t3 in
  let t3 := shuffle_epi32 0 tt 0 1 3 2 in
  let '(row0, row1, row2, row3) := g2r row0 row1 row2 row3 t3 in
  let '(row0, row2, row3) := undiagonalize row0 row2 row3 in
  k row0 row1 row2 row3 t0 t1 t2 t3.
(* Rounds 2 .. 6 end with m0 = t0; m1 = t1; m2 = t2; m3 = t3 *)
Definition flat_roundn {B} (row0 row1 row2 row3 m0 m1 m2 m3 : vec)
    (k : vec -> vec -> vec -> vec -> vec -> vec -> vec -> vec -> B) : B :=
  flat_round_body row0 row1 row2 row3 m0 m1 m2 m3 (fun row0 row1 row2 row3 t0 t1 t2 t3 =>
    let m0 := t0 in
    let m1 := t1 in
    let m2 := t2 in
    let m3 := t3 in
    k row0 row1 row2 row3 m0 m1 m2 m3).
(* the seven rounds; `fin`: what the function does with the four rows *)
Definition flat_pre {B} (fin : vec -> vec -> vec -> vec -> B) (row0 row1 row2 row3 m0 m1 m2 m3 : vec) : B :=
  flat_round1 row0 row1 row2 row3 m0 m1 m2 m3 (fun row0 row1 row2 row3 m0 m1 m2 m3 =>
  flat_roundn row0 row1 row2 row3 m0 m1 m2 m3 (fun row0 row1 row2 row3 m0 m1 m2 m3 =>
  flat_roundn row0 row1 row2 row3 m0 m1 m2 m3 (fun row0 row1 row2 row3 m0 m1 m2 m3 =>
  flat_roundn row0 row1 row2 row3 m0 m1 m2 m3 (fun row0 row1 row2 row3 m0 m1 m2 m3 =>
  flat_roundn row0 row1 row2 row3 m0 m1 m2 m3 (fun row0 row1 row2 row3 m0 m1 m2 m3 =>
  flat_roundn row0 row1 row2 row3 m0 m1 m2 m3 (fun row0 row1 row2 row3 m0 m1 m2 m3 =>
  flat_round_body row0 row1 row2 row3 m0 m1 m2 m3 (fun row0 row1 row2 row3 _ _ _ _ =>
  fin row0 row1 row2 row3))))))).
(* compress_pre: the four rows and the four message registers are loaded, then the rounds *)
Definition flat_compress_pre {B} (fin : vec -> vec -> vec -> vec -> B) (cv block : list N) (bl ctr fl : N) : B :=
  let row0 := firstn 4 cv in
  let row1 := firstn 4 (skipn 4 cv) in
  let row2 := [nth 0 rs_IV 0; nth 1 rs_IV 0; nth 2 rs_IV 0; nth 3 rs_IV 0] in
  let row3 := [ctr_lo ctr; ctr_hi ctr; bl; fl] in
  let m0 := loadu 4 block 0 in
  let m1 := loadu 4 block 16 in
  let m2 := loadu 4 block 32 in
  let m3 := loadu 4 block 48 in
  flat_pre fin row0 row1 row2 row3 m0 m1 m2 m3.

(* the g calls, in evaluation order, are the only things that do not compute *)
Ltac destruct_g :=
  repeat match goal with
  | |- context [match ?e with pair _ _ => _ end] =>
      lazymatch e with
      | g1r _ _ _ _ _ => idtac
      | g2r _ _ _ _ _ => idtac
      end; destruct e as [[[? ?] ?] ?]
  end.
Lemma flat_round1_ok {B} r0 r1 r2 r3 m0 m1 m2 m3 (k : vec -> vec -> vec -> vec -> vec -> vec -> vec -> vec -> B) :
  flat_round1 r0 r1 r2 r3 m0 m1 m2 m3 k =
  let '(t0, t1, t2, t3) := msg_round1 (m0, m1, m2, m3) in
  let '(a, b, c, d) := rows_round (r0, r1, r2, r3) (t0, t1, t2, t3) in
  k a b c d t0 t1 t2 t3.
Proof.
  cbv beta iota zeta delta [flat_round1 msg_round1 rows_round diagonalize undiagonalize].
  destruct_g. reflexivity.
Qed.
Lemma flat_round_body_ok {B} r0 r1 r2 r3 m0 m1 m2 m3 (k : vec -> vec -> vec -> vec -> vec -> vec -> vec -> vec -> B) :
  flat_round_body r0 r1 r2 r3 m0 m1 m2 m3 k =
  let '(t0, t1, t2, t3) := msg_next (m0, m1, m2, m3) in
  let '(a, b, c, d) := rows_round (r0, r1, r2, r3) (t0, t1, t2, t3) in
  k a b c d t0 t1 t2 t3.
Proof.
  cbv beta iota zeta delta [flat_round_body msg_next rows_round diagonalize undiagonalize].
  destruct_g. reflexivity.
Qed.

Ltac destruct_round :=
  unfold vec;                       (* one spelling of the type arguments of the tuples on both sides *)
  match goal with
  | |- context [match ?e with pair _ _ => _ end] =>
      lazymatch e with
      | msg_round1 _ => idtac
      | msg_next _ => idtac
      end; destruct e as [[[? ?] ?] ?]
  end;
  unfold vec;
  match goal with
  | |- context [match ?e with pair _ _ => _ end] =>
      lazymatch e with
      | rows_round (pair _ _) _ => idtac        (* the innermost: on explicit rows *)
      end; destruct e as [[[? ?] ?] ?]
  end.
Theorem compress_pre_rows_flat {B} (fin : vec -> vec -> vec -> vec -> B) cv block bl ctr fl :
  (let '(a, b, c, d) := compress_pre_rows cv block bl ctr fl in fin a b c d) = flat_compress_pre fin cv block bl ctr fl.
Proof.
  unfold compress_pre_rows, flat_compress_pre, flat_pre. cbv zeta.
  rewrite flat_round1_ok. destruct_round.
  do 5 (unfold flat_roundn at 1; rewrite flat_round_body_ok; destruct_round).
  rewrite flat_round_body_ok. destruct_round. reflexivity.
Qed.

(* ------------------------------------------------------------------ *)
(* E. lockstep                                                         *)
(* ------------------------------------------------------------------ *)
Definition row_dom (cv block : list N) (bl fl : N) : Prop :=
  length cv = 8%nat /\ Forall W cv /\ length block = 64%nat /\ Forall (fun b => b < 256) block /\ W bl /\ W fl.

(* the 16-byte loads from the memory image of cv are its two halves *)
Lemma loadu_cv_lo cv : length cv = 8%nat -> Forall W cv -> mm_loadu_si128 (mem_u32 cv) (4 * 0)%nat = firstn 4 cv.
Proof.
  intros L F. explicit cv 8%nat L. unfold mm_loadu_si128, loadu, mem_u32, bytes_of_words.
  cbn [flat_map bytes_of_word app Nat.mul Nat.add skipn firstn words_of_bytes].
  rewrite !word_roundtrip by assumption. reflexivity.
Qed.
Lemma loadu_cv_hi cv : length cv = 8%nat -> Forall W cv -> mm_loadu_si128 (mem_u32 cv) (4 * 4)%nat = firstn 4 (skipn 4 cv).
Proof.
  intros L F. explicit cv 8%nat L. unfold mm_loadu_si128, loadu, mem_u32, bytes_of_words.
  cbn [flat_map bytes_of_word app Nat.mul Nat.add skipn firstn words_of_bytes].
  rewrite !word_roundtrip by assumption. reflexivity.
Qed.
Lemma W_ctr_lo c : W (ctr_lo c).
Proof. rewrite <- w32_ctr_lo. apply W_w32. Qed.
Lemma W_ctr_hi c : W (ctr_hi c).
Proof. rewrite <- w32_ctr_hi. apply W_w32. Qed.
(* the registers compress_pre starts from *)
Lemma row_dom_regs cv block bl ctr fl : row_dom cv block bl fl ->
  reg 4 (firstn 4 cv) /\ reg 4 (firstn 4 (skipn 4 cv)) /\
  reg 4 [nth 0 rs_IV 0; nth 1 rs_IV 0; nth 2 rs_IV 0; nth 3 rs_IV 0] /\ reg 4 [ctr_lo ctr; ctr_hi ctr; bl; fl] /\
  reg 4 (loadu 4 block 0) /\ reg 4 (loadu 4 block 16) /\ reg 4 (loadu 4 block 32) /\ reg 4 (loadu 4 block 48).
Proof.
  intros (Lcv & Wcv & Lb & Bb & Hbl & Hfl).
  assert (M : forall off, (off + 16 <= 64)%nat -> reg 4 (loadu 4 block off)).
  { intros off Ho. unfold loadu. split.
    - assert (Lf : length (firstn (4 * 4) (skipn off block)) = 16%nat) by (rewrite firstn_length, skipn_length; lia).
      revert Lf. generalize (firstn (4 * 4) (skipn off block)). intros l Lf. lanes_of l 16%nat Lf. reflexivity.
    - apply (W_words_of_bytes 16); [rewrite firstn_length; lia|]. apply Forall_firstn, Forall_skipn, Bb. }
  explicit cv 8%nat Lcv.
  cbn [firstn skipn].
  refine (conj _ (conj _ (conj _ (conj _ (conj _ (conj _ (conj _ _)))))));
    first [ apply M; lia
          | split; [reflexivity|]; repeat (apply Forall_cons; [first [ assumption | apply W_IV | apply W_ctr_lo | apply W_ctr_hi ]|]);
            apply Forall_nil ].
Qed.

(* one statement of the translation against the same statement of flat_compress_pre:
   eq_tac proves that the translated value equals the model value (file-specific part: g_tac for the calls of
   g1 / g2 / diagonalize / undiagonalize, x_tac for what does not compute);
   every value bound is a register of four 32-bit lanes *)
Ltac stmt_eq s4_tac cc_tac c0_tac :=
  lazymatch goal with
  | |- mm_blend_epi16 _ _ 204%Z = _ => apply blend_cc_ok; assumption
  | |- mm_blend_epi16 _ _ 192%Z = _ => apply blend_c0_ok; assumption
  | |- _ = firstn 4 (skipn 4 ?cv) => apply loadu_cv_hi; assumption
  | |- _ = firstn 4 ?cv => apply loadu_cv_lo; assumption
  | |- _ = [ctr_lo _; ctr_hi _; _; _] => s4_tac
  | |- _ = blend_epi16 0 _ _ 204 => cc_tac
  | |- _ = blend_epi16 0 _ _ 192 => c0_tac
  | |- _ => reflexivity
  end.
Ltac destruct_reg e :=
  let HR := fresh "HR" in
  lazymatch e with
  | g1r ?a ?b ?c ?d ?m =>
      pose proof (g1r_reg a b c d m ltac:(assumption) ltac:(assumption) ltac:(assumption) ltac:(assumption) ltac:(assumption)) as HR;
      revert HR; destruct e as [[[? ?] ?] ?]; intros (? & ? & ? & ?)
  | g2r ?a ?b ?c ?d ?m =>
      pose proof (g2r_reg a b c d m ltac:(assumption) ltac:(assumption) ltac:(assumption) ltac:(assumption) ltac:(assumption)) as HR;
      revert HR; destruct e as [[[? ?] ?] ?]; intros (? & ? & ? & ?)
  | diagonalize ?a ?b ?c =>
      pose proof (diagonalize_reg a b c ltac:(assumption) ltac:(assumption) ltac:(assumption)) as HR;
      revert HR; destruct e as [[? ?] ?]; intros (? & ? & ?)
  | undiagonalize ?a ?b ?c =>
      pose proof (undiagonalize_reg a b c ltac:(assumption) ltac:(assumption) ltac:(assumption)) as HR;
      revert HR; destruct e as [[? ?] ?]; intros (? & ? & ?)
  end.
(* g1_tac / g2_tac: the file's g1 / g2 call equals g1r / g2r on the registers at hand; diagonalize / undiagonalize
   compute; s4_tac: row3; cc_tac / c0_tac: the two blends when they are emulated *)
Ltac lockstep g1_tac g2_tac s4_tac cc_tac c0_tac :=
  repeat lazymatch goal with
  | |- (let x := ?a in @?f x) = (let y := ?a' in @?f' y) =>
      apply (let_step (reg 4) a a' f f');
      [ stmt_eq s4_tac cc_tac c0_tac | reg_closure
      | let x := fresh "x" in let H := fresh "Hx" in intros x H; cbv beta ]
  | |- (match ?e with pair _ _ => _ end) = (match ?e' with pair _ _ => _ end) =>
      lazymatch e' with
      | g1r _ _ _ _ _ => replace e with e' by (symmetry; g1_tac)
      | g2r _ _ _ _ _ => replace e with e' by (symmetry; g2_tac)
      | _ => replace e with e' by reflexivity      (* (not `change`: Qed would compare the whole goals) *)
      end;
      destruct_reg e'
  end.
(* the immediates written as constant expressions (the expansion of the Rust files' _MM_SHUFFLE!), evaluated *)
Ltac eval_immediates :=
  repeat match goal with
  | |- context [Z.lor ?a ?b] => let v := eval vm_compute in (Z.lor a b) in change (Z.lor a b) with v
  end.
Ltac unfold_flat :=
  cbv beta delta [flat_compress_pre flat_pre flat_round1 flat_roundn flat_round_body].
Ltac dom_regs H ctr :=
  let R := fresh "R" in
  pose proof (row_dom_regs _ _ _ ctr _ H) as R; destruct R as (? & ? & ? & ? & ? & ? & ? & ?).

(* ------------------------------------------------------------------ *)
(* F. stores and the transmute (used by the compress_in_place /        *)
(*    compress_xof theorems of the files)                              *)
(* ------------------------------------------------------------------ *)
(* storeu(A, cv + 0); storeu(B, cv + 4): cv, read back from its memory image, is A ++ B *)
Lemma store_cv cv A B : length cv = 8%nat -> reg 4 A -> reg 4 B ->
  u32_of_mem (mm_storeu_si128 (mm_storeu_si128 (mem_u32 cv) (4 * 0)%nat A) (4 * 4)%nat B) = A ++ B.
Proof.
  intros L HA HB. lanes_of cv 8%nat L. reg4_explicit.
  unfold u32_of_mem, mm_storeu_si128, mem_u32, to8, bytes_of_words.
  cbn [flat_map bytes_of_word app Nat.mul Nat.add skipn firstn words_of_bytes].
  rewrite !word_roundtrip by assumption. reflexivity.
Qed.
(* four stores of 16 bytes at 0, 16, 32, 48 replace all 64 bytes of out *)
Lemma store_out out A B C D : length out = 64%nat -> reg 4 A -> reg 4 B -> reg 4 C -> reg 4 D ->
  mm_storeu_si128 (mm_storeu_si128 (mm_storeu_si128 (mm_storeu_si128 out 0 A) 16 B) 32 C) 48 D =
  bytes_of_words (A ++ B ++ C ++ D).
Proof.
  intros L HA HB HC HD. lanes_of out 64%nat L. reg4_explicit.
  unfold mm_storeu_si128, to8, bytes_of_words.
  cbn [flat_map bytes_of_word app Nat.add skipn firstn]. reflexivity.
Qed.
Lemma transmute4 A B C D : transmute_m128i_u8 [A; B; C; D] = bytes_of_words (A ++ B ++ C ++ D).
Proof.
  unfold transmute_m128i_u8, to8, bytes_of_words. cbn [flat_map]. rewrite !flat_map_app, app_nil_r. reflexivity.
Qed.

(* ------------------------------------------------------------------ *)
(* G. the five files                                                   *)
(* ------------------------------------------------------------------ *)
(* set4(counter_low(counter), counter_high(counter), block_len as u32, flags as u32) *)
Lemma set4_rs_ok ctr bl fl : W bl -> W fl ->
  mm_setr_epi32 (cast_s 32 (Z.of_N (ctr_lo ctr))) (cast_s 32 (Z.of_N (ctr_hi ctr))) (cast_s 32 (Z.of_N bl)) (cast_s 32 (Z.of_N fl)) =
  [ctr_lo ctr; ctr_hi ctr; bl; fl].
Proof.
  intros Hb Hf. unfold mm_setr_epi32. rewrite !bits32_counter, w32_ctr_lo, w32_ctr_hi, (w32_id bl), (w32_id fl) by assumption. reflexivity.
Qed.

(* set4(counter_low(counter), counter_high(counter), (uint32_t)block_len, (uint32_t)flags) with the helpers of
   blake3_impl.h: (uint32_t)counter and (uint32_t)(counter >> 32) *)
Lemma bits32_cast_u32 z : bits32 (cast_u 32 z) = bits32 z.
Proof. unfold bits32, cast_u. change (2 ^ 32)%Z with 4294967296%Z. rewrite Z.mod_mod by discriminate. reflexivity. Qed.
Lemma ctr_lo_w32 c : ctr_lo c = w32 c.
Proof. rewrite ctr_lo_mod, w32_mod. reflexivity. Qed.
Lemma ctr_hi_w32 c : ctr_hi c = w32 (N.shiftr c 32).
Proof. rewrite ctr_hi_mod, w32_mod, N.shiftr_div_pow2. reflexivity. Qed.
Lemma set4_c_ok ctr bl fl : W bl -> W fl ->
  mm_setr_epi32 (cast_s 32 (c_impl_counter_low (Z.of_N ctr))) (cast_s 32 (c_impl_counter_high (Z.of_N ctr)))
                (cast_s 32 (Z.of_N bl)) (cast_s 32 (Z.of_N fl)) =
  [ctr_lo ctr; ctr_hi ctr; bl; fl].
Proof.
  intros Hb Hf. unfold mm_setr_epi32, c_impl_counter_low, c_impl_counter_high.
  rewrite !bits32_cast_s32, !bits32_cast_u32, <- (bits32_cast_s32 (Z.shiftr (Z.of_N ctr) 32)), bits32_counter_hi.
  rewrite !bits32_of_N, (w32_id bl), (w32_id fl) by assumption.
  replace (w32 ctr) with (ctr_lo ctr) by apply ctr_lo_w32.
  replace (w32 (N.shiftr ctr 32)) with (ctr_hi ctr) by apply ctr_hi_w32. reflexivity.
Qed.

(* the model functions keep registers of four 32-bit lanes *)
Lemma rows_round_reg rs t : reg4x4 rs -> reg4x4 t -> reg4x4 (rows_round rs t).
Proof.
  destruct rs as [[[a b] c] d], t as [[[t0 t1] t2] t3]. intros (Ha & Hb & Hc & Hd) (H0 & H1 & H2 & H3).
  unfold rows_round.
  repeat match goal with |- context [match ?e with pair _ _ => _ end] => destruct_reg e end.
  unfold reg4x4. auto.
Qed.
Lemma msg_round1_reg m : reg4x4 m -> reg4x4 (msg_round1 m).
Proof.
  destruct m as [[[m0 m1] m2] m3]. intros (H0 & H1 & H2 & H3). unfold msg_round1, reg4x4. cbv zeta.
  refine (conj _ (conj _ (conj _ _))); reg_closure.
Qed.
Lemma msg_next_reg m : reg4x4 m -> reg4x4 (msg_next m).
Proof.
  destruct m as [[[m0 m1] m2] m3]. intros (H0 & H1 & H2 & H3). unfold msg_next, reg4x4. cbv zeta.
  refine (conj _ (conj _ (conj _ _))); reg_closure.
Qed.
Theorem compress_pre_rows_reg cv block bl ctr fl : row_dom cv block bl fl -> reg4x4 (compress_pre_rows cv block bl ctr fl).
Proof.
  intros D. dom_regs D ctr. unfold compress_pre_rows. cbv zeta.
  repeat first [ apply rows_round_reg | apply msg_next_reg | apply msg_round1_reg ]; unfold reg4x4; auto.
Qed.

(* ---- src/rust_sse41.rs ---- *)
Theorem rs_sse41_g1_ok a b c d m : rs_sse41_g1 a b c d m = g1r a b c d m.
Proof.
  unfold rs_sse41_g1, g1r, rs_sse41_add, rs_sse41_xor, mm_add_epi32, mm_xor_si128. cbv zeta.
  rewrite rs_sse41_rot16_ok, rs_sse41_rot12_ok. reflexivity.
Qed.
Theorem rs_sse41_g2_ok a b c d m : rs_sse41_g2 a b c d m = g2r a b c d m.
Proof.
  unfold rs_sse41_g2, g2r, rs_sse41_add, rs_sse41_xor, mm_add_epi32, mm_xor_si128. cbv zeta.
  rewrite rs_sse41_rot8_ok, rs_sse41_rot7_ok. reflexivity.
Qed.
Theorem rs_sse41_diagonalize_ok a b c : rs_sse41_diagonalize a b c = diagonalize a b c.
Proof. reflexivity. Qed.
Theorem rs_sse41_undiagonalize_ok a b c : rs_sse41_undiagonalize a b c = undiagonalize a b c.
Proof. reflexivity. Qed.
Theorem rs_sse41_compress_pre_flat cv block bl ctr fl : row_dom cv block bl fl ->
  rs_sse41_compress_pre cv block bl ctr fl = flat_compress_pre (fun a b c d => Ok (a, b, c, d)) cv block bl ctr fl.
Proof.
  intros D. dom_regs D ctr. destruct D as (Lcv & Wcv & Lb & Bb & Hbl & Hfl).
  cbv beta delta [rs_sse41_compress_pre].
  change (mu rs_counter_low (Ok ctr)) with (Ok (ctr_lo ctr)). change (mu rs_counter_high (Ok ctr)) with (Ok (ctr_hi ctr)).
  cbv beta iota delta [bind]. unfold_flat.
  eval_immediates.
  lockstep ltac:(apply rs_sse41_g1_ok) ltac:(apply rs_sse41_g2_ok) ltac:(apply set4_rs_ok; assumption)
           ltac:(fail) ltac:(fail).
  reflexivity.
Qed.
Theorem rs_sse41_compress_pre_ok cv block bl ctr fl : row_dom cv block bl fl ->
  rs_sse41_compress_pre cv block bl ctr fl = Ok (compress_pre_rows cv block bl ctr fl).
Proof.
  intros D. rewrite (rs_sse41_compress_pre_flat _ _ _ _ _ D), <- compress_pre_rows_flat.
  destruct (compress_pre_rows cv block bl ctr fl) as [[[a b] c] d]. reflexivity.
Qed.
Theorem rs_sse41_compress_in_place_ok cv block bl ctr fl : row_dom cv block bl fl ->
  rs_sse41_compress_in_place cv block bl ctr fl = Ok (compress_in_place_rows cv block bl ctr fl).
Proof.
  intros D. pose proof (compress_pre_rows_reg _ _ _ ctr _ D) as R.
  unfold rs_sse41_compress_in_place, compress_in_place_rows. rewrite (rs_sse41_compress_pre_ok _ _ _ _ _ D).
  destruct (compress_pre_rows cv block bl ctr fl) as [[[r0 r1] r2] r3]. destruct R as (R0 & R1 & R2 & R3).
  cbn [bind]. cbv zeta. unfold rs_sse41_storeu, rs_sse41_xor, mm_xor_si128.
  rewrite store_cv; [reflexivity|apply D|apply reg_vxor; assumption|apply reg_vxor; assumption].
Qed.
Theorem rs_sse41_compress_xof_ok cv block bl ctr fl : row_dom cv block bl fl ->
  rs_sse41_compress_xof cv block bl ctr fl = Ok (compress_xof_rows cv block bl ctr fl).
Proof.
  intros D. unfold rs_sse41_compress_xof, compress_xof_rows. rewrite (rs_sse41_compress_pre_ok _ _ _ _ _ D).
  destruct (compress_pre_rows cv block bl ctr fl) as [[[r0 r1] r2] r3].
  cbn [bind]. cbv zeta. unfold rs_sse41_loadu, rs_sse41_xor, mm_xor_si128.
  destruct D as (Lcv & Wcv & _). rewrite loadu_cv_lo, loadu_cv_hi, transmute4 by assumption. reflexivity.
Qed.

(* ---- src/rust_sse2.rs ---- *)
Theorem rs_sse2_g1_ok a b c d m : rs_sse2_g1 a b c d m = g1r a b c d m.
Proof.
  unfold rs_sse2_g1, g1r, rs_sse2_add, rs_sse2_xor, mm_add_epi32, mm_xor_si128. cbv zeta.
  rewrite rs_sse2_rot16_ok, rs_sse2_rot12_ok. reflexivity.
Qed.
Theorem rs_sse2_g2_ok a b c d m : rs_sse2_g2 a b c d m = g2r a b c d m.
Proof.
  unfold rs_sse2_g2, g2r, rs_sse2_add, rs_sse2_xor, mm_add_epi32, mm_xor_si128. cbv zeta.
  rewrite rs_sse2_rot8_ok, rs_sse2_rot7_ok. reflexivity.
Qed.
Theorem rs_sse2_diagonalize_ok a b c : rs_sse2_diagonalize a b c = diagonalize a b c.
Proof. reflexivity. Qed.
Theorem rs_sse2_undiagonalize_ok a b c : rs_sse2_undiagonalize a b c = undiagonalize a b c.
Proof. reflexivity. Qed.
(* blend_epi16: the emulation of _mm_blend_epi16 *)
Theorem rs_sse2_blend_cc_ok a b : reg 4 a -> reg 4 b -> rs_sse2_blend_epi16 a b 0xcc%Z = blend_epi16 0 a b 0xCC.
Proof.
  intros Ha Hb. unfold rs_sse2_blend_epi16. cbv zeta.
  set (mask := mm_cmpeq_epi16 _ _). assert (E : mask = [0; mask32; 0; mask32]) by (vm_compute; reflexivity). rewrite E.
  apply sse2_blend_select; [assumption|assumption|]. intros k Hk. four_cases k Hk.
Qed.
Theorem rs_sse2_blend_c0_ok a b : reg 4 a -> reg 4 b -> rs_sse2_blend_epi16 a b 0xc0%Z = blend_epi16 0 a b 0xC0.
Proof.
  intros Ha Hb. unfold rs_sse2_blend_epi16. cbv zeta.
  set (mask := mm_cmpeq_epi16 _ _). assert (E : mask = [0; 0; 0; mask32]) by (vm_compute; reflexivity). rewrite E.
  apply sse2_blend_select; [assumption|assumption|]. intros k Hk. four_cases k Hk.
Qed.
Theorem rs_sse2_compress_pre_flat cv block bl ctr fl : row_dom cv block bl fl ->
  rs_sse2_compress_pre cv block bl ctr fl = flat_compress_pre (fun a b c d => Ok (a, b, c, d)) cv block bl ctr fl.
Proof.
  intros D. dom_regs D ctr. destruct D as (Lcv & Wcv & Lb & Bb & Hbl & Hfl).
  cbv beta delta [rs_sse2_compress_pre].
  change (mu rs_counter_low (Ok ctr)) with (Ok (ctr_lo ctr)). change (mu rs_counter_high (Ok ctr)) with (Ok (ctr_hi ctr)).
  cbv beta iota delta [bind]. unfold_flat.
  eval_immediates.
  lockstep ltac:(apply rs_sse2_g1_ok) ltac:(apply rs_sse2_g2_ok) ltac:(apply set4_rs_ok; assumption)
           ltac:(apply rs_sse2_blend_cc_ok; assumption) ltac:(apply rs_sse2_blend_c0_ok; assumption).
  reflexivity.
Qed.
Theorem rs_sse2_compress_pre_ok cv block bl ctr fl : row_dom cv block bl fl ->
  rs_sse2_compress_pre cv block bl ctr fl = Ok (compress_pre_rows cv block bl ctr fl).
Proof.
  intros D. rewrite (rs_sse2_compress_pre_flat _ _ _ _ _ D), <- compress_pre_rows_flat.
  destruct (compress_pre_rows cv block bl ctr fl) as [[[a b] c] d]. reflexivity.
Qed.
Theorem rs_sse2_compress_in_place_ok cv block bl ctr fl : row_dom cv block bl fl ->
  rs_sse2_compress_in_place cv block bl ctr fl = Ok (compress_in_place_rows cv block bl ctr fl).
Proof.
  intros D. pose proof (compress_pre_rows_reg _ _ _ ctr _ D) as R.
  unfold rs_sse2_compress_in_place, compress_in_place_rows. rewrite (rs_sse2_compress_pre_ok _ _ _ _ _ D).
  destruct (compress_pre_rows cv block bl ctr fl) as [[[r0 r1] r2] r3]. destruct R as (R0 & R1 & R2 & R3).
  cbn [bind]. cbv zeta. unfold rs_sse2_storeu, rs_sse2_xor, mm_xor_si128.
  rewrite store_cv; [reflexivity|apply D|apply reg_vxor; assumption|apply reg_vxor; assumption].
Qed.
Theorem rs_sse2_compress_xof_ok cv block bl ctr fl : row_dom cv block bl fl ->
  rs_sse2_compress_xof cv block bl ctr fl = Ok (compress_xof_rows cv block bl ctr fl).
Proof.
  intros D. unfold rs_sse2_compress_xof, compress_xof_rows. rewrite (rs_sse2_compress_pre_ok _ _ _ _ _ D).
  destruct (compress_pre_rows cv block bl ctr fl) as [[[r0 r1] r2] r3].
  cbn [bind]. cbv zeta. unfold rs_sse2_loadu, rs_sse2_xor, mm_xor_si128.
  destruct D as (Lcv & Wcv & _). rewrite loadu_cv_lo, loadu_cv_hi, transmute4 by assumption. reflexivity.
Qed.

(* ---- c/blake3_avx512.c: rotations by _mm_ror_epi32 ---- *)
Theorem c_avx512_g1_ok a b c d m : c_avx512_g1 a b c d m = g1r a b c d m.
Proof.
  unfold c_avx512_g1, g1r, c_avx512_add_128, c_avx512_xor_128, mm_add_epi32, mm_xor_si128. cbv zeta.
  rewrite c_avx512_rot16_128_ok, c_avx512_rot12_128_ok. reflexivity.
Qed.
Theorem c_avx512_g2_ok a b c d m : c_avx512_g2 a b c d m = g2r a b c d m.
Proof.
  unfold c_avx512_g2, g2r, c_avx512_add_128, c_avx512_xor_128, mm_add_epi32, mm_xor_si128. cbv zeta.
  rewrite c_avx512_rot8_128_ok, c_avx512_rot7_128_ok. reflexivity.
Qed.
Theorem c_avx512_diagonalize_ok a b c : c_avx512_diagonalize a b c = diagonalize a b c.
Proof. reflexivity. Qed.
Theorem c_avx512_undiagonalize_ok a b c : c_avx512_undiagonalize a b c = undiagonalize a b c.
Proof. reflexivity. Qed.
Theorem c_avx512_compress_pre_flat cv block bl ctr fl : row_dom cv block bl fl ->
  c_avx512_compress_pre cv block bl ctr fl = flat_compress_pre (fun a b c d => (a, b, c, d)) cv block bl ctr fl.
Proof.
  intros D. dom_regs D ctr. destruct D as (Lcv & Wcv & Lb & Bb & Hbl & Hfl).
  cbv beta delta [c_avx512_compress_pre]. unfold_flat.
  lockstep ltac:(apply c_avx512_g1_ok) ltac:(apply c_avx512_g2_ok) ltac:(unfold c_avx512_set4; apply set4_c_ok; assumption)
           ltac:(fail) ltac:(fail).
  reflexivity.
Qed.
Theorem c_avx512_compress_pre_ok cv block bl ctr fl : row_dom cv block bl fl ->
  c_avx512_compress_pre cv block bl ctr fl = compress_pre_rows cv block bl ctr fl.
Proof.
  intros D. rewrite (c_avx512_compress_pre_flat _ _ _ _ _ D), <- compress_pre_rows_flat.
  destruct (compress_pre_rows cv block bl ctr fl) as [[[a b] c] d]. reflexivity.
Qed.
Theorem c_avx512_blake3_compress_in_place_avx512_ok cv block bl ctr fl : row_dom cv block bl fl ->
  c_avx512_blake3_compress_in_place_avx512 cv block bl ctr fl = compress_in_place_rows cv block bl ctr fl.
Proof.
  intros D. pose proof (compress_pre_rows_reg _ _ _ ctr _ D) as R.
  unfold c_avx512_blake3_compress_in_place_avx512, compress_in_place_rows. rewrite (c_avx512_compress_pre_ok _ _ _ _ _ D).
  destruct (compress_pre_rows cv block bl ctr fl) as [[[r0 r1] r2] r3]. destruct R as (R0 & R1 & R2 & R3).
  cbv zeta. unfold c_avx512_storeu_128, c_avx512_xor_128, mm_xor_si128.
  rewrite store_cv; [reflexivity|apply D|apply reg_vxor; assumption|apply reg_vxor; assumption].
Qed.
Theorem c_avx512_blake3_compress_xof_avx512_ok cv block bl ctr fl out : row_dom cv block bl fl -> length out = 64%nat ->
  c_avx512_blake3_compress_xof_avx512 cv block bl ctr fl out = compress_xof_rows cv block bl ctr fl.
Proof.
  intros D Lo. pose proof (compress_pre_rows_reg _ _ _ ctr _ D) as R. pose proof (row_dom_regs _ _ _ ctr _ D) as (C0 & C1 & _).
  unfold c_avx512_blake3_compress_xof_avx512, compress_xof_rows. rewrite (c_avx512_compress_pre_ok _ _ _ _ _ D).
  destruct (compress_pre_rows cv block bl ctr fl) as [[[r0 r1] r2] r3]. destruct R as (R0 & R1 & R2 & R3).
  cbv zeta. unfold c_avx512_storeu_128, c_avx512_loadu_128, c_avx512_xor_128, mm_xor_si128.
  destruct D as (Lcv & Wcv & _). rewrite loadu_cv_lo, loadu_cv_hi by assumption.
  apply store_out; [exact Lo|apply reg_vxor; assumption..].
Qed.

(* ---- c/blake3_sse41.c: rot16 / rot8 by _mm_shuffle_epi8, rot12 / rot7 by shifts joined with XOR ---- *)
Theorem c_sse41_g1_ok a b c d m : reg 4 a -> reg 4 b -> reg 4 c -> reg 4 d -> reg 4 m -> c_sse41_g1 a b c d m = g1r a b c d m.
Proof.
  intros Ha Hb Hc Hd Hm. unfold c_sse41_g1, g1r, c_sse41_addv, c_sse41_xorv, mm_add_epi32, mm_xor_si128. cbv zeta.
  rewrite c_sse41_rot16_ok by (apply reg_regz; reg_closure). rewrite c_sse41_rot12_ok by (apply reg_regz; reg_closure). reflexivity.
Qed.
Theorem c_sse41_g2_ok a b c d m : reg 4 a -> reg 4 b -> reg 4 c -> reg 4 d -> reg 4 m -> c_sse41_g2 a b c d m = g2r a b c d m.
Proof.
  intros Ha Hb Hc Hd Hm. unfold c_sse41_g2, g2r, c_sse41_addv, c_sse41_xorv, mm_add_epi32, mm_xor_si128. cbv zeta.
  rewrite c_sse41_rot8_ok by (apply reg_regz; reg_closure). rewrite c_sse41_rot7_ok by (apply reg_regz; reg_closure). reflexivity.
Qed.
Theorem c_sse41_diagonalize_ok a b c : c_sse41_diagonalize a b c = diagonalize a b c.
Proof. reflexivity. Qed.
Theorem c_sse41_undiagonalize_ok a b c : c_sse41_undiagonalize a b c = undiagonalize a b c.
Proof. reflexivity. Qed.
Theorem c_sse41_compress_pre_flat cv block bl ctr fl : row_dom cv block bl fl ->
  c_sse41_compress_pre cv block bl ctr fl = flat_compress_pre (fun a b c d => (a, b, c, d)) cv block bl ctr fl.
Proof.
  intros D. dom_regs D ctr. destruct D as (Lcv & Wcv & Lb & Bb & Hbl & Hfl).
  cbv beta delta [c_sse41_compress_pre]. unfold_flat.
  lockstep ltac:(apply c_sse41_g1_ok; assumption) ltac:(apply c_sse41_g2_ok; assumption) ltac:(unfold c_sse41_set4; apply set4_c_ok; assumption)
           ltac:(fail) ltac:(fail).
  reflexivity.
Qed.
Theorem c_sse41_compress_pre_ok cv block bl ctr fl : row_dom cv block bl fl ->
  c_sse41_compress_pre cv block bl ctr fl = compress_pre_rows cv block bl ctr fl.
Proof.
  intros D. rewrite (c_sse41_compress_pre_flat _ _ _ _ _ D), <- compress_pre_rows_flat.
  destruct (compress_pre_rows cv block bl ctr fl) as [[[a b] c] d]. reflexivity.
Qed.
Theorem c_sse41_blake3_compress_in_place_sse41_ok cv block bl ctr fl : row_dom cv block bl fl ->
  c_sse41_blake3_compress_in_place_sse41 cv block bl ctr fl = compress_in_place_rows cv block bl ctr fl.
Proof.
  intros D. pose proof (compress_pre_rows_reg _ _ _ ctr _ D) as R.
  unfold c_sse41_blake3_compress_in_place_sse41, compress_in_place_rows. rewrite (c_sse41_compress_pre_ok _ _ _ _ _ D).
  destruct (compress_pre_rows cv block bl ctr fl) as [[[r0 r1] r2] r3]. destruct R as (R0 & R1 & R2 & R3).
  cbv zeta. unfold c_sse41_storeu, c_sse41_xorv, mm_xor_si128.
  rewrite store_cv; [reflexivity|apply D|apply reg_vxor; assumption|apply reg_vxor; assumption].
Qed.
Theorem c_sse41_blake3_compress_xof_sse41_ok cv block bl ctr fl out : row_dom cv block bl fl -> length out = 64%nat ->
  c_sse41_blake3_compress_xof_sse41 cv block bl ctr fl out = compress_xof_rows cv block bl ctr fl.
Proof.
  intros D Lo. pose proof (compress_pre_rows_reg _ _ _ ctr _ D) as R. pose proof (row_dom_regs _ _ _ ctr _ D) as (C0 & C1 & _).
  unfold c_sse41_blake3_compress_xof_sse41, compress_xof_rows. rewrite (c_sse41_compress_pre_ok _ _ _ _ _ D).
  destruct (compress_pre_rows cv block bl ctr fl) as [[[r0 r1] r2] r3]. destruct R as (R0 & R1 & R2 & R3).
  cbv zeta. unfold c_sse41_storeu, c_sse41_loadu, c_sse41_xorv, mm_xor_si128.
  destruct D as (Lcv & Wcv & _). rewrite loadu_cv_lo, loadu_cv_hi by assumption.
  apply store_out; [exact Lo|apply reg_vxor; assumption..].
Qed.

(* ---- c/blake3_sse2.c: rot16 by 16-bit shuffles, the others by shifts joined with XOR; blend emulated ---- *)
Theorem c_sse2_g1_ok a b c d m : reg 4 a -> reg 4 b -> reg 4 c -> reg 4 d -> reg 4 m -> c_sse2_g1 a b c d m = g1r a b c d m.
Proof.
  intros Ha Hb Hc Hd Hm. unfold c_sse2_g1, g1r, c_sse2_addv, c_sse2_xorv, mm_add_epi32, mm_xor_si128. cbv zeta.
  rewrite c_sse2_rot16_ok by (apply reg_regz; reg_closure). rewrite c_sse2_rot12_ok by (apply reg_regz; reg_closure). reflexivity.
Qed.
Theorem c_sse2_g2_ok a b c d m : reg 4 a -> reg 4 b -> reg 4 c -> reg 4 d -> reg 4 m -> c_sse2_g2 a b c d m = g2r a b c d m.
Proof.
  intros Ha Hb Hc Hd Hm. unfold c_sse2_g2, g2r, c_sse2_addv, c_sse2_xorv, mm_add_epi32, mm_xor_si128. cbv zeta.
  rewrite c_sse2_rot8_ok by (apply reg_regz; reg_closure). rewrite c_sse2_rot7_ok by (apply reg_regz; reg_closure). reflexivity.
Qed.
Theorem c_sse2_diagonalize_ok a b c : c_sse2_diagonalize a b c = diagonalize a b c.
Proof. reflexivity. Qed.
Theorem c_sse2_undiagonalize_ok a b c : c_sse2_undiagonalize a b c = undiagonalize a b c.
Proof. reflexivity. Qed.
(* blend_epi16: the emulation of _mm_blend_epi16 *)
Theorem c_sse2_blend_cc_ok a b : reg 4 a -> reg 4 b -> c_sse2_blend_epi16 a b (cast_s 16 0xcc%Z) = blend_epi16 0 a b 0xCC.
Proof.
  intros Ha Hb. unfold c_sse2_blend_epi16. cbv zeta.
  set (mask := mm_cmpeq_epi16 _ _). assert (E : mask = [0; mask32; 0; mask32]) by (vm_compute; reflexivity). rewrite E.
  apply sse2_blend_select; [assumption|assumption|]. intros k Hk. four_cases k Hk.
Qed.
Theorem c_sse2_blend_c0_ok a b : reg 4 a -> reg 4 b -> c_sse2_blend_epi16 a b (cast_s 16 0xc0%Z) = blend_epi16 0 a b 0xC0.
Proof.
  intros Ha Hb. unfold c_sse2_blend_epi16. cbv zeta.
  set (mask := mm_cmpeq_epi16 _ _). assert (E : mask = [0; 0; 0; mask32]) by (vm_compute; reflexivity). rewrite E.
  apply sse2_blend_select; [assumption|assumption|]. intros k Hk. four_cases k Hk.
Qed.
Theorem c_sse2_compress_pre_flat cv block bl ctr fl : row_dom cv block bl fl ->
  c_sse2_compress_pre cv block bl ctr fl = flat_compress_pre (fun a b c d => (a, b, c, d)) cv block bl ctr fl.
Proof.
  intros D. dom_regs D ctr. destruct D as (Lcv & Wcv & Lb & Bb & Hbl & Hfl).
  cbv beta delta [c_sse2_compress_pre]. unfold_flat.
  lockstep ltac:(apply c_sse2_g1_ok; assumption) ltac:(apply c_sse2_g2_ok; assumption) ltac:(unfold c_sse2_set4; apply set4_c_ok; assumption)
           ltac:(apply c_sse2_blend_cc_ok; assumption) ltac:(apply c_sse2_blend_c0_ok; assumption).
  reflexivity.
Qed.
Theorem c_sse2_compress_pre_ok cv block bl ctr fl : row_dom cv block bl fl ->
  c_sse2_compress_pre cv block bl ctr fl = compress_pre_rows cv block bl ctr fl.
Proof.
  intros D. rewrite (c_sse2_compress_pre_flat _ _ _ _ _ D), <- compress_pre_rows_flat.
  destruct (compress_pre_rows cv block bl ctr fl) as [[[a b] c] d]. reflexivity.
Qed.
Theorem c_sse2_blake3_compress_in_place_sse2_ok cv block bl ctr fl : row_dom cv block bl fl ->
  c_sse2_blake3_compress_in_place_sse2 cv block bl ctr fl = compress_in_place_rows cv block bl ctr fl.
Proof.
  intros D. pose proof (compress_pre_rows_reg _ _ _ ctr _ D) as R.
  unfold c_sse2_blake3_compress_in_place_sse2, compress_in_place_rows. rewrite (c_sse2_compress_pre_ok _ _ _ _ _ D).
  destruct (compress_pre_rows cv block bl ctr fl) as [[[r0 r1] r2] r3]. destruct R as (R0 & R1 & R2 & R3).
  cbv zeta. unfold c_sse2_storeu, c_sse2_xorv, mm_xor_si128.
  rewrite store_cv; [reflexivity|apply D|apply reg_vxor; assumption|apply reg_vxor; assumption].
Qed.
Theorem c_sse2_blake3_compress_xof_sse2_ok cv block bl ctr fl out : row_dom cv block bl fl -> length out = 64%nat ->
  c_sse2_blake3_compress_xof_sse2 cv block bl ctr fl out = compress_xof_rows cv block bl ctr fl.
Proof.
  intros D Lo. pose proof (compress_pre_rows_reg _ _ _ ctr _ D) as R. pose proof (row_dom_regs _ _ _ ctr _ D) as (C0 & C1 & _).
  unfold c_sse2_blake3_compress_xof_sse2, compress_xof_rows. rewrite (c_sse2_compress_pre_ok _ _ _ _ _ D).
  destruct (compress_pre_rows cv block bl ctr fl) as [[[r0 r1] r2] r3]. destruct R as (R0 & R1 & R2 & R3).
  cbv zeta. unfold c_sse2_storeu, c_sse2_loadu, c_sse2_xorv, mm_xor_si128.
  destruct D as (Lcv & Wcv & _). rewrite loadu_cv_lo, loadu_cv_hi by assumption.
  apply store_out; [exact Lo|apply reg_vxor; assumption..].
Qed.

(* ------------------------------------------------------------------ *)
(* H. down to the portable compression (Proofs/KernelsP.v: the model   *)
(*    rows functions are Portable.compress_in_place / compress_xof)    *)
(* ------------------------------------------------------------------ *)
Corollary rs_sse41_compress_in_place_portable cv block bl ctr fl : row_dom cv block bl fl ->
  rs_sse41_compress_in_place cv block bl ctr fl = Ok (compress_in_place cv block bl ctr fl).
Proof. intros D. rewrite (rs_sse41_compress_in_place_ok _ _ _ _ _ D), compress_in_place_rows_ok by apply D. reflexivity. Qed.
Corollary rs_sse41_compress_xof_portable cv block bl ctr fl : row_dom cv block bl fl ->
  rs_sse41_compress_xof cv block bl ctr fl = Ok (compress_xof cv block bl ctr fl).
Proof. intros D. rewrite (rs_sse41_compress_xof_ok _ _ _ _ _ D), compress_xof_rows_ok by apply D. reflexivity. Qed.
Corollary rs_sse2_compress_in_place_portable cv block bl ctr fl : row_dom cv block bl fl ->
  rs_sse2_compress_in_place cv block bl ctr fl = Ok (compress_in_place cv block bl ctr fl).
Proof. intros D. rewrite (rs_sse2_compress_in_place_ok _ _ _ _ _ D), compress_in_place_rows_ok by apply D. reflexivity. Qed.
Corollary rs_sse2_compress_xof_portable cv block bl ctr fl : row_dom cv block bl fl ->
  rs_sse2_compress_xof cv block bl ctr fl = Ok (compress_xof cv block bl ctr fl).
Proof. intros D. rewrite (rs_sse2_compress_xof_ok _ _ _ _ _ D), compress_xof_rows_ok by apply D. reflexivity. Qed.
Corollary c_sse2_compress_in_place_portable cv block bl ctr fl : row_dom cv block bl fl ->
  c_sse2_blake3_compress_in_place_sse2 cv block bl ctr fl = compress_in_place cv block bl ctr fl.
Proof. intros D. rewrite (c_sse2_blake3_compress_in_place_sse2_ok _ _ _ _ _ D). apply compress_in_place_rows_ok, D. Qed.
Corollary c_sse2_compress_xof_portable cv block bl ctr fl out : row_dom cv block bl fl -> length out = 64%nat ->
  c_sse2_blake3_compress_xof_sse2 cv block bl ctr fl out = compress_xof cv block bl ctr fl.
Proof. intros D Lo. rewrite (c_sse2_blake3_compress_xof_sse2_ok _ _ _ _ _ _ D Lo). apply compress_xof_rows_ok, D. Qed.
Corollary c_sse41_compress_in_place_portable cv block bl ctr fl : row_dom cv block bl fl ->
  c_sse41_blake3_compress_in_place_sse41 cv block bl ctr fl = compress_in_place cv block bl ctr fl.
Proof. intros D. rewrite (c_sse41_blake3_compress_in_place_sse41_ok _ _ _ _ _ D). apply compress_in_place_rows_ok, D. Qed.
Corollary c_sse41_compress_xof_portable cv block bl ctr fl out : row_dom cv block bl fl -> length out = 64%nat ->
  c_sse41_blake3_compress_xof_sse41 cv block bl ctr fl out = compress_xof cv block bl ctr fl.
Proof. intros D Lo. rewrite (c_sse41_blake3_compress_xof_sse41_ok _ _ _ _ _ _ D Lo). apply compress_xof_rows_ok, D. Qed.
Corollary c_avx512_compress_in_place_portable cv block bl ctr fl : row_dom cv block bl fl ->
  c_avx512_blake3_compress_in_place_avx512 cv block bl ctr fl = compress_in_place cv block bl ctr fl.
Proof. intros D. rewrite (c_avx512_blake3_compress_in_place_avx512_ok _ _ _ _ _ D). apply compress_in_place_rows_ok, D. Qed.
Corollary c_avx512_compress_xof_portable cv block bl ctr fl out : row_dom cv block bl fl -> length out = 64%nat ->
  c_avx512_blake3_compress_xof_avx512 cv block bl ctr fl out = compress_xof cv block bl ctr fl.
Proof. intros D Lo. rewrite (c_avx512_blake3_compress_xof_avx512_ok _ _ _ _ _ _ D Lo). apply compress_xof_rows_ok, D. Qed.
