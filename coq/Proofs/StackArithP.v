(* Arithmetic of the lazily merged CV stack: lists of exponents (bottom of the
   stack first); entry i has size 2^(a_i) chunks.
     Dom  : every entry is at least as large as everything above it together
     SDom : strictly larger  (then the sizes are the binary representation of
            the total, so the length is its popcount)
   Under Dom only the top two entries can be equal; merging them preserves Dom. *)
From V Require Import Proofs.ListP.
From V Require Import Base.Res Base.MachInt.
Open Scope N_scope.

Fixpoint sum2 (l : list N) : N :=
  match l with [] => 0 | a :: tl => 2 ^ a + sum2 tl end.

Fixpoint Dom (l : list N) : Prop :=
  match l with [] => True | a :: tl => sum2 tl <= 2 ^ a /\ Dom tl end.

Fixpoint SDom (l : list N) : Prop :=
  match l with [] => True | a :: tl => sum2 tl < 2 ^ a /\ SDom tl end.

Lemma pow2_pos' a : 0 < 2 ^ a.
Proof. apply N.neq_0_lt_0, N.pow_nonzero. discriminate. Qed.

Lemma pow2_lt_le_g a b : 2 ^ a < 2 * 2 ^ b -> 2 ^ a <= 2 ^ b.
Proof.
  intros H. rewrite <- N.pow_succ_r' in H. apply N.pow_lt_mono_r_iff in H; [|lia].
  apply N.pow_le_mono_r; lia.
Qed.

Lemma sum2_app l1 l2 : sum2 (l1 ++ l2) = sum2 l1 + sum2 l2.
Proof. induction l1 as [|a l1 IH]; cbn [app sum2]; [reflexivity|]. rewrite IH. lia. Qed.

Lemma SDom_Dom l : SDom l -> Dom l.
Proof. induction l as [|a l IH]; cbn; [auto|]. intros [H1 H2]. split; [lia|auto]. Qed.

(* ---- popcount ------------------------------------------------------------------------ *)
Lemma popcount_double x : popcount (2 * x) = popcount x.
Proof. destruct x; reflexivity. Qed.

Lemma popcount_double_1 x : popcount (2 * x + 1) = 1 + popcount x.
Proof. destruct x as [|p]; [reflexivity|]. cbn. reflexivity. Qed.

Lemma popcount_pow2_add : forall a r, r < 2 ^ a -> popcount (2 ^ a + r) = 1 + popcount r.
Proof.
  intros a. induction a as [|a IH] using N.peano_ind; intros r Hr.
  - change (2 ^ 0) with 1 in *. replace r with 0 by lia. reflexivity.
  - rewrite N.pow_succ_r' in *.
    destruct (N.even r) eqn:E.
    + apply N.even_spec in E. destruct E as [q ->].
      replace (2 * 2 ^ a + 2 * q) with (2 * (2 ^ a + q)) by lia.
      rewrite !popcount_double. apply IH. lia.
    + assert (Ho : N.odd r = true) by (rewrite <- N.negb_even, E; reflexivity).
      apply N.odd_spec in Ho. destruct Ho as [q ->].
      replace (2 * 2 ^ a + (2 * q + 1)) with (2 * (2 ^ a + q) + 1) by lia.
      rewrite !popcount_double_1. rewrite IH by lia. lia.
Qed.

Lemma sdom_popcount l : SDom l -> popcount (sum2 l) = N.of_nat (length l).
Proof.
  induction l as [|a l IH]; [reflexivity|].
  cbn [SDom sum2 length]. intros [H1 H2]. rewrite popcount_pow2_add by exact H1. rewrite IH by exact H2. lia.
Qed.

(* ---- only the top two entries can be equal ---------------------------------------------- *)
Lemma pow2_between a b : 2 ^ b < 2 ^ a -> 2 ^ a < 2 * 2 ^ b -> False.
Proof.
  intros H1 H2. apply N.pow_lt_mono_r_iff in H1; [|lia].
  rewrite <- N.pow_succ_r' in H2. apply N.pow_lt_mono_r_iff in H2; [|lia]. lia.
Qed.

Lemma pow2_le_cases a b : 2 ^ b <= 2 ^ a -> b = a \/ 2 * 2 ^ b <= 2 ^ a.
Proof.
  intros H. apply N.pow_le_mono_r_iff in H; [|lia].
  destruct (N.eq_dec b a) as [->|Hne]; [left; reflexivity|right].
  rewrite <- N.pow_succ_r'. apply N.pow_le_mono_r; lia.
Qed.

(* Dom l: either the last two exponents are equal, or the domination is strict everywhere *)
Lemma dom_cases : forall l, Dom l -> (exists pre a, l = pre ++ [a; a]) \/ SDom l.
Proof.
  induction l as [|a l IH]; intros HD; [right; exact I|].
  cbn [Dom] in HD. destruct HD as [H1 H2].
  destruct l as [|b l'].
  - right. cbn. split; [apply pow2_pos'|exact I].
  - destruct (IH H2) as [(pre & c & Hl)|HS].
    + left. exists (a :: pre), c. rewrite Hl. reflexivity.
    + destruct l' as [|c l''].
      * (* exactly two entries: equal or strict *)
        cbn [sum2] in H1. rewrite N.add_0_r in H1.
        destruct (pow2_le_cases a b H1) as [->|Hlt].
        -- left. exists [], a. reflexivity.
        -- right. cbn [SDom sum2]. pose proof (pow2_pos' b). repeat split; lia.
      * (* three or more: the sum above b is positive and < 2^b, so 2^a > it strictly *)
        right. cbn [SDom]. split; [|exact HS].
        cbn [SDom] in HS. destruct HS as [Hs1 _].
        cbn [sum2] in H1, Hs1 |- *.
        pose proof (pow2_pos' c) as Hc.
        destruct (N.eq_dec (2 ^ b + (2 ^ c + sum2 l'')) (2 ^ a)) as [Heq|Hne]; [|lia].
        exfalso. apply (pow2_between a b); lia.
Qed.

Lemma dom_app_inv l1 l2 : Dom (l1 ++ l2) -> Dom l2.
Proof. induction l1 as [|a l1 IH]; cbn [app Dom]; [auto|]. intros [_ H]. auto. Qed.

(* merging the two equal top entries preserves Dom and the total *)
Lemma dom_merge pre a : Dom (pre ++ [a; a]) -> Dom (pre ++ [a + 1]) /\ sum2 (pre ++ [a + 1]) = sum2 (pre ++ [a; a]).
Proof.
  induction pre as [|b pre IH]; cbn [app Dom sum2].
  - intros _. rewrite N.add_1_r, N.pow_succ_r'. repeat split; lia.
  - intros [H1 H2]. destruct (IH H2) as [IH1 IH2]. rewrite IH2. repeat split; assumption.
Qed.

Lemma popcount_le_length : forall n l, length l = n -> Dom l -> popcount (sum2 l) <= N.of_nat (length l).
Proof.
  induction n as [|n IH]; intros l Hl HD.
  - destruct l; [cbn; lia|discriminate].
  - destruct (dom_cases l HD) as [(pre & a & ->)|HS].
    + destruct (dom_merge pre a HD) as [HD' Hs]. rewrite <- Hs.
      specialize (IH (pre ++ [a + 1])). rewrite !app_length in *. cbn [length] in *.
      specialize (IH ltac:(lia) HD'). lia.
    + rewrite sdom_popcount by exact HS. lia.
Qed.

(* if the stack is longer than the popcount of the total, the top two entries are equal *)
Lemma dom_needs_merge l : Dom l -> popcount (sum2 l) < N.of_nat (length l) -> exists pre a, l = pre ++ [a; a].
Proof.
  intros HD Hlt. destruct (dom_cases l HD) as [H|HS]; [exact H|].
  rewrite sdom_popcount in Hlt by exact HS. lia.
Qed.

Lemma dom_merged l : Dom l -> N.of_nat (length l) <= popcount (sum2 l) -> SDom l.
Proof.
  intros HD Hle. destruct (dom_cases l HD) as [(pre & a & ->)|HS]; [|exact HS].
  exfalso. destruct (dom_merge pre a HD) as [HD' Hs].
  pose proof (popcount_le_length _ _ eq_refl HD') as Hp. rewrite Hs in Hp.
  rewrite !app_length in *. cbn [length] in *. lia.
Qed.

(* ---- pushing an aligned subtree ------------------------------------------------------------ *)
Lemma sdom_divides b : forall l, SDom l -> (2 ^ b | sum2 l) -> Forall (fun a => b <= a) l.
Proof.
  induction l as [|a l IH]; intros HS Hdiv; [constructor|].
  cbn [SDom sum2] in *. destruct HS as [H1 H2].
  destruct (N.le_gt_cases b a) as [Hba|Hab].
  - constructor; [exact Hba|]. apply IH; [exact H2|].
    assert (Hda : (2 ^ b | 2 ^ a)).
    { exists (2 ^ (a - b)). rewrite <- N.pow_add_r. f_equal. lia. }
    apply (N.divide_add_cancel_r _ _ _ Hda Hdiv).
  - (* a < b: then 2^a + sum2 l < 2^(a+1) <= 2^b, and it is positive: not divisible *)
    exfalso. destruct Hdiv as [q Hq].
    assert (Hpa : 2 * 2 ^ a <= 2 ^ b) by (rewrite <- N.pow_succ_r'; apply N.pow_le_mono_r; lia).
    pose proof (pow2_pos' a). destruct q as [|q]; [lia|].
    assert (2 ^ b <= N.pos q * 2 ^ b) by nia. lia.
Qed.

Lemma forall_ge_divides b : forall l, Forall (fun a => b <= a) l -> (2 ^ b | sum2 l).
Proof.
  induction l as [|a l IH]; intros H; [exists 0; reflexivity|].
  inversion H; subst. cbn [sum2]. apply N.divide_add_r; [|auto].
  exists (2 ^ (a - b)). rewrite <- N.pow_add_r. f_equal. lia.
Qed.

Lemma pow2_divides b a : b <= a -> (2 ^ b | 2 ^ a).
Proof. intros H. exists (2 ^ (a - b)). rewrite <- N.pow_add_r. f_equal. lia. Qed.

Lemma divide_pos_le d x : (d | x) -> 0 < x -> d <= x.
Proof. intros [q Hq] Hx. destruct q as [|q]; [lia|]. nia. Qed.

(* pushing 2^b on a fully merged stack whose total is a multiple of 2^b keeps Dom *)
Lemma dom_push : forall l b, SDom l -> (2 ^ b | sum2 l) -> Dom (l ++ [b]).
Proof.
  induction l as [|a l IH]; intros b HS Hdiv.
  - cbn. split; [lia|exact I].
  - pose proof (sdom_divides b _ HS Hdiv) as Hall. inversion Hall as [|? ? Hba Hall']; subst.
    cbn [SDom sum2 app Dom] in *. destruct HS as [H1 H2].
    assert (Hdl : (2 ^ b | sum2 l)) by (apply forall_ge_divides; exact Hall').
    split; [|apply IH; assumption].
    rewrite sum2_app. cbn [sum2]. rewrite N.add_0_r.
    assert (Hdd : (2 ^ b | 2 ^ a - sum2 l)) by (apply N.divide_sub_r; [apply pow2_divides; exact Hba|exact Hdl]).
    pose proof (divide_pos_le _ _ Hdd ltac:(lia)). lia.
Qed.

(* ... and is even strict when the total is a multiple of 2^(b+1) (first half of a pair) *)
Lemma sdom_push_half : forall l b, SDom l -> (2 ^ (b + 1) | sum2 l) -> SDom (l ++ [b]).
Proof.
  induction l as [|a l IH]; intros b HS Hdiv.
  - cbn. split; [apply pow2_pos'|exact I].
  - pose proof (sdom_divides (b + 1) _ HS Hdiv) as Hall. inversion Hall as [|? ? Hba Hall']; subst.
    cbn [SDom sum2 app] in *. destruct HS as [H1 H2].
    assert (Hdl : (2 ^ (b + 1) | sum2 l)) by (apply forall_ge_divides; exact Hall').
    split; [|apply IH; assumption].
    rewrite sum2_app. cbn [sum2]. rewrite N.add_0_r.
    assert (Hdd : (2 ^ (b + 1) | 2 ^ a - sum2 l)) by (apply N.divide_sub_r; [apply pow2_divides; exact Hba|exact Hdl]).
    pose proof (divide_pos_le _ _ Hdd ltac:(lia)) as Hle. rewrite N.add_1_r, N.pow_succ_r' in Hle.
    pose proof (pow2_pos' b). lia.
Qed.

(* exponents of a fully merged stack are bounded by the total *)
Lemma sdom_length_bound : forall l m, SDom l -> sum2 l < 2 ^ m -> N.of_nat (length l) <= m.
Proof.
  induction l as [|a l IH]; intros m HS Hm; [cbn; lia|].
  cbn [SDom sum2 length] in *. destruct HS as [H1 H2].
  assert (Ham : a < m).
  { apply (N.pow_lt_mono_r_iff 2); [lia|]. pose proof (pow2_pos' a). lia. }
  specialize (IH a H2 H1). lia.
Qed.

(* coarse length bound for a not yet merged stack *)
Lemma dom_length_bound : forall l m, Dom l -> sum2 l <= 2 ^ m -> N.of_nat (length l) <= m + 2.
Proof.
  induction l as [|x l IH]; intros m HD Hs; [cbn; lia|].
  cbn [Dom sum2 length] in *. destruct HD as [H1 H2].
  destruct l as [|y l']; [cbn [length]; lia|].
  assert (Hpos : 0 < sum2 (y :: l')) by (cbn [sum2]; pose proof (pow2_pos' y); lia).
  assert (Hx : x < m) by (apply (N.pow_lt_mono_r_iff 2); lia).
  specialize (IH x H2 H1). lia.
Qed.
