// Selects the b3sum source that is compiled: the repository under test by default,
// or a patched copy (VERIF_B3SUM_MAIN=/path/to/main.rs) for checking proposed repairs.
fn main() {
    let p = std::env::var("VERIF_B3SUM_MAIN").unwrap_or_else(|_| {
        let repo = std::env::var("VERIF_REPO").unwrap_or_else(|_| "/repo".to_string());
        format!("{}/b3sum/src/main.rs", repo)
    });
    println!("cargo:rustc-env=B3SUM_MAIN_RS={}", p);
    println!("cargo:rerun-if-env-changed=VERIF_B3SUM_MAIN");
    println!("cargo:rerun-if-env-changed=VERIF_REPO");
    println!("cargo:rerun-if-changed={}", p);
}
