(* arrayvec::ArrayVec<T, CAP> for code translated statement by statement (gen/GenLibLoops.v): the vector is the list of
   its elements in INDEX order (v[0] first, the most recently pushed element last); CAP is an argument of push.
     v.len()            av_len v
     v.push(x)          av_push CAP v x       panics (Panic 51, every build) when the vector is full
     v.pop().unwrap()   av_pop_unwrap v       (the shorter vector, the removed last element); Panic 50 when empty
     v[i] / &v[i]       av_index v i          Panic 53 when i >= len
     v.clear()          []
   The Panic codes are the ones Model/RsHasher.v uses for the same operations. *)
From Coq Require Import NArith List.
From V Require Import Base.Res.
Import ListNotations.
Open Scope N_scope.

Definition av_len {A} (v : list A) : N := N.of_nat (length v).

Definition av_push {A} (cap : N) (v : list A) (x : A) : res (list A) :=
  assert! (av_len v <? cap) code 51 ;;
  Ok (v ++ [x]).

Definition av_pop_unwrap {A} (v : list A) : res (list A * A) :=
  match rev v with
  | [] => Panic 50
  | x :: r => Ok (rev r, x)
  end.

Definition av_index {A} (v : list A) (i : N) : res A :=
  match nth_error v (N.to_nat i) with
  | Some x => Ok x
  | None => Panic 53
  end.

Lemma av_pop_unwrap_snoc {A} (v : list A) (x : A) : av_pop_unwrap (v ++ [x]) = Ok (v, x).
Proof. unfold av_pop_unwrap. rewrite rev_app_distr. cbn [rev app]. rewrite rev_involutive. reflexivity. Qed.

Lemma av_pop_unwrap_nil {A} : av_pop_unwrap (@nil A) = Panic 50.
Proof. reflexivity. Qed.
