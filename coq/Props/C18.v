(* C18 (PLACEHOLDER, to be replaced by the real theorems): the writable global symbols that `nm` finds in the
   freshly built C library objects and in the blake3 rlib (generated into gen/GenGlobals.v by tools/props/C18.py
   before this file is compiled) are exactly the CPU-feature detection caches: a new writable static breaks these
   statements.  Plus one list lemma about per-thread result lists. *)
From Coq Require Import NArith List Bool Lia.
From V Require Import gen.GenGlobals.
Import ListNotations.
Open Scope N_scope.

(* "g_cpu_features" *)
Theorem C18_globals_c_is_detection_cache : globals_c = [[103; 95; 99; 112; 117; 95; 102; 101; 97; 116; 117; 114; 101; 115]].
Proof. reflexivity. Qed.

(* blake3::platform::avx2_detected::has_avx2::STORAGE, blake3::platform::avx512_detected::has_avx512::STORAGE, blake3::platform::sse41_detected::has_sse41::STORAGE *)
Theorem C18_globals_rs_are_detection_caches : globals_rs =
  [[98; 108; 97; 107; 101; 51; 58; 58; 112; 108; 97; 116; 102; 111; 114; 109; 58; 58; 97; 118; 120; 50; 95; 100; 101; 116; 101; 99; 116; 101; 100; 58; 58; 104; 97; 115; 95; 97; 118; 120; 50; 58; 58; 83; 84; 79; 82; 65; 71; 69];
   [98; 108; 97; 107; 101; 51; 58; 58; 112; 108; 97; 116; 102; 111; 114; 109; 58; 58; 97; 118; 120; 53; 49; 50; 95; 100; 101; 116; 101; 99; 116; 101; 100; 58; 58; 104; 97; 115; 95; 97; 118; 120; 53; 49; 50; 58; 58; 83; 84; 79; 82; 65; 71; 69];
   [98; 108; 97; 107; 101; 51; 58; 58; 112; 108; 97; 116; 102; 111; 114; 109; 58; 58; 115; 115; 101; 52; 49; 95; 100; 101; 116; 101; 99; 116; 101; 100; 58; 58; 104; 97; 115; 95; 115; 115; 101; 52; 49; 58; 58; 83; 84; 79; 82; 65; 71; 69]].
Proof. reflexivity. Qed.

Theorem C18_append_lengths_commute : forall (a b : list N),
  length (a ++ b) = length (b ++ a).
Proof. intros a b. rewrite !app_length. lia. Qed.

Print Assumptions C18_globals_c_is_detection_cache.
Print Assumptions C18_globals_rs_are_detection_caches.
Print Assumptions C18_append_lengths_commute.
