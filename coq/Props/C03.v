(* C03: extended output is one coherent, seekable byte stream.
   Statements only; proofs in Proofs/XofP.v.  `stream spec_c64 o p n` is the
   specification's S[p .. p+n) of the root output o (Spec/Tree.v): byte i of S is
   byte (i mod 64) of the root compression with output counter i / 64. *)
From Coq Require Import NArith ZArith List Bool.
From V Require Import Base.Res Base.Word Spec.Compress Spec.Tree Spec.Blake3
  Model.Platform Model.RsChunk Model.RsHasher Model.RsXof Proofs.XofP Proofs.IoP Proofs.C02P.
Import ListNotations.
Open Scope N_scope.

(* fill / Read::read: returns S[p..p+n), advances to p+n, for any n with p+n <= 2^64-1 *)
Theorem C03_fill_spec : forall p, PlatformOK p -> forall r o pos n,
  Rd r o pos -> pos + n <= 2 ^ 64 - 1 ->
  exists r', reader_fill p r n = Ok (r', stream spec_c64 o pos (N.to_nat n)) /\ Rd r' o (pos + n).
Proof. exact reader_fill_spec. Qed.

Theorem C03_position_spec : forall r o pos, Rd r o pos -> pos <= 2 ^ 64 - 1 -> reader_position r = Ok pos.
Proof. exact reader_position_spec. Qed.

Theorem C03_set_position_spec : forall r o pos q, Rd r o pos -> q <= 2 ^ 64 - 1 ->
  exists r', reader_set_position r q = Ok r' /\ Rd r' o q.
Proof. exact reader_set_position_spec. Qed.

(* seek: End and negative targets are errors and leave the reader unchanged *)
Theorem C03_seek_spec : forall r o pos s, Rd r o pos -> pos <= 2 ^ 64 - 1 ->
  match s with
  | SeekEnd _ => reader_seek r s = Ok (r, None)
  | SeekStart x => exists r', reader_seek r s = Ok (r', Some (N.min x (2 ^ 64 - 1))) /\ Rd r' o (N.min x (2 ^ 64 - 1))
  | SeekCurrent d =>
      if (Z.of_N pos + d <? 0)%Z then reader_seek r s = Ok (r, None)
      else let q := N.min (Z.to_N (Z.of_N pos + d)) (2 ^ 64 - 1) in
           exists r', reader_seek r s = Ok (r', Some q) /\ Rd r' o q
  end.
Proof. exact reader_seek_spec. Qed.

(* however reads are sized or interleaved with set_position and seek: any finite
   operation sequence that stays in the documented domain yields exactly the
   observations of the abstract machine (position into S) *)
Theorem C03_reader_refines : forall p, PlatformOK p -> forall ops r o pos obs,
  Rd r o pos -> pos <= max_pos -> arun o pos ops = Some obs -> rrun p r ops = Ok obs.
Proof. exact reader_refines. Qed.

(* a fresh reader of a well-formed root output is at position 0 *)
Theorem C03_reader_new : forall o, wf_out o -> o_ctr o = 0 -> Rd (reader_new o) o 0.
Proof. exact Rd_new. Qed.

(* the first 32 bytes of S are the hash (definition of hash_mode) *)
Theorem C03_first_32_bytes_are_the_hash : forall m input,
  b3_hash_mode m input = stream spec_c64 (b3_root_output m input) 0 32.
Proof. intros. unfold b3_hash_mode, hash_mode, b3_root_output. reflexivity. Qed.

(* blocks of S: the k-th 64-byte block is the root compression with counter k *)
(* rblock o k := root_block spec_c64 o k *)
Theorem C03_stream_block : forall o k, wf_out o -> stream spec_c64 o (64 * k) 64 = rblock o k.
Proof. exact stream_block. Qed.

(* every finalized state defines that stream: finalize_xof of a hasher that absorbed `pieces` (any
   split, any mode key/flags) is a reader at position 0 of the specification's root output *)
Theorem C03_finalize_xof_is_the_stream : forall p, PlatformOK p -> forall K F, length K = 8%nat -> forall pieces,
  len (concat pieces) < 2 ^ 64 ->
  exists h, updates p (new_internal K F) pieces = Ok h /\
    hasher_finalize_output p h = Ok (subtree_output spec_c8 tree_height K F 0 (concat pieces)) /\
    Rd (reader_new (subtree_output spec_c8 tree_height K F 0 (concat pieces)))
       (subtree_output spec_c8 tree_height K F 0 (concat pieces)) 0.
Proof. exact finalize_xof_reader. Qed.

(* non-vacuity: a concrete reader, an operation sequence crossing block counter 2^32 *)
Example C03_nonvacuous :
  let p := sim_platform 8 16 in
  let o := b3_root_output Hash [1; 2; 3] in
  Rd (reader_new o) o 0 /\
  exists obs, arun o 0 [RFill 7; RSetPos 274877906940; RFill 10; RPos; RSeek (SeekCurrent (-5)%Z); RSeek (SeekEnd 0%Z)] = Some obs /\
              rrun p (reader_new o) [RFill 7; RSetPos 274877906940; RFill 10; RPos; RSeek (SeekCurrent (-5)%Z); RSeek (SeekEnd 0%Z)] = Ok obs.
Proof.
  split.
  - apply Rd_new; vm_compute; auto.
  - eexists. split; vm_compute; reflexivity.
Qed.

(* the functions of the modelled source are exactly the functions the model was written against
   (gen/GenApi.v is regenerated from /repo on every run; see Model/ApiSurface.v) *)
From V Require gen.GenApi Model.ApiSurface.
Theorem C03_api_lib_reader : GenApi.api_lib_reader = ApiSurface.expected_lib_reader.
Proof. reflexivity. Qed.

Print Assumptions C03_api_lib_reader.
Print Assumptions C03_fill_spec.
Print Assumptions C03_position_spec.
Print Assumptions C03_set_position_spec.
Print Assumptions C03_seek_spec.
Print Assumptions C03_reader_refines.
Print Assumptions C03_reader_new.
Print Assumptions C03_first_32_bytes_are_the_hash.
Print Assumptions C03_stream_block.
Print Assumptions C03_finalize_xof_is_the_stream.
