(* C01: one-shot hash, keyed_hash and derive_key compute the BLAKE3 specification.
   Statements only; proofs in Proofs/{ChunkP,TreeP,FormulasP,WideP,C01P}.v.
   `Ok` is the no-panic claim: every debug_assert!, slice index, split_at,
   ArrayVec::push and overflow check of the modelled functions is an `assert!` of
   the model.  PlatformOK p covers every SIMD degree 1..16. *)
From Coq Require Import NArith List Bool.
From V Require Import Base.Res Base.Word Spec.Compress Spec.Tree Spec.Blake3
  Model.Portable Model.Platform Model.RsWide Proofs.FormulasP Proofs.C01P gen.GenFormulas.
Import ListNotations.
Open Scope N_scope.

Theorem C01_hash_spec : forall p, PlatformOK p -> forall input,
  len input < 2 ^ 64 -> rs_hash p input = Ok (b3_hash input).
Proof. exact rs_hash_spec. Qed.

Theorem C01_keyed_hash_spec : forall p, PlatformOK p -> forall key input,
  length key = 32%nat -> len input < 2 ^ 64 ->
  rs_keyed_hash p key input = Ok (b3_keyed_hash key input).
Proof. exact rs_keyed_hash_spec. Qed.

Theorem C01_derive_key_spec : forall p, PlatformOK p -> forall context material,
  len context < 2 ^ 64 -> len material < 2 ^ 64 ->
  rs_derive_key p context material = Ok (b3_derive_key context material).
Proof. exact rs_derive_key_spec. Qed.

(* the translated source formula of hazmat::left_subtree_len, on all of u64 *)
Theorem C01_left_subtree_len_formula : forall n,
  1024 < n -> n < 2 ^ 64 -> rs_left_subtree_len n = Ok (left_len n).
Proof. exact rs_left_subtree_len_spec. Qed.

(* the specification is anchored to two published digests *)
Theorem C01_spec_anchor_empty : b3_hash [] = digest_empty.
Proof. exact anchor_empty. Qed.
Theorem C01_spec_anchor_abc : b3_hash [97; 98; 99] = digest_abc.
Proof. exact anchor_abc. Qed.

(* non-vacuity: platforms of every degree satisfy the hypothesis, and a concrete
   input meets the length bound *)
Theorem C01_platforms_exist :
  PlatformOK (sim_platform 1 16) /\ PlatformOK (sim_platform 4 16) /\ PlatformOK (sim_platform 8 16) /\
  PlatformOK (sim_platform 16 16) /\ PlatformOK (sim_platform 8 8) /\ PlatformOK (sim_platform 1 1) /\
  PlatformOK (sim_platform 2 4).
Proof. repeat split; apply sim_platform_ok; (reflexivity || (intro H; discriminate H)). Qed.

Example C01_nonvacuous :
  let input := map (fun i => N.of_nat i mod 251) (seq 0 2049) in
  len input < 2 ^ 64 /\ rs_hash (sim_platform 1 16) input = rs_hash (sim_platform 16 16) input /\
  is_ok (rs_hash (sim_platform 4 16) input) = true.
Proof. vm_compute. repeat split. Qed.

Print Assumptions C01_hash_spec.
Print Assumptions C01_keyed_hash_spec.
Print Assumptions C01_derive_key_spec.
Print Assumptions C01_left_subtree_len_formula.
Print Assumptions C01_spec_anchor_empty.
Print Assumptions C01_spec_anchor_abc.
Print Assumptions C01_platforms_exist.
Print Assumptions C01_nonvacuous.

(* ---- the model against the source text: the wide / all-at-once core of src/lib.rs ------------------------------
   gen/GenLibWide.v is the text of largest_power_of_two_leq, compress_chunks_parallel, compress_parents_parallel,
   compress_subtree_wide, compress_subtree_to_parent_node, hash_all_at_once, hash, keyed_hash, derive_key (src/lib.rs) and
   hazmat::left_subtree_len (src/hazmat.rs), translated statement by statement (tools/gen_coq.py gen_lib_wide, on top of
   gen/GenLibSmall.v / GenLibLoops.v): the recursion of compress_subtree_wide is a Fixpoint on explicit fuel (the
   leading `if .. { return ..; }` first, then `match fuel`), J::join(|| a, || b) is a then b (the schedule independence
   is C08), `out: &mut [u8]` buffers are threaded byte lists, chunks_exact / split_at / split_at_mut / array_ref! /
   array_mut_ref! / ArrayVec have list semantics (Base/Slice.v, Base/ArrayVec.v) with a bounds assert per site whose
   Panic code is the one Model/RsWide.v uses for that site; Platform::hash_many, MAX_SIMD_DEGREE, MAX_SIMD_DEGREE_OR_2,
   Platform::detect(), platform::words_from_le_bytes_32 and hazmat::hash_derive_key_context are parameters.

   Each translated function EQUALS its model on every argument and every fuel, Panic and OutOfFuel results included,
   up to two explicit maps.
   (1) Buffers.  The models return lists of chaining values and take the capacity of `out` in CVs; the translation
       returns (arr_store out 0 (concat cvs), number of CVs) and its capacity is (length out) / 32; child CVs are passed
       concatenated; Platform::hash_many is m_hash_many (p_hash_many of the model's platform, stored at offset 0).
   (2) Fuel.  The translation threads one fuel through every loop, recursion and callee, the models give each loop its
       own; the *_with functions are the models with the translation's discipline (defining equations below), and
       equal / refine the models as soon as the fuel suffices.
   Hypotheses are type invariants only: an 8-word key, input.len() < 2^64, and plat_wf p (hash_many returns one 32-byte
   CV per input and respects the capacity, compress_in_place returns 8 words, the degrees fit 32 bits): every platform
   with the portable kernels has it.  Proofs in Proofs/GenLibWideP.v. *)
From V Require Import Base.MachInt Base.Arr Base.ArrayVec Base.Slice gen.GenConsts gen.GenLibSmall gen.GenLibLoops gen.GenLibWide
  Model.RsChunk Proofs.GenLibSmallP Proofs.GenLibLoopsP Proofs.GenLibWideP.

Theorem C01_lib_src_wide_repr_def :
  (forall p inputs key counter incr flags fs fe out,
     m_hash_many p inputs key counter incr flags fs fe out =
     (cvs <- p_hash_many p inputs key counter incr flags fs fe (nlen out / 32) ;; Ok (arr_store out 0 (concat cvs)))) /\
  (forall s off vs, arr_store s off vs = firstn off s ++ vs ++ skipn (off + length vs) s) /\
  (forall cvs, cvs32 cvs <-> Forall (fun cv => length cv = 32%nat) cvs) /\
  (forall (A : Type) (r1 r2 : res A), refines r1 r2 <-> (r1 = OutOfFuel \/ r1 = r2)) /\
  (forall (A : Type) (c : N) (r : res A),
     at_code c r = match r with Ok a => Ok a | Panic _ => Panic c | OutOfFuel => OutOfFuel end) /\
  (forall n l, sl_chunks_exact n l = chunks_exact_of n l).
Proof.
  split; [reflexivity|]. split; [reflexivity|]. split; [intros; reflexivity|]. split; [intros; reflexivity|].
  split; [reflexivity|]. exact sl_chunks_exact_eq.
Qed.
Print Assumptions C01_lib_src_wide_repr_def.

Theorem C01_lib_src_plat_wf_def : forall p, plat_wf p <->
  ((forall inputs key ctr incr fl fs fe cap cvs, length key = 8%nat ->
      p_hash_many p inputs key ctr incr fl fs fe cap = Ok cvs ->
      length cvs = length inputs /\ cvs32 cvs /\ N.of_nat (length inputs) <= cap) /\
   (forall cv block bl ctr fl, length cv = 8%nat -> length (p_compress_in_place p cv block bl ctr fl) = 8%nat) /\
   p_degree p < 2 ^ 32 /\ p_max_degree p < 2 ^ 32).
Proof.
  intros p. split.
  - intros [A B C D]. split; [exact A|]. split; [exact B|]. split; [exact C|exact D].
  - intros [A [B [C D]]]. constructor; assumption.
Qed.
Print Assumptions C01_lib_src_plat_wf_def.

(* plat_wf is not vacuous: the portable kernels at any SIMD degree *)
Theorem C01_lib_src_plat_wf_sim : forall d m, d < 2 ^ 32 -> m < 2 ^ 32 -> plat_wf (sim_platform d m).
Proof. exact sim_platform_wf. Qed.
Print Assumptions C01_lib_src_plat_wf_sim.

Theorem C01_lib_src_largest_power_of_two_leq : forall n,
  lib_largest_power_of_two_leq n = rs_largest_power_of_two_leq n.
Proof. exact lib_largest_power_of_two_leq_eq. Qed.
Print Assumptions C01_lib_src_largest_power_of_two_leq.

(* hazmat::left_subtree_len: the model's assert 1205 is its debug_assert!, then the formula *)
Theorem C01_lib_src_hazmat_left_subtree_len : forall n,
  lib_hazmat_left_subtree_len n = (assert! (rs_CHUNK_LEN <? n) code 1205 ;; rs_left_subtree_len n).
Proof. exact lib_hazmat_left_subtree_len_eq. Qed.
Print Assumptions C01_lib_src_hazmat_left_subtree_len.

(* the models with the translation's fuel discipline *)
Theorem C01_lib_src_compress_chunks_parallel_with_def : forall fuel p input key chunk_counter flags cap,
  compress_chunks_parallel_with fuel p input key chunk_counter flags cap =
  (assert! (negb (nlen input =? 0)) code 1200 ;;
   assert! (nlen input <=? p_max_degree p * rs_CHUNK_LEN) code 1201 ;;
   let '(chunks, rem) := chunks_exact_of rs_CHUNK_LEN input in
   assert! (nlen_l chunks <=? p_max_degree p) code 30 ;;
   cvs <- p_hash_many p chunks key chunk_counter true flags rs_flag_CHUNK_START rs_flag_CHUNK_END cap ;;
   let chunks_so_far := nlen_l chunks in
   if negb (nlen rem =? 0) then
     counter <- mi_add 64 chunk_counter chunks_so_far ;;
     cs <- cs_update_with fuel p (cs_new key counter flags) rem ;;
     assert! (chunks_so_far + 1 <=? cap) code 31 ;;
     Ok (cvs ++ [out_chaining_value p (cs_output cs)])
   else Ok cvs).
Proof. reflexivity. Qed.
Print Assumptions C01_lib_src_compress_chunks_parallel_with_def.

Theorem C01_lib_src_compress_subtree_wide_with_def : forall fuel p input key chunk_counter flags cap,
  compress_subtree_wide_with fuel p input key chunk_counter flags cap =
  if nlen input <=? p_degree p * rs_CHUNK_LEN then
    compress_chunks_parallel_with fuel p input key chunk_counter flags cap
  else match fuel with
  | O => OutOfFuel
  | S fuel' =>
      assert! (MachInt.popcount (p_degree p) =? 1) code 1204 ;;
      assert! (rs_CHUNK_LEN <? nlen input) code 1205 ;;
      left_len <- rs_left_subtree_len (nlen input) ;;
      assert! (left_len <=? nlen input) code 34 ;;
      let left := firstn (N.to_nat left_len) input in
      let right := skipn (N.to_nat left_len) input in
      right_counter <- rs_right_chunk_counter chunk_counter left_len ;;
      let array_cap := 2 * max_degree_or_2 p in
      degree <- (if left_len =? rs_CHUNK_LEN then
                   assert! (p_degree p =? 1) code 1206 ;; Ok 1
                 else Ok (N.max (p_degree p) 2)) ;;
      assert! (degree <=? array_cap) code 35 ;;
      lcvs <- compress_subtree_wide_with fuel' p left key chunk_counter flags degree ;;
      rcvs <- compress_subtree_wide_with fuel' p right key right_counter flags (array_cap - degree) ;;
      let left_n := N.of_nat (length lcvs) in
      let right_n := N.of_nat (length rcvs) in
      assert! (left_n =? degree) code 1207 ;;
      assert! ((1 <=? right_n) && (right_n <=? left_n)) code 1208 ;;
      if left_n =? 1 then
        assert! (2 <=? cap) code 36 ;;
        Ok (firstn 2 (lcvs ++ rcvs))
      else
        compress_parents_parallel p (lcvs ++ rcvs) key flags cap
  end.
Proof. intros [|fuel]; reflexivity. Qed.
Print Assumptions C01_lib_src_compress_subtree_wide_with_def.

Theorem C01_lib_src_all_at_once_with_def : forall fuel p input key chunk_counter flags context,
  compress_subtree_to_parent_node_with fuel p input key chunk_counter flags =
    (assert! (rs_CHUNK_LEN <? nlen input) code 1209 ;;
     cvs <- compress_subtree_wide_with fuel p input key chunk_counter flags (max_degree_or_2 p) ;;
     assert! (2 <=? N.of_nat (length cvs)) code 1210 ;;
     cvs <- condense_loop fuel p cvs key flags ;;
     match cvs with [a; b] => Ok (a ++ b) | _ => Panic 1211 end) /\
  hash_all_at_once_with fuel p input key flags =
    (if nlen input <=? rs_CHUNK_LEN then
       cs <- cs_update_with fuel p (cs_new key 0 flags) input ;; Ok (cs_output cs)
     else
       block <- compress_subtree_to_parent_node_with fuel p input key 0 flags ;;
       Ok (mkOutput key block rs_BLOCK_LEN 0 (N.lor flags rs_flag_PARENT))) /\
  rs_hash_with fuel p input = (o <- hash_all_at_once_with fuel p input rs_IV 0 ;; out_root_hash p o) /\
  rs_keyed_hash_with fuel p key input =
    (o <- hash_all_at_once_with fuel p input (words_of_bytes key) rs_flag_KEYED_HASH ;; out_root_hash p o) /\
  rs_derive_key_with fuel p context input =
    (context_key <- rs_hash_derive_key_context p context ;;
     o <- hash_all_at_once_with fuel p input (words_of_bytes context_key) rs_flag_DERIVE_KEY_MATERIAL ;;
     out_root_hash p o).
Proof. intros. repeat split; reflexivity. Qed.
Print Assumptions C01_lib_src_all_at_once_with_def.

(* the translated functions *)
Theorem C01_lib_src_compress_chunks_parallel : forall p, plat_wf p -> forall fuel input key chunk_counter flags out,
  length key = 8%nat ->
  lib_compress_chunks_parallel m_Output_chaining_value (p_max_degree p) m_hash_many fuel input key chunk_counter flags p out
  = GenLibLoopsP.res_map (fun cvs => (arr_store out 0 (concat cvs), nlen_l cvs))
      (compress_chunks_parallel_with fuel p input key chunk_counter flags (nlen out / 32)).
Proof. exact lib_compress_chunks_parallel_eq. Qed.
Print Assumptions C01_lib_src_compress_chunks_parallel.

Theorem C01_lib_src_compress_chunks_parallel_enough : forall p fuel input key chunk_counter flags cap, (17 <= fuel)%nat ->
  compress_chunks_parallel_with fuel p input key chunk_counter flags cap
  = compress_chunks_parallel p input key chunk_counter flags cap.
Proof. exact compress_chunks_parallel_with_enough. Qed.
Print Assumptions C01_lib_src_compress_chunks_parallel_enough.

(* no fuel involved: the model itself *)
Theorem C01_lib_src_compress_parents_parallel : forall p, plat_wf p -> forall child_cvs key flags out,
  length key = 8%nat -> cvs32 child_cvs ->
  lib_compress_parents_parallel (max_degree_or_2 p) m_hash_many (concat child_cvs) key flags p out
  = GenLibLoopsP.res_map (fun cvs => (arr_store out 0 (concat cvs), nlen_l cvs))
      (compress_parents_parallel p child_cvs key flags (nlen out / 32)).
Proof. exact lib_compress_parents_parallel_eq. Qed.
Print Assumptions C01_lib_src_compress_parents_parallel.

Theorem C01_lib_src_compress_subtree_wide : forall p, plat_wf p -> forall key flags, length key = 8%nat ->
  forall fuel input chunk_counter out, nlen input < 2 ^ 64 ->
  lib_compress_subtree_wide m_Output_chaining_value (p_max_degree p) (max_degree_or_2 p) m_hash_many fuel input key
    chunk_counter flags p out
  = GenLibLoopsP.res_map (fun cvs => (arr_store out 0 (concat cvs), nlen_l cvs))
      (compress_subtree_wide_with fuel p input key chunk_counter flags (nlen out / 32)).
Proof. exact lib_compress_subtree_wide_eq. Qed.
Print Assumptions C01_lib_src_compress_subtree_wide.

(* the model's recursion on fuel f is refined by the translation's discipline on any fuel that leaves 17 for the
   chunk-state loop at the leaves *)
Theorem C01_lib_src_compress_subtree_wide_enough : forall p key flags f fuel input chunk_counter cap, (f + 17 <= fuel)%nat ->
  refines (compress_subtree_wide f p input key chunk_counter flags cap)
          (compress_subtree_wide_with fuel p input key chunk_counter flags cap).
Proof. exact wide_with_refines. Qed.
Print Assumptions C01_lib_src_compress_subtree_wide_enough.

(* the `while num_cvs > 2` loop at every fuel: a relation, because the scratch arrays keep stale bytes behind the live
   CVs (cv_array holds concat cvs in front; both arrays keep their lengths) *)
Theorem C01_lib_src_condense_loop : forall p, plat_wf p -> forall key flags input chunk_counter, length key = 8%nat ->
  forall fuel cvs cv_array out_array,
  cvs32 cvs -> N.of_nat (length cvs) <= max_degree_or_2 p ->
  length cv_array = N.to_nat (max_degree_or_2 p * 32) -> firstn (32 * length cvs) cv_array = concat cvs ->
  length out_array = N.to_nat (max_degree_or_2 p * 32 / 2) ->
  match condense_loop fuel p cvs key flags with
  | Ok cvs' => exists cv_array' out_array',
      lib_compress_subtree_to_parent_node_loop1 m_Output_chaining_value (p_max_degree p) (max_degree_or_2 p) m_hash_many
        fuel input key chunk_counter flags p cv_array (nlen_l cvs) out_array = Ok (cv_array', nlen_l cvs', out_array') /\
      length cv_array' = length cv_array /\ firstn (32 * length cvs') cv_array' = concat cvs'
  | Panic c =>
      lib_compress_subtree_to_parent_node_loop1 m_Output_chaining_value (p_max_degree p) (max_degree_or_2 p) m_hash_many
        fuel input key chunk_counter flags p cv_array (nlen_l cvs) out_array = Panic c
  | OutOfFuel =>
      lib_compress_subtree_to_parent_node_loop1 m_Output_chaining_value (p_max_degree p) (max_degree_or_2 p) m_hash_many
        fuel input key chunk_counter flags p cv_array (nlen_l cvs) out_array = OutOfFuel
  end.
Proof. intros p WF key flags input cc Hk. exact (tpn_loop_eq p WF key flags input cc Hk). Qed.
Print Assumptions C01_lib_src_condense_loop.

Theorem C01_lib_src_compress_subtree_to_parent_node : forall p, plat_wf p -> forall fuel input key chunk_counter flags,
  length key = 8%nat -> nlen input < 2 ^ 64 ->
  lib_compress_subtree_to_parent_node m_Output_chaining_value (p_max_degree p) (max_degree_or_2 p) m_hash_many
    fuel input key chunk_counter flags p
  = compress_subtree_to_parent_node_with fuel p input key chunk_counter flags.
Proof. exact lib_compress_subtree_to_parent_node_eq. Qed.
Print Assumptions C01_lib_src_compress_subtree_to_parent_node.

Theorem C01_lib_src_hash_all_at_once : forall p, plat_wf p -> forall fuel input key flags,
  length key = 8%nat -> nlen input < 2 ^ 64 ->
  lib_hash_all_at_once m_Output_chaining_value (p_max_degree p) (max_degree_or_2 p) m_hash_many p fuel input key flags
  = GenLibLoopsP.res_map (lib_of_out p) (hash_all_at_once_with fuel p input key flags).
Proof. exact lib_hash_all_at_once_eq. Qed.
Print Assumptions C01_lib_src_hash_all_at_once.

Theorem C01_lib_src_hash : forall p, plat_wf p -> forall fuel input, nlen input < 2 ^ 64 ->
  lib_hash m_Output_chaining_value m_Output_root_hash (p_max_degree p) (max_degree_or_2 p) m_hash_many p fuel input
  = rs_hash_with fuel p input.
Proof. exact lib_hash_eq. Qed.
Print Assumptions C01_lib_src_hash.

Theorem C01_lib_src_keyed_hash : forall p, plat_wf p -> forall fuel key input, length key = 32%nat -> nlen input < 2 ^ 64 ->
  lib_keyed_hash m_Output_chaining_value m_Output_root_hash (p_max_degree p) (max_degree_or_2 p) m_hash_many p
    words_of_bytes fuel key input
  = rs_keyed_hash_with fuel p key input.
Proof. exact lib_keyed_hash_eq. Qed.
Print Assumptions C01_lib_src_keyed_hash.

Theorem C01_lib_src_derive_key : forall p, plat_wf p -> forall fuel context material, nlen material < 2 ^ 64 ->
  lib_derive_key m_Output_chaining_value m_Output_root_hash (p_max_degree p) (max_degree_or_2 p) m_hash_many p
    words_of_bytes (rs_hash_derive_key_context p) fuel context material
  = rs_derive_key_with fuel p context material.
Proof. exact lib_derive_key_eq. Qed.
Print Assumptions C01_lib_src_derive_key.

(* with fuel 81 (64 levels of recursion + 17 blocks of a chunk) the *_with models refine the models *)
Theorem C01_lib_src_all_at_once_enough : forall p fuel input key chunk_counter flags context, (81 <= fuel)%nat ->
  refines (compress_subtree_to_parent_node p input key chunk_counter flags)
          (compress_subtree_to_parent_node_with fuel p input key chunk_counter flags) /\
  refines (hash_all_at_once p input key flags) (hash_all_at_once_with fuel p input key flags) /\
  refines (rs_hash p input) (rs_hash_with fuel p input) /\
  refines (rs_keyed_hash p key input) (rs_keyed_hash_with fuel p key input) /\
  refines (rs_derive_key p context input) (rs_derive_key_with fuel p context input).
Proof.
  intros p fuel input key cc fl ctx HF.
  split; [exact (tpn_with_refines p fuel input key cc fl HF)|].
  split; [exact (hash_all_at_once_with_refines p fuel input key fl HF)|].
  split; [exact (rs_hash_with_refines p fuel input HF)|].
  split; [exact (rs_keyed_hash_with_refines p fuel key input HF)|exact (rs_derive_key_with_refines p fuel ctx input HF)].
Qed.
Print Assumptions C01_lib_src_all_at_once_enough.

(* END TO END: the translated source text of hash / keyed_hash / derive_key computes the BLAKE3 specification, on every
   PlatformOK platform with the shapes plat_wf, for every fuel from 81 on *)
Theorem C01_lib_src_hash_spec : forall p, PlatformOK p -> plat_wf p -> forall fuel input, (81 <= fuel)%nat ->
  len input < 2 ^ 64 ->
  lib_hash m_Output_chaining_value m_Output_root_hash (p_max_degree p) (max_degree_or_2 p) m_hash_many p fuel input
  = Ok (b3_hash input).
Proof.
  intros p OK WF fuel input HF Hin. rewrite (lib_hash_eq p WF fuel input Hin).
  rewrite (refines_ok _ _ (rs_hash_with_refines p fuel input HF)); rewrite (rs_hash_spec p OK input Hin); [reflexivity|discriminate].
Qed.
Print Assumptions C01_lib_src_hash_spec.

Theorem C01_lib_src_keyed_hash_spec : forall p, PlatformOK p -> plat_wf p -> forall fuel key input, (81 <= fuel)%nat ->
  length key = 32%nat -> len input < 2 ^ 64 ->
  lib_keyed_hash m_Output_chaining_value m_Output_root_hash (p_max_degree p) (max_degree_or_2 p) m_hash_many p
    words_of_bytes fuel key input
  = Ok (b3_keyed_hash key input).
Proof.
  intros p OK WF fuel key input HF Hk Hin. rewrite (lib_keyed_hash_eq p WF fuel key input Hk Hin).
  rewrite (refines_ok _ _ (rs_keyed_hash_with_refines p fuel key input HF)); rewrite (rs_keyed_hash_spec p OK key input Hk Hin);
    [reflexivity|discriminate].
Qed.
Print Assumptions C01_lib_src_keyed_hash_spec.

Theorem C01_lib_src_derive_key_spec : forall p, PlatformOK p -> plat_wf p -> forall fuel context material, (81 <= fuel)%nat ->
  len context < 2 ^ 64 -> len material < 2 ^ 64 ->
  lib_derive_key m_Output_chaining_value m_Output_root_hash (p_max_degree p) (max_degree_or_2 p) m_hash_many p
    words_of_bytes (rs_hash_derive_key_context p) fuel context material
  = Ok (b3_derive_key context material).
Proof.
  intros p OK WF fuel ctx mat HF Hc Hm. rewrite (lib_derive_key_eq p WF fuel ctx mat Hm).
  rewrite (refines_ok _ _ (rs_derive_key_with_refines p fuel ctx mat HF)); rewrite (rs_derive_key_spec p OK ctx mat Hc Hm);
    [reflexivity|discriminate].
Qed.
Print Assumptions C01_lib_src_derive_key_spec.

(* non-vacuity: the translated hash on a concrete 3-chunk input, two platforms, against the model *)
Example C01_lib_src_nonvacuous :
  let input := map (fun i => N.of_nat i mod 251) (seq 0 2049) in
  let p := sim_platform 4 16 in
  lib_hash m_Output_chaining_value m_Output_root_hash (p_max_degree p) (max_degree_or_2 p) m_hash_many p 100 input
  = rs_hash p input /\
  is_ok (rs_hash p input) = true.
Proof. vm_compute. split; reflexivity. Qed.
Print Assumptions C01_lib_src_nonvacuous.
