(* Model of /repo/reference_impl/reference_impl.rs (the reference implementation).
   Function by function, same statement order as the source.  Arrays are lists
   (`[u32; 16]` = list of 16 words), indexed with `idx`/`upd`; every runtime
   index, slice and checked-arithmetic operation of the source that is not
   excluded by an array type is an `assert!`:
     70  permute: m[MSG_PERMUTATION[i]]
     71  push_stack: self.cv_stack[self.cv_stack_len]
     72  pop_stack: cv_stack_len -= 1 then index (underflow wraps to 255 in a
         release build and the index panics: a panic in every build)
     73  finalize: self.cv_stack[parent_nodes_remaining]
     74/75 ChunkState::update: self.block[block_len..][..take]
     1600 words_from_little_endian_bytes: debug_assert_eq!(bytes.len(), 4 * words.len())
     1001/1002 (MachInt) `+=`/`-` overflow checks: blocks_compressed, block_len,
         cv_stack_len, output_block_counter, chunk_counter + 1, BLOCK_LEN - block_len,
         CHUNK_LEN - len()
   Constants are the repository own ones (gen/GenConsts.v, prefix ref_). *)
From Coq Require Import NArith List Bool.
From V Require Import Base.Res Base.Word Base.MachInt gen.GenConsts.
Import ListNotations.
Open Scope N_scope.

Definition rlen (l : list N) : N := N.of_nat (length l).

Definition idx (s : list N) (i : nat) : N := nth i s 0.

Fixpoint upd {A} (l : list A) (i : nat) (v : A) : list A :=
  match l, i with
  | [], _ => []
  | _ :: tl, O => v :: tl
  | x :: tl, S i' => x :: upd tl i' v
  end.

(* ---- fn g ------------------------------------------------------------------- *)
Definition ref_g (state : list N) (a b c d : nat) (mx my : N) : list N :=
  let state := upd state a (add32 (add32 (idx state a) (idx state b)) mx) in
  let state := upd state d (rotr32 (xor32 (idx state d) (idx state a)) 16) in
  let state := upd state c (add32 (idx state c) (idx state d)) in
  let state := upd state b (rotr32 (xor32 (idx state b) (idx state c)) 12) in
  let state := upd state a (add32 (add32 (idx state a) (idx state b)) my) in
  let state := upd state d (rotr32 (xor32 (idx state d) (idx state a)) 8) in
  let state := upd state c (add32 (idx state c) (idx state d)) in
  let state := upd state b (rotr32 (xor32 (idx state b) (idx state c)) 7) in
  state.

(* ---- fn round ----------------------------------------------------------------- *)
Definition ref_round (state m : list N) : list N :=
  (* Mix the columns. *)
  let state := ref_g state 0 4 8 12 (idx m 0) (idx m 1) in
  let state := ref_g state 1 5 9 13 (idx m 2) (idx m 3) in
  let state := ref_g state 2 6 10 14 (idx m 4) (idx m 5) in
  let state := ref_g state 3 7 11 15 (idx m 6) (idx m 7) in
  (* Mix the diagonals. *)
  let state := ref_g state 0 5 10 15 (idx m 8) (idx m 9) in
  let state := ref_g state 1 6 11 12 (idx m 10) (idx m 11) in
  let state := ref_g state 2 7 8 13 (idx m 12) (idx m 13) in
  let state := ref_g state 3 4 9 14 (idx m 14) (idx m 15) in
  state.

(* ---- fn permute: permuted[i] = m[MSG_PERMUTATION[i]] for i in 0..16 ----------- *)
Fixpoint ref_permute_go (is : list nat) (m : list N) : res (list N) :=
  match is with
  | [] => Ok []
  | i :: tl =>
      let j := idx ref_MSG_PERMUTATION i in
      assert! (j <? rlen m) code 70 ;;
      rest <- ref_permute_go tl m ;;
      Ok (nth (N.to_nat j) m 0 :: rest)
  end.

Definition ref_permute (m : list N) : res (list N) := ref_permute_go (seq 0 16) m.

(* ---- fn compress ---------------------------------------------------------------- *)
(* for i in 0..8 { state[i] ^= state[i + 8]; state[i + 8] ^= chaining_value[i]; } *)
Definition ref_feed_forward (state cv : list N) : list N :=
  fold_left (fun st i =>
               let st := upd st i (xor32 (idx st i) (idx st (i + 8))) in
               upd st (i + 8) (xor32 (idx st (i + 8)) (idx cv i)))
            (seq 0 8) state.

Definition ref_compress (chaining_value block_words : list N) (counter block_len flags : N)
  : res (list N) :=
  let counter_low := N.land counter (N.ones 32) in                    (* counter as u32 *)
  let counter_high := N.land (N.shiftr counter 32) (N.ones 32) in     (* (counter >> 32) as u32 *)
  let state :=
    [idx chaining_value 0; idx chaining_value 1; idx chaining_value 2; idx chaining_value 3;
     idx chaining_value 4; idx chaining_value 5; idx chaining_value 6; idx chaining_value 7;
     idx ref_IV 0; idx ref_IV 1; idx ref_IV 2; idx ref_IV 3;
     counter_low; counter_high; block_len; flags] in
  let block := block_words in
  let state := ref_round state block in      (* round 1 *)
  block <- ref_permute block ;;
  let state := ref_round state block in      (* round 2 *)
  block <- ref_permute block ;;
  let state := ref_round state block in      (* round 3 *)
  block <- ref_permute block ;;
  let state := ref_round state block in      (* round 4 *)
  block <- ref_permute block ;;
  let state := ref_round state block in      (* round 5 *)
  block <- ref_permute block ;;
  let state := ref_round state block in      (* round 6 *)
  block <- ref_permute block ;;
  let state := ref_round state block in      (* round 7 *)
  Ok (ref_feed_forward state chaining_value).

Definition ref_first_8_words (compression_output : list N) : list N := firstn 8 compression_output.

(* ---- fn words_from_little_endian_bytes(bytes, words) ---------------------------
   `words` is passed as its length (all callers pass a zeroed array); words not
   reached by chunks_exact(4).zip(words) keep their initial value 0. *)
Definition ref_words_from_le_bytes (bytes : list N) (nwords : nat) : res (list N) :=
  assert! (rlen bytes =? 4 * N.of_nat nwords) code 1600 ;;
  let ws := firstn nwords (words_of_bytes bytes) in
  Ok (ws ++ repeat 0 (nwords - length ws)).

(* ---- struct Output ------------------------------------------------------------------ *)
Record ref_output := mkRO {
  ro_input_chaining_value : list N;   (* [u32; 8] *)
  ro_block_words : list N;            (* [u32; 16] *)
  ro_counter : N;                     (* u64 *)
  ro_block_len : N;                   (* u32 *)
  ro_flags : N }.                     (* u32 *)

Definition ro_chaining_value (o : ref_output) : res (list N) :=
  w <- ref_compress (ro_input_chaining_value o) (ro_block_words o) (ro_counter o) (ro_block_len o)
         (ro_flags o) ;;
  Ok (ref_first_8_words w).

(* for (word, out_word) in words.iter().zip(out_block.chunks_mut(4)):
     out_word.copy_from_slice(&word.to_le_bytes()[..out_word.len()])
   n = out_block.len() *)
Fixpoint ref_fill_words (words : list N) (n : N) : list N :=
  match words with
  | [] => []
  | w :: ws =>
      if n =? 0 then []
      else let k := N.min 4 n in
           firstn (N.to_nat k) (bytes_of_word w) ++ ref_fill_words ws (n - k)
  end.

(* for out_block in out_slice.chunks_mut(2 * OUT_LEN); `remaining` = bytes of out_slice left *)
Fixpoint ref_root_loop (fuel : nat) (o : ref_output) (output_block_counter remaining : N)
  : res (list N) :=
  if remaining =? 0 then Ok []
  else match fuel with
       | O => OutOfFuel
       | S fuel' =>
           words <- ref_compress (ro_input_chaining_value o) (ro_block_words o) output_block_counter
                      (ro_block_len o) (N.lor (ro_flags o) ref_flag_ROOT) ;;
           let n := N.min (2 * ref_OUT_LEN) remaining in
           let out_block := ref_fill_words words n in
           output_block_counter <- mi_add 64 output_block_counter 1 ;;
           rest <- ref_root_loop fuel' o output_block_counter (remaining - n) ;;
           Ok (out_block ++ rest)
       end.

Definition ro_root_output_bytes (o : ref_output) (out_len : N) : res (list N) :=
  ref_root_loop (S (N.to_nat (out_len / 64))) o 0 out_len.

(* ---- struct ChunkState ---------------------------------------------------------------- *)
Record ref_chunk_state := mkRCS {
  rcs_chaining_value : list N;   (* [u32; 8] *)
  rcs_chunk_counter : N;         (* u64 *)
  rcs_block : list N;            (* [u8; BLOCK_LEN] *)
  rcs_block_len : N;             (* u8 *)
  rcs_blocks_compressed : N;     (* u8 *)
  rcs_flags : N }.               (* u32 *)

Definition ref_zero_block : list N := repeat 0 (N.to_nat ref_BLOCK_LEN).

Definition rcs_new (key_words : list N) (chunk_counter flags : N) : ref_chunk_state :=
  mkRCS key_words chunk_counter ref_zero_block 0 0 flags.

(* BLOCK_LEN * blocks_compressed as usize + block_len as usize: u8 operands, cannot overflow usize *)
Definition rcs_len (cs : ref_chunk_state) : N :=
  ref_BLOCK_LEN * rcs_blocks_compressed cs + rcs_block_len cs.

Definition rcs_start_flag (cs : ref_chunk_state) : N :=
  if rcs_blocks_compressed cs =? 0 then ref_flag_CHUNK_START else 0.

(* the `while !input.is_empty()` loop of ChunkState::update *)
Fixpoint rcs_update_loop (fuel : nat) (cs : ref_chunk_state) (input : list N) : res ref_chunk_state :=
  match input with
  | [] => Ok cs
  | _ :: _ =>
      match fuel with
      | O => OutOfFuel
      | S fuel' =>
          cs <- (if rcs_block_len cs =? ref_BLOCK_LEN then
                   block_words <- ref_words_from_le_bytes (rcs_block cs) 16 ;;
                   w <- ref_compress (rcs_chaining_value cs) block_words (rcs_chunk_counter cs)
                          ref_BLOCK_LEN (N.lor (rcs_flags cs) (rcs_start_flag cs)) ;;
                   blocks_compressed <- mi_add 8 (rcs_blocks_compressed cs) 1 ;;
                   Ok (mkRCS (ref_first_8_words w) (rcs_chunk_counter cs) ref_zero_block 0
                             blocks_compressed (rcs_flags cs))
                 else Ok cs) ;;
          want <- mi_sub 64 ref_BLOCK_LEN (rcs_block_len cs) ;;
          let take := N.min want (rlen input) in
          (* self.block[self.block_len as usize..][..take] *)
          assert! (rcs_block_len cs <=? rlen (rcs_block cs)) code 74 ;;
          assert! (take <=? rlen (rcs_block cs) - rcs_block_len cs) code 75 ;;
          let block := firstn (N.to_nat (rcs_block_len cs)) (rcs_block cs)
                       ++ firstn (N.to_nat take) input
                       ++ skipn (N.to_nat (rcs_block_len cs + take)) (rcs_block cs) in
          take8 <- mi_cast 8 take ;;                                  (* take as u8 *)
          block_len <- mi_add 8 (rcs_block_len cs) take8 ;;
          rcs_update_loop fuel'
            (mkRCS (rcs_chaining_value cs) (rcs_chunk_counter cs) block block_len
                   (rcs_blocks_compressed cs) (rcs_flags cs))
            (skipn (N.to_nat take) input)
      end
  end.

(* every iteration consumes at least one byte *)
Definition rcs_update (cs : ref_chunk_state) (input : list N) : res ref_chunk_state :=
  rcs_update_loop (S (length input)) cs input.

Definition rcs_output (cs : ref_chunk_state) : res ref_output :=
  block_words <- ref_words_from_le_bytes (rcs_block cs) 16 ;;
  Ok (mkRO (rcs_chaining_value cs) block_words (rcs_chunk_counter cs) (rcs_block_len cs)
           (N.lor (N.lor (rcs_flags cs) (rcs_start_flag cs)) ref_flag_CHUNK_END)).

(* ---- fn parent_output / parent_cv -------------------------------------------------------- *)
Definition ref_parent_output (left_child_cv right_child_cv key_words : list N) (flags : N) : ref_output :=
  mkRO key_words (left_child_cv ++ right_child_cv) 0 ref_BLOCK_LEN (N.lor ref_flag_PARENT flags).

Definition ref_parent_cv (left_child_cv right_child_cv key_words : list N) (flags : N) : res (list N) :=
  ro_chaining_value (ref_parent_output left_child_cv right_child_cv key_words flags).

(* ---- struct Hasher ---------------------------------------------------------------------------- *)
Record ref_hasher := mkRH {
  rh_chunk_state : ref_chunk_state;
  rh_key_words : list N;            (* [u32; 8] *)
  rh_cv_stack : list (list N);      (* [[u32; 8]; 54] *)
  rh_cv_stack_len : N;              (* u8 *)
  rh_flags : N }.

Definition ref_zero_cv : list N := repeat 0 8.

Definition ref_new_internal (key_words : list N) (flags : N) : ref_hasher :=
  mkRH (rcs_new key_words 0 flags) key_words (repeat ref_zero_cv (N.to_nat ref_stack_len)) 0 flags.

Definition ref_push_stack (h : ref_hasher) (cv : list N) : res ref_hasher :=
  assert! (rh_cv_stack_len h <? N.of_nat (length (rh_cv_stack h))) code 71 ;;
  let stack := upd (rh_cv_stack h) (N.to_nat (rh_cv_stack_len h)) cv in
  l <- mi_add 8 (rh_cv_stack_len h) 1 ;;
  Ok (mkRH (rh_chunk_state h) (rh_key_words h) stack l (rh_flags h)).

Definition ref_pop_stack (h : ref_hasher) : res (ref_hasher * list N) :=
  assert! (1 <=? rh_cv_stack_len h) code 72 ;;
  let l := rh_cv_stack_len h - 1 in
  assert! (l <? N.of_nat (length (rh_cv_stack h))) code 72 ;;
  Ok (mkRH (rh_chunk_state h) (rh_key_words h) (rh_cv_stack h) l (rh_flags h),
      nth (N.to_nat l) (rh_cv_stack h) ref_zero_cv).

(* while total_chunks & 1 == 0 { new_cv = parent_cv(pop, new_cv); total_chunks >>= 1 }.
   For total_chunks <> 0 the loop runs (trailing zeros) < 64 times; for 0 it pops
   until the stack (at most 255 entries) underflows: fuel 320 is never exhausted. *)
Fixpoint ref_add_cv_loop (fuel : nat) (h : ref_hasher) (new_cv : list N) (total_chunks : N)
  : res (ref_hasher * list N) :=
  if N.land total_chunks 1 =? 0 then
    match fuel with
    | O => OutOfFuel
    | S fuel' =>
        '(h, left_cv) <- ref_pop_stack h ;;
        new_cv <- ref_parent_cv left_cv new_cv (rh_key_words h) (rh_flags h) ;;
        ref_add_cv_loop fuel' h new_cv (N.shiftr total_chunks 1)
    end
  else Ok (h, new_cv).

Definition ref_add_cv_fuel : nat := 320.

Definition ref_add_chunk_chaining_value (h : ref_hasher) (new_cv : list N) (total_chunks : N)
  : res ref_hasher :=
  '(h, new_cv) <- ref_add_cv_loop ref_add_cv_fuel h new_cv total_chunks ;;
  ref_push_stack h new_cv.

Definition rh_with_cs (h : ref_hasher) (cs : ref_chunk_state) : ref_hasher :=
  mkRH cs (rh_key_words h) (rh_cv_stack h) (rh_cv_stack_len h) (rh_flags h).

(* the `while !input.is_empty()` loop of Hasher::update *)
Fixpoint ref_update_loop (fuel : nat) (h : ref_hasher) (input : list N) : res ref_hasher :=
  match input with
  | [] => Ok h
  | _ :: _ =>
      match fuel with
      | O => OutOfFuel
      | S fuel' =>
          h <- (if rcs_len (rh_chunk_state h) =? ref_CHUNK_LEN then
                  o <- rcs_output (rh_chunk_state h) ;;
                  chunk_cv <- ro_chaining_value o ;;
                  total_chunks <- mi_add 64 (rcs_chunk_counter (rh_chunk_state h)) 1 ;;
                  h <- ref_add_chunk_chaining_value h chunk_cv total_chunks ;;
                  Ok (rh_with_cs h (rcs_new (rh_key_words h) total_chunks (rh_flags h)))
                else Ok h) ;;
          want <- mi_sub 64 ref_CHUNK_LEN (rcs_len (rh_chunk_state h)) ;;
          let take := N.min want (rlen input) in
          cs <- rcs_update (rh_chunk_state h) (firstn (N.to_nat take) input) ;;
          ref_update_loop fuel' (rh_with_cs h cs) (skipn (N.to_nat take) input)
      end
  end.

Definition ref_update (h : ref_hasher) (input : list N) : res ref_hasher :=
  ref_update_loop (S (length input)) h input.

(* while parent_nodes_remaining > 0 { parent_nodes_remaining -= 1; output = parent_output(
     self.cv_stack[parent_nodes_remaining], output.chaining_value(), ...) } *)
Fixpoint ref_finalize_loop (parent_nodes_remaining : nat) (h : ref_hasher) (output : ref_output)
  : res ref_output :=
  match parent_nodes_remaining with
  | O => Ok output
  | S n =>
      assert! (N.of_nat n <? N.of_nat (length (rh_cv_stack h))) code 73 ;;
      cv <- ro_chaining_value output ;;
      ref_finalize_loop n h
        (ref_parent_output (nth n (rh_cv_stack h) ref_zero_cv) cv (rh_key_words h) (rh_flags h))
  end.

Definition ref_finalize (h : ref_hasher) (out_len : N) : res (list N) :=
  output <- rcs_output (rh_chunk_state h) ;;
  output <- ref_finalize_loop (N.to_nat (rh_cv_stack_len h)) h output ;;
  ro_root_output_bytes output out_len.

(* ---- constructors ------------------------------------------------------------------------------ *)
Definition ref_new : ref_hasher := ref_new_internal ref_IV 0.

Definition ref_new_keyed (key : list N) : res ref_hasher :=
  key_words <- ref_words_from_le_bytes key 8 ;;
  Ok (ref_new_internal key_words ref_flag_KEYED_HASH).

Definition ref_new_derive_key (context : list N) : res ref_hasher :=
  let context_hasher := ref_new_internal ref_IV ref_flag_DERIVE_KEY_CONTEXT in
  context_hasher <- ref_update context_hasher context ;;
  context_key <- ref_finalize context_hasher ref_KEY_LEN ;;
  context_key_words <- ref_words_from_le_bytes context_key 8 ;;
  Ok (ref_new_internal context_key_words ref_flag_DERIVE_KEY_MATERIAL).

(* ---- a whole run: constructor, update per piece, finalize (used by the driver and the theorems) *)
Inductive ref_mode :=
| RHash
| RKeyed (key : list N)
| RDerive (context : list N).

Definition ref_new_mode (m : ref_mode) : res ref_hasher :=
  match m with
  | RHash => Ok ref_new
  | RKeyed k => ref_new_keyed k
  | RDerive c => ref_new_derive_key c
  end.

Fixpoint ref_update_all (h : ref_hasher) (pieces : list (list N)) : res ref_hasher :=
  match pieces with
  | [] => Ok h
  | p :: tl => h <- ref_update h p ;; ref_update_all h tl
  end.

Definition ref_run (m : ref_mode) (pieces : list (list N)) (out_len : N) : res (list N) :=
  h <- ref_new_mode m ;;
  h <- ref_update_all h pieces ;;
  ref_finalize h out_len.
