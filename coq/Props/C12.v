(* C12: b3sum prints the library's extended output S[seek..seek+length]; b3sum --check exits 0
   exactly when every entry of every checkfile parses and matches.
   Statements only; proofs live in Proofs/B3sumC12P.v and Proofs/B3sumRefuted.v.

   St : N -> N is the extended output stream of the library for the mode and file (byte at
   absolute position): `lib_stream m input` of the specification, by C03/C11 what hash_path's
   OutputReader delivers.  digest St seek len = St[seek .. seek+len). *)
From Coq Require Import NArith List Bool.
From V Require Import Base.Res Spec.Tree Spec.Blake3 Model.B3sum Proofs.B3sumP Proofs.B3sumRefuted Proofs.B3sumC12P.
Import ListNotations.
Open Scope N_scope.

(* write_hex_output (64-byte fills, min(len,64) per round) prints the lower-case hex of the digest *)
Theorem C12_hex_output_spec : forall St seek len, seek + len <= U64_MAX ->
  write_hex_output (hex_fuel len) St seek len = Ok (hex_of_bytes (digest St seek len)).
Proof. exact hex_output_spec. Qed.

(* write_raw_output (io::copy through a buffer of any size) writes the digest bytes themselves *)
Theorem C12_raw_output_spec : forall chunk St seek len, seek + len <= U64_MAX ->
  write_raw_output (S (N.to_nat (len / N.max 1 chunk))) chunk St seek len = Ok (digest St seek len).
Proof. exact raw_output_spec. Qed.

(* stdout of hash_one_input for every combination of --raw, --no-names, --tag, --length, --seek
   (--keyed / --derive-key / --no-mmap / --num-threads only select St) *)
Theorem C12_hash_one_input_spec : forall fl St path,
  hash_one_input fl St path =
  Ok (let d := digest St (f_seek fl) (f_length fl) in
      if f_raw fl then d
      else if f_no_names fl then hex_of_bytes d ++ [LF]
      else print_line (f_tag fl) path (hex_of_bytes d)).
Proof. exact hash_one_input_spec. Qed.

Theorem C12_digest_is_library_xof : forall m input seek len,
  digest (lib_stream m input) seek len = b3_xof_mode m input seek (N.to_nat len).
Proof. exact digest_is_xof. Qed.

(* --keyed: exactly 32 bytes on stdin are a key *)
Theorem C12_read_key_spec : forall stdin k,
  read_key_from_stdin stdin = KeyOk k <-> (stdin = k /\ length k = 32%nat).
Proof. exact read_key_spec. Qed.

(* a line checks exactly when it parses, the named file is readable and its digest at --seek matches *)
Theorem C12_line_ok_iff : forall cfg fs seek quiet line,
  (exists out, check_one_line cfg fs seek quiet line = Ok (true, out)) <->
  (exists p h e f St, parse_check_line cfg line = Ok (POk p h e f) /\ fs p = inr St /\ digest St seek 32 = h).
Proof. exact line_ok_iff. Qed.

(* exit status 0 iff every checkfile is readable and every line of every checkfile checks
   (any number of lines; the saturating counter cannot return to 0; any configuration) *)
Theorem C12_exit_status_spec : forall cfg fs seek quiet cfs,
  exit_status (snd (b3sum_check cfg fs seek quiet cfs)) = 0 <->
  Forall (checkfile_ok cfg fs seek quiet) cfs.
Proof. exact exit_status_spec. Qed.

(* every failing line has a diagnostic: FAILED on stdout, or (malformed line) `b3sum: <error>` on stderr *)
Theorem C12_failing_line_diagnosed : forall cfg fs seek quiet line out,
  check_one_line cfg fs seek quiet line = Ok (false, out) ->
  (exists e, parse_check_line cfg line = Ok (PErr e) /\ out = []) \/
  (exists p h e f, parse_check_line cfg line = Ok (POk p h e f) /\
     exists shown, shown = esc_prefix e ++ f /\
       ((exists msg, fs p = inl msg /\ out = shown ++ FAILED_OPEN ++ msg ++ [41; 10]) \/
        (exists St, fs p = inr St /\ digest St seek 32 <> h /\ out = shown ++ FAILED_SUFFIX))).
Proof. exact failing_line_diagnosed. Qed.

(* every entry is checked and counted, whatever happened before it: repaired code *)
Theorem C12_check_all_lines_processed : forall fs seek quiet (cfs : list (list (list N))),
  b3sum_check fixed_cfg fs seek quiet (map (fun ls => Some (map LText ls)) cfs) =
  (flat_map (fun s => snd (line_result fixed_cfg fs seek quiet s)) (concat cfs),
   ExitCode (N.min (nfail fixed_cfg fs seek quiet (concat cfs)) U64_MAX)).
Proof. intros. apply check_all_lines_processed. reflexivity. Qed.

(* ... and FALSE for the unchanged code: a 64-byte hash field ending in a two-byte character
   aborts the run with status 101 and the correct entry after it is never checked *)
Theorem C12_check_continues_refuted_on_unchanged_code :
  exists lines, b3sum_check asis_cfg fs_c 0 false [Some lines] = ([], ExitPanic PANIC_HEX_LOW) /\
                exit_status (ExitPanic PANIC_HEX_LOW) = 101 /\
                In (LText good_line_c) lines /\
                check_one_line asis_cfg fs_c 0 false good_line_c = Ok (true, [99] ++ OK_SUFFIX).
Proof. exact check_continues_refuted. Qed.

(* non-vacuity: one good, one stale, one missing, one malformed line, then another good one *)
Example C12_nonvacuous :
  let fs : fsys := fun p => if list_eqb p [99] then inr (fun i => nth (N.to_nat i) h_lo 0)
                            else if list_eqb p [100] then inr (fun _ => 7)
                            else inl [78; 111] in
  let good := print_line false [99] (hex_of_bytes h_lo) in
  let stale := print_line true [100] (hex_of_bytes h_lo) in
  let missing := print_line false [101] (hex_of_bytes h_lo) in
  b3sum_check fixed_cfg fs 0 false [Some [LText good; LText stale; LText missing; LText [120; 10]; LText good]] =
  ([99] ++ OK_SUFFIX ++ [100] ++ FAILED_SUFFIX ++ [101] ++ FAILED_OPEN ++ [78; 111; 41; 10] ++ [99] ++ OK_SUFFIX,
   ExitCode 3).
Proof. vm_compute. reflexivity. Qed.

(* the exit status expression of main() is translated (gen/GenB3sum.v b3_exit_status; the anchors also pin that one counter
   is initialised to 0, passed by reference to every checkfile and incremented once per failing line / input) *)
From V Require gen.GenB3sum.
Theorem C12_exit_status_is_source : forall f, exit_status (ExitCode f) = GenB3sum.b3_exit_status f.
Proof. intros f. reflexivity. Qed.

Print Assumptions C12_exit_status_is_source.
Print Assumptions C12_hex_output_spec.
Print Assumptions C12_raw_output_spec.
Print Assumptions C12_hash_one_input_spec.
Print Assumptions C12_digest_is_library_xof.
Print Assumptions C12_read_key_spec.
Print Assumptions C12_line_ok_iff.
Print Assumptions C12_exit_status_spec.
Print Assumptions C12_failing_line_diagnosed.
Print Assumptions C12_check_all_lines_processed.
Print Assumptions C12_check_continues_refuted_on_unchanged_code.

(* ------------------------------------------------------------------------- *)
(* The functions of b3sum/src/main.rs TRANSLATED statement by statement (gen/GenB3sumFns2.v, tools/gen_coq_b3sumfns.py)  *)
(* are the model, for all inputs.  Oracles: stream = N -> N, ext_fill = SFILL (= srange), ext_hash_file = fsys,          *)
(* ext_open_checkfile = opener (pending read_line results); stdout `o` / stderr `e` are threaded (any initial content).  *)
(* ------------------------------------------------------------------------- *)
From V Require Import Base.Str gen.GenB3sumFns2 Proofs.GenB3sumFnsP Proofs.GenB3sumFns2P.

(* check_one_line: same success flag, stdout grows by the model's text, stderr by `b3sum: <parse error>` *)
Theorem C12_src_check_one_line : forall (fs : fsys) seek quiet fuel line o e,
  (length line <= fuel)%nat -> str_len line < 18446744073709551616 ->
  gen_check_one_line false (N -> N) fs SFILL quiet seek fuel line o e =
  match check_one_line fixed_cfg fs seek quiet line with
  | Ok (b, out) => Ok (b, o ++ out, e ++ parse_err_line (parse_check_line fixed_cfg line))
  | Panic c => Panic c
  | OutOfFuel => OutOfFuel
  end.
Proof. exact gen_check_one_line_spec. Qed.

(* check_one_checkfile: an unopenable checkfile is Err (counter and streams untouched); otherwise the line loop is the
   model's check_lines: every line is checked, each failing one adds 1 (saturating) to files_failed, a read error ends
   the function with Err (loop_rel: Ok(()) with the model's counter / Err / never ExitCode) *)
Theorem C12_src_check_one_checkfile : forall (fs : fsys) opener seek quiet fuel path ff o e,
  match opener path with
  | inl msg => gen_check_one_checkfile false (N -> N) fs SFILL opener quiet seek fuel path ff o e = Ok (inl msg, ff, o, e)
  | inr rd => lines_ok fuel rd ->
      match check_lines fixed_cfg fs seek quiet (cl_of rd) ff with
      | (out, inr ff') =>
          gen_check_one_checkfile false (N -> N) fs SFILL opener quiet seek fuel path ff o e = Ok (inr tt, ff', o ++ out, e ++ err_log rd)
      | (out, inl ExitError) => exists msg ff',
          gen_check_one_checkfile false (N -> N) fs SFILL opener quiet seek fuel path ff o e = Ok (inl msg, ff', o ++ out, e ++ err_log rd)
      | (_, inl (ExitPanic c)) =>
          gen_check_one_checkfile false (N -> N) fs SFILL opener quiet seek fuel path ff o e = Panic c \/
          gen_check_one_checkfile false (N -> N) fs SFILL opener quiet seek fuel path ff o e = OutOfFuel
      | (_, inl (ExitCode _)) => False
      end
  end.
Proof. exact gen_check_one_checkfile_spec. Qed.

(* the saturating increment of the source is the model's *)
Theorem C12_src_saturating_add : forall ff, s_sat_add64 ff 1 = sat_add1 ff.
Proof. exact sat_add_eq. Qed.

(* write_hex_output (the stream delivers bytes): stdout grows by exactly the model's hex text *)
Theorem C12_src_write_hex_output : forall St, (forall i, St i < 256) -> forall len fuel pos o e,
  gen_write_hex_output (N -> N) SFILL len fuel (St, pos) o e =
  match write_hex_output fuel St pos len with
  | Ok h => Ok (inr tt, o ++ h, e)
  | Panic c => Panic c
  | OutOfFuel => OutOfFuel
  end.
Proof. exact gen_write_hex_output_spec. Qed.

(* write_raw_output: io::copy of output.take(len) with a copy buffer of any size writes the model's bytes *)
Theorem C12_src_write_raw_output : forall St chunk len fuel pos o e,
  gen_write_raw_output (N -> N) SFILL chunk len fuel (St, pos) o e =
  match write_raw_output fuel chunk St pos len with
  | Ok d => Ok (inr tt, o ++ d, e)
  | Panic c => Panic c
  | OutOfFuel => OutOfFuel
  end.
Proof. exact gen_write_raw_output_spec. Qed.

(* with the fuel of C12_hex_output_spec / C12_raw_output_spec: the translated functions emit the digest *)
Theorem C12_src_outputs_are_digest : forall St, (forall i, St i < 256) -> forall chunk seek len o e, seek + len <= U64_MAX ->
  gen_write_hex_output (N -> N) SFILL len (hex_fuel len) (St, seek) o e = Ok (inr tt, o ++ hex_of_bytes (digest St seek len), e) /\
  gen_write_raw_output (N -> N) SFILL chunk len (S (N.to_nat (len / N.max 1 chunk))) (St, seek) o e = Ok (inr tt, o ++ digest St seek len, e).
Proof.
  intros St BY chunk seek len o e B. split.
  - rewrite (gen_write_hex_output_spec St BY), (hex_output_spec St seek len B). reflexivity.
  - rewrite gen_write_raw_output_spec, (raw_output_spec chunk St seek len B). reflexivity.
Qed.

(* the closure of main (everything after the thread pool is built), --check: stdout is the model's; the value passed to
   std::process::exit is the model's exit status of the final count; an Err leaving main (unopenable checkfile, read
   error) is the model's ExitError.  cf_of opener p = None (cannot be opened) | Some (lines) *)
Theorem C12_src_main_check : forall lossy (fs : fsys) opener chunk len seek quiet raw nn tag paths fuel o e,
  (forall p rd, In p paths -> opener p = inr rd -> lines_ok fuel rd) ->
  let g := gen_main lossy false (N -> N) fs SFILL opener chunk quiet len seek raw nn tag true paths fuel o e in
  match b3sum_check fixed_cfg fs seek quiet (map (cf_of opener) paths) with
  | (out, ExitCode ff) => exists e', g = Ok (inr (exit_status (ExitCode ff)), o ++ out, e')
  | (out, ExitError) => exists msg e', g = Ok (inl msg, o ++ out, e')
  | (_, ExitPanic c) => g = Panic c \/ g = OutOfFuel
  end.
Proof. exact gen_main_check_spec. Qed.

(* hash_one_input: a failing hash_path is Err with nothing printed; otherwise stdout grows by the model's output *)
Theorem C12_src_hash_one_input : forall (fs : fsys) chunk fl fuel path o e,
  (N.to_nat (f_length fl / 64) < fuel)%nat -> (N.to_nat (f_length fl / N.max 1 chunk) < fuel)%nat ->
  let g := gen_hash_one_input utf8_lossy false (N -> N) fs SFILL chunk (f_length fl) (f_seek fl)
             (f_raw fl) (f_no_names fl) (f_tag fl) fuel path o e in
  match fs path with
  | inl msg => g = Ok (inl msg, o, e)
  | inr St => (forall i, St i < 256) -> exists out, hash_one_input fl St path = Ok out /\ g = Ok (inr tt, o ++ out, e)
  end.
Proof. exact gen_hash_one_input_spec. Qed.

(* the closure of main without --check: stdout and the failure count are the model's run_hash; exit status from the count *)
Theorem C12_src_main_hash : forall (fs : fsys) opener chunk fl quiet paths fuel o e,
  (N.to_nat (f_length fl / 64) < fuel)%nat -> (N.to_nat (f_length fl / N.max 1 chunk) < fuel)%nat ->
  (forall p St, In p paths -> fs p = inr St -> forall i, St i < 256) ->
  exists out ff e', run_hash fl (map (in_of fs) paths) 0 = Ok (out, ff) /\
    gen_main utf8_lossy false (N -> N) fs SFILL opener chunk quiet (f_length fl) (f_seek fl)
      (f_raw fl) (f_no_names fl) (f_tag fl) false paths fuel o e = Ok (inr (exit_status (ExitCode ff)), o ++ out, e').
Proof. exact gen_main_hash_spec. Qed.

(* the status expression of the translated main is the one pinned by the literal anchors *)
Theorem C12_src_exit_status_expr : forall ff, exit_status (ExitCode ff) = GenB3sum.b3_exit_status ff.
Proof. intros ff. reflexivity. Qed.

Print Assumptions C12_src_check_one_line.
Print Assumptions C12_src_check_one_checkfile.
Print Assumptions C12_src_saturating_add.
Print Assumptions C12_src_write_hex_output.
Print Assumptions C12_src_write_raw_output.
Print Assumptions C12_src_outputs_are_digest.
Print Assumptions C12_src_main_check.
Print Assumptions C12_src_hash_one_input.
Print Assumptions C12_src_main_hash.
Print Assumptions C12_src_exit_status_expr.
